(* Extraction of the case interpreter.  ExtrOcamlBasic only: bool, option, unit, list,
   prod, sumbool, sumor map to their OCaml counterparts, andb/orb are inlined; N, Z,
   positive, nat and byte stay the extracted Coq datatypes. *)
From Jen Require Import Model.Top.
From Coq Require Import ExtrOcamlBasic.
From Coq.Strings Require Import Byte.
Extraction Language OCaml.
Extraction "model.ml" run_case Byte.of_bits Byte.to_bits.
