(* A model of Go's scanner (go/scanner, GOROOT/src/go/scanner/scanner.go: Scan, scanIdentifier,
   scanNumber, scanString, scanComment, and the operator switch) for the token classes that the
   printer of Spec/MiniGo.v can emit.  It is used to state that two adjacent pieces of generated
   text never merge into a different token and no piece is split (Props/C01_tokens.v).

   THE RULE (Go specification, "Tokens"): white space is ignored except as it separates tokens;
   "while breaking the input into tokens, the next token is the longest sequence of characters
   that form a valid token".

   CLASSES.
   - identifiers and keywords: letter (letter | digit)*, letter = ASCII letter or `_`; a word
     that is one of the 25 keywords (Gen/Goroot.v: go_keywords, generated from go/token) is a
     keyword, every other word an identifier (`true`, `nil`, `int` are identifiers);
   - decimal integer literals: `0` or a digit run that does not start with `0`;
   - interpreted string literals: `"` ... `"`, read by [unq] of GoStd/Quote.v (the function
     whose agreement with strconv.Quote is Proofs/QuoteProofs.v: unq_quote_body);
   - operators and delimiters: the 48 of the specification (`~` included), LONGEST MATCH:
     the longest element of [go_ops] that is a prefix of the input ([op_at]; that the list is
     searched longest first is [go_ops_sorted], hence [op_at_longest] in Proofs/TokensProofs.v);
   - white space (blank, tab, newline, carriage return) and comments (`//` to the end of the
     line, `/*` to the first `*/` after the opener) are skipped.

   CONSERVATIVE.  Wherever go/scanner would produce a token outside these classes or report an
   error, the model answers None, it never guesses:
   - a byte >= 0x80 outside a string literal or a comment (Unicode letters are NOT accepted: a
     non-ASCII identifier is outside the model), any other byte that starts no token (NUL,
     control bytes, `#` `$` `?` `@` `\`), a rune literal `'`, a raw string literal;
   - a digit run followed by a letter, `_` or `.` (hex / octal / binary literals, digit
     separators, floats, imaginary literals, and the two-token reading of `12abc`), a leading
     `0` followed by a digit;
   - `.` followed by a digit (a float such as `.5`);
   - an unterminated string or block comment, a newline or a bad escape in a string.
   So [golex s = Some ts] says: Go's scanner splits s into exactly the tokens ts - up to the
   one class listed under NOT MODELLED below (on a NUL, a BOM or invalid UTF-8 INSIDE a string
   literal or a comment go/scanner reports an error next to the same tokens; checked by a
   referee on 9,171 further texts: these were the only disagreements).

   NOT MODELLED.  Automatic semicolon insertion: a newline is white space here, the statement
   structure is the parser's business (go/scanner, once the inserted semicolons - the tokens
   `;` with literal "\n" - are dropped, gives these tokens: differential tool lexdiff).  Errors that go/scanner
   reports WITHOUT changing any token boundary (a NUL, a BOM or invalid UTF-8 inside a string
   literal or a comment).

   TOTAL, NO FUEL.  [lexk k s] is structurally recursive on s; k counts the bytes of the
   current token that are still to be passed over. *)
From Jen Require Import Base.Bytes GoStd.Quote Gen.Goroot.
Local Open Scope N_scope.

Inductive tclass := KIdent | KKeyword | KInt | KString | KOp.
(* class and text *)
Definition tok := (tclass * str)%type.

Definition tk_range (lo hi : N) (c : byte) : bool := (lo <=? b2n c) && (b2n c <=? hi).
Definition tk_digit (c : byte) : bool := tk_range 48 57 c.
Definition tk_letter (c : byte) : bool := tk_range 97 122 c || tk_range 65 90 c || beq c x5f.
Definition tk_idchar (c : byte) : bool := tk_letter c || tk_digit c.
Definition tk_space (c : byte) : bool := beq c x20 || beq c x09 || beq c x0a || beq c x0d.

Fixpoint take_while (p : byte -> bool) (s : str) : str :=
  match s with
  | c :: s' => if p c then c :: take_while p s' else []
  | [] => []
  end.

(* does the text start with a byte satisfying p *)
Definition hd_is (p : byte -> bool) (s : str) : bool :=
  match s with c :: _ => p c | [] => false end.

Definition is_keyword (w : str) : bool := existsb (str_eqb w) go_keywords.
Definition word_class (w : str) : tclass := if is_keyword w then KKeyword else KIdent.

(* operators and delimiters, longest first *)
Definition go_ops : list str := [
  S "<<="; S ">>="; S "&^="; S "...";
  S "<<"; S ">>"; S "&^"; S "+="; S "-="; S "*="; S "/="; S "%="; S "&="; S "|="; S "^=";
  S "&&"; S "||"; S "<-"; S "++"; S "--"; S "=="; S "!="; S "<="; S ">="; S ":=";
  S "+"; S "-"; S "*"; S "/"; S "%"; S "&"; S "|"; S "^"; S "<"; S ">"; S "="; S "!"; S "~";
  S "("; S ")"; S "["; S "]"; S "{"; S "}"; S ","; S ";"; S "."; S ":"
].

(* the longest operator the text starts with *)
Definition op_at (s : str) : option str := find (fun o => has_prefix o s) go_ops.

Fixpoint sorted_longest_first (l : list str) : bool :=
  match l with
  | a :: ((b :: _) as r) => (length b <=? length a)%nat && sorted_longest_first r
  | _ => true
  end.

(* the bytes of a block comment after its opener, up to and including the first `*/` *)
Fixpoint block_len (s : str) : option nat :=
  match s with
  | a :: t =>
    match t with
    | b :: _ => if beq a x2a && beq b x2f then Some 2%nat else option_map Datatypes.S (block_len t)
    | [] => None
    end
  | [] => None
  end.

Definition not_nl (c : byte) : bool := negb (beq c c_nl).

(* what follows a digit run makes it something other than a decimal integer literal *)
Definition num_follow_bad (c : byte) : bool := tk_idchar c || beq c x2e.

(* The token (or the skipped white space / comment: None) at the head of a non-empty text and
   the number of bytes it occupies (at least one). *)
Definition tok_at (s : str) : option (option tok * nat) :=
  match s with
  | [] => None
  | c :: s' =>
    if tk_space c then Some (None, 1%nat)
    else if tk_letter c then
      let w := c :: take_while tk_idchar s' in
      Some (Some (word_class w, w), length w)
    else if tk_digit c then
      let w := c :: take_while tk_digit s' in
      if hd_is num_follow_bad (skipn (length w) s) || (beq c x30 && (1 <? length w)%nat) then None
      else Some (Some (KInt, w), length w)
    else if beq c c_dq then
      match unq c_dq s' with
      | Some (_, r) => let n := (length s' - length r)%nat in Some (Some (KString, c :: firstn n s'), Datatypes.S n)
      | None => None
      end
    else if beq c x2f && hd_is (beq x2f) s' then
      Some (None, (2 + length (take_while not_nl (tl s')))%nat)
    else if beq c x2f && hd_is (beq x2a) s' then
      option_map (fun n => (None, (2 + n)%nat)) (block_len (tl s'))
    else if beq c x2e && hd_is tk_digit s' then None
    else
      match op_at s with
      | Some o => Some (Some (KOp, o), length o)
      | None => None
      end
  end.

Fixpoint lexk (k : nat) (s : str) {struct s} : option (list tok) :=
  match s with
  | [] => match k with O => Some [] | _ => None end
  | _ :: s' =>
    match k with
    | Datatypes.S k' => lexk k' s'
    | O =>
      match tok_at s with
      | Some (Some t, n) => option_map (cons t) (lexk (pred n) s')
      | Some (None, n) => lexk (pred n) s'
      | None => None
      end
    end
  end.

Definition golex (s : str) : option (list tok) := lexk 0 s.

(* ---- sanity, by computation *)
Fixpoint str_nodup (l : list str) : bool :=
  match l with
  | a :: r => negb (existsb (str_eqb a) r) && str_nodup r
  | [] => true
  end.

Example go_ops_sorted : sorted_longest_first go_ops = true /\ length go_ops = 48%nat /\ str_nodup go_ops = true.
Proof. vm_compute. repeat split; reflexivity. Qed.

Example go_keywords_25 : length go_keywords = 25%nat.
Proof. reflexivity. Qed.

Example golex_examples :
  golex (S "a+++b") = Some [(KIdent, S "a"); (KOp, S "++"); (KOp, S "+"); (KIdent, S "b")] /\
  golex (S "a + +b") = Some [(KIdent, S "a"); (KOp, S "+"); (KOp, S "+"); (KIdent, S "b")] /\
  golex (S "x<-1") = Some [(KIdent, S "x"); (KOp, S "<-"); (KInt, S "1")] /\
  golex (S "x< -1") = Some [(KIdent, S "x"); (KOp, S "<"); (KOp, S "-"); (KInt, S "1")] /\
  golex (S "a&^b &^= c & ^d") =
    Some [(KIdent, S "a"); (KOp, S "&^"); (KIdent, S "b"); (KOp, S "&^="); (KIdent, S "c"); (KOp, S "&");
          (KOp, S "^"); (KIdent, S "d")] /\
  golex (S "a... .. b") = Some [(KIdent, S "a"); (KOp, S "..."); (KOp, S "."); (KOp, S "."); (KIdent, S "b")] /\
  golex (S "iffy if") = Some [(KIdent, S "iffy"); (KKeyword, S "if")] /\
  golex (S "f(""a//b\"""")/*c*/ // d") =
    Some [(KIdent, S "f"); (KOp, S "("); (KString, S """a//b\"""""); (KOp, S ")")] /\
  golex (S "a / /b") = Some [(KIdent, S "a"); (KOp, S "/"); (KOp, S "/"); (KIdent, S "b")] /\
  golex (S "a //b") = Some [(KIdent, S "a")] /\
  golex (S "1.") = None /\ golex (S "x.5") = None /\ golex (S "12ab") = None /\ golex (S "0x1") = None /\
  golex (S "07") = None /\ golex (S "0") = Some [(KInt, S "0")] /\ golex (S "'a'") = None /\
  golex (S """abc") = None /\ golex (S "/* x") = None /\ golex (S "/*/") = None /\ golex [xc3; xa9] = None.
Proof. vm_compute. repeat split; reflexivity. Qed.
