(* A micro-evaluator for exactly the constant expressions jennifer emits for literals
   (jen/tokens.go:41-76), following the Go specification (Integer literals, Floating-point
   literals, Imaginary literals, Constant expressions, Conversions):

     true | false
     [-] decimal digits            untyped integer constant (a leading 0 followed by more
                                   digits is a legacy octal literal, as in Go)
     0x hex digits                 untyped integer constant
     [-] d+ [. d*] [(e|E) [+|-] d+]   with a `.` or an exponent: untyped FLOAT constant
     <re> (+|-) <im> i             untyped complex constant
     ( <expr> )                    parenthesised expression
     T ( <expr> )                  conversion to a named basic type; an integer constant
                                   must be representable in T (64-bit int, uint, uintptr)

   [None] means: not a well-formed expression, or a shape jennifer never emits (the
   evaluator declines rather than guess: digit separators, 0b/0o prefixes, hex floats,
   bare imaginary literals, nested operators ...).  Values are exact: integers as Z, floats
   as mantissa * 10^exp10 (the rational the literal denotes; rounding of a typed float
   constant to the precision of its type is Go's business and is not modelled).

   Also here: the grammar of the texts fmt's %#v prints for finite floats and complex
   numbers, with its structured form, and the scanner of a rune literal. *)
From Jen Require Import Base.Bytes Base.Num Base.Utf8 GoStd.Quote.
Local Open Scope Z_scope.

Inductive gotype :=
| TBool | TInt | TInt8 | TInt16 | TInt32 | TInt64
| TUint | TUint8 | TUint16 | TUint32 | TUint64 | TUintptr | TByte
| TFloat32 | TFloat64 | TComplex64 | TComplex128.

(* a decimal rational: (m, e) denotes m * 10^e *)
Definition dec := (Z * Z)%type.

Inductive value :=
| VBool (b : bool)
| VInt (z : Z)
| VFloat (q : dec)
| VComplex (re im : dec).

(* equality of the denoted rationals, by cross-multiplication to the smaller exponent *)
Definition rat_eq (a b : dec) : Prop :=
  let m := Z.min (snd a) (snd b) in
  fst a * 10 ^ (snd a - m) = fst b * 10 ^ (snd b - m).
Definition rat_eqb (a b : dec) : bool :=
  let m := Z.min (snd a) (snd b) in
  fst a * 10 ^ (snd a - m) =? fst b * 10 ^ (snd b - m).

(* ---- digits ---- *)
Definition is_digit (b : byte) : bool := let c := b2n b in ((48 <=? c) && (c <=? 57))%N.
Definition is_octal (b : byte) : bool := let c := b2n b in ((48 <=? c) && (c <=? 55))%N.
Definition is_hex (b : byte) : bool := match unhex b with Some _ => true | None => false end.
Definition digit_val (b : byte) : N := (b2n b - 48)%N.
Definition hex_val (b : byte) : N := match unhex b with Some d => d | None => 0%N end.

Fixpoint digits_acc (acc : N) (s : str) : N :=
  match s with [] => acc | b :: t => digits_acc (acc * 10 + digit_val b)%N t end.
Definition digits_val (s : str) : N := digits_acc 0 s.
Fixpoint octal_acc (acc : N) (s : str) : option N :=
  match s with
  | [] => Some acc
  | b :: t => if is_octal b then octal_acc (acc * 8 + digit_val b)%N t else None
  end.
Fixpoint hex_acc (acc : N) (s : str) : N :=
  match s with [] => acc | b :: t => hex_acc (acc * 16 + hex_val b)%N t end.

(* longest prefix whose bytes satisfy p, and the remainder *)
Fixpoint span (p : byte -> bool) (s : str) : str * str :=
  match s with
  | [] => ([], [])
  | b :: t => if p b then let (a, r) := span p t in (b :: a, r) else ([], s)
  end.

(* ---- untyped constants ---- *)
Inductive uconst :=
| UInt (z : Z)
| UFloat (q : dec)
| UComplex (re im : dec).

Definition dneg (q : dec) : dec := (- fst q, snd q).
Definition uneg (c : uconst) : uconst :=
  match c with
  | UInt z => UInt (- z)
  | UFloat q => UFloat (dneg q)
  | UComplex re im => UComplex (dneg re) (dneg im)
  end.
(* a real constant as a decimal rational *)
Definition to_dec (c : uconst) : option dec :=
  match c with UInt z => Some (z, 0) | UFloat q => Some q | UComplex _ _ => None end.

(* ---- number literals (unsigned), as the Go scanner reads them ---- *)
Definition is_hex_prefix (s : str) : bool :=
  match s with
  | z :: c :: _ => beq z x30 && (beq c x78 || beq c x58)
  | _ => false
  end.

Definition scan_hex (s : str) : option (uconst * str) :=
  let (hd, r) := span is_hex (skipn 2 s) in
  match hd with [] => None | _ => Some (UInt (Z.of_N (hex_acc 0 hd)), r) end.

(* optional fraction: `.` digits* *)
Definition scan_frac (s : str) : option str * str :=
  match s with
  | c :: t => if beq c x2e then let (fp, r) := span is_digit t in (Some fp, r) else (None, s)
  | [] => (None, [])
  end.

(* optional exponent: (e|E) [+|-] digits+ ; None = "exponent has no digits" *)
Definition scan_exp (s : str) : option (option Z * str) :=
  match s with
  | c :: t =>
    if beq c x65 || beq c x45 then
      let '(neg, t1) :=
        match t with
        | sg :: t' => if beq sg x2b then (false, t') else if beq sg x2d then (true, t') else (false, t)
        | [] => (false, t)
        end in
      let (ed, r) := span is_digit t1 in
      match ed with
      | [] => None
      | _ => Some (Some (if neg then - Z.of_N (digits_val ed) else Z.of_N (digits_val ed)), r)
      end
    else Some (None, s)
  | [] => Some (None, [])
  end.

Definition int_of_digits (ip : str) : option Z :=
  match ip with
  | z :: _ :: _ => if beq z x30 then option_map Z.of_N (octal_acc 0 ip) else Some (Z.of_N (digits_val ip))
  | _ => Some (Z.of_N (digits_val ip))
  end.

Definition scan_dec (s : str) : option (uconst * str) :=
  let (ip, r1) := span is_digit s in
  match ip with
  | [] => None
  | _ =>
    let (ofp, r2) := scan_frac r1 in
    match scan_exp r2 with
    | None => None
    | Some (oe, r3) =>
      match ofp, oe with
      | None, None => option_map (fun z => (UInt z, r3)) (int_of_digits ip)
      | _, _ =>
        let fp := match ofp with Some fp => fp | None => [] end in
        let e := match oe with Some e => e | None => 0 end in
        Some (UFloat (Z.of_N (digits_val (ip ++ fp)), e - Z.of_nat (length fp)), r3)
      end
    end
  end.

Definition scan_num (s : str) : option (uconst * str) :=
  if is_hex_prefix s then scan_hex s else scan_dec s.

(* operand with an optional unary minus *)
Definition scan_const (s : str) : option (uconst * str) :=
  match s with
  | c :: t =>
    if beq c x2d then match scan_num t with Some (u, r) => Some (uneg u, r) | None => None end
    else scan_num s
  | [] => None
  end.

(* <const> or <const> (+|-) <num> i *)
Definition scan_expr (s : str) : option (uconst * str) :=
  match scan_const s with
  | Some (c, r) =>
    match r with
    | sg :: r2 =>
      if beq sg x2b || beq sg x2d then
        match to_dec c, scan_num r2 with
        | Some re, Some (imc, r3) =>
          match to_dec imc, r3 with
          | Some im, i :: r4 =>
            if beq i x69 then Some (UComplex re (if beq sg x2d then dneg im else im), r4) else None
          | _, _ => None
          end
        | _, _ => None
        end
      else Some (c, r)
    | [] => Some (c, r)
    end
  | None => None
  end.

(* ---- types ---- *)
Definition type_name (t : gotype) : str :=
  match t with
  | TBool => S "bool" | TInt => S "int" | TInt8 => S "int8" | TInt16 => S "int16"
  | TInt32 => S "int32" | TInt64 => S "int64" | TUint => S "uint" | TUint8 => S "uint8"
  | TUint16 => S "uint16" | TUint32 => S "uint32" | TUint64 => S "uint64"
  | TUintptr => S "uintptr" | TByte => S "byte" | TFloat32 => S "float32"
  | TFloat64 => S "float64" | TComplex64 => S "complex64" | TComplex128 => S "complex128"
  end.

Definition all_types : list gotype :=
  [TBool; TInt; TInt8; TInt16; TInt32; TInt64; TUint; TUint8; TUint16; TUint32; TUint64;
   TUintptr; TByte; TFloat32; TFloat64; TComplex64; TComplex128].

Definition type_of_name (n : str) : option gotype :=
  find (fun t => str_eqb (type_name t) n) all_types.

(* inclusive range of an integer type (int, uint, uintptr: 64 bits) *)
Definition int_range (t : gotype) : option (Z * Z) :=
  match t with
  | TInt8 => Some (-128, 127)
  | TInt16 => Some (-32768, 32767)
  | TInt32 => Some (-2147483648, 2147483647)
  | TInt | TInt64 => Some (-9223372036854775808, 9223372036854775807)
  | TUint8 | TByte => Some (0, 255)
  | TUint16 => Some (0, 65535)
  | TUint32 => Some (0, 4294967295)
  | TUint | TUint64 | TUintptr => Some (0, 18446744073709551615)
  | _ => None
  end.

(* T(c) for a constant c *)
Definition convert (t : gotype) (c : uconst) : option value :=
  match t with
  | TBool => None
  | TFloat32 | TFloat64 => option_map VFloat (to_dec c)
  | TComplex64 | TComplex128 =>
    match c with
    | UComplex re im => Some (VComplex re im)
    | _ => option_map (fun q => VComplex q (0, 0)) (to_dec c)
    end
  | _ =>
    match c, int_range t with
    | UInt z, Some (lo, hi) => if (lo <=? z) && (z <=? hi) then Some (VInt z) else None
    | _, _ => None
    end
  end.

(* default type of an untyped constant *)
Definition default_value (c : uconst) : gotype * value :=
  match c with
  | UInt z => (TInt, VInt z)
  | UFloat q => (TFloat64, VFloat q)
  | UComplex re im => (TComplex128, VComplex re im)
  end.

Definition is_name_char (b : byte) : bool :=
  let c := b2n b in (((97 <=? c) && (c <=? 122)) || ((48 <=? c) && (c <=? 57)))%N.

Definition closes (r : str) : bool := match r with [c] => beq c x29 | _ => false end.

Definition eval_lit (s : str) : option (gotype * value) :=
  match s with
  | [] => None
  | c :: t =>
    if is_digit c || beq c x2d then
      match scan_expr s with Some (u, []) => Some (default_value u) | _ => None end
    else if beq c x28 then
      match scan_expr t with
      | Some (u, r) => if closes r then Some (default_value u) else None
      | None => None
      end
    else if str_eqb s (S "true") then Some (TBool, VBool true)
    else if str_eqb s (S "false") then Some (TBool, VBool false)
    else
      let (name, r) := span is_name_char s in
      match type_of_name name, r with
      | Some ty, p :: r1 =>
        if beq p x28 then
          match scan_expr r1 with
          | Some (u, r2) => if closes r2 then option_map (fun v => (ty, v)) (convert ty u) else None
          | None => None
          end
        else None
      | _, _ => None
      end
  end.

(* ---- the texts fmt prints for finite floats (%#v = %v: strconv 'g' format, shortest
   digits, exponent form when exp < -4 || exp >= 21):
       [-] digits [. digits] [e (+|-) digit digit+]
   Structured form, text, well-formedness, value. ---- *)
Record ffloat := {
  ff_neg : bool;
  ff_int : str;
  ff_frac : option str;
  ff_exp : option (bool * str)     (* (negative exponent, digits) *)
}.

Definition frac_text (o : option str) : str :=
  match o with Some fp => x2e :: fp | None => [] end.
Definition exp_text (o : option (bool * str)) : str :=
  match o with Some (neg, ed) => x65 :: (if neg then x2d else x2b) :: ed | None => [] end.
Definition ff_utext (f : ffloat) : str := ff_int f ++ frac_text (ff_frac f) ++ exp_text (ff_exp f).
Definition ff_text (f : ffloat) : str := (if ff_neg f then [x2d] else []) ++ ff_utext f.

Definition all_digits (s : str) : bool := forallb is_digit s.
Definition nonnil (s : str) : bool := match s with [] => false | _ => true end.

Definition ff_wf (f : ffloat) : bool :=
  nonnil (ff_int f) && all_digits (ff_int f) &&
  match ff_frac f with Some fp => nonnil fp && all_digits fp | None => true end &&
  match ff_exp f with Some (_, ed) => Nat.leb 2 (length ed) && all_digits ed | None => true end.

(* integer part as the formatter prints it: "0" or no leading zero *)
Definition canon_int (ip : str) : bool :=
  match ip with
  | [] => false
  | [_] => true
  | c :: _ => negb (beq c x30)
  end.
Definition ff_canon (f : ffloat) : bool := canon_int (ff_int f).

Definition frac_digits (o : option str) : str := match o with Some fp => fp | None => [] end.
Definition exp_value (o : option (bool * str)) : Z :=
  match o with
  | Some (neg, ed) => if neg then - Z.of_N (digits_val ed) else Z.of_N (digits_val ed)
  | None => 0
  end.

(* the decimal number the text denotes: sign * (int.frac) * 10^exp *)
Definition ff_uvalue (f : ffloat) : dec :=
  (Z.of_N (digits_val (ff_int f ++ frac_digits (ff_frac f))),
   exp_value (ff_exp f) - Z.of_nat (length (frac_digits (ff_frac f)))).
Definition ff_value (f : ffloat) : dec :=
  if ff_neg f then dneg (ff_uvalue f) else ff_uvalue f.

(* the grammar's own reader (independent of the evaluator above) *)
Definition strip_minus (g : str) : bool * str :=
  match g with
  | c :: t => if beq c x2d then (true, t) else (false, g)
  | [] => (false, [])
  end.

(* exponent as the formatter prints it: e, a sign, digits *)
Definition ff_scan_exp (s : str) : option (bool * str) * str :=
  match s with
  | c :: sg :: t =>
    if beq c x65 && (beq sg x2b || beq sg x2d)
    then let (ed, r) := span is_digit t in (Some (beq sg x2d, ed), r)
    else (None, s)
  | _ => (None, s)
  end.

Definition scan_uff (neg : bool) (u : str) : ffloat * str :=
  let (ip, r1) := span is_digit u in
  let (frac, r2) := scan_frac r1 in
  let (ex, r3) := ff_scan_exp r2 in
  ({| ff_neg := neg; ff_int := ip; ff_frac := frac; ff_exp := ex |}, r3).

Definition parse_ff (g : str) : option ffloat :=
  let (neg, u) := strip_minus g in
  let (f, r) := scan_uff neg u in
  match r with
  | [] => if ff_wf f then Some f else None
  | _ => None
  end.

Definition fmt_float_grammar (g : str) : bool :=
  match parse_ff g with Some _ => true | None => false end.
(* ... with the integer part as strconv prints it (no superfluous leading zero) *)
Definition fmt_float_canon (g : str) : bool :=
  match parse_ff g with Some f => ff_canon f | None => false end.
Definition decimal_value (g : str) : option dec := option_map ff_value (parse_ff g).

(* complex: %#v prints ( <re> <+|-> <|im|> i ) with both parts in the float grammar *)
Definition cplx_text (fr fi : ffloat) : str :=
  x28 :: ff_text fr ++ (if ff_neg fi then x2d else x2b) :: ff_utext fi ++ [x69; x29].

Definition parse_cplx (g : str) : option (ffloat * ffloat) :=
  match g with
  | c :: t =>
    if beq c x28 then
      let (neg, u) := strip_minus t in
      let (fr, r) := scan_uff neg u in
      match r with
      | sg :: r' =>
        if beq sg x2b || beq sg x2d then
          let (fi, r'') := scan_uff (beq sg x2d) r' in
          if str_eqb r'' [x69; x29] && ff_wf fr && ff_wf fi && ff_canon fr && ff_canon fi
          then Some (fr, fi) else None
        else None
      | [] => None
      end
    else None
  | [] => None
  end.
Definition fmt_complex_grammar (g : str) : bool :=
  match parse_cplx g with Some _ => true | None => false end.
Definition complex_value (g : str) : option (dec * dec) :=
  option_map (fun p => (ff_value (fst p), ff_value (snd p))) (parse_cplx g).

(* ---- rune literal at the head of [s]: (code point, rest) ---- *)
Definition rune_of_body (v : str) : option N :=
  match v with
  | [] => None
  | _ :: _ =>
    let (r, w) := decode_rune v in
    if Nat.eqb w (length v) then
      if decode_ok (r, w) then Some r else
        match v with [b] => Some (b2n b) | _ => None end
    else None
  end.

Definition scan_rune_lit (s : str) : option (N * str) :=
  match s with
  | c :: t =>
    if beq c c_sq then
      match unq c_sq t with
      | Some (v, rest) => match rune_of_body v with Some r => Some (r, rest) | None => None end
      | None => None
      end
    else None
  | [] => None
  end.
