(* reflect.StructTag.Lookup, written from GOROOT/src/reflect/type.go. *)
From Jen Require Import Base.Bytes GoStd.Quote.
Local Open Scope N_scope.

Fixpoint skip_spaces (s : str) : str :=
  match s with
  | c :: t => if beq c x20 then skip_spaces t else s
  | [] => []
  end.

(* a key character: above space, not colon, not double quote, not DEL *)
Definition key_char (c : byte) : bool :=
  let n := b2n c in (32 <? n) && negb (n =? 58) && negb (n =? 34) && negb (n =? 127).

Fixpoint span_key (s : str) : str * str :=
  match s with
  | [] => ([], [])
  | c :: t => if key_char c then let (k, r) := span_key t in (c :: k, r) else ([], s)
  end.

(* the value-scanning loop (stop at a double quote, a backslash skips the next byte),
   started after the opening quote: (text up to and including the closing quote, rest) *)
Fixpoint scan_q (s : str) (skip : bool) : option (str * str) :=
  match s with
  | [] => None
  | c :: t =>
    if skip then prepend [c] (scan_q t false)
    else if beq c c_dq then Some ([c], t)
    else if beq c c_bs then prepend [c] (scan_q t true)
    else prepend [c] (scan_q t false)
  end.

Fixpoint lookup_fuel (fuel : nat) (tag key : str) : option str :=
  match fuel with
  | O => None
  | Datatypes.S fuel' =>
    match skip_spaces tag with
    | [] => None
    | tag' =>
      let (name, r) := span_key tag' in
      match name, r with
      | _ :: _, c1 :: c2 :: r2 =>
        if beq c1 x3a && beq c2 c_dq then
          match scan_q r2 false with
          | None => None
          | Some (qbody, rest) =>
            if str_eqb key name then go_string_value (c_dq :: qbody)
            else lookup_fuel fuel' rest key
          end
        else None
      | _, _ => None
      end
    end
  end.

Definition struct_tag_lookup (tag key : str) : option str :=
  lookup_fuel (Datatypes.S (length tag)) tag key.
