(* Executable models of strconv.Quote / QuoteRune / CanBackquote (written from
   GOROOT/src/strconv/quote.go) and of the consumers of their output: the value of an
   interpreted / raw Go string literal and of a rune literal, as the Go scanner and
   strconv.Unquote read them.  Parametric in the printability predicate. *)
From Jen Require Import Base.Bytes Base.Utf8.
Local Open Scope N_scope.

Definition hex_digit (d : N) : byte := n2b (if d <? 10 then 48 + d else 87 + d).
Definition hex2 (n : N) : str := [hex_digit (n / 16 mod 16); hex_digit (n mod 16)].
Definition hex4 (n : N) : str :=
  [hex_digit (n / 4096 mod 16); hex_digit (n / 256 mod 16); hex_digit (n / 16 mod 16); hex_digit (n mod 16)].
Definition hex8 (n : N) : str := hex4 (n / 65536) ++ hex4 n.

Definition unhex (b : byte) : option N :=
  let c := b2n b in
  if (48 <=? c) && (c <=? 57) then Some (c - 48)
  else if (97 <=? c) && (c <=? 102) then Some (c - 87)
  else if (65 <=? c) && (c <=? 70) then Some (c - 55)
  else None.

Definition unoct (b : byte) : option N :=
  let c := b2n b in
  if (48 <=? c) && (c <=? 55) then Some (c - 48) else None.

(* byte constants *)
Definition c_bs : byte := x5c.   (* backslash *)
Definition c_dq : byte := x22.   (* double quote *)
Definition c_sq : byte := x27.   (* single quote *)
Definition c_bq : byte := x60.   (* backquote *)
Definition c_nl : byte := x0a.
Definition c_cr : byte := x0d.

Section Quote.
  Variable is_print : N -> bool.

  (* strconv.appendEscapedRune with ASCIIonly = graphicOnly = false; q is the quote as a number *)
  Definition escaped_rune (q r : N) : str :=
    if (r =? q) || (r =? 92) then [c_bs; n2b r]
    else if is_print r then encode_rune r
    else if r =? 7 then [c_bs; x61]
    else if r =? 8 then [c_bs; x62]
    else if r =? 12 then [c_bs; x66]
    else if r =? 10 then [c_bs; x6e]
    else if r =? 13 then [c_bs; x72]
    else if r =? 9 then [c_bs; x74]
    else if r =? 11 then [c_bs; x76]
    else if (r <? 32) || (r =? 127) then c_bs :: x78 :: hex2 r
    else if negb (valid_rune r) then c_bs :: x75 :: hex4 rune_error
    else if r <? 0x10000 then c_bs :: x75 :: hex4 r
    else c_bs :: x55 :: hex8 r.

  (* one iteration of the loop of strconv.appendQuotedWith: emitted text and consumed width *)
  Definition quote_step (q : N) (s : str) : str * nat :=
    match s with
    | [] => ([], 0%nat)
    | b0 :: _ =>
      let (r, w) := decode_rune s in
      if Nat.eqb w 1 && (r =? rune_error) then (c_bs :: x78 :: hex2 (b2n b0), 1%nat)
      else (escaped_rune q r, w)
    end.

  Fixpoint quote_body (q : N) (fuel : nat) (s : str) : str :=
    match fuel with
    | O => []
    | Datatypes.S fuel' =>
      match s with
      | [] => []
      | _ :: _ => let (chunk, w) := quote_step q s in chunk ++ quote_body q fuel' (skipn w s)
      end
    end.

  Definition quote_with (q : byte) (s : str) : str :=
    q :: quote_body (b2n q) (length s) s ++ [q].

  Definition Quote (s : str) : str := quote_with c_dq s.

  (* strconv.QuoteRune on an int32 given as Z-in-N: callers pass valid_rune-checked values or not *)
  Definition QuoteRune (r : N) : str :=
    let r' := if valid_rune r then r else rune_error in
    c_sq :: escaped_rune (b2n c_sq) r' ++ [c_sq].
End Quote.

(* strconv.CanBackquote *)
Fixpoint can_backquote_fuel (fuel : nat) (s : str) : bool :=
  match fuel with
  | O => true
  | Datatypes.S fuel' =>
    match s with
    | [] => true
    | _ :: _ =>
      let (r, w) := decode_rune s in
      if Nat.ltb 1 w then
        if r =? 0xFEFF then false else can_backquote_fuel fuel' (skipn w s)
      else if r =? rune_error then false
      else if ((r <? 32) && negb (r =? 9)) || (r =? 96) || (r =? 127) then false
      else can_backquote_fuel fuel' (skipn w s)
    end
  end.
Definition CanBackquote (s : str) : bool := can_backquote_fuel (length s) s.

(* ---- consumers ---- *)

Definition simple_escape (q : byte) (e : byte) : option byte :=
  if beq e x61 then Some x07
  else if beq e x62 then Some x08
  else if beq e x66 then Some x0c
  else if beq e x6e then Some x0a
  else if beq e x72 then Some x0d
  else if beq e x74 then Some x09
  else if beq e x76 then Some x0b
  else if beq e c_bs then Some c_bs
  else if beq e q then Some q
  else None.

Definition prepend (p : str) (o : option (str * str)) : option (str * str) :=
  match o with Some (v, r) => Some (p ++ v, r) | None => None end.

(* Body of an interpreted literal delimited by [q]: reads up to and including the closing
   quote; returns (value, text after the closing quote).  None = not a well-formed literal
   (unterminated, raw newline, bad escape) - the cases Go's scanner reports as errors. *)
Fixpoint unq (q : byte) (s : str) : option (str * str) :=
  match s with
  | [] => None
  | c :: t =>
    if beq c q then Some ([], t)
    else if beq c c_nl then None
    else if beq c c_bs then
      match t with
      | [] => None
      | e :: t1 =>
        match simple_escape q e with
        | Some v => prepend [v] (unq q t1)
        | None =>
          if beq e x78 then
            match t1 with
            | h1 :: h2 :: t2 =>
              match unhex h1, unhex h2 with
              | Some a, Some b => prepend [n2b (a * 16 + b)] (unq q t2)
              | _, _ => None
              end
            | _ => None
            end
          else if beq e x75 then
            match t1 with
            | h1 :: h2 :: h3 :: h4 :: t2 =>
              match unhex h1, unhex h2, unhex h3, unhex h4 with
              | Some a, Some b, Some c', Some d =>
                let v := ((a * 16 + b) * 16 + c') * 16 + d in
                if valid_rune v then prepend (encode_rune v) (unq q t2) else None
              | _, _, _, _ => None
              end
            | _ => None
            end
          else if beq e x55 then
            match t1 with
            | h1 :: h2 :: h3 :: h4 :: h5 :: h6 :: h7 :: h8 :: t2 =>
              match unhex h1, unhex h2, unhex h3, unhex h4, unhex h5, unhex h6, unhex h7, unhex h8 with
              | Some a, Some b, Some c', Some d, Some e', Some f, Some g, Some h =>
                let v := ((((((a * 16 + b) * 16 + c') * 16 + d) * 16 + e') * 16 + f) * 16 + g) * 16 + h in
                if valid_rune v then prepend (encode_rune v) (unq q t2) else None
              | _, _, _, _, _, _, _, _ => None
              end
            | _ => None
            end
          else
            match unoct e, t1 with
            | Some a, o2 :: o3 :: t2 =>
              match unoct o2, unoct o3 with
              | Some b, Some c' =>
                let v := (a * 8 + b) * 8 + c' in
                if v <? 256 then prepend [n2b v] (unq q t2) else None
              | _, _ => None
              end
            | _, _ => None
            end
        end
      end
    else prepend [c] (unq q t)
  end.

(* raw string body: up to the next backquote; carriage returns are discarded from the value *)
Fixpoint unraw (s : str) : option (str * str) :=
  match s with
  | [] => None
  | c :: t =>
    if beq c c_bq then Some ([], t)
    else if beq c c_cr then unraw t
    else prepend [c] (unraw t)
  end.

(* Scanning a Go string literal at the head of [s]: (value, rest) *)
Definition scan_string_lit (s : str) : option (str * str) :=
  match s with
  | c :: t => if beq c c_dq then unq c_dq t else if beq c c_bq then unraw t else None
  | [] => None
  end.

(* value of a complete string literal (nothing may follow) *)
Definition go_string_value (lit : str) : option str :=
  match scan_string_lit lit with
  | Some (v, []) => Some v
  | _ => None
  end.

(* value of a complete rune literal: exactly one character between single quotes *)
Definition go_rune_value (lit : str) : option N :=
  match lit with
  | c :: t =>
    if beq c c_sq then
      match unq c_sq t with
      | Some (v, []) =>
        match v with
        | [] => None
        | _ :: _ =>
          let (r, w) := decode_rune v in
          if Nat.eqb w (length v) then
            (* a \x / octal escape denotes the byte value itself *)
            if decode_ok (r, w) then Some r else
              match v with [b] => Some (b2n b) | _ => None end
          else None
        end
      | _ => None
      end
    else None
  | [] => None
  end.
