(* strconv.IsPrint, over the tables extracted from GOROOT/src/strconv/isprint.go.
   The binary searches of the Go code are replaced by membership tests (same meaning on
   sorted tables; compared with the real function by the correspondence check). *)
From Jen Require Import Base.Bytes Gen.Goroot.
Local Open Scope N_scope.

Definition in_ranges (r : N) (l : list (N * N)) : bool :=
  existsb (fun p => (fst p <=? r) && (r <=? snd p)) l.
Definition in_listN (r : N) (l : list N) : bool := existsb (N.eqb r) l.

Definition go_is_print (r : N) : bool :=
  if r <=? 0xFF then
    ((0x20 <=? r) && (r <=? 0x7E)) || ((0xA1 <=? r) && negb (r =? 0xAD))
  else if r <? 0x10000 then
    in_ranges r isPrint16 && negb (in_listN r isNotPrint16)
  else
    in_ranges r isPrint32 && ((0x20000 <=? r) || negb (in_listN (r - 0x10000) isNotPrint32)).
