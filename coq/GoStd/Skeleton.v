(* The skeleton of Go's lexical structure (go/scanner, GOROOT/src/go/scanner/scanner.go:
   scanComment, scanString, scanRawString, scanRune): a text is split into regions
     code / line comment / block comment / interpreted string / raw string / rune literal.
   These are the only constructs inside which `//`, `/*`, quotes and newlines lose their
   meaning, i.e. exactly what decides whether a comment is contained.  Tokens inside code
   regions are not modelled (DESIGN.md section 3).

   One left-to-right pass, one byte at a time, with a mode and the bytes of the region
   being read (reversed).  Conventions, as in go/scanner:
   - a line comment runs from `//` to just before the newline (the newline is code);
   - a block comment runs from `/*` to the first `*/` that starts after the opener;
   - in an interpreted string or rune literal a backslash protects the next byte unless
     that byte is a newline; a newline (or the end of the text) before the closing quote is
     an error: the region so far is reported with kind KErr and scanning resumes in code at
     the newline;
   - a raw string runs to the next backquote;
   - a `/` followed by anything else is code. *)
From Jen Require Import Base.Bytes GoStd.Quote.

Inductive kind := KCode | KLine | KBlock | KStr | KRaw | KRune | KErr.
Inductive mode :=
| MCode | MSlash                  (* code; code after a `/` that is not yet in the region *)
| MLine | MBlock | MBlockStar     (* comments; block comment after a `*` *)
| MStr | MStrEsc | MRaw | MRune | MRuneEsc.

Definition region := (kind * str)%type.

Definition c_slash : byte := x2f.
Definition c_star : byte := x2a.

Definition flush (k : kind) (acc : str) : list region :=
  match acc with [] => [] | _ => [(k, rev acc)] end.

(* a byte read in code mode; acc is the code region so far *)
Definition code_step (acc : str) (c : byte) : list region * mode * str :=
  if beq c c_slash then ([], MSlash, acc)
  else if beq c c_dq then (flush KCode acc, MStr, [c])
  else if beq c c_bq then (flush KCode acc, MRaw, [c])
  else if beq c c_sq then (flush KCode acc, MRune, [c])
  else ([], MCode, c :: acc).

(* interpreted string / rune literal delimited by q *)
Definition quoted_step (q : byte) (k : kind) (m mesc : mode) (acc : str) (c : byte) : list region * mode * str :=
  if beq c q then ([(k, rev (c :: acc))], MCode, [])
  else if beq c c_nl then ([(KErr, rev acc)], MCode, [c])
  else if beq c c_bs then ([], mesc, c :: acc)
  else ([], m, c :: acc).

Definition esc_step (m : mode) (acc : str) (c : byte) : list region * mode * str :=
  if beq c c_nl then ([(KErr, rev acc)], MCode, [c]) else ([], m, c :: acc).

Definition lex_step (m : mode) (acc : str) (c : byte) : list region * mode * str :=
  match m with
  | MCode => code_step acc c
  | MSlash =>
    if beq c c_slash then (flush KCode acc, MLine, [c_slash; c_slash])
    else if beq c c_star then (flush KCode acc, MBlock, [c_star; c_slash])
    else code_step (c_slash :: acc) c
  | MLine => if beq c c_nl then ([(KLine, rev acc)], MCode, [c]) else ([], MLine, c :: acc)
  | MBlock => if beq c c_star then ([], MBlockStar, c :: acc) else ([], MBlock, c :: acc)
  | MBlockStar =>
    if beq c c_slash then ([(KBlock, rev (c :: acc))], MCode, [])
    else if beq c c_star then ([], MBlockStar, c :: acc)
    else ([], MBlock, c :: acc)
  | MStr => quoted_step c_dq KStr MStr MStrEsc acc c
  | MStrEsc => esc_step MStr acc c
  | MRaw => if beq c c_bq then ([(KRaw, rev (c :: acc))], MCode, []) else ([], MRaw, c :: acc)
  | MRune => quoted_step c_sq KRune MRune MRuneEsc acc c
  | MRuneEsc => esc_step MRune acc c
  end.

(* end of the text *)
Definition lex_end (m : mode) (acc : str) : list region :=
  match m with
  | MCode => flush KCode acc
  | MSlash => flush KCode (c_slash :: acc)
  | MLine => [(KLine, rev acc)]
  | _ => [(KErr, rev acc)]
  end.

Fixpoint lex (m : mode) (acc : str) (s : str) : list region :=
  match s with
  | [] => lex_end m acc
  | c :: s' =>
    match lex_step m acc c with
    | (out, m', acc') => out ++ lex m' acc' s'
    end
  end.

(* the same pass, stopped at the end of s: regions completed so far and the state reached *)
Fixpoint lex_run (m : mode) (acc : str) (s : str) : list region * mode * str :=
  match s with
  | [] => ([], m, acc)
  | c :: s' =>
    match lex_step m acc c with
    | (out, m', acc') =>
      match lex_run m' acc' s' with
      | (out2, m2, acc2) => (out ++ out2, m2, acc2)
      end
    end
  end.

Definition skel (s : str) : list region := lex MCode [] s.

(* the text outside comments *)
Definition is_comment (k : kind) : bool := match k with KLine | KBlock => true | _ => false end.
Definition code_of (rs : list region) : str :=
  concat_str (map snd (filter (fun r => negb (is_comment (fst r))) rs)).
Definition text_of (rs : list region) : str := concat_str (map snd rs).

(* ---- the import comment of a package clause (go/build: findImportComment followed by
   strconv.Unquote).  The argument is the text that follows `package <name>`.  ---- *)
Fixpoint skip_blank (s : str) : str :=
  match s with
  | c :: s' => if beq c x20 || beq c x09 || beq c c_cr then skip_blank s' else s
  | [] => []
  end.

(* text up to (excluding) the first newline *)
Fixpoint first_line (s : str) : str :=
  match s with
  | [] => []
  | c :: s' => if beq c c_nl then [] else c :: first_line s'
  end.

Definition is_space (c : byte) : bool := beq c x20 || beq c x09 || beq c c_nl || beq c c_cr.

Definition trim_left (s : str) : str :=
  (fix f (s : str) : str :=
     match s with
     | c :: s' => if is_space c then f s' else s
     | [] => []
     end) s.
Definition trim_space (s : str) : str := rev (trim_left (rev (trim_left s))).

Definition strip_prefix (p s : str) : option str :=
  if has_prefix p s then Some (skipn (length p) s) else None.

(* Only the `//` form is read (the only one jennifer writes); go/build's parseWord takes the
   leading word (letters, digits, underscore) of the comment, which must be `import`: here
   the byte after it must be a blank or the opening quote.  The rest, trimmed, must be a
   Go string literal (strconv.Unquote in go/build); its value is the import path. *)
Definition parse_import_comment (after_name : str) : option str :=
  match strip_prefix (S "//") (skip_blank after_name) with
  | None => None
  | Some c =>
    let body := trim_space (first_line c) in
    match strip_prefix (S "import") body with
    | None => None
    | Some arg =>
      match arg with
      | a :: _ =>
        if is_space a || beq a c_dq || beq a c_bq then go_string_value (trim_space arg) else None
      | [] => None
      end
    end
  end.
