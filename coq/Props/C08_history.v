(* C08, the two items of the review: (a) the TEXT is stable when hints and prefix change
   after a render; (b) invariants over histories of one File.
   Statements only; proofs are lemmas of Proofs/ReviewHintsProofs.v and
   Proofs/ReviewHistoryProofs.v. *)
From Jen Require Import Base.Bytes Model.Code Model.Naming Model.Render Model.FileRender Model.Exec.
From Jen Require Import Proofs.NamingProofs Proofs.RenderProofs Proofs.OccsProofs
                        Proofs.ReviewHintsProofs Proofs.ReviewHistoryProofs.
Local Open Scope bool_scope.

(* ================================================================== (a) later hints and prefix *)
(* C08_render_stable fixes the configuration.  Here the later render runs under ANY
   configuration cfg' with the same local path - any hints (legal or not: no cfg_ok cfg'),
   any PackagePrefix.  If a render under cfg succeeded with table t1 and text s, then from t1
   or any extension t2 of it (further renders, Anon of new paths) the same tree renders to
   exactly s again and leaves t2 unchanged.  Reason: every path the tree needs is registered
   in t1; register answers a registered path from the table, and whether a registered path
   is a dot import is decided by its entry - hints and prefix are not consulted again.
   Trees: those in which package tokens stand only where Qual puts them (qual_only: no other
   API function creates a package token, so all trees built through the API). *)
Theorem C08_text_stable_under_later_hints : forall cfg cfg',
  cfg_path cfg = cfg_path cfg' -> cfg_ok cfg ->
  forall c ctx t t1 s, qual_only c = true -> render cfg ctx t c = Ok (t1, s) ->
  forall t2, ext cfg t1 t2 -> render cfg' ctx t2 c = Ok (t2, s).
Proof. exact text_stable_later_hints. Qed.

(* Arbitrary trees of the model (package tokens anywhere): the same, provided no package
   token occurring in the tree changes between dot import and ordinary import at the table
   the later render starts from (dot_agree; pkgs c = every package path occurring in c) ... *)
Theorem C08_text_stable_under_later_hints_general : forall cfg cfg',
  cfg_path cfg = cfg_path cfg' -> cfg_ok cfg ->
  forall c ctx t t1 s, render cfg ctx t c = Ok (t1, s) ->
  forall t2, ext cfg t1 t2 ->
    (forall p, In p (pkgs c) -> is_local cfg p = true \/ is_dot cfg' t2 p = is_dot cfg t2 p) ->
    render cfg' ctx t2 c = Ok (t2, s).
Proof. exact text_stable_later_hints_general. Qed.

(* ... which holds when the later hints say the same about dot imports for the paths of the
   tree, or when every path occurring in the tree is registered or local. *)
Theorem C08_dot_agree_by_hints : forall cfg cfg' t c,
  (forall p, In p (pkgs c) -> hint_is_dot cfg' p = hint_is_dot cfg p) ->
  forall p, In p (pkgs c) -> is_local cfg p = true \/ is_dot cfg' t p = is_dot cfg t p.
Proof. exact dot_agree_hints. Qed.

Theorem C08_dot_agree_by_registration : forall cfg cfg' t c,
  (forall p, In p (pkgs c) -> is_local cfg p = true \/ exists q, registered_name t p = Some q) ->
  forall p, In p (pkgs c) -> is_local cfg p = true \/ is_dot cfg' t p = is_dot cfg t p.
Proof. exact dot_agree_registered. Qed.

(* The condition cannot be dropped for arbitrary model trees: a bare package token as an
   item of a statement is null under a dot hint (skipped, never registered) and written once
   the hint is gone.  No API function builds such a tree. *)
Theorem C08_bare_token_exception :
  exists cfg cfg' c,
    cfg_ok cfg /\ cfg_ok cfg' /\ cfg_path cfg = cfg_path cfg' /\ qual_only c = false /\
    render cfg false [] c = Ok ([], S "X") /\
    render cfg' false [] c = Ok ([(S "a/b", mkdef (S "b") true)], S "b X").
Proof. exact bare_token_hint_exception. Qed.

(* File level.  f' is f after File.Render (imports = t1) and any changes to hints and prefix
   (same name, path, comments, headers, cgo preamble, canonical path, items): File.Render of
   f' hands the formatter the same bytes and leaves the same table. *)
Theorem C08_file_text_stable_under_later_hints : forall f f' t1 raw,
  cfg_ok (file_cfg f) -> forallb qual_only (f_items f) = true ->
  file_raw f = Ok (t1, raw) ->
  same_file_but_hints f f' -> f_imports f' = t1 ->
  file_raw f' = Ok (t1, raw).
Proof. exact file_raw_stable_later_hints. Qed.

(* ================================================================== (b) histories *)
(* Histories of ONE File: lists of typed operations [hop] - HRender (File.Render), HRcode
   (Statement/Group.RenderWithFile), HAdd, HImportName, HImportAlias, HImportNames, HPrefix,
   HNoFormat, HAnon - interpreted by [hstep] with the functions of Model/FileRender.v, exactly
   the calls Model/Exec.v's interpreter makes for the ops render / rcode / fadd / importname /
   importalias / importnames / prefix / noformat / anon, with the same printed observations
   (C08_history_example checks one history through both).
     hfile f0 ops   the File after the history          hobs f0 ops   what it printed
     hist_ok anon_ok f0 ops   no Anon of a path that is registered at that moment (the
                              exclusion the property makes); NOTHING is asked of hints or
                              prefix for (i) and (iii)

   (i)   REGISTERED NAMES ARE MONOTONE: once a path has the name q it has the name q after
         every continuation of the history - under any hints and prefix, legal or not.
   (ii)  A RENDER OPERATION REPEATED AT ONCE prints the same observation again and leaves the
         File as the first left it (hint names and prefix legal at that moment: cfg_ok).
   (iii) EVERY PATH REGISTERED AT ANY POINT of the history, under the name q it had then, is
         registered under q in the table of every later File.Render that succeeds, and its
         import line stands in that render's import block; the bytes handed to the
         formatter are head ++ block ++ body. *)
Theorem C08_history : forall f0,
  (forall pre post p q, hist_ok anon_ok f0 (pre ++ post) ->
     registered_name (f_imports (hfile f0 pre)) p = Some q ->
     registered_name (f_imports (hfile f0 (pre ++ post))) p = Some q) /\
  (forall pre o, is_render o = true -> cfg_ok (file_cfg (hfile f0 pre)) ->
     hobs f0 (pre ++ [o; o]) = hobs f0 (pre ++ [o]) ++ snd (hstep (hfile f0 pre) o) /\
     hfile f0 (pre ++ [o; o]) = hfile f0 (pre ++ [o])) /\
  (forall pre post t1 raw p q, hist_ok anon_ok f0 (pre ++ post) ->
     registered_name (f_imports (hfile f0 pre)) p = Some q ->
     file_raw (hfile f0 (pre ++ post)) = Ok (t1, raw) ->
     let f := hfile f0 (pre ++ post) in
     registered_name t1 p = Some q /\
     exists d body, alookup p t1 = Some d /\ id_name d = q /\
       raw = file_head f ++ render_imports t1 (f_cgo f) ++ body /\
       exists a b, render_imports t1 (f_cgo f) = a ++ import_spec p d ++ [x0a] ++ b).
Proof. exact history_invariants. Qed.

(* (iii) at the File.Render itself: every path registered in the table the render leaves has
   its line in the block of that render. *)
Theorem C08_render_lists_registered : forall f t1 raw,
  file_raw f = Ok (t1, raw) ->
  exists body, raw = file_head f ++ render_imports t1 (f_cgo f) ++ body /\
  forall p q, registered_name t1 p = Some q ->
    exists d, alookup p t1 = Some d /\ id_name d = q /\
      exists a b, render_imports t1 (f_cgo f) = a ++ import_spec p d ++ [x0a] ++ b.
Proof. exact render_lists_registered. Qed.

(* (iii) with the exact line (Props/C03_block.v): if the File started without repeated paths,
   the spec of p in the block is the one of its entry and no other spec carries p. *)
Theorem C08_history_import_specs : forall f0 pre post t1 raw p q,
  NoDup (akeys (f_imports f0)) -> hist_ok anon_ok f0 (pre ++ post) ->
  registered_name (f_imports (hfile f0 pre)) p = Some q ->
  file_raw (hfile f0 (pre ++ post)) = Ok (t1, raw) ->
  let cgo := f_cgo (hfile f0 (pre ++ post)) in
  cgo = [] \/ p <> s_C ->
  exists d, alookup p t1 = Some d /\ id_name d = q /\
    In (ReviewMiscProofs.spec_of (p, d)) (ReviewMiscProofs.block_specs (listed t1 cgo)) /\
    forall sp, In sp (ReviewMiscProofs.block_specs (listed t1 cgo)) -> snd sp = p ->
               sp = ReviewMiscProofs.spec_of (p, d).
Proof. exact history_import_specs. Qed.

(* (ii) with item (a): File.Render, then any ImportName / ImportAlias / ImportNames /
   PackagePrefix calls, then File.Render: the same observation and the same table (bodies
   built by the API). *)
Theorem C08_render_hints_render : forall f mid wf,
  cfg_ok (file_cfg f) -> forallb qual_only (f_items f) = true -> forallb is_hint_op mid = true ->
  (exists t raw, file_raw f = Ok (t, raw)) ->
  let f1 := fst (hstep f (HRender wf)) in
  snd (hstep (hfile f1 mid) (HRender wf)) = snd (hstep f (HRender wf)) /\
  f_imports (fst (hstep (hfile f1 mid) (HRender wf))) = f_imports f1.
Proof. exact render_hints_render. Qed.

(* one step of (i), and the history condition as a boolean for examples *)
Theorem C08_step_keeps : forall f o, anon_ok f o -> keeps (f_imports f) (f_imports (fst (hstep f o))).
Proof. exact hstep_keeps. Qed.

Theorem C08_hist_ok_decidable : forall ops f, hist_okb f ops = true -> hist_ok anon_ok f ops.
Proof. exact hist_okb_sound. Qed.

(* Non-vacuity, and the link to the interpreter: one history - add, render, alias the path
   just rendered, set a prefix, Anon a new path, add, render twice, RenderWithFile, NoFormat,
   render with a failing writer - run through Model/Exec.v (the line the harness writes,
   parsed by read_line, executed by run_file_case) and through hobs gives the same
   observations; it meets hist_ok; a.b/d keeps the name d of its first render although it
   was aliased z and a prefix was set afterwards. *)
Example C08_history_example :
  match read_line example_line with
  | Some ops => run_file_case ops
  | None => None
  end = Some (hobs (new_file (S "main")) example_ops) /\
  hist_ok anon_ok (new_file (S "main")) example_ops /\
  map (fun e => (fst e, id_name (snd e))) (f_imports (hfile (new_file (S "main")) example_ops)) =
    [(S "a.b/d", S "d"); (S "x/y", S "_"); (S "c.b/d", S "pp_d1")].
Proof. exact history_example_agrees_with_run_ops. Qed.

(* Non-vacuity of (a): render a File; then alias one of its paths, name the other, make a
   third a dot import, set a prefix; render again: same table, same bytes. *)
Example C08_later_hints_example :
  let f := add_item (add_item (new_file_path_name (S "my/pkg") (S "pkg"))
             (CStmt [qual 1 (S "a.b/d") (S "A"); qual 2 (S "c.b/d") (S "B")]))
             (CStmt [qual 3 (S "fmt") (S "Println"); qual 4 (S "my/pkg") (S "Local")]) in
  cfg_ok (file_cfg f) /\ forallb qual_only (f_items f) = true /\
  match file_raw f with
  | Ok (t1, raw) =>
    let f' := set_prefix (import_alias (import_name (import_alias (set_imports f t1)
                (S "a.b/d") (S "zz")) (S "c.b/d") (S "yy")) (S "fmt") (S ".")) (S "pp") in
    same_file_but_hints f f' /\ f_imports f' = t1 /\ file_raw f' = Ok (t1, raw) /\
    map (fun e => (fst e, id_name (snd e))) t1 = [(S "a.b/d", S "d"); (S "c.b/d", S "d1"); (S "fmt", S "fmt")]
  | Panic _ => False
  end.
Proof.
  cbv zeta. split; [split; [intros p h H; discriminate | left; reflexivity]|].
  split; [reflexivity|]. vm_compute. repeat split; reflexivity.
Qed.
