(* C11: the negative zero (a named exclusion), and LitFunc.
   Statements only; proofs are lemmas of Proofs/ReviewLitProofs.v and
   Proofs/ReviewLitFuncProofs.v. *)
From Jen Require Import Base.Bytes Base.Num GoStd.LitEval Model.Render.
From Jen Require Import Proofs.LitProofs Proofs.ReviewLitProofs.
From Jen Require Spec.ApiSem Gen.Api Proofs.ReviewLitFuncProofs.

(* NEGATIVE ZERO.  The property says "a constant expression whose value is exactly v".  For
   v = math.Copysign(0, -1) fmt prints "-0" and jennifer renders `-0.0`.  That text is the
   unary minus applied to the constant 0.0; Go constants are exact numbers and have no
   negative zero, so the expression denotes 0 - the same constant as `0.0` - and a variable
   initialised with it holds +0.  What is preserved is the value as a real number
   (C11_float64_decision: rat_eq) and the type float64; the IEEE sign bit of a zero is not.
   This is an exclusion of the property as stated, recorded here by name. *)
Theorem C11_negative_zero :
  float64_text (S "-0") = S "-0.0" /\
  fmt_float_grammar (S "-0") = true /\
  eval_lit (S "-0.0") = Some (TFloat64, VFloat (0, -1)%Z) /\
  eval_lit (S "0.0") = Some (TFloat64, VFloat (0, -1)%Z) /\
  lit_value (LF64 (S "-0")) = lit_value (LF64 (S "0")) /\
  decimal_value (S "-0") = Some (0, 0)%Z /\
  rat_eq (0, -1)%Z (0, 0)%Z.
Proof. exact negative_zero_text_and_value. Qed.

(* the evaluator's constants have no negative zero at all: minus zero is zero *)
Theorem C11_constants_have_no_negative_zero : forall q : dec, fst q = 0%Z -> dneg q = q.
Proof. exact dneg_zero. Qed.

(* the same for float32 and for the parts of complex values *)
Theorem C11_negative_zero_other_forms :
  lit_text (LF32 (S "-0")) = Ok (S "float32(-0)") /\
  lit_value (LF32 (S "-0")) = lit_value (LF32 (S "0")) /\
  lit_value (LC128 (S "(-0-0i)")) = lit_value (LC128 (S "(0+0i)")) /\
  lit_value (LC64 (S "(-0-0i)")) = lit_value (LC64 (S "(0+0i)")).
Proof. exact negative_zero_other_forms. Qed.

(* LITFUNC ("LitFunc behaves identically on the value its function returns").  In the
   builder semantics of the API table generated from the current source (Props/C14.v,
   C14_lit_func_variant): for every behaviour cb of user callbacks, every statement sp and
   store h - LitFunc(f) runs f exactly once, yielding the store h' and the value v, and then
   does exactly what Lit(v) does in h': the same literal token (same token type, content v)
   appended to the same statement, the same resulting store.  The rendering of that token is
   what the theorems of Props/C11.v describe. *)
Import Spec.ApiSem Gen.Api.
Theorem C11_litfunc : forall (cb : N -> list ApiSem.value -> store -> store * ApiSem.value) fuel id sp h,
  call cb (Datatypes.S fuel) api_table s_Statement (S "LitFunc") (Some (VStmt sp)) [VCb id] h =
  match call cb (Datatypes.S fuel) api_table s_Statement (S "Lit") (Some (VStmt sp)) [snd (cb id [] h)] (fst (cb id [] h)) with
  | Some (r, h3, _) => Some (r, h3, [id])
  | None => None
  end.
Proof. exact ReviewLitFuncProofs.litfunc_is_lit. Qed.

Theorem C11_litfunc_runs_once : forall (cb : N -> list ApiSem.value -> store -> store * ApiSem.value) fuel id sp h v h' lg,
  call cb (Datatypes.S fuel) api_table s_Statement (S "LitFunc") (Some (VStmt sp)) [VCb id] h = Some (v, h', lg) ->
  lg = [id].
Proof. exact ReviewLitFuncProofs.litfunc_log. Qed.

(* Non-vacuity: a callback that returns the opaque value 7; LitFunc(f) and Lit(7) build the
   same statement. *)
Example C11_litfunc_example :
  let cb := fun (id : N) (_ : list ApiSem.value) (h : store) => (h, VOpaque 7) in
  let h := alloc_stmt empty_store [] in
  call cb 3 api_table s_Statement (S "LitFunc") (Some (VStmt 0)) [VCb 5] h =
    Some (VStmt 0, mkstore [[VTok (VConst (S "literalToken")) (VOpaque 7)]] [] [], [5%N]) /\
  call cb 3 api_table s_Statement (S "Lit") (Some (VStmt 0)) [VOpaque 7] h =
    Some (VStmt 0, mkstore [[VTok (VConst (S "literalToken")) (VOpaque 7)]] [] [], []).
Proof. split; vm_compute; reflexivity. Qed.
