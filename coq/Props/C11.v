(* C11: numeric and boolean literals preserve value and type.
   Statements only; every proof is `exact` of a lemma of Proofs/LitProofs.v.

   `lit_value l` is `eval_lit` (GoStd/LitEval.v: Go's literal grammar, constant conversions
   with their representability check) applied to the text `lit_text l` that the model
   renders for the literal token l - the text that differential execution compares with
   jennifer's.  Values are exact: integers in Z, floats as (mantissa, exp10).
   Float and complex texts are what fmt prints (supplied by the harness); that strconv's
   shortest digits denote the same float is Go's contract and is checked by the harness
   with go/constant, not proved here. *)
From Jen Require Import Base.Bytes Base.Num GoStd.LitEval Model.Render.
From Jen Require Import Proofs.LitProofs.

Theorem C11_bool : forall b, lit_value (LBool b) = Some (TBool, VBool b).
Proof. exact eval_LBool. Qed.

(* Lit(int): for EVERY integer (no range needed) the text is an untyped integer constant
   of value z, default type int. *)
Theorem C11_int_exact : forall z, lit_value (LInt z) = Some (TInt, VInt z).
Proof. exact eval_LInt. Qed.

(* int8 .. int64: T(<decimal>) has type T and value z, for every z that is a value of T. *)
Theorem C11_intT_exact : forall k z, in_range (intkind_type k) z ->
  lit_value (LIntT k z) = Some (intkind_type k, VInt z).
Proof. exact eval_LIntT. Qed.

(* uint .. uint64, uintptr: T(0x<hex>) has type T and value n, for every value n of T
   (uint and uintptr: 64 bits). *)
Theorem C11_uintT_exact : forall k n, in_range (uintkind_type k) (Z.of_N n) ->
  lit_value (LUintT k n) = Some (uintkind_type k, VInt (Z.of_N n)).
Proof. exact eval_LUintT. Qed.

(* The range hypothesis is the one Go imposes (a constant conversion must be representable):
   outside it the evaluator rejects the text, as the compiler would. *)
Theorem C11_intT_out_of_range : forall k z, ~ in_range (intkind_type k) z ->
  lit_value (LIntT k z) = None.
Proof. exact eval_LIntT_out. Qed.

(* The grammar of fmt's %#v output for a finite float, [-]d+[.d+][e(+|-)dd+], is exactly
   the set of texts of well-formed structured forms; `decimal_value` reads the number off
   that structure: sign * (int.frac) * 10^exp. *)
Theorem C11_float_grammar_exact : forall g f,
  parse_ff g = Some f <-> (ff_wf f = true /\ g = ff_text f).
Proof. exact parse_ff_exact. Qed.

(* Lit(float64), the `.0` decision.  For EVERY string g of the formatter grammar - every
   sign, digit pattern, fraction, exponent sign and exponent width - the rendered text is a
   FLOAT literal (default type float64, never an integer literal) and denotes the same
   rational as g. *)
Theorem C11_float64_decision : forall g, fmt_float_grammar g = true ->
  exists q v, lit_value (LF64 g) = Some (TFloat64, VFloat q) /\
              decimal_value g = Some v /\ rat_eq q v.
Proof. exact float64_decision. Qed.

(* ... and the text is g itself when g has a fraction or an exponent, g.0 otherwise. *)
Theorem C11_float64_text : forall g f, parse_ff g = Some f ->
  float64_text g = if ff_is_float f then g else g ++ S ".0".
Proof. exact float64_literal_kept. Qed.

(* float32: float32(<g>) has type float32 and exactly the value of g.  Inside a conversion
   a text without fraction and exponent is an INTEGER literal, so the integer part must be
   as strconv prints it (no superfluous leading zero: see C11_leading_zero_is_octal). *)
Theorem C11_float32 : forall g, fmt_float_canon g = true ->
  exists v, decimal_value g = Some v /\ lit_value (LF32 g) = Some (TFloat32, VFloat v).
Proof. exact float32_wrapper. Qed.

(* complex128: ( <re> <+|-> <im> i ) with both parts in the float grammar is an untyped
   complex constant (default type complex128) with exactly those parts. *)
Theorem C11_complex128 : forall g, fmt_complex_grammar g = true ->
  exists re im, complex_value g = Some (re, im) /\
                lit_value (LC128 g) = Some (TComplex128, VComplex re im).
Proof. exact complex128_text. Qed.

(* complex64: the wrapper keeps the inner text and names the type. *)
Theorem C11_complex64 : forall g, fmt_complex_grammar g = true ->
  exists re im, complex_value g = Some (re, im) /\
                lit_value (LC64 g) = Some (TComplex64, VComplex re im).
Proof. exact complex64_wrapper. Qed.

(* Any other dynamic type: the documented panic. *)
Theorem C11_unsupported_panics : forall ty, lit_text (LBad ty) = Panic (s_unsupported ++ ty).
Proof. intros; reflexivity. Qed.

(* ---- non-vacuity and cross-checks by computation ---- *)
Example C11_ranges :
  map int_range [TInt8; TInt16; TInt32; TInt64; TUint8; TUint16; TUint32; TUint64; TUint; TUintptr; TByte] =
  [Some (-128, 127); Some (-32768, 32767); Some (-2147483648, 2147483647);
   Some (-9223372036854775808, 9223372036854775807);
   Some (0, 255); Some (0, 65535); Some (0, 4294967295); Some (0, 18446744073709551615);
   Some (0, 18446744073709551615); Some (0, 18446744073709551615); Some (0, 255)]%Z.
Proof. reflexivity. Qed.

Example C11_int_examples :
  map lit_value [LInt 0; LInt (-12); LIntT KInt8 (-128); LIntT KInt8 128;
                 LUintT KUint64 18446744073709551615; LUintT KUint8 256; LBool true] =
  [Some (TInt, VInt 0); Some (TInt, VInt (-12)); Some (TInt8, VInt (-128)); None;
   Some (TUint64, VInt 18446744073709551615); None; Some (TBool, VBool true)]%Z /\
  lit_text (LIntT KInt8 (-128)) = Ok (S "int8(-128)") /\
  lit_text (LUintT KUint16 65535) = Ok (S "uint16(0xffff)").
Proof. repeat split; vm_compute; reflexivity. Qed.

(* the formatter texts named in the design: every one is in the grammar, and the rendered
   literal is a float of the same value *)
Example C11_float64_examples :
  let gs := [S "1e-07"; S "1e+06"; S "100"; S "-0"; S "1.5"; S "-2.5e-324"; S "1e+100"; S "123456789"] in
  forallb fmt_float_grammar gs = true /\
  map float64_text gs =
    [S "1e-07"; S "1e+06"; S "100.0"; S "-0.0"; S "1.5"; S "-2.5e-324"; S "1e+100"; S "123456789.0"] /\
  map (fun g => lit_value (LF64 g)) gs =
    [Some (TFloat64, VFloat (1, -7)); Some (TFloat64, VFloat (1, 6)); Some (TFloat64, VFloat (1000, -1));
     Some (TFloat64, VFloat (0, -1)); Some (TFloat64, VFloat (15, -1)); Some (TFloat64, VFloat (-25, -325));
     Some (TFloat64, VFloat (1, 100)); Some (TFloat64, VFloat (1234567890, -1))]%Z /\
  map decimal_value gs =
    [Some (1, -7); Some (1, 6); Some (100, 0); Some (0, 0); Some (15, -1); Some (-25, -325);
     Some (1, 100); Some (123456789, 0)]%Z /\
  rat_eqb (1000, -1)%Z (100, 0)%Z = true.
Proof. cbv zeta. repeat split; vm_compute; reflexivity. Qed.

(* what is outside the grammar: non-finite values, and shapes fmt does not print *)
Example C11_grammar_rejects :
  map fmt_float_grammar [S "+Inf"; S "-Inf"; S "NaN"; S "1e+6"; S "1."; S ".5"; S "1e06"; S ""; S "-"; S "1.5x"] =
  [false; false; false; false; false; false; false; false; false; false].
Proof. vm_compute. reflexivity. Qed.

(* the mutant of the property record - a `.0` rule that only recognises positive
   exponents would render 1e-07.0, which is not a Go literal *)
Example C11_mutant_text_rejected : eval_lit (S "1e-07.0") = None /\ eval_lit (S "100") = Some (TInt, VInt 100).
Proof. split; vm_compute; reflexivity. Qed.

(* why C11_float32 asks for the canonical integer part: Go reads 010 as octal *)
Example C11_leading_zero_is_octal :
  fmt_float_grammar (S "010") = true /\ fmt_float_canon (S "010") = false /\
  lit_value (LF32 (S "010")) = Some (TFloat32, VFloat (8, 0)%Z) /\
  lit_value (LF64 (S "010")) = Some (TFloat64, VFloat (100, -1)%Z).
Proof. repeat split; vm_compute; reflexivity. Qed.

Example C11_wrapper_examples :
  map lit_value [LF32 (S "100"); LF32 (S "1e-07"); LF32 (S "-1.5");
                 LC128 (S "(1+2i)"); LC128 (S "(-0-0i)"); LC128 (S "(1e+06-2.5e-07i)");
                 LC64 (S "(1.5+0i)")] =
  [Some (TFloat32, VFloat (100, 0)); Some (TFloat32, VFloat (1, -7)); Some (TFloat32, VFloat (-15, -1));
   Some (TComplex128, VComplex (1, 0) (2, 0)); Some (TComplex128, VComplex (0, 0) (0, 0));
   Some (TComplex128, VComplex (1, 6) (-25, -8)); Some (TComplex64, VComplex (15, -1) (0, 0))]%Z /\
  map fmt_complex_grammar [S "(1+2i)"; S "(-0-0i)"; S "(1e+06-2.5e-07i)"; S "(1+Infi)"; S "(NaN+0i)"; S "1+2i"] =
  [true; true; true; false; false; false] /\
  lit_text (LC64 (S "(1.5+0i)")) = Ok (S "complex64(1.5+0i)") /\
  lit_text (LF32 (S "100")) = Ok (S "float32(100)").
Proof. repeat split; vm_compute; reflexivity. Qed.
