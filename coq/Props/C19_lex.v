(* C19 at lexer level: the cgo preamble is the doc comment of `import "C"`.
   Props/C19.v says which TEXT is emitted; here the skeleton lexer of GoStd/Skeleton.v (the
   part of go/scanner that decides where comments and strings begin and end) is run over it. *)
From Jen Require Import Base.Bytes GoStd.Quote GoStd.Skeleton.
From Jen Require Import Model.Code Model.Naming Model.Render Model.FileRender.
From Jen Require Import Proofs.CommentProofs Proofs.ImportsProofs Proofs.AdjacencyProofs.

(* The domain [preamble_domain]: a text is
     - in the comment domain [in_domain] of CommentProofs.v (it does not start with `//` or
       `/*` and does not contain `*/`): rendered as `// t` when it has no newline and as
       `/*\n t \n*/` when it has one - INCLUDING a one-line text that ends in a newline; or
     - a raw line comment [raw_line]: `//` followed by bytes without a newline; or
     - a raw block comment [raw_block]: `/*` b `*/` with no `*/` inside b.
   Then, for a non-empty preamble c0 :: cs and whatever code [acc] is pending, the lexer run
   over [preamble_block] from code state yields exactly: the pending code; the comment of c0;
   for each further text ONE newline (a code region holding just that byte) and its comment,
   in the order given; ONE newline and `import ` (one code region); the string "C"; and it
   ends in code with the two final newlines pending.  No blank line and no other token stands
   between the comments or between the last comment and the import: the comment group is
   adjacent to the import declaration, which is what cgo requires. *)
Theorem C19_preamble_is_doc : forall c0 cs acc,
  Forall preamble_domain (c0 :: cs) ->
  lex_run MCode acc (preamble_block (c0 :: cs))
  = (flush KCode acc ++ (preamble_kind c0, comment_text c0) :: following_regions cs ++
     [(KCode, x0a :: S "import "); (KStr, [c_dq] ++ S "C" ++ [c_dq])],
     MCode, [x0a; x0a]).
Proof. exact preamble_is_doc. Qed.

(* A one-line text ending in a newline is in the domain: jennifer renders it in block style
   (`/*`, newline, text, newline, `*/`, no second newline added), one block comment region,
   and the theorem above applies: adjacency holds. *)
Theorem C19_one_line_with_trailing_newline : forall t,
  contains_byte x0a t = false -> has_prefix (S "//") t = false -> has_prefix (S "/*") t = false ->
  contains (S "*/") (t ++ [x0a]) = false ->
  in_domain (t ++ [x0a]) /\
  comment_text (t ++ [x0a]) = S "/*" ++ [x0a] ++ t ++ [x0a] ++ S "*/" /\
  preamble_kind (t ++ [x0a]) = KBlock.
Proof. exact one_line_trailing_newline_in_domain. Qed.

(* What is excluded, each with the reason (refutations of the statement outside the domain):
   a raw `//` form ENDING in a newline leaves an empty line before the import (two newlines in
   the code region): the comment is detached and cgo ignores it; *)
Theorem C19_raw_trailing_newline_detached_refuted :
  let t := S "//#include <a.h>" ++ [x0a] in
  ~ preamble_domain t /\
  lex_run MCode [] (preamble_block [t])
  = ([(KLine, S "//#include <a.h>"); (KCode, [x0a; x0a] ++ S "import "); (KStr, [c_dq] ++ S "C" ++ [c_dq])],
     MCode, [x0a; x0a]).
Proof. exact raw_trailing_newline_detached. Qed.

(* a raw `//` form with an inner newline puts its second line into code; *)
Theorem C19_raw_inner_newline_refuted :
  let t := S "//a" ++ [x0a] ++ S "b" in
  ~ preamble_domain t /\
  lex_run MCode [] (preamble_block [t])
  = ([(KLine, S "//a"); (KCode, [x0a] ++ S "b" ++ [x0a] ++ S "import "); (KStr, [c_dq] ++ S "C" ++ [c_dq])],
     MCode, [x0a; x0a]).
Proof. exact raw_inner_newline_leaks. Qed.

(* a text containing `*/` ends its block comment early. *)
Theorem C19_inner_terminator_refuted :
  let t := S "a*/b" ++ [x0a] ++ S "c" in
  ~ preamble_domain t /\
  lex_run MCode [] (preamble_block [t])
  = ([(KBlock, S "/*" ++ [x0a] ++ S "a*/"); (KCode, S "b" ++ [x0a] ++ S "c" ++ [x0a] ++ S "*/" ++ [x0a] ++ S "import ");
      (KStr, [c_dq] ++ S "C" ++ [c_dq])], MCode, [x0a; x0a]).
Proof. exact inner_terminator_leaks. Qed.

(* Non-vacuity: the three styles at once. *)
Example C19_lex_example :
  let cgo := [S "#include <a.h>"; S "int f();" ++ [x0a]; S "//go:build x"; S "/* raw */"] in
  Forall preamble_domain cgo /\
  fst (fst (lex_run MCode [] (preamble_block cgo))) =
  [(KLine, S "// #include <a.h>"); (KCode, [x0a]);
   (KBlock, S "/*" ++ [x0a] ++ S "int f();" ++ [x0a] ++ S "*/"); (KCode, [x0a]);
   (KLine, S "//go:build x"); (KCode, [x0a]);
   (KBlock, S "/* raw */"); (KCode, x0a :: S "import "); (KStr, [c_dq] ++ S "C" ++ [c_dq])].
Proof.
  split; [|vm_compute; reflexivity].
  apply Forall_cons; [left; vm_compute; repeat split; reflexivity|].
  apply Forall_cons; [left; vm_compute; repeat split; reflexivity|].
  apply Forall_cons; [right; left; exists (S "go:build x"); split; reflexivity|].
  apply Forall_cons; [right; right; exists (S " raw "); split; reflexivity|].
  apply Forall_nil.
Qed.

Print Assumptions C19_preamble_is_doc.
Print Assumptions C19_one_line_with_trailing_newline.
Print Assumptions C19_raw_trailing_newline_detached_refuted.
Print Assumptions C19_raw_inner_newline_refuted.
Print Assumptions C19_inner_terminator_refuted.
