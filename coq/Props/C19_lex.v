(* C19 at lexer level: the cgo preamble is the doc comment of `import "C"`.
   Props/C19.v says which TEXT is emitted; here the skeleton lexer of GoStd/Skeleton.v (the
   part of go/scanner that decides where comments and strings begin and end) is run over it. *)
From Jen Require Import Base.Bytes GoStd.Quote GoStd.Skeleton.
From Jen Require Import Model.Code Model.Naming Model.Render Model.FileRender.
From Jen Require Import Proofs.CommentProofs Proofs.ImportsProofs Proofs.AdjacencyProofs.

(* ---- what renderImports does to a preamble block before writing it ----
   [trim_raw_preamble] (Model/FileRender.v) mirrors
       if strings.HasPrefix(c, "//") || strings.HasPrefix(c, "/*") { c = strings.TrimRight(c, "\n") }
   [is_raw_comment] is the test of Comment.render ([comment_text]): such a text is written
   verbatim. *)

(* Trimming twice is trimming once. *)
Theorem C19_trim_idempotent : forall t,
  trim_raw_preamble (trim_raw_preamble t) = trim_raw_preamble t.
Proof. exact trim_raw_idempotent. Qed.

(* The trimmed form of a raw text does not end in a newline (said with the model's own
   suffix test and as a statement about lists). *)
Theorem C19_trim_raw_no_trailing_newline : forall t, is_raw_comment t = true ->
  has_suffix [x0a] (trim_raw_preamble t) = false /\ forall u, trim_raw_preamble t <> u ++ [x0a].
Proof. exact trim_raw_no_trailing_newline. Qed.

(* A text that is not raw, and a raw text that does not end in a newline, are left alone. *)
Theorem C19_trim_identity : forall t,
  is_raw_comment t = false \/ has_suffix [x0a] t = false -> trim_raw_preamble t = t.
Proof. exact trim_raw_identity. Qed.

(* The result is a prefix of the text, and what is removed is a run of newlines, nothing else. *)
Theorem C19_trim_removes_newlines_only : forall t,
  exists n, t = trim_raw_preamble t ++ repeat x0a n.
Proof. exact trim_raw_prefix. Qed.

(* Together: for a raw text, the result is THE u with t = u ++ newlines and u not ending in a
   newline (strings.TrimRight(t, "\n")). *)
Theorem C19_trim_is_TrimRight : forall t u n, is_raw_comment t = true ->
  t = u ++ repeat x0a n -> has_suffix [x0a] u = false -> trim_raw_preamble t = u.
Proof. exact trim_raw_unique. Qed.

(* Trimming does not change whether the text is raw, and the trimmed raw text is what is
   written. *)
Theorem C19_trim_keeps_form : forall t,
  is_raw_comment (trim_raw_preamble t) = is_raw_comment t /\
  (is_raw_comment t = true -> comment_text (trim_raw_preamble t) = trim_raw_preamble t).
Proof. intros t. split; [apply is_raw_trim | apply trimmed_raw_verbatim]. Qed.

(* ---- adjacency ----
   The domain [preamble_domain]: a text is
     - in the comment domain [in_domain] of CommentProofs.v (it does not start with `//` or
       `/*` and does not contain `*/`): rendered as `// t` when it has no newline and as
       `/*\n t \n*/` when it has one - INCLUDING a one-line text that ends in a newline; or
     - a raw line comment [raw_line]: `//` followed by bytes without a newline
       ([line_form]), followed by ANY NUMBER OF NEWLINES (its only newlines are trailing
       ones); or
     - a raw block comment [raw_block]: `/*` b `*/` with no `*/` inside b ([block_form]),
       followed by any number of newlines.
   Then, for a non-empty preamble c0 :: cs and whatever code [acc] is pending, the lexer run
   over [preamble_block] from code state yields exactly: the pending code; the comment of c0
   (a raw text without its trailing newlines); for each further text ONE newline (a code
   region holding just that byte) and its comment, in the order given; ONE newline and
   `import ` (one code region); the string "C"; and it ends in code with the two final
   newlines pending.  No blank line and no other token stands between the comments or between
   the last comment and the import: the comment group is adjacent to the import declaration,
   which is what cgo requires. *)
Theorem C19_preamble_is_doc : forall c0 cs acc,
  Forall preamble_domain (c0 :: cs) ->
  lex_run MCode acc (preamble_block (c0 :: cs))
  = (flush KCode acc ++ (preamble_kind c0, comment_text (trim_raw_preamble c0)) :: following_regions cs ++
     [(KCode, x0a :: S "import "); (KStr, [c_dq] ++ S "C" ++ [c_dq])],
     MCode, [x0a; x0a]).
Proof. exact preamble_is_doc. Qed.

(* The raw members of the domain, spelled out: what is written for them is the verbatim
   form without the newlines, as one line / one block comment. *)
Theorem C19_raw_line_written : forall r n, contains_byte x0a r = false ->
  let t := S "//" ++ r ++ repeat x0a n in
  preamble_domain t /\ comment_text (trim_raw_preamble t) = S "//" ++ r /\ preamble_kind t = KLine.
Proof. exact raw_line_written. Qed.

Theorem C19_raw_block_written : forall b n, contains (S "*/") b = false ->
  let t := S "/*" ++ b ++ S "*/" ++ repeat x0a n in
  preamble_domain t /\ comment_text (trim_raw_preamble t) = S "/*" ++ b ++ S "*/" /\ preamble_kind t = KBlock.
Proof. exact raw_block_written. Qed.

(* A one-line text ending in a newline is in the domain: jennifer renders it in block style
   (`/*`, newline, text, newline, `*/`, no second newline added; it is not raw, so nothing is
   trimmed), one block comment region, and the theorem above applies: adjacency holds. *)
Theorem C19_one_line_with_trailing_newline : forall t,
  contains_byte x0a t = false -> has_prefix (S "//") t = false -> has_prefix (S "/*") t = false ->
  contains (S "*/") (t ++ [x0a]) = false ->
  in_domain (t ++ [x0a]) /\
  trim_raw_preamble (t ++ [x0a]) = t ++ [x0a] /\
  comment_text (t ++ [x0a]) = S "/*" ++ [x0a] ++ t ++ [x0a] ++ S "*/" /\
  preamble_kind (t ++ [x0a]) = KBlock.
Proof. exact one_line_trailing_newline_in_domain. Qed.

(* A raw `//` form ENDING in a newline: in the domain, written without the newline, adjacent
   to the import (ONE newline in the code region before `import`).
   Before the trailing newlines of raw blocks were removed in renderImports, this text was
   outside the domain and the code produced the detached form
     [(KLine, "//#include <a.h>"); (KCode, [x0a; x0a] ++ "import "); (KStr, "C")]:
   an empty line before the import, so that the comment was not its doc comment and cgo
   ignored it (formerly stated here as C19_raw_trailing_newline_detached_refuted). *)
Example C19_raw_trailing_newline_fixed :
  let t := S "//#include <a.h>" ++ [x0a] in
  preamble_domain t /\
  trim_raw_preamble t = S "//#include <a.h>" /\
  lex_run MCode [] (preamble_block [t])
  = ([(KLine, S "//#include <a.h>"); (KCode, [x0a] ++ S "import "); (KStr, [c_dq] ++ S "C" ++ [c_dq])],
     MCode, [x0a; x0a]).
Proof.
  cbv zeta. split; [|split; vm_compute; reflexivity].
  right. left. exists (S "//#include <a.h>"), 1%nat. split; [reflexivity|].
  exists (S "#include <a.h>"). split; reflexivity.
Qed.

(* What stays excluded, each with the reason (refutations of the statement outside the
   domain): a raw `//` form with an INNER newline puts its second line into code; *)
Theorem C19_raw_inner_newline_refuted :
  let t := S "//a" ++ [x0a] ++ S "b" in
  ~ preamble_domain t /\
  lex_run MCode [] (preamble_block [t])
  = ([(KLine, S "//a"); (KCode, [x0a] ++ S "b" ++ [x0a] ++ S "import "); (KStr, [c_dq] ++ S "C" ++ [c_dq])],
     MCode, [x0a; x0a]).
Proof. exact raw_inner_newline_leaks. Qed.

(* a text containing `*/` ends its block comment early, in block style ... *)
Theorem C19_inner_terminator_refuted :
  let t := S "a*/b" ++ [x0a] ++ S "c" in
  ~ preamble_domain t /\
  lex_run MCode [] (preamble_block [t])
  = ([(KBlock, S "/*" ++ [x0a] ++ S "a*/"); (KCode, S "b" ++ [x0a] ++ S "c" ++ [x0a] ++ S "*/" ++ [x0a] ++ S "import ");
      (KStr, [c_dq] ++ S "C" ++ [c_dq])], MCode, [x0a; x0a]).
Proof. exact inner_terminator_leaks. Qed.

(* ... and in raw block form. *)
Theorem C19_raw_inner_terminator_refuted :
  let t := S "/* a */ b */" in
  ~ preamble_domain t /\
  lex_run MCode [] (preamble_block [t])
  = ([(KBlock, S "/* a */"); (KCode, S " b */" ++ [x0a] ++ S "import "); (KStr, [c_dq] ++ S "C" ++ [c_dq])],
     MCode, [x0a; x0a]).
Proof. exact raw_inner_terminator_leaks. Qed.

(* Non-vacuity: the three styles at once, raw texts with and without trailing newlines. *)
Example C19_lex_example :
  let cgo := [S "#include <a.h>"; S "int f();" ++ [x0a]; S "//export f"; S "/* raw */";
              S "//#include <b.h>" ++ [x0a; x0a]; S "/* c */" ++ [x0a]] in
  Forall preamble_domain cgo /\
  fst (fst (lex_run MCode [] (preamble_block cgo))) =
  [(KLine, S "// #include <a.h>"); (KCode, [x0a]);
   (KBlock, S "/*" ++ [x0a] ++ S "int f();" ++ [x0a] ++ S "*/"); (KCode, [x0a]);
   (KLine, S "//export f"); (KCode, [x0a]);
   (KBlock, S "/* raw */"); (KCode, [x0a]);
   (KLine, S "//#include <b.h>"); (KCode, [x0a]);
   (KBlock, S "/* c */"); (KCode, x0a :: S "import "); (KStr, [c_dq] ++ S "C" ++ [c_dq])].
Proof.
  split; [|vm_compute; reflexivity].
  apply Forall_cons; [left; vm_compute; repeat split; reflexivity|].
  apply Forall_cons; [left; vm_compute; repeat split; reflexivity|].
  apply Forall_cons; [right; left; exists (S "//export f"), 0%nat; split; [reflexivity|];
                      exists (S "export f"); split; reflexivity|].
  apply Forall_cons; [right; right; exists (S "/* raw */"), 0%nat; split; [reflexivity|];
                      exists (S " raw "); split; reflexivity|].
  apply Forall_cons; [right; left; exists (S "//#include <b.h>"), 2%nat; split; [reflexivity|];
                      exists (S "#include <b.h>"); split; reflexivity|].
  apply Forall_cons; [right; right; exists (S "/* c */"), 1%nat; split; [reflexivity|];
                      exists (S " c "); split; reflexivity|].
  apply Forall_nil.
Qed.

(* Non-vacuity of the trimming statements. *)
Example C19_trim_example :
  trim_raw_preamble (S "// a" ++ [x0a; x0a]) = S "// a" /\
  trim_raw_preamble (S "/* a" ++ [x0a] ++ S "*/" ++ [x0a]) = S "/* a" ++ [x0a] ++ S "*/" /\
  trim_raw_preamble (S "int f();" ++ [x0a; x0a]) = S "int f();" ++ [x0a; x0a] /\
  trim_raw_preamble (S "//" ++ [x0a]) = S "//" /\
  trim_raw_preamble [x0a] = [x0a].
Proof. vm_compute. repeat split; reflexivity. Qed.

Print Assumptions C19_trim_idempotent.
Print Assumptions C19_trim_raw_no_trailing_newline.
Print Assumptions C19_trim_identity.
Print Assumptions C19_trim_removes_newlines_only.
Print Assumptions C19_trim_is_TrimRight.
Print Assumptions C19_trim_keeps_form.
Print Assumptions C19_preamble_is_doc.
Print Assumptions C19_raw_line_written.
Print Assumptions C19_raw_block_written.
Print Assumptions C19_one_line_with_trailing_newline.
Print Assumptions C19_raw_trailing_newline_fixed.
Print Assumptions C19_raw_inner_newline_refuted.
Print Assumptions C19_inner_terminator_refuted.
Print Assumptions C19_raw_inner_terminator_refuted.
