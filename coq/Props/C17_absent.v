(* C17: no key is invented.
   Statements only; proofs are lemmas of Proofs/ReviewMiscProofs.v.

   C17_tag_roundtrip says that every key of the map is found with its value.  The review asks
   for the converse: a key that is NOT in the map is not found - whatever the values contain
   (a value such as `x" injected:"y` cannot smuggle a `key:"..."` pair into the tag, because
   the value is printed with strconv.Quote and Lookup skips a quoted value as one unit). *)
From Jen Require Import Base.Bytes Base.Sort GoStd.Quote GoStd.StructTag GoStd.IsPrint Model.Render.
From Jen Require Import Proofs.QuoteProofs Proofs.TagProofs Proofs.ReviewMiscProofs.

(* For every map from conventional keys to ARBITRARY byte strings: reflect.StructTag.Lookup on
   the value of the rendered literal finds no key outside the map (the looked-up key k is
   arbitrary: any byte string). *)
Theorem C17_absent_key : forall kvs : list (str * str),
  Forall conv_key (map fst kvs) -> kvs <> [] ->
  exists body,
    go_string_value (tag_text kvs) = Some body /\
    body = join (S " ") (map (item go_is_print) (isort_by fst kvs)) /\
    forall k, ~ In k (map fst kvs) -> struct_tag_lookup body k = None.
Proof. exact tag_absent_key. Qed.

(* Together with the round trip: Lookup returns a value for k exactly when k is a key of the
   map, and then the map's value. *)
Theorem C17_lookup_exact : forall kvs : list (str * str),
  NoDup (map fst kvs) -> Forall conv_key (map fst kvs) -> kvs <> [] ->
  exists body,
    go_string_value (tag_text kvs) = Some body /\
    forall k v, struct_tag_lookup body k = Some v <-> In (k, v) kvs.
Proof. exact tag_lookup_exact. Qed.

(* Non-vacuity: values that try to inject a pair (closing the quote, a raw backquote, a
   backslash at the end); the injected keys are not found. *)
Example C17_absent_example :
  let kvs := [(S "json", S "a"" injected:""y"); (S "b", [x60] ++ S " raw:""z"" " ++ [x5c])] in
  Forall conv_key (map fst kvs) /\ kvs <> [] /\
  match go_string_value (tag_text kvs) with
  | Some body =>
    map (struct_tag_lookup body) [S "injected"; S "raw"; S "a"; S "y"; []] = [None; None; None; None; None] /\
    map (struct_tag_lookup body) [S "json"; S "b"] = map (fun kv => Some (snd kv)) kvs
  | None => False
  end.
Proof.
  cbv zeta. split; [repeat constructor; discriminate|]. split; [discriminate|].
  vm_compute. split; reflexivity.
Qed.
