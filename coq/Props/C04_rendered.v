(* C04 in the property's words.  Props/C04.v states exactness of the import table in terms of
   [occs], a function computed on the tree.  The property says: "each path referenced by a
   RENDERED QUALIFIED IDENTIFIER".  Here occs is connected to those words: the paths of occs
   are exactly the non-local paths p for which some Qual(p, _) stands at a written position
   of the tree.  Statements only; proofs are lemmas of Proofs/DictGeneralProofs.v. *)
From Jen Require Import Base.Bytes Base.Sort Model.Code Model.Naming Model.Render Model.FileRender.
From Jen Require Import Proofs.NamingProofs Proofs.RenderProofs Proofs.OccsProofs Spec.Pure Proofs.PureProofs
                        Proofs.DictGeneralProofs.
Local Open Scope bool_scope.

(* [rendered_in cfg t c' c] (Proofs/PureProofs.v): the sub-tree c' stands at a position of c
   that is WRITTEN when null-ness is judged at table t - reached through items that are not
   null, Dict pairs whose two sides are not null, and groups that are not an all-null `types`
   list.  (C03_occurrences: the text of such a sub-tree is a contiguous part of the output.)
   [qual gid p n] (Proofs/RenderProofs.v) is the group Qual(p, n) builds.

   [quals_only c]: every package token of c sits in a group EXACTLY as Qual builds it - name
   "qual", no delimiters, separator ".", single line, items: the package token, then the
   identifier.  Qual is the only function of the library that creates a package token
   (jen/tokens.go), so every tree a user can build meets it. *)
Theorem C04_quals_only_group : forall gid name o cl sep multi items,
  quals_only (CGroup gid name o cl sep multi items) =
  if is_qual_items items
  then str_eqb name (S "qual") && str_eqb o [] && str_eqb cl [] && str_eqb sep (S ".") && negb multi
  else forallb quals_only items.
Proof. intros; reflexivity. Qed.

Theorem C04_quals_only_others : forall p items pairs,
  quals_only (CTok (TkPkg p)) = false /\
  quals_only (CStmt items) = forallb quals_only items /\
  quals_only (CDict pairs) = forallb (fun kv => quals_only (fst kv) && quals_only (snd kv)) pairs.
Proof. intros; repeat split; reflexivity. Qed.

Theorem C04_qual_is_quals_only : forall gid p n, quals_only (qual gid p n) = true.
Proof. intros; reflexivity. Qed.

(* OCCS = THE PATHS OF THE RENDERED QUALIFIED IDENTIFIERS.  For every configuration, table
   and quals_only tree: p is in occs iff p is not the local path and some Qual(p, n) stands at
   a written position of the tree. *)
Theorem C04_occs_are_rendered_quals : forall cfg t c, quals_only c = true -> forall p,
  In p (occs cfg t c) <-> is_local cfg p = false /\ exists gid n, rendered_in cfg t (qual gid p n) c.
Proof. exact occs_iff_rendered_qual. Qed.

(* One direction needs no hypothesis on the tree at all: a written qualified identifier of a
   non-local path always puts its path into occs - hence (C04_imports_exact) into the import
   table: no missing import. *)
Theorem C04_rendered_qual_in_occs : forall cfg t q p n c,
  qual_shaped q p n -> is_local cfg p = false -> rendered_in cfg t q c -> In p (occs cfg t c).
Proof. exact rendered_qual_in_occs. Qed.

Theorem C04_qual_shaped_def : forall q p n,
  qual_shaped q p n <->
  exists gid name o cl sep multi, q = CGroup gid name o cl sep multi [CTok (TkPkg p); CTok (TkId n)].
Proof. intros; reflexivity. Qed.

(* For the model's larger tree type - qual_only of Props/C04.v: the two tokens inside a group
   of ANY name and delimiters - the same holds with "a group of that shape" for "Qual" ... *)
Theorem C04_occs_are_rendered_quals_shaped : forall cfg t c, qual_only c = true -> forall p,
  In p (occs cfg t c) <-> is_local cfg p = false /\ exists q n, qual_shaped q p n /\ rendered_in cfg t q c.
Proof. exact occs_iff_rendered_qual_shaped. Qed.

(* ... and with the very term [qual gid p n] it is FALSE there (not reachable through the
   API): a group `list` holding the two tokens registers the path, and no sub-tree is a Qual. *)
Theorem C04_occs_are_rendered_quals_loose_refuted :
  exists cfg t c p, qual_only c = true /\ In p (occs cfg t c) /\
                    ~ exists gid n, rendered_in cfg t (qual gid p n) c.
Proof. exact occs_iff_rendered_qual_loose_refuted. Qed.

(* EXACTNESS, IN THE PROPERTY'S WORDS.  After File.Render of a File whose body is quals_only:
   the table from which the import block is printed (each entry once: C04_block_lists_each_once)
   holds exactly
     - the paths the File's table held before the render (a freshly built File: its Anon set,
       C04_anon_set), and
     - the non-local paths referenced by a rendered qualified identifier
   and nothing else.  "Rendered" may be judged at the table before the render or at the one
   after it: the written positions are the same (second part). *)
Theorem C04_imports_exact_rendered : forall f t1 raw,
  cfg_ok (file_cfg f) -> forallb quals_only (f_items f) = true -> file_raw f = Ok (t1, raw) ->
  (forall p, In p (akeys t1) <->
             In p (akeys (f_imports f)) \/
             (is_local (file_cfg f) p = false /\
              exists gid n, rendered_in (file_cfg f) t1 (qual gid p n) (file_group f))) /\
  (forall c', rendered_in (file_cfg f) (f_imports f) c' (file_group f) <->
              rendered_in (file_cfg f) t1 c' (file_group f)).
Proof. exact file_imports_exact_rendered. Qed.

Theorem C04_imports_exact_rendered_shaped : forall f t1 raw,
  cfg_ok (file_cfg f) -> forallb qual_only (f_items f) = true -> file_raw f = Ok (t1, raw) ->
  forall p, In p (akeys t1) <->
            In p (akeys (f_imports f)) \/
            (is_local (file_cfg f) p = false /\
             exists q n, qual_shaped q p n /\ rendered_in (file_cfg f) t1 q (file_group f)).
Proof. exact file_imports_exact_rendered_shaped. Qed.

(* ------------------------------------------------------------------ example *)
(* The File of C04_example (Props/C04.v): local path, prefix, two Anon imports, an unused
   ImportName hint, a dot alias; the body has a Null() between two references, a Dict with a
   pair whose value is null (its key references dead/key) and a live pair, an all-null
   type-parameter list, and a block with a local and a std reference. *)
Definition C04r_file : file :=
  let f := new_file_path_name (S "my/pkg") (S "pkg") in
  let f := anon f [S "x/anon"; S "a.b/d"] in
  let f := import_name f (S "never/used") (S "nu") in
  let f := import_alias f (S "dot/pkg") (S ".") in
  let f := set_prefix f (S "pp") in
  let f := add_item f (CStmt [qual 1 (S "a.b/d") (S "A"); CTok TkNull; qual 2 (S "c.b/d") (S "B")]) in
  let f := add_item f (CStmt [CDict [(qual 3 (S "dead/key") (S "K"), CTok TkNull);
                                     (qual 4 (S "live/key") (S "K"), qual 5 (S "dot/pkg") (S "V"))]]) in
  let f := add_item f (CGroup 6 s_types (S "[") (S "]") (S ",") false [CTok TkNull; CStmt []]) in
  add_item f (CGroup 7 (S "block") (S "{") (S "}") [] true
                [CStmt [qual 8 (S "my/pkg") (S "Local"); qual 9 (S "fmt") (S "Println")]]).

Lemma C04r_cfg_ok : cfg_ok (file_cfg C04r_file).
Proof.
  split; [|right; reflexivity]. intros p h. simpl.
  destruct (str_eqb p (S "never/used")).
  - intros E. injection E as <-. right. right. split; [reflexivity|]. split; discriminate.
  - destruct (str_eqb p (S "dot/pkg")); [|discriminate]. intros E. injection E as <-. right. left. reflexivity.
Qed.

(* the hypotheses hold; Qual("fmt", "Println") inside the block is a rendered qualified
   identifier (so "fmt" is imported); and - USING the theorem - no Qual("dead/key", _) stands
   at a written position, because "dead/key" is not in the computed table *)
Example C04_rendered_example :
  let f := C04r_file in
  cfg_ok (file_cfg f) /\ forallb quals_only (f_items f) = true /\
  match file_raw f with
  | Ok (t1, _) =>
    akeys t1 = [S "x/anon"; S "a.b/d"; S "c.b/d"; S "live/key"; S "dot/pkg"; S "fmt"] /\
    rendered_in (file_cfg f) t1 (qual 9 (S "fmt") (S "Println")) (file_group f) /\
    ~ exists gid n, rendered_in (file_cfg f) t1 (qual gid (S "dead/key") n) (file_group f)
  | Panic _ => False
  end.
Proof.
  cbv zeta. split; [exact C04r_cfg_ok|]. split; [vm_compute; reflexivity|].
  destruct (file_raw C04r_file) as [[t1 raw]|m] eqn:E; [|vm_compute in E; discriminate].
  assert (Hk : akeys t1 = [S "x/anon"; S "a.b/d"; S "c.b/d"; S "live/key"; S "dot/pkg"; S "fmt"]).
  { vm_compute in E. injection E as <- _. reflexivity. }
  split; [exact Hk|]. split.
  - assert (Ht : t1 = fst (match file_raw C04r_file with Ok r => r | Panic _ => ([], []) end)) by (rewrite E; reflexivity).
    vm_compute in Ht. subst t1.
    eapply ri_group with (x := CGroup 7 (S "block") (S "{") (S "}") [] true
                                  [CStmt [qual 8 (S "my/pkg") (S "Local"); qual 9 (S "fmt") (S "Println")]]);
      [reflexivity | right; right; right; left; reflexivity | reflexivity|].
    eapply ri_group with (x := CStmt [qual 8 (S "my/pkg") (S "Local"); qual 9 (S "fmt") (S "Println")]);
      [reflexivity | left; reflexivity | reflexivity|].
    eapply ri_stmt with (x := qual 9 (S "fmt") (S "Println")); [right; left; reflexivity | reflexivity | apply ri_here].
  - intros Hex.
    destruct (C04_imports_exact_rendered C04r_file t1 raw C04r_cfg_ok eq_refl E) as [Hexact _].
    assert (Hin : In (S "dead/key") (akeys t1)) by (apply Hexact; right; split; [reflexivity | exact Hex]).
    rewrite Hk in Hin. simpl in Hin. intuition discriminate.
Qed.
