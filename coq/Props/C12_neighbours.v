(* C12, "none of its characters leak into the surrounding code": the one place where the
   renderer lets the CONTENT of a neighbouring token decide the layout of a group is the
   case-block rule (a Block directly after a Case group or the `default` keyword is written
   without braces; group.go, Model/Render.v: is_case_or_default / case_ctx).  Before /repo
   8235fd5 that rule compared only the content of the previous token, so Lit("default") (or
   Id("default")) in front of a chained Block removed the block's braces.  These theorems
   state that NO literal, identifier or package token - whatever its value - is ever taken
   for a case clause, hence a Block that follows one keeps its braces. *)
From Coq Require Import List NArith Bool.
From Jen Require Import Base.Bytes Model.Code Model.Naming Model.Render.
Import ListNotations.
Local Open Scope N_scope.

Theorem C12_value_tokens_never_open_a_case_clause : forall (l : lit) r b s p,
  is_case_or_default (CTok (TkLit l)) = false /\
  is_case_or_default (CTok (TkRune r)) = false /\
  is_case_or_default (CTok (TkByte b)) = false /\
  is_case_or_default (CTok (TkId s)) = false /\
  is_case_or_default (CTok (TkPkg p)) = false.
Proof. intros; repeat split; reflexivity. Qed.

(* the item directly in front of the first occurrence of the group [gid] is what the rule looks at *)
Lemma prev_of_app : forall gid pre prev x name o cl sep multi items rest,
  (forall g n o' c' s' m' its, In (CGroup g n o' c' s' m' its) pre -> g <> gid) ->
  prev_of gid prev (pre ++ x :: CGroup gid name o cl sep multi items :: rest) =
  match x with
  | CGroup g _ _ _ _ _ _ => if g =? gid then match rev pre with p :: _ => Some p | [] => prev end else Some x
  | _ => Some x
  end.
Proof.
  intros gid pre. induction pre as [|a pre IH]; intros prev x name o cl sep multi items rest Hpre.
  - cbn [app rev].
    destruct x as [| | | tk | g n o' c' s' m' its | its | ps | kvs | cm];
      try (cbn [prev_of]; rewrite N.eqb_refl; reflexivity).
  - cbn [app]. assert (Hpre' : forall g n o' c' s' m' its, In (CGroup g n o' c' s' m' its) pre -> g <> gid).
    { intros g n o' c' s' m' its Hin. eapply Hpre. right. exact Hin. }
    assert (Hstep : prev_of gid prev (a :: pre ++ x :: CGroup gid name o cl sep multi items :: rest) =
                    prev_of gid (Some a) (pre ++ x :: CGroup gid name o cl sep multi items :: rest)).
    { destruct a as [| | | tk | g n o' c' s' m' its | its | ps | kvs | cm]; cbn [prev_of]; try reflexivity.
      destruct (N.eqb_spec g gid) as [E|E]; [|reflexivity].
      exfalso. eapply (Hpre g). left. reflexivity. exact E. }
    rewrite Hstep. rewrite (IH (Some a) x name o cl sep multi items rest Hpre').
    destruct x as [| | | tk | g n o' c' s' m' its | its | ps | kvs | cm]; try reflexivity.
    destruct (g =? gid); [|reflexivity].
    cbn [rev]. destruct (rev pre) as [|p q] eqn:Er; cbn [app]; reflexivity.
Qed.

(* A Block (any group) whose previous item in its statement is a literal, identifier or
   package token is not in case context, whatever the token's value: it keeps its braces. *)
Theorem C12_block_after_a_value_token_keeps_its_braces :
  forall gid pre tk name o cl sep multi items rest,
  (forall g n o' c' s' m' its, In (CGroup g n o' c' s' m' its) pre -> g <> gid) ->
  (forall s, tk <> TkText s) ->
  case_ctx (pre ++ CTok tk :: CGroup gid name o cl sep multi items :: rest)
           (CGroup gid name o cl sep multi items) = false.
Proof.
  intros gid pre tk name o cl sep multi items rest Hpre Htk.
  unfold case_ctx. rewrite (prev_of_app gid pre None (CTok tk) name o cl sep multi items rest Hpre).
  destruct tk; try reflexivity. exfalso. eapply Htk. reflexivity.
Qed.

(* the exemplar of the fixed finding: If().Id("mode").Op("==").Lit("default").Block(Return()) *)
Example C12_lit_default_before_block :
  let blk := CGroup 7 s_block (S "{") (S "}") [] true [CStmt [CTok (TkText (S "return"))]] in
  let st := [CTok (TkText (S "if")); CTok (TkId (S "mode")); CTok (TkText (S "==")); CTok (TkLit (LStr (S "default"))); blk] in
  case_ctx st blk = false /\
  render (mkcfg [] [] []) false [] (CStmt st) =
    Ok ([], S "if mode == ""default"" {" ++ [x0a] ++ S "return" ++ [x0a] ++ S "}").
Proof. split; vm_compute; reflexivity. Qed.

Print Assumptions C12_value_tokens_never_open_a_case_clause.
Print Assumptions C12_block_after_a_value_token_keeps_its_braces.
Print Assumptions C12_lit_default_before_block.
