(* C16: Dict renders every non-null pair exactly once, in key order.
   Statements only; proofs are lemmas of Proofs/DictProofs.v. *)
From Jen Require Import Base.Bytes Base.Sort Model.Code Model.Naming Model.Render Gen.Tables.
From Jen Require Import Proofs.DictProofs.
From Coq Require Import Permutation Sorted.

(* For every Dict - any number of pairs in any iteration order, any key and value
   expressions - at a table where the surviving keys and values are settled (they render
   without registering a new import: literals, identifiers, calls, qualified identifiers of
   packages already imported; [txt] gives their texts): the body is made of exactly the
   pairs whose key and value are both non-null, each once, `key:value`, sorted by key text;
   nothing for no pair, the pair inline for one, one `key:value,` per line for several; and
   the table is untouched. *)
Theorem C16_dict_spec : forall cfg t txt ctx pairs,
  settled cfg t txt pairs ->
  render cfg ctx t (CDict pairs) =
  Ok (t, dict_body (isort_by fst (map (pair_txt txt) (filter (live cfg t) pairs)))).
Proof. exact dict_spec. Qed.

(* the sorted list is a permutation of the surviving pairs (none dropped, none duplicated,
   keys stay attached to their values) and is in non-decreasing key order *)
Theorem C16_each_pair_once_in_key_order : forall (kvs : list (str * str)),
  Permutation (isort_by fst kvs) kvs /\ StronglySorted (key_le fst) (isort_by fst kvs).
Proof. intros kvs. split; [apply isort_by_perm | apply isort_by_sorted]. Qed.

(* a Dict is null (renders nothing, is skipped by its parent) iff no pair survives *)
Theorem C16_null_iff_no_pair : forall cfg t pairs,
  is_null cfg t (CDict pairs) = true <-> filter (live cfg t) pairs = [].
Proof. exact dict_null_iff. Qed.

(* Values(Dict{...}) is `{` body `}`: always a well-formed composite-literal body *)
Theorem C16_values_dict : forall cfg t txt ctx gid pairs,
  settled cfg t txt pairs ->
  render cfg ctx t (CGroup gid s_values (S "{") (S "}") (S ",") false [CDict pairs]) =
  Ok (t, S "{" ++ dict_body (isort_by fst (map (pair_txt txt) (filter (live cfg t) pairs))) ++ S "}").
Proof. exact values_dict_spec. Qed.

(* Non-vacuity: null key, null value, keys that are prefixes of each other, two keys with
   the same text (both pairs are kept). *)
Example C16_example :
  let cfg := mkcfg [] [] [] in
  let id s := CStmt [CTok (TkId s)] in
  let d := CDict [(id (S "ab"), id (S "1")); (CTok TkNull, id (S "2")); (id (S "a"), id (S "3"));
                  (id (S "c"), CNil); (id (S "a"), id (S "4")); (id (S "a b"), id (S "5"))] in
  render cfg false [] (CGroup 1 s_values (S "{") (S "}") (S ",") false [d]) =
  Ok ([], S "{" ++ [x0a] ++ S "a:3," ++ [x0a] ++ S "a:4," ++ [x0a] ++ S "a b:5," ++ [x0a] ++ S "ab:1," ++ [x0a] ++ S "}").
Proof. vm_compute. reflexivity. Qed.
