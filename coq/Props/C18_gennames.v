(* C18, second half: "The gennames tool, run on the installed toolchain, produces a name
   table with the same guarantee."

   Two theorems families carry this, and they fit together as follows.

   * Props/C18.v, C18_gennames_true: the table the tool ACTUALLY printed on this toolchain
     (Gen/Gennames.v, regenerated on every run by running the tool built from /repo) is true:
     every entry whose path is an importable package of GOROOT/src carries that package's
     declared name.  That is a statement about one listing - the real one.

   * This file: what the tool does with EVERY listing.  The model (Model/Gennames.v) is
     getPackages' line processing plus the jennifer file hints() builds, statement by
     statement; it is compared with the real tool on adversarial listings printed by a stub
     `go` executable (harness stream gennames-stub: table, order of the printed entries,
     bytes of the file, panics, failures).  The theorems say the processing is
     NAME-PRESERVING: an entry (path, name) of the printed table is always the second and
     third field of a line of the listing of the requested -standard class, with only a
     vendor prefix removed from the path; the tool never guesses, derives or invents a name
     (in particular it never takes the last path element).  So the truth of the printed
     table reduces to the truth of `go list`'s {{.ImportPath}} {{.Name}} pairs - and that is
     what C18_gennames_true checks against the package clauses of GOROOT/src for the real
     listing.  Together: on the installed toolchain the table is true, and for any other
     listing the tool can only repeat what `go list` said.

   Statements only; every proof is `exact` of a lemma of Proofs/GennamesProofs.v.

   Notation: a line is split at single spaces (strings.Split): split_on x20 line = t :: p ::
   n :: extra means the line has at least three fields, t the -standard flag, p the import
   path, n the package name.  gn_fold o [] lines is getPackages' loop over the lines
   (Ok table, or Panic when the Go code indexes past the end of a short line);
   gn_lines out are the lines of what `go list` printed (TrimSpace, split at newlines), and
   gn_packages o out = gn_fold o [] (gn_lines out) by definition: every theorem below about
   "lines" speaks about the text `go list` printed by taking lines := gn_lines out. *)
From Jen Require Import Base.Bytes Base.Sort GoStd.Quote Model.Code Model.Render Model.FileRender Model.Gennames.
From Jen Require Import Proofs.DictProofs Proofs.GennamesProofs.
From Coq Require Import Permutation Sorted.

(* THE TABLE, EXACTLY.  If the loop survives, the table has one entry per path, and the name
   stored for a path k is: the name field of the FIRST line offering k with a NON-EMPTY name;
   the empty name if lines offer k but all with empty names; no entry if no line offers k.
   A line "offers" (unvendor p, n) iff it has >= 3 fields, its flag equals -standard, it is
   not vendored under -novendor, n is not "main" and the filter accepts p (gn_kept).
   (Go: `if packages[path] != "" { continue }` - an empty name does not block.) *)
Theorem C18_gennames_table_spec : forall o lines tbl,
  gn_fold o [] lines = Ok tbl ->
  NoDup (map fst tbl) /\ forall k, alookup k tbl = gn_first k (gn_entries o lines).
Proof. exact gennames_table_spec. Qed.

(* A well-formed line `flag p n ...` of the requested class (not main, accepted by the
   filter, not vendored when -novendor is given) with a non-empty name lands in the table as
   (unvendor p, n), whatever lines surround it - unless an EARLIER line offers the same
   unvendored path with a non-empty name (hypothesis 7; then that one stays, next theorem).
   Later lines never change it. *)
Theorem C18_gennames_line : forall o pre line post tbl t p n extra,
  split_on x20 line = t :: p :: n :: extra ->
  str_eqb t s_true = o_standard o -> n <> s_main -> o_filter o p = true ->
  (o_novendor o = true -> has_vendor p = false) ->
  n <> [] ->
  (forall l n', In l pre -> gn_kept o l = Some (unvendor p, n') -> n' = []) ->
  gn_fold o [] (pre ++ line :: post) = Ok tbl ->
  alookup (unvendor p) tbl = Some n /\ In (unvendor p, n) tbl.
Proof. exact gennames_line. Qed.

(* First wins: once a line has given a non-empty name for k, no later line changes it. *)
Theorem C18_gennames_first_wins : forall o pre l0 rest tbl k n0,
  gn_kept o l0 = Some (k, n0) -> n0 <> [] ->
  (forall l n', In l pre -> gn_kept o l = Some (k, n') -> n' = []) ->
  gn_fold o [] (pre ++ l0 :: rest) = Ok tbl ->
  alookup k tbl = Some n0.
Proof. exact gennames_line_beaten. Qed.

(* NEVER INVENTED.  Every entry (k, n) of the table comes from a line of the listing: n is
   that line's third field, k is its second field with the vendor prefix removed, the
   line's flag is the requested -standard class, n is not "main", the filter accepted the
   (vendored) path; under -novendor the line is not vendored and k is the listed path itself. *)
Theorem C18_gennames_only_listed_names : forall o lines tbl k n,
  gn_fold o [] lines = Ok tbl -> In (k, n) tbl ->
  exists line t p extra, In line lines /\ split_on x20 line = t :: p :: n :: extra /\ k = unvendor p /\
    str_eqb t s_true = o_standard o /\ n <> s_main /\ o_filter o p = true /\
    (o_novendor o = true -> has_vendor p = false /\ k = p).
Proof. exact gennames_only_listed. Qed.

(* A line naming package main contributes nothing: with or without it the outcome is the
   same (whatever the flags), and no entry of any table has the name "main". *)
Theorem C18_gennames_main_skipped : forall o tbl0 pre line post t p extra,
  split_on x20 line = t :: p :: s_main :: extra ->
  gn_fold o tbl0 (pre ++ line :: post) = gn_fold o tbl0 (pre ++ post).
Proof. exact gennames_main_skipped. Qed.

Theorem C18_gennames_no_main_entry : forall o lines tbl k,
  gn_fold o [] lines = Ok tbl -> ~ In (k, s_main) tbl.
Proof. exact gennames_no_main. Qed.

(* A line of the other -standard class (first field = "true" differs from the -standard
   flag: non-standard lines under -standard, standard lines without it) contributes
   nothing, however many fields it has - it is dropped before its other fields are read. *)
Theorem C18_gennames_nonstandard_skipped : forall o tbl0 pre line post,
  str_eqb (hd [] (split_on x20 line)) s_true <> o_standard o ->
  gn_fold o tbl0 (pre ++ line :: post) = gn_fold o tbl0 (pre ++ post).
Proof. exact gennames_nonstandard_skipped. Qed.

(* FINDING (tool robustness, not a wrong name): the loop panics - index out of range, no file
   is written - exactly when some line of the requested class has fewer than three fields.
   Without -standard this includes an EMPTY listing (one empty line, whose flag is not
   "true") and a listing whose last line has an empty name (`go list -e` prints an empty
   {{.Name}} for a directory it cannot load; TrimSpace removes the trailing space). *)
Theorem C18_gennames_panics_iff : forall o lines,
  (exists m, gn_fold o [] lines = Panic m) <->
  exists line, In line lines /\ gn_selected o line = true /\ (length (split_on x20 line) < 3)%nat.
Proof. exact gennames_panics_iff. Qed.

(* WHAT IS PRINTED.  The generated file, before go/format, is this text: the header, the
   package clause, the comment and  var <name> = map[string] string {<body>}  where <body>
   lists every entry once as strconv.Quote(path):strconv.Quote(name), sorted by the QUOTED
   path (jennifer's Dict), one per line when there are two or more.  The import table of
   the file stays empty.  (C12: each quoted text reads back as exactly the path / name.) *)
Theorem C18_gennames_file_text : forall pkg name tbl,
  file_raw (gn_file pkg name tbl) = Ok ([], gn_text pkg name tbl).
Proof. exact gn_file_raw. Qed.

Theorem C18_gennames_body_entries : forall tbl,
  gn_body tbl = dict_body (gn_quoted (gn_printed tbl)) /\
  Permutation (gn_printed tbl) tbl /\
  StronglySorted (fun a b => str_leb (GoQuote (fst a)) (GoQuote (fst b)) = true) (gn_printed tbl).
Proof. exact gn_body_entries. Qed.

(* the whole run has three outcomes and no other *)
Theorem C18_gennames_run : forall o pkg name golist,
  gn_run o pkg name golist =
  match golist with
  | None => GnGoListFailed
  | Some out => match gn_packages o out with
                | Panic m => GnPanic m
                | Ok tbl => GnWritten tbl (gn_text pkg name tbl)
                end
  end.
Proof. exact gn_run_spec. Qed.

(* DETERMINISM 1: the iteration order of the Go map `packages` (range over a map in
   hints()) does not show in the file: any two orders of a table with distinct paths print
   the same text. *)
Theorem C18_gennames_map_order_irrelevant : forall pkg name tbl tbl',
  Permutation tbl tbl' -> NoDup (map fst tbl) ->
  file_raw (gn_file pkg name tbl) = file_raw (gn_file pkg name tbl').
Proof. exact gn_file_perm_invariant. Qed.

(* DETERMINISM 2: when the lines that are kept have pairwise distinct paths after vendor
   stripping, the order of the listing's lines does not matter: same table (as a map), same
   printed order, same file. *)
Theorem C18_gennames_line_order_irrelevant : forall o lines lines' tbl,
  Permutation lines lines' -> NoDup (map fst (gn_entries o lines)) ->
  gn_fold o [] lines = Ok tbl ->
  exists tbl', gn_fold o [] lines' = Ok tbl' /\ Permutation tbl tbl' /\ gn_printed tbl = gn_printed tbl' /\
    forall pkg name, file_raw (gn_file pkg name tbl) = file_raw (gn_file pkg name tbl').
Proof. exact gennames_lines_order. Qed.

(* ... and WITHOUT that hypothesis it is false: two lines that strip to the same path with
   different names give different tables in the two orders (first wins).  With -standard
   -novendor (how jen/hints.go is made) vendored lines are dropped and `go list` lists each
   path once, so the hypothesis holds there; without -novendor the result depends on the
   order in which `go list` prints vendor/... and cmd/vendor/... copies. *)
Theorem C18_gennames_line_order_irrelevant_unrestricted_refuted :
  exists o l1 l2 t1 t2, Permutation l1 l2 /\ gn_fold o [] l1 = Ok t1 /\ gn_fold o [] l2 = Ok t2 /\ t1 <> t2.
Proof. exact gennames_order_refuted. Qed.

(* ---- Examples: the hypotheses are satisfiable, and what the rules mean on a listing ---- *)
Definition ex_listing : str :=
  S "true archive/tar tar" ++ [x0a] ++
  S "true cmd/go main" ++ [x0a] ++
  S "false example.com/x x" ++ [x0a] ++
  S "true cmd/vendor/golang.org/x/net/idna idna" ++ [x0a] ++
  S "true vendor/golang.org/x/net/idna shadowed" ++ [x0a] ++
  S "true net/http http" ++ [x0a].

(* -standard: main and the non-standard line are gone, the vendor prefix is stripped, the
   first of the two idna lines wins *)
Example C18_gennames_example_standard :
  gn_packages (mkopts true false (fun _ => true)) ex_listing =
  Ok [(S "archive/tar", S "tar"); (S "golang.org/x/net/idna", S "idna"); (S "net/http", S "http")].
Proof. vm_compute. reflexivity. Qed.

(* -standard -novendor: the vendored lines are gone too *)
Example C18_gennames_example_novendor :
  gn_packages (mkopts true true (fun _ => true)) ex_listing =
  Ok [(S "archive/tar", S "tar"); (S "net/http", S "http")].
Proof. vm_compute. reflexivity. Qed.

(* no -standard: only the non-standard line *)
Example C18_gennames_example_user :
  gn_packages (mkopts false false (fun _ => true)) ex_listing = Ok [(S "example.com/x", S "x")].
Proof. vm_compute. reflexivity. Qed.

(* the hypotheses of C18_gennames_line hold for the net/http line of the example *)
Example C18_gennames_line_example :
  let o := mkopts true true (fun _ => true) in
  let line := S "true net/http http" in
  exists pre post, gn_lines ex_listing = pre ++ line :: post /\
    split_on x20 line = [S "true"; S "net/http"; S "http"] /\
    str_eqb (S "true") s_true = o_standard o /\ S "http" <> s_main /\ has_vendor (S "net/http") = false /\
    (forall l n', In l pre -> gn_kept o l = Some (unvendor (S "net/http"), n') -> n' = []).
Proof.
  exists [S "true archive/tar tar"; S "true cmd/go main"; S "false example.com/x x";
          S "true cmd/vendor/golang.org/x/net/idna idna"; S "true vendor/golang.org/x/net/idna shadowed"], [].
  split; [vm_compute; reflexivity|]. split; [vm_compute; reflexivity|]. split; [reflexivity|].
  split; [discriminate|]. split; [vm_compute; reflexivity|].
  intros l n' Hin. repeat (destruct Hin as [<-|Hin]; [vm_compute; discriminate|]). destruct Hin.
Qed.

(* the panic: an empty listing without -standard; a last line with an empty name *)
Example C18_gennames_panic_examples :
  gn_packages (mkopts false false (fun _ => true)) [] = Panic s_index_1_1 /\
  gn_packages (mkopts true false (fun _ => true)) [] = Ok [] /\
  gn_packages (mkopts false false (fun _ => true)) (S "false example.com/a a" ++ [x0a] ++ S "false example.com/broken " ++ [x0a])
    = Panic s_index_2_2.
Proof. vm_compute. repeat split; reflexivity. Qed.

(* an empty name does not block a later line; CRLF listings keep the carriage return in the
   name (so `main\r` is not recognised as main) *)
Example C18_gennames_corner_examples :
  gn_packages (mkopts false false (fun _ => true)) (S "false a " ++ [x0a] ++ S "false a x" ++ [x0a] ++ S "false a y" ++ [x0a])
    = Ok [(S "a", S "x")] /\
  gn_packages (mkopts true false (fun _ => true)) (S "true cmd/go main" ++ [x0d; x0a] ++ S "true fmt fmt" ++ [x0d; x0a])
    = Ok [(S "cmd/go", S "main" ++ [x0d]); (S "fmt", S "fmt")].
Proof. vm_compute. repeat split; reflexivity. Qed.

(* the printed file of a two-entry table, and of the same table iterated the other way *)
Example C18_gennames_file_example :
  file_raw (gn_file (S "names") (S "T") [(S "os", S "os"); (S "fmt", S "fmt")]) =
  Ok ([], S "// This file is generated - do not edit." ++ [x0a; x0a] ++ S "package names" ++ [x0a; x0a; x0a; x0a; x0a] ++
          S "// T contains package name hints" ++ [x0a] ++ S "var T = map[string] string {" ++ [x0a] ++
          [x22] ++ S "fmt" ++ [x22] ++ S ":" ++ [x22] ++ S "fmt" ++ [x22] ++ S "," ++ [x0a] ++
          [x22] ++ S "os" ++ [x22] ++ S ":" ++ [x22] ++ S "os" ++ [x22] ++ S "," ++ [x0a] ++ S "}") /\
  file_raw (gn_file (S "names") (S "T") [(S "fmt", S "fmt"); (S "os", S "os")]) =
  file_raw (gn_file (S "names") (S "T") [(S "os", S "os"); (S "fmt", S "fmt")]).
Proof. vm_compute. split; reflexivity. Qed.
