(* C04: the import block is exact - used paths and anonymous imports, nothing else.
   Statements only; every proof is `exact` of a lemma of Proofs/OccsProofs.v. *)
From Jen Require Import Base.Bytes Base.Sort Model.Code Model.Naming Model.Render Model.FileRender GoStd.Quote.
From Jen Require Import Proofs.NamingProofs Proofs.RenderProofs Proofs.ImportsProofs Proofs.NullProofs Proofs.OccsProofs.
From Coq Require Import Permutation.
Local Open Scope bool_scope.

(* [occs cfg t c] (Proofs/OccsProofs.v) is the spec: the set of non-local paths that the
   tree c references where rendering looks - computed on the tree alone.  A package token
   gives its path; a group gives, per item, the path of a package-token item (Group.renderItems
   registers it before it asks whether the item is null) and the occs of every non-null item;
   a statement the occs of its non-null items; a Dict the occs of key and value of the pairs
   of which neither side is null; an all-null `types` group, Tag, Comment, nil: nothing. *)

(* T1a.  For every tree, context and table (hints and prefix legal, cfg_ok): a successful
   render ends with a table whose paths are exactly the paths it started with and those of
   occs; and it touches the entry of no other path. *)
Theorem C04_render_registers_occs : forall cfg, cfg_ok cfg -> forall c ctx t t1 s,
  render cfg ctx t c = Ok (t1, s) ->
  (forall p, In p (akeys t1) <-> In p (akeys t) \/ In p (occs cfg t c)) /\
  (forall q, ~ In q (occs cfg t c) -> alookup q t1 = alookup q t).
Proof. exact render_occs_exact. Qed.

(* EXACTNESS for File.Render.  The table from which the import block is printed has exactly
   the paths the File's table held before the render - for a freshly built File that is the
   Anon set, see C04_anon_set - and the paths the body references (occs of the body); all of
   the latter carry a registration (a name other than "_"), and the entries of all other
   paths - the Anon entries - are untouched. *)
Theorem C04_imports_exact : forall f t1 raw,
  cfg_ok (file_cfg f) -> file_raw f = Ok (t1, raw) ->
  forall p, In p (akeys t1) <->
            In p (akeys (f_imports f)) \/ In p (occs (file_cfg f) (f_imports f) (file_group f)).
Proof. exact file_imports_exact. Qed.

Theorem C04_imports_entries : forall f t1 raw,
  cfg_ok (file_cfg f) -> file_raw f = Ok (t1, raw) ->
  (forall q, ~ In q (occs (file_cfg f) (f_imports f) (file_group f)) -> alookup q t1 = alookup q (f_imports f)) /\
  (forall p, In p (occs (file_cfg f) (f_imports f) (file_group f)) -> exists q, registered_name t1 p = Some q).
Proof. exact file_imports_entries. Qed.

(* The table of a new File is empty, and Anon adds exactly its paths (each with the name
   "_", which does not count as a registration: a later reference replaces it, see C03). *)
Theorem C04_anon_set : forall f ps p,
  In p (akeys (f_imports (anon f ps))) <-> In p (akeys (f_imports f)) \/ In p ps.
Proof. exact anon_dom. Qed.

Theorem C04_new_file_empty : forall name path,
  f_imports (new_file name) = [] /\ f_imports (new_file_path path) = [] /\ f_imports (new_file_path_name path name) = [].
Proof. intros. repeat split; reflexivity. Qed.

(* The block lists every entry exactly once.  With pairwise distinct paths in the table
   (kept by Anon and by every render, below): the text is the main declaration over the
   entries [listed] - all of them, minus "C" when a cgo preamble exists - followed by the
   preamble and `import "C"` iff a preamble exists; the main declaration (main_block, see
   Proofs/ImportsProofs.v) prints one line per element of `isort_by fst listed`, which is a
   permutation of `listed` without repeated paths. *)
Theorem C04_block_lists_each_once : forall t cgo,
  NoDup (akeys t) ->
  render_imports t cgo = main_block (listed t cgo) ++ (if nonempty_list cgo then preamble_block cgo else []) /\
  Permutation (isort_by fst (listed t cgo)) (listed t cgo) /\
  NoDup (akeys (isort_by fst (listed t cgo))) /\
  (forall p d, In (p, d) (listed t cgo) <-> In (p, d) t /\ (cgo = [] \/ p <> s_C)).
Proof. exact imports_block_exact. Qed.

(* ... and the line of every entry is in the text ("C" under the preamble when there is one). *)
Theorem C04_block_has_every_entry : forall t cgo p d,
  In (p, d) t -> exists pre post, render_imports t cgo = pre ++ import_spec p d ++ [x0a] ++ post.
Proof. exact render_imports_has_spec. Qed.

(* No path is ever listed twice: distinctness of the paths is kept by Anon and by File.Render
   (no hypothesis on hints or prefix is needed for this). *)
Theorem C04_paths_stay_distinct : forall f,
  NoDup (akeys (f_imports f)) ->
  (forall ps, NoDup (akeys (f_imports (anon f ps)))) /\
  (forall t1 raw, file_raw f = Ok (t1, raw) -> NoDup (akeys t1)).
Proof. exact paths_stay_distinct. Qed.

(* HINTS ARE INERT.  ImportName / ImportNames / ImportAlias only write the hint table ... *)
Theorem C04_hint_calls_leave_imports : forall f path name m,
  f_imports (import_name f path name) = f_imports f /\
  f_imports (import_alias f path name) = f_imports f /\
  f_imports (import_names f m) = f_imports f.
Proof. intros. repeat split; reflexivity. Qed.

(* ... and the hint table (and the prefix) has no influence on WHICH paths a render
   registers: two renders of the same body from the same table under configurations with the
   same local path end with the same set of paths - so a hint for a path that is never
   referenced produces no import, and a hint for a referenced path (even "." ) neither
   removes nor adds one.  Hypothesis qual_only: every package token of the body sits where
   Qual puts it, first in a group that ends with the identifier.  Qual is the only function
   of the library that creates a package token (jen/tokens.go:265), so every tree a user
   can build meets it; it matters for the model's larger tree type, see the next theorem. *)
Theorem C04_hints_inert : forall cfg cfg' c ctx ctx' t t1 s t1' s',
  cfg_ok cfg -> cfg_ok cfg' -> cfg_path cfg = cfg_path cfg' -> qual_only c = true ->
  render cfg ctx t c = Ok (t1, s) -> render cfg' ctx' t c = Ok (t1', s') ->
  forall p, In p (akeys t1) <-> In p (akeys t1').
Proof. exact hints_inert. Qed.

Theorem C04_hints_inert_occs : forall cfg cfg', cfg_path cfg = cfg_path cfg' ->
  forall t t' c, qual_only c = true -> forall p, In p (occs cfg t c) <-> In p (occs cfg' t' c).
Proof. exact qual_only_occs. Qed.

(* Without that hypothesis the statement is false OF THE MODEL'S TREE TYPE: a bare package
   token that is an item of a Statement is skipped as null under a dot hint and registered
   without it.  (Not reachable through the public API.) *)
Theorem C04_hints_inert_bare_token_refuted :
  exists cfg cfg' c t1 s t1' s',
    cfg_ok cfg /\ cfg_ok cfg' /\ cfg_path cfg = cfg_path cfg' /\
    render cfg false [] c = Ok (t1, s) /\ render cfg' false [] c = Ok (t1', s') /\
    akeys t1 = [] /\ akeys t1' = [S "a/b"].
Proof. exact hints_inert_bare_token_refuted. Qed.

(* NOTHING FROM WHAT RENDERS NOTHING.  nil, Null(), empty tags, statements and
   delimiter-less groups of such items, Dicts without surviving pair: no occs ... *)
Theorem C04_null_contributes_nothing : forall cfg t c, nullish c = true -> occs cfg t c = [].
Proof. exact occs_nullish. Qed.

(* ... an item of a statement that is null at the table adds nothing, whatever it contains
   (a statement of dot-import references, a Dict whose pairs all lost a side, ...) ... *)
Theorem C04_null_item_of_statement : forall cfg t xs x ys,
  is_null cfg t x = true -> occs cfg t (CStmt (xs ++ x :: ys)) = occs cfg t (CStmt (xs ++ ys)).
Proof. exact occs_stmt_null_item. Qed.

(* ... nor does a null item of a group, other than a package token (the group registers the
   path of a dot-import package token before it skips it: group.go:89-95) ... *)
Theorem C04_null_item_of_group : forall cfg t gid name o cl sep multi xs x ys,
  is_null cfg t x = true -> pre_occ cfg x = [] ->
  occs cfg t (CGroup gid name o cl sep multi (xs ++ x :: ys)) = occs cfg t (CGroup gid name o cl sep multi (xs ++ ys)).
Proof. exact occs_group_null_item. Qed.

(* ... a Dict pair with a null key or a null value adds nothing, whatever the other side
   references (dict.go:30-33) ... *)
Theorem C04_null_sided_pair : forall cfg t xs kv ys,
  is_null cfg t (fst kv) || is_null cfg t (snd kv) = true ->
  occs cfg t (CDict (xs ++ kv :: ys)) = occs cfg t (CDict (xs ++ ys)).
Proof. exact occs_dict_null_pair. Qed.

(* ... and an all-null type-parameter list adds nothing. *)
Theorem C04_all_null_types : forall cfg t gid o cl sep multi items,
  forallb (is_null cfg t) items = true -> occs cfg t (CGroup gid s_types o cl sep multi items) = [].
Proof. exact occs_types_all_null. Qed.

(* By T1a these are statements about the renderer: a tree without occs leaves every entry of
   the import table as it was. *)
Theorem C04_no_occs_no_import : forall cfg t c ctx t1 s,
  cfg_ok cfg -> occs cfg t c = [] -> render cfg ctx t c = Ok (t1, s) ->
  (forall p, In p (akeys t1) <-> In p (akeys t)) /\ forall q, alookup q t1 = alookup q t.
Proof. exact render_no_occs. Qed.

(* Non-vacuity.  A File with a local path, a prefix, two Anon imports (one of them referenced
   later), an ImportName hint that is never used and a dot alias that is; the body has a
   Null() between two references with colliding last elements, a Dict with a pair whose
   value is null (its key references a path: not imported) and a live pair (key and dot-import
   value), an all-null type-parameter list, and a block with a local and a std reference.
   The hypotheses of the theorems hold, and the computed table has exactly the paths the
   theorem predicts: the two Anon paths and the five referenced ones. *)
Definition C04_example_file : file :=
  let f := new_file_path_name (S "my/pkg") (S "pkg") in
  let f := anon f [S "x/anon"; S "a.b/d"] in
  let f := import_name f (S "never/used") (S "nu") in
  let f := import_alias f (S "dot/pkg") (S ".") in
  let f := set_prefix f (S "pp") in
  let f := add_item f (CStmt [qual 1 (S "a.b/d") (S "A"); CTok TkNull; qual 2 (S "c.b/d") (S "B")]) in
  let f := add_item f (CStmt [CDict [(qual 3 (S "dead/key") (S "K"), CTok TkNull);
                                     (qual 4 (S "live/key") (S "K"), qual 5 (S "dot/pkg") (S "V"))]]) in
  let f := add_item f (CGroup 6 s_types (S "[") (S "]") (S ",") false [CTok TkNull; CStmt []]) in
  add_item f (CGroup 7 (S "block") (S "{") (S "}") [] true
                [CStmt [qual 8 (S "my/pkg") (S "Local"); qual 9 (S "fmt") (S "Println")]]).

Lemma C04_example_cfg_ok : cfg_ok (file_cfg C04_example_file).
Proof.
  split; [|right; reflexivity]. intros p h. simpl.
  destruct (str_eqb p (S "never/used")).
  - intros E. injection E as <-. right. right. split; [reflexivity|]. split; discriminate.
  - destruct (str_eqb p (S "dot/pkg")); [|discriminate]. intros E. injection E as <-. right. left. reflexivity.
Qed.

Example C04_example :
  let f := C04_example_file in
  cfg_ok (file_cfg f) /\ NoDup (akeys (f_imports f)) /\ forallb qual_only (f_items f) = true /\
  match file_raw f with
  | Ok (t1, raw) =>
    map (fun e => (fst e, id_name (snd e))) t1 =
      [(S "x/anon", S "_"); (S "a.b/d", S "pp_d"); (S "c.b/d", S "pp_d1"); (S "live/key", S "pp_key");
       (S "dot/pkg", S "."); (S "fmt", S "fmt")] /\
    (let spec := akeys (f_imports f) ++ occs (file_cfg f) (f_imports f) (file_group f) in
     forallb (fun p => existsb (str_eqb p) (akeys t1)) spec &&
     forallb (fun p => existsb (str_eqb p) spec) (akeys t1)) = true
  | Panic _ => False
  end.
Proof.
  cbv zeta. split; [exact C04_example_cfg_ok|]. split.
  - vm_compute. repeat constructor; simpl; intuition discriminate.
  - split; vm_compute; [reflexivity | split; reflexivity].
Qed.
