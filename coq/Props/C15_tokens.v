(* C15 at the level of TOKENS, for the programs of Spec/MiniGo.v:

     "A comment added with Comment/Commentf whose text does not itself start with a comment
      marker and does not contain `*/`, placed as an item of its own or at the end of an item of a
      Block, Defs, [Struct, Interface,] case body or the File itself, never alters the surrounding
      code's token sequence and its text survives inside a comment (line style for one-line
      text, block style when it contains newlines)."

   Statements only; every proof is `exact` of a lemma of Proofs/CommentTokensProofs.v.
   The fragment now HAS Struct and Interface groups (struct / interface types): the bracketed
   words of the sentence are covered too, for the whole grown fragment of Spec/MiniGo.v (no
   restriction to the earlier constructors; C15_tokens_type is new).  [ty_ok] asks of a struct
   tag that it is written as an interpreted string (the scanner model has no raw strings).

   THE OBJECTS (Spec/MiniGoComments.v).  [dec c c']: the tree c' is the tree c with comments
   added - statements `CStmt [CComment t]` between the items of multi-line groups (before every
   item, after the last one, any number), and `CComment t` appended to items of multi-line groups
   that are statements - and nothing else changed.  The multi-line groups of MiniGo are the
   Blocks (bodies of func and method declarations and literals, if / else / for / range / block
   statements, the body of a switch = its clauses, the body of a clause), the Defs of var ( ) /
   const ( ), the Struct and Interface groups of struct / interface types WHEREVER a type stands
   (type declarations, parameters, results, receivers, var declarations, composite literal
   types, type assertions, nested in other types) and the File.  A decoration does not enter a
   Dict (dec_dict: the keys and values of a keyed composite literal are left as they are; a
   Dict writes its pairs itself, on one line or one per line, and has no Comment method).  [comment_dom t]: the text is in the domain of the property (= [in_domain] of
   Props/C15.v: C15_tokens_domain); every other byte is allowed, also NUL, control bytes and bytes
   that are not UTF-8: the scanner model GoStd/Tokens.v skips a line comment up to the newline and
   a block comment up to the first `*/` without looking at the bytes in between (go/scanner
   reports NUL / BOM / invalid UTF-8 inside a comment as errors that change no token boundary).
   [golex]: the scanner model; [tdecl a]: the token sequence of the program a, defined on its
   syntax (Spec/MiniGoTokens.v) - by Props/C01_tokens.v it is also golex of the text rendered
   without comments.

   One restriction in [dec] beyond the sentence above: a comment is not appended to an item that
   already ENDS in a comment.  In MiniGo that concerns exactly the clauses of a switch, whose text
   ends with the last item of the clause body (the Block after Case / Default has no closer).
   C15_tokens_needed_open_item shows what happens without it.

   THE "SURVIVES" HALF is stated locally (C15_tokens_comment_lexeme): standing at the first byte
   of the text written for a comment, before a newline or the end of the text, the scanner reads
   that text - all of it, nothing more - as ONE lexeme that is not a token; the text written is
   `// t` for a one-line t and `/*` newline t newline `*/` otherwise (C15_tokens_styles).  That
   the scanner does stand there is what the proof of the main theorem goes through at every
   comment (Proofs/CommentTokensProofs.v: decm_lines), but the list of ALL comment lexemes of the
   output is not part of the statement: C15_tokens_text_survives_partial.  Props/C15.v has the
   corresponding statements for the skeleton lexer; the examples below compute both. *)
From Jen Require Import Base.Bytes Base.Num GoStd.Quote GoStd.Tokens GoStd.Skeleton.
From Jen Require Import Model.Code Model.Naming Model.Render Model.FileRender.
From Jen Require Import Spec.MiniGo Spec.MiniGoTokens Spec.MiniGoComments.
From Jen Require Import Proofs.CommentProofs Proofs.CanonProofs Proofs.TokensProofs Proofs.CommentTokensProofs.
Local Open Scope bool_scope.

(* The domain is that of Props/C15.v. *)
Theorem C15_tokens_domain : forall t, comment_dom t = true <-> in_domain t.
Proof. exact comment_dom_in_domain. Qed.

(* THE THEOREM.  A declaration (func, var ( ), const ( ), type) whose names are identifiers, ANY
   decoration of the tree built for it with comments of the domain, any import table and context:
   if it renders, the scanner splits the text into exactly the tokens of the declaration. *)
Theorem C15_tokens_decl : forall cfg, tables_ok = true -> forall (a : decl) c' ctx t t' s,
  decl_ok a = true -> dec (build_decl a) c' ->
  render cfg ctx t c' = Ok (t', s) -> golex s = Some (tdecl a).
Proof. exact dec_tokens_decl. Qed.

(* the same for a statement and for an expression (comments inside func literals) *)
Theorem C15_tokens_stmt : forall cfg, tables_ok = true -> forall (a : stmt) c' ctx t t' s,
  stmt_ok a = true -> dec (build_stmt a) c' ->
  render cfg ctx t c' = Ok (t', s) -> golex s = Some (tstmt a).
Proof. exact dec_tokens_stmt. Qed.

Theorem C15_tokens_expr : forall cfg, tables_ok = true -> forall (a : expr) c' ctx t t' s,
  expr_ok a = true -> dec (build_expr a) c' ->
  render cfg ctx t c' = Ok (t', s) -> golex s = Some (texpr a).
Proof. exact dec_tokens_expr. Qed.

(* A whole file: NewFile(name), the declarations added in order with comments between them,
   before the first and after the last one, at the end of declarations and inside them
   ([dec_file]); the unformatted source has the tokens `package name` and those of the
   declarations.  (The last line of the file may be a line comment without newline.) *)
Theorem C15_tokens_file : forall name ds f t s, tables_ok = true ->
  ident_ok name = true -> forallb decl_ok ds = true -> dec_file name ds f ->
  file_raw f = Ok (t, s) -> golex s = Some (tfile name ds).
Proof. exact dec_tokens_file. Qed.

(* "never alters the surrounding code's token sequence": with and without the comments the
   rendered texts have the same tokens. *)
Theorem C15_tokens_unchanged : forall cfg, tables_ok = true -> forall (a : decl) c' ctx t t' s t0' s0,
  decl_ok a = true -> dec (build_decl a) c' ->
  render cfg ctx t (build_decl a) = Ok (t0', s0) -> render cfg ctx t c' = Ok (t', s) ->
  golex s = golex s0.
Proof. exact dec_tokens_unchanged. Qed.

(* The tables generated from jen/generated.go are what Spec/MiniGo.v expects. *)
Theorem C15_tokens_tables : tables_ok = true.
Proof. exact tables_ok_holds. Qed.

(* The two styles. *)
Theorem C15_tokens_styles : forall t, comment_dom t = true ->
  comment_text t =
  if contains_byte x0a t then S "/*" ++ [x0a] ++ t ++ (if has_suffix [x0a] t then [] else [x0a]) ++ S "*/"
  else S "// " ++ t.
Proof. exact comment_styles. Qed.

(* The scanner at a comment: before a newline or the end of the text ([bndN]) the text written
   for a comment of the domain is one lexeme of exactly its length, not a token, starting with
   `/`; the scanner goes on with what follows as if the comment were not there. *)
Theorem C15_tokens_comment_lexeme : forall t r, comment_dom t = true -> bndN r ->
  tok_at (comment_text t ++ r) = Some (None, length (comment_text t)) /\
  has_prefix (S "/") (comment_text t) = true /\
  golex (comment_text t ++ r) = golex r.
Proof. exact comment_lexeme_skipped. Qed.

(* PARTIAL (the full statement would be: the lexemes the scanner skips in s, other than white
   space, are exactly [map comment_text (comments_of c')] in order).  What is proved: every
   decoration of the example programs' kind exists ([saturate] uses every position and is a
   decoration), and the local statement above. *)
Theorem C15_tokens_text_survives_partial : forall own endc, comment_dom own = true -> comment_dom endc = true ->
  forall c, dec c (saturate own endc c).
Proof. exact saturate_dec. Qed.

(* ================================================================== the hypotheses are needed *)
Definition c15_cfg := mkcfg [] [] [].
Definition c15_out (c : code) : str :=
  match render c15_cfg false [] c with Ok (_, s) => s | Panic _ => S "PANIC" end.
Definition c15_x := EId (S "x").
Definition c15_y := EId (S "y").

(* A line comment in the MIDDLE of a statement - Id("x").Comment("c").Op("+").Id("y") - is
   followed on its line by the rest of the statement: `x // c + y` has the one token x. *)
Example C15_tokens_needed_end_of_item :
  golex (c15_out (CStmt (bexpr c15_x ++ [CComment (S "c")] ++ [op (S "+"); CStmt (bexpr c15_y)])))
    = Some [tid (S "x")] /\
  texpr (EBin c15_x BAdd c15_y) = [tid (S "x"); top (S "+"); tid (S "y")].
Proof. vm_compute. split; reflexivity. Qed.

(* At the end of an item of a group that is NOT multi-line - the first argument of a call:
   `f (x // c,y)` - the comment swallows the separator, the other arguments and the closer. *)
Example C15_tokens_needed_multi :
  golex (c15_out (CStmt (bexpr (EId (S "f")) ++
                         [gCall 0 [CStmt (bexpr c15_x ++ [CComment (S "c")]); CStmt (bexpr c15_y)]])))
    = Some [tid (S "f"); top (S "("); tid (S "x")] /\
  texpr (ECall (EId (S "f")) [c15_x; c15_y] false)
    = [tid (S "f"); top (S "("); tid (S "x"); top (S ","); tid (S "y"); top (S ")")].
Proof. vm_compute. split; reflexivity. Qed.

(* A text containing `*/` ends the block comment early: its rest is scanned as code.  A text
   starting with `/*` is written verbatim: what follows its own `*/` is code, and without one
   the rest of the file is a comment (the scanner model answers None: unterminated). *)
Example C15_tokens_needed_domain :
  let blk items := CStmt [gBlock 1 items] in
  let sx := CStmt (bstmt (SExpr c15_x)) in
  tstmt (SBlock [SExpr c15_x]) = [top (S "{"); tid (S "x"); top (S "}")] /\
  golex (c15_out (blk [CStmt [CComment (S "a" ++ [x0a] ++ S "*/ y")]; sx]))
    = Some [top (S "{"); tid (S "y"); top (S "*"); top (S "/"); tid (S "x"); top (S "}")] /\
  golex (c15_out (blk [CStmt [CComment (S "/* a */ y")]; sx]))
    = Some [top (S "{"); tid (S "y"); tid (S "x"); top (S "}")] /\
  golex (c15_out (blk [CStmt [CComment (S "/* a")]; sx])) = None.
Proof. vm_compute. repeat split; reflexivity. Qed.

(* FOUND WHILE PROVING.  The body of a clause has no closer, so the clause ends with its last
   body item.  Case(x).Block(Id("y").Comment("c1")).Comment(t): both comments are "at the end of an
   item" (of the case body, of the switch Block), but the second one is written on the line of
   the first: `case x: \n y // c1 <comment t>`.  With a multi-line t the opener `/*` is inside
   the line comment and the text of t is scanned as CODE (here the tokens a b * /); with a
   one-line t the tokens are unchanged but t is not a comment of its own (one line-comment
   region `// c1 // c2`).  Hence the premise [open_end .. = false] of [decm_end]. *)
Definition c15_sw (c1 c2 : str) : code :=
  CStmt [gSwitch 0 []; gBlock 1 [CStmt [gCase 0 [CStmt (bexpr c15_x)];
                                        gBlock 1 [CStmt (bstmt (SExpr c15_y) ++ [CComment c1])];
                                        CComment c2]]].
Example C15_tokens_needed_open_item :
  tstmt (SSwitch None None [CCase c15_x [] [SExpr c15_y]])
    = [tkw (S "switch"); top (S "{"); tkw (S "case"); tid (S "x"); top (S ":"); tid (S "y"); top (S "}")] /\
  golex (c15_out (c15_sw (S "c1") (S "a" ++ [x0a] ++ S "b")))
    = Some [tkw (S "switch"); top (S "{"); tkw (S "case"); tid (S "x"); top (S ":"); tid (S "y");
            tid (S "a"); tid (S "b"); top (S "*"); top (S "/"); top (S "}")] /\
  filter (fun r => is_comment (fst r)) (skel (c15_out (c15_sw (S "c1") (S "c2")))) = [(KLine, S "// c1 // c2")].
Proof. vm_compute. repeat split; reflexivity. Qed.

(* ================================================================== examples *)
(* func f (x int) int { switch x { case 1: return "a//b"; g (func () {}) default: }
                        if x < -2 {} else { x ++ }; return x } *)
Definition c15_prog : decl :=
  DFunc (S "f") [(S "x", TName (S "int"))] [TName (S "int")]
    [SSwitch None (Some c15_x)
       [CCase (EInt 1) [] [SReturn [EStr (S "a//b")]; SExpr (ECall (EId (S "g")) [EFunc [] [] []] false)];
        CDefault []];
     SIf None (EBin c15_x BLt (EInt (-2))) [] (Some (SBlock [SIncDec c15_x true]));
     SReturn [c15_x]].

(* texts that look like code: an unbalanced brace, an unterminated string, a backquote, comment
   markers inside (not at the start), `*` and `/` on lines of their own *)
Definition c15_text1 : str := S "x := 1 } ""unterminated /* // `".
Definition c15_text2 : str := S "line1 { /* " ++ [x0a] ++ S "*" ++ [x0a] ++ S "/ ""q //".

Example C15_tokens_example_domain :
  decl_ok c15_prog = true /\ comment_dom c15_text1 = true /\ comment_dom c15_text2 = true /\
  contains_byte x0a c15_text1 = false /\ contains_byte x0a c15_text2 = true /\
  comment_dom (S "a */ b") = false /\ comment_dom (S "// a") = false /\ comment_dom (S "/* a") = false.
Proof. vm_compute. repeat split; reflexivity. Qed.

(* every position used: the multi-line text as an item of its own before every item and after
   the last one of every Block, the one-line text at the end of every item (clauses: only when
   the clause does not already end in a comment) - and the other way round. *)
Definition c15_dec1 : code := saturate c15_text2 c15_text1 (build_decl c15_prog).
Definition c15_dec2 : code := saturate c15_text1 c15_text2 (build_decl c15_prog).

Example C15_tokens_example_is_decoration : dec (build_decl c15_prog) c15_dec1 /\ dec (build_decl c15_prog) c15_dec2.
Proof. split; apply saturate_dec; reflexivity. Qed.

Example C15_tokens_example :
  golex (c15_out c15_dec1) = Some (tdecl c15_prog) /\
  golex (c15_out c15_dec2) = Some (tdecl c15_prog) /\
  golex (c15_out (build_decl c15_prog)) = Some (tdecl c15_prog) /\
  length (tdecl c15_prog) = 42%nat /\
  length (comments_of c15_dec1) = 21%nat /\ length (comments_of c15_dec2) = 21%nat /\
  (* the comment regions of the skeleton lexer are the comments, in order, each in its style *)
  filter (fun r => is_comment (fst r)) (skel (c15_out c15_dec1))
    = map (fun t => (comment_kind t, comment_text t)) (comments_of c15_dec1) /\
  filter (fun r => is_comment (fst r)) (skel (c15_out c15_dec2))
    = map (fun t => (comment_kind t, comment_text t)) (comments_of c15_dec2).
Proof. vm_compute. repeat split; reflexivity. Qed.

(* the theorem applied to the example (no computation of the output) *)
Example C15_tokens_example_by_theorem : forall t' s,
  render c15_cfg false [] c15_dec1 = Ok (t', s) -> golex s = Some (tdecl c15_prog).
Proof.
  intros t' s. apply (C15_tokens_decl c15_cfg C15_tokens_tables c15_prog c15_dec1 false [] t' s); [reflexivity|].
  apply C15_tokens_example_is_decoration.
Qed.

(* a file: comments before, between and after the declarations and inside them - also between
   and at the end of the fields of a struct type (one nested in a parameter of a method) and of
   the methods of an interface type *)
Definition c15_decls : list decl :=
  [DVars [(S "a", Some (TName (S "int")), Some (EInt 1)); (S "b", None, Some (EStr (S "/*")))]; c15_prog;
   DType (S "T") (TMap (TName (S "string")) (TSlice (TName (S "int"))));
   DType (S "P") (TStruct [(S "X", TName (S "int"), [(S "k", S "`")]); (S "in", TStruct [(S "c", TChan CRecv (TName (S "int")), [])], [])]);
   DType (S "I") (TIface [(S "M", ([(S "x", TName (S "int"))], [TName (S "int"); TName (S "error")])); (S "N", ([], []))]);
   DMethod (S "p", TPtr (TName (S "P"))) (S "m") [(S "q", TStruct [(S "y", TName (S "int"), [])])] []
     [SVar (S "k") None (Some (EKeyed (TName (S "P")) [(EId (S "X"), EInt 1); (EId (S "in"), ENil)]))]].
Definition c15_file : file := saturate_file c15_text1 c15_text2 (build_file (S "p") c15_decls).

Example C15_tokens_example_file :
  match file_raw c15_file with
  | Ok (_, s) => golex s = Some (tfile (S "p") c15_decls)
  | Panic _ => False
  end.
Proof. vm_compute. reflexivity. Qed.

(* comments in a struct type, for the eye *)
Example C15_tokens_example_struct :
  c15_out (saturate (S "own") (S "end") (build_type (TStruct [(S "X", TName (S "int"), [])]))) =
    S "struct{" ++ nl ++ S "// own" ++ nl ++ S "X int // end" ++ nl ++ S "// own" ++ nl ++ S "}" /\
  golex (c15_out (saturate (S "own") (S "end") (build_type (TStruct [(S "X", TName (S "int"), [])])))) =
    Some (tty (TStruct [(S "X", TName (S "int"), [])])).
Proof. vm_compute. split; reflexivity. Qed.

(* the same for a type standing alone *)
Theorem C15_tokens_type : forall cfg, tables_ok = true -> forall (a : ty) c' ctx t t' s,
  ty_ok a = true -> dec (build_type a) c' ->
  render cfg ctx t c' = Ok (t', s) -> golex s = Some (tty a).
Proof. exact dec_tokens_type. Qed.

Print Assumptions C15_tokens_decl.
Print Assumptions C15_tokens_stmt.
Print Assumptions C15_tokens_expr.
Print Assumptions C15_tokens_type.
Print Assumptions C15_tokens_file.
Print Assumptions C15_tokens_unchanged.
