(* C17: struct tags round-trip through reflect.StructTag.  Statements only; proofs are in Proofs/. *)
From Jen Require Import Model.Render.

Theorem C17_empty_tag_null : forall cfg t, is_null cfg t (CTag []) = true /\ tag_text [] = [].
Proof. intros; split; reflexivity. Qed.
