(* C17: struct tags round-trip through reflect.StructTag.
   Statements only; every proof is `exact` of a lemma of Proofs/. *)
From Jen Require Import Base.Bytes Base.Sort GoStd.Quote GoStd.StructTag GoStd.IsPrint Model.Render.
From Jen Require Import Proofs.QuoteProofs Proofs.TagProofs.
From Coq Require Import Permutation Sorted.

(* For every map (list of pairs with pairwise distinct keys, in any order) from conventional
   keys - non-empty, every byte above space and none of colon, double quote, DEL - to
   ARBITRARY byte strings: the rendered tag is one Go string literal (raw or interpreted);
   its value, read with reflect.StructTag.Lookup, returns exactly the given value for
   every key; the pairs appear in key order. *)
Theorem C17_tag_roundtrip : forall kvs : list (str * str),
  NoDup (map fst kvs) -> Forall conv_key (map fst kvs) -> kvs <> [] ->
  exists body,
    go_string_value (tag_text kvs) = Some body /\
    (forall k v, In (k, v) kvs -> struct_tag_lookup body k = Some v) /\
    body = join (S " ") (map (item go_is_print) (isort_by fst kvs)) /\
    StronglySorted (key_le fst) (isort_by fst kvs) /\ Permutation (isort_by fst kvs) kvs.
Proof. exact tag_roundtrip. Qed.

(* An empty map renders nothing and is skipped by the enclosing statement. *)
Theorem C17_empty_tag_null : forall cfg t, is_null cfg t (CTag []) = true /\ tag_text [] = [].
Proof. intros; split; reflexivity. Qed.

(* The text does not depend on the order in which the runtime iterates the map. *)
Theorem C17_tag_order_independent : forall kvs kvs',
  NoDup (map fst kvs) -> Permutation kvs kvs' -> tag_text kvs = tag_text kvs'.
Proof. exact tag_text_perm. Qed.

(* The two literal forms read back, for every byte string (used by the theorem above). *)
Theorem C17_interpreted_literal : forall s, go_string_value (Quote go_is_print s) = Some s.
Proof. exact (Quote_roundtrip go_is_print go_is_print_nl). Qed.
Theorem C17_raw_literal : forall s R, CanBackquote s = true ->
  scan_string_lit ([c_bq] ++ s ++ [c_bq] ++ R) = Some (s, R).
Proof. exact backquoted_roundtrip. Qed.

(* Non-vacuity: a map with a quote, a backquote and a newline in its values meets the
   hypotheses, and the computed lookups agree with the theorem. *)
Example C17_example :
  let kvs := [(S "json", [x61; x22; x62]); (S "b", [x60; x0a]); (S "a-1", [])] in
  NoDup (map fst kvs) /\ Forall conv_key (map fst kvs) /\ kvs <> [] /\
  (match go_string_value (tag_text kvs) with
   | Some body => map (struct_tag_lookup body) (map fst kvs)
   | None => []
   end) = map (fun kv => Some (snd kv)) kvs.
Proof.
  cbv zeta. split; [|split; [|split; [discriminate | vm_compute; reflexivity]]].
  - repeat constructor; simpl; intuition discriminate.
  - repeat constructor; discriminate.
Qed.
