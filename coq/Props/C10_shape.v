(* C10 at buffer level: the failure-atomicity statements of Props/C10.v as consequences of the
   SHAPE OF THE CODE, not of the model's [outcome] type.

   Gen/IO.v (tools/cmd/io2coq, regenerated from /repo on every run) lists, for every exported
   function of package jen that receives the caller's io.Writer or calls package os, its body
   as events.  Spec/IOShape.v gives these event lists a semantics in which the caller's
   writer is a LOG of Write calls (so two writes, or a write before a failure, are perfectly
   expressible) and every fallible event can fail, and a checker.  Here:
     1. the regenerated table passes the checker (by computation);
     2. for every event list that passes, every oracle and every fault schedule, the log has
        length 0 when anything before the write fails and length 1 otherwise, the entry is
        the whole output, and the result is the first failure;
     3. the model's [file_render] / [code_render_with_file] / [file_save] are the
        abstraction of running the regenerated event lists.

   WHAT THE EVENT SEMANTICS ASSUMES.  [EvRender target buf] (a call of a function of package
   jen that is not an entry point and receives a LOCAL bytes.Buffer as its only io.Writer:
   f.render(f, body, nil), f.renderImports(source), a helper extracted from Render),
   [EvWriteLocal buf], [EvFormat] and the handlers are given a semantics in which they touch
   only that local buffer: never the caller's writer, never the file system.  For the caller's
   writer parameter `w` itself this needs no assumption: `w` never reaches such a call, because
   ANY mention of `w` in an entry point is an [EvWriteCaller] event and the checker accepts only
   `w.Write(x)` and the delegation to another checked entry point.  What the theorems below do
   not see is a second road to the same writer or to the disk from inside the callee (the
   callee writing to os.Stdout, creating a file, writing to a writer left in a package-level
   variable or a struct field, or recovered by a type assertion from a value of the tree).
   This is CHECKED BY THE TRANSLATOR, not proved in Coq: tools/cmd/io2coq scans the whole
   package (every non-test file: so the callee's body and everything it calls, transitively
   and whatever the dispatch) and prints what it finds as [io_confinement], which
   [C10_shape_confined] requires to be empty:
     1. an ALLOW-LIST of packages: no import of, and no reference to an object (function,
        variable, type, method, field) of, a package other than bytes, fmt, go/format, io,
        regexp, sort, strconv, strings, unicode, unicode/utf8 (what jen imports today) and
        errors, math, math/bits, cmp, slices, maps, unicode/utf16; none to fmt.Print*/Scan*, to
        print/println; os and io/ioutil only inside the bodies of the EFileSys entry points
        (File.Save), which are events.  The list is printed in Gen/IO.v.  A future harmless
        use of another package is therefore an alarm (fixed by adding the package to the list
        in tools/cmd/io2coq/main.go after looking at what it does);
     2. no package-level variable or struct field whose type implements io.Writer (other than
        bytes.Buffer / strings.Builder); and no package-level variable, struct field or
        parameter of an exported function whose type is an interface type with methods that is
        declared outside package jen, is not `error` and does not implement io.Writer
        (io.StringWriter, io.Closer ..: a sink of the caller that is not a writer parameter);
     3. no type assertion, type-switch case or conversion to a type that implements io.Writer
        (other than those two), to a type parameter, or to ANY interface type that has methods
        (io.StringWriter, io.Closer, interface{ WriteString(string) (int, error) } ..: the
        methods of a value received as interface{}); the unchanged package contains none, so
        the allow-list of such interfaces is empty (printed in Gen/IO.v with the targets found);
     4. no cgo, no go:linkname.
   THE SAME OBJECTS.  [noformat] is a parameter of [run] and the refinement theorems instantiate
   it with [f_noformat f] for the File f whose model render they speak about; Save's theorem
   runs the event list of File.Render for the same f.  The table justifies this because
     5. `if r.NoFormat` is [EvCondNoFormat] only when r is the RECEIVER of the entry, and package
        jen never writes that field: [io_noformat_writes] (required to be empty by the second
        half of [C10_shape_confined]) lists, for the whole package, every assignment, op=,
        ++/--, address-of whose target is File.NoFormat, and every assignment of a whole struct
        that holds one (`*f = File{..}`); the field is set by the user only;
     6. a call is [EvRenderToBuffer] (f.Render(buf) in Save) or a delegation (KDelegate) only
        when its receiver is the entry's own receiver, and a call is one of these or [EvRender]
        only when every receiver / argument whose type is one of the entry's own object types
        (File, Statement, Group: the named types of its receiver and parameters) or an
        interface type (a Code, an interface{}) is an identifier denoting the entry's receiver or
        parameter - go/types object identity;
        anything else (NewFile("x").Render(buf), other.render(file, buf, nil),
        s.render(NewFile("x"), buf, nil)) is [EvOther], which no checker accepts;
     7. an entry that assigns its receiver or a parameter, or takes its address, starts with an
        [EvOther] (object identity would no longer be value identity).
   Still assumed, unchecked: the allow-listed standard library packages touch nothing but their
   arguments; and the translator itself (its rules are listed in the header of
   tools/cmd/io2coq/main.go; names in the table are go/types objects, not spellings; every
   parameter whose type implements io.Writer is a caller's writer, but a writer handed over
   INSIDE another value - a struct, a slice, a func - is not tracked; WHICH code an [EvRender]
   renders besides the entry's own objects is not in the table: it is the hypothesis
   [phase1_matches] of the refinement theorems). *)
From Jen Require Import Base.Bytes Spec.IOShape Gen.IO.
From Jen Require Import Model.Code Model.Naming Model.Render Model.FileRender.
From Jen Require Import Proofs.IOProofs.

(* 1. Every entry of the regenerated table passes its checker, and the six entry points of
   C10 are in it with the expected kinds.  For an EWriter entry ([io_wf]): the body is
   local statements (only local buffers and variables; every fallible event's error is
   returned; no early `return nil`; no unrecognised statement; no use of the caller's writer),
   then the formatting phase ([fmt_sym]: any of the equivalent ways of leaving in x the
   formatted contents of the source buffer - or, honouring NoFormat, the raw ones - with the
   formatter's error returned: `if f.NoFormat { x = src.Bytes() } else { x, err = format.Source(..); check }`,
   `x := src.Bytes(); if !f.NoFormat { x, err = format.Source(..); check }`, the arms swapped,
   or the unconditional format), then ONE `w.Write(x)` of that variable whose error is
   returned, then `return nil`.  For Save ([save_parts]): a fresh buffer, the render into it
   with its error returned, ONE os call - os.WriteFile(path parameter, that buffer) - with
   its error returned, `return nil`.  For Render ([delegate_target]): `return
   x.RenderWithFile(w, ..)` and nothing else.  An unexported function that is handed the
   caller's writer is an entry of the table as well, so `return helper(w, ..)` as a whole body
   is such a delegation, followed ([resolve], [body_of]) to the entry that does the work. *)
Theorem C10_shape_table : table_wf io_entries = true /\ entries_present = true.
Proof. exact io_table_ok. Qed.

(* the confinement scan of the translator (see the header, 1-4) reports nothing, and package
   jen nowhere writes File.NoFormat (5) *)
Theorem C10_shape_confined : io_confinement = [] /\ io_noformat_writes = [].
Proof. exact io_confined_ok. Qed.

Theorem C10_shape_delegates :
  delegate_target (own_body_of n_stmt_render) = Some n_stmt_rwf /\
  delegate_target (own_body_of n_group_render) = Some n_group_rwf.
Proof. exact delegates_ok. Qed.

(* 2. The generic theorem: for EVERY body accepted by the checker, every oracle [orc] (what
   each render writes into its local buffer, whether it fails or panics, loop counts,
   conditions), every formatter and every fault schedule of the caller's writer:
   - a failure before the formatting step: the writer's log is EMPTY and that first failure
     is the call's result;
   - the formatter rejects the text: the log is empty and the (wrapped) format error is the result;
   - otherwise the log is exactly ONE Write call carrying the formatted contents of the source
     buffer (the raw contents when the body honours NoFormat and it is set), and the result is
     that Write's error when it failed and nil when it did not. *)
Theorem C10_shape_sound :
  forall orc noformat fmt wfail fsfail strval sub body pre x src nf,
  io_parts body = Some (pre, x, src, nf) ->
  forallb local_ok pre = true ->
  match run orc noformat fmt wfail fsfail strval sub (block pre) st0 0 with
  | Returned None _ => False
  | Returned (Some e) st =>
    call orc noformat fmt wfail fsfail strval sub body = (st, Some e) /\ wlog st = [] /\ fslog st = []
  | Normal st _ =>
    let raw := getb src st in
    match (if nf && noformat then Some raw else fmt raw) with
    | None => exists e st', call orc noformat fmt wfail fsfail strval sub body = (st', Some e) /\
                            unwrap e = EFormat raw /\ wlog st' = [] /\ fslog st' = []
    | Some out =>
      exists st', call orc noformat fmt wfail fsfail strval sub body =
                  (st', if wfail 1%nat then Some (EWriteErr 1) else None) /\
                  wlog st' = [(out, wfail 1%nat)] /\ fslog st' = []
    end
  end.
Proof. exact io_sound. Qed.

(* the writer receives at most one Write call, whatever happens *)
Theorem C10_shape_at_most_one_write :
  forall orc noformat fmt wfail fsfail strval sub body,
  io_wf body = true ->
  (length (wlog (fst (call orc noformat fmt wfail fsfail strval sub body))) <= 1)%nat.
Proof. exact io_at_most_one_write. Qed.

(* the call succeeds iff exactly one successful Write happened; when it fails either nothing
   was written or the single Write failed and ITS error is what is returned *)
Theorem C10_shape_result_vs_log :
  forall orc noformat fmt wfail fsfail strval sub body,
  io_wf body = true ->
  match snd (call orc noformat fmt wfail fsfail strval sub body) with
  | None => exists out, wlog (fst (call orc noformat fmt wfail fsfail strval sub body)) = [(out, false)]
  | Some e => wlog (fst (call orc noformat fmt wfail fsfail strval sub body)) = [] \/
              (exists out, wlog (fst (call orc noformat fmt wfail fsfail strval sub body)) = [(out, true)] /\
                           e = EWriteErr 1)
  end.
Proof. exact io_result_vs_log. Qed.

(* Save: whatever the render entry it calls does to the buffer ([sub 1], constrained only by
   [sub_ok], which is what C10_shape_sound gives for a writer that never fails): if the render
   fails NO os call is made and its error is returned; otherwise exactly one os call is made,
   WriteFile(path, rendered output), and its error is returned. *)
Theorem C10_shape_save_sound :
  forall orc noformat fmt wfail fsfail strval sub path body en b,
  save_parts path body = Some (en, b) ->
  sub_ok (sub 1%nat) ->
  match snd (sub 1%nat) with
  | Some e => exists st, call orc noformat fmt wfail fsfail strval sub body = (st, Some e) /\ fslog st = []
  | None =>
    exists fn out st, is_write_file fn = true /\ fst (sub 1%nat) = [(out, false)] /\
      call orc noformat fmt wfail fsfail strval sub body =
      (st, if fsfail (strval path) then Some (EFs (strval path)) else None) /\
      fslog st = [(fn, strval path, out, fsfail (strval path))]
  end.
Proof. exact save_sound. Qed.

(* 3. C10_refinement.  The model's outcome is the abstraction ([abs_outcome]: log [] and a
   panic -> OPanic, log [] and a format error -> OFormatErr, log [(out, failed)] -> OWrite out
   failed) of running the REGENERATED event list of File.Render, for every oracle whose
   local events produce what the model's [file_raw] produces (the text in the source buffer,
   or the panic).  So C10_render_atomic, C10_at_most_one_write and C10_success_iff_written of
   Props/C10.v hold of [file_render] because the code has this shape. *)
Theorem C10_refinement_file_render :
  forall orc fmt wfail fsfail strval sub f,
  phase1_matches (run orc (f_noformat f) fmt wfail fsfail strval sub
                      (block (pre_of (body_of n_file_render))) st0 0)
                 (src_of (body_of n_file_render)) (file_raw f) ->
  abs_outcome (call orc (f_noformat f) fmt wfail fsfail strval sub (body_of n_file_render)) =
  Some (snd (file_render fmt wfail f)).
Proof. exact file_render_refines. Qed.

(* Statement.RenderWithFile and Group.RenderWithFile (always formatted, whatever NoFormat says) *)
Theorem C10_refinement_statement_render_with_file :
  forall orc fmt wfail fsfail strval sub noformat c f,
  phase1_matches (run orc noformat fmt wfail fsfail strval sub (block (pre_of (body_of n_stmt_rwf))) st0 0)
                 (src_of (body_of n_stmt_rwf)) (render (file_cfg f) false (f_imports f) c) ->
  abs_outcome (call orc noformat fmt wfail fsfail strval sub (body_of n_stmt_rwf)) =
  Some (snd (code_render_with_file fmt wfail c f)).
Proof. intros. apply code_rwf_refines; [exact stmt_rwf_shape | assumption]. Qed.

Theorem C10_refinement_group_render_with_file :
  forall orc fmt wfail fsfail strval sub noformat c f,
  phase1_matches (run orc noformat fmt wfail fsfail strval sub (block (pre_of (body_of n_group_rwf))) st0 0)
                 (src_of (body_of n_group_rwf)) (render (file_cfg f) false (f_imports f) c) ->
  abs_outcome (call orc noformat fmt wfail fsfail strval sub (body_of n_group_rwf)) =
  Some (snd (code_render_with_file fmt wfail c f)).
Proof. intros. apply code_rwf_refines; [exact group_rwf_shape | assumption]. Qed.

(* File.Save runs the event list of File.Render on a buffer of its own ([sub_of]: what Save sees
   of that call is its log and result) and the model's [file_save] is the abstraction
   ([abs_save]: no os call and a panic / format error -> SPanic / SRenderErr, one
   WriteFile(path, out) -> SWrite path out failed) of the regenerated event list of Save. *)
Theorem C10_refinement_file_save :
  forall orc fmt fsfail strval sub orc' f,
  phase1_matches (run orc (f_noformat f) fmt (fun _ => false) fsfail strval sub
                      (block (pre_of (body_of n_file_render))) st0 0)
                 (src_of (body_of n_file_render)) (file_raw f) ->
  abs_save (call orc' (f_noformat f) fmt (fun _ => false) fsfail strval
                 (sub_of (call orc (f_noformat f) fmt (fun _ => false) fsfail strval sub (body_of n_file_render)))
                 (body_of n_file_save)) =
  Some (snd (file_save fmt fsfail f (strval (path_of n_file_save)))).
Proof. exact file_save_refines. Qed.

(* the hypothesis of the refinement theorems is satisfiable for EVERY model result *)
Theorem C10_refinement_inhabited_file_render :
  forall f noformat fmt wfail fsfail strval,
  exists orc, phase1_matches (run orc noformat fmt wfail fsfail strval no_sub
                                  (block (pre_of (body_of n_file_render))) st0 0)
                             (src_of (body_of n_file_render)) (file_raw f).
Proof. intros. apply phase1_inhabited_file_render. Qed.

Theorem C10_refinement_inhabited_code :
  forall c f noformat fmt wfail fsfail strval,
  (exists orc, phase1_matches (run orc noformat fmt wfail fsfail strval no_sub
                                   (block (pre_of (body_of n_stmt_rwf))) st0 0)
                              (src_of (body_of n_stmt_rwf)) (render (file_cfg f) false (f_imports f) c)) /\
  (exists orc, phase1_matches (run orc noformat fmt wfail fsfail strval no_sub
                                   (block (pre_of (body_of n_group_rwf))) st0 0)
                              (src_of (body_of n_group_rwf)) (render (file_cfg f) false (f_imports f) c)).
Proof. intros. split; [apply phase1_inhabited_stmt_rwf | apply phase1_inhabited_group_rwf]. Qed.

(* The semantics can tell the difference (the log is not an [outcome]): the four mutants of
   the sensitivity run, as event lists, are rejected by the checker and really misbehave. *)
Example C10_shape_mutant_two_writes :
  let body := [Do (EvNewBuf (S "buf")); Try (EvRender (S "s.render") (S "buf")) EvReturnErr;
               Try (EvFormat (S "b") (S "buf")) EvReturnWrapped;
               Try (EvWriteCaller KWrite (S "writer.Write(b[:n])") (S "b")) EvReturnErr;
               Try (EvWriteCaller KWrite (S "writer.Write(b[n:])") (S "b")) EvReturnErr; EvReturnNil] in
  io_wf body = false /\
  length (wlog (fst (call (quiet_orc 1 (S "x")) false (fun s => Some s) (fun _ => false) (fun _ => false)
                          (fun s => s) no_sub body))) = 2%nat.
Proof. vm_compute. split; reflexivity. Qed.

Example C10_shape_mutant_write_before_format :
  let body := [Do (EvNewBuf (S "buf"));
               Try (EvWriteCaller KPass (S "Comment(c).render(f, w, nil)") []) EvReturnErr;
               Try (EvRender (S "s.render") (S "buf")) EvReturnErr;
               Try (EvFormat (S "b") (S "buf")) EvReturnWrapped;
               Try (EvWriteCaller KWrite (S "w.Write(b)") (S "b")) EvReturnErr; EvReturnNil] in
  io_wf body = false /\
  (* the formatter fails and yet the writer has received something *)
  let r := call (quiet_orc 1 (S "x")) false (fun _ => None) (fun _ => false) (fun _ => false) (fun s => s) no_sub body in
  length (wlog (fst r)) = 1%nat /\ snd r = Some (EWrap (EFormat [])).
Proof. vm_compute. repeat split; reflexivity. Qed.

Example C10_shape_mutant_ignored_write_error :
  let body := [Do (EvNewBuf (S "buf")); Try (EvRender (S "s.render") (S "buf")) EvReturnErr;
               Try (EvFormat (S "b") (S "buf")) EvReturnWrapped;
               Do (EvWriteCaller KWrite (S "w.Write(b)") (S "b")); EvReturnNil] in
  io_wf body = false /\
  (* the write fails and the call reports success *)
  let r := call (quiet_orc 1 (S "x")) false (fun s => Some s) (fun _ => true) (fun _ => false) (fun s => s) no_sub body in
  wlog (fst r) = [(S "x", true)] /\ snd r = None.
Proof. vm_compute. repeat split; reflexivity. Qed.

Example C10_shape_mutant_create_before_render :
  let body := [Try (EvWriteFile (S "os.Create") (S "filename") []) EvReturnErr;
               Do (EvNewBuf (S "buf")); Try (EvRenderToBuffer (S "(*File).Render") (S "buf")) EvReturnErr;
               Try (EvWriteFile (S "os.WriteFile") (S "filename") (S "buf")) EvReturnErr; EvReturnNil] in
  save_wf (S "filename") body = false /\
  (* the render fails and the file system has been touched *)
  let r := call (quiet_orc 0 []) false (fun s => Some s) (fun _ => false) (fun _ => false) (fun s => s)
                (fun _ => ([], Some (EPanic (S "boom")))) body in
  length (fslog (fst r)) = 1%nat /\ snd r = Some (EPanic (S "boom")).
Proof. vm_compute. repeat split; reflexivity. Qed.

Print Assumptions C10_shape_table.
Print Assumptions C10_shape_confined.
Print Assumptions C10_shape_delegates.
Print Assumptions C10_shape_sound.
Print Assumptions C10_shape_at_most_one_write.
Print Assumptions C10_shape_result_vs_log.
Print Assumptions C10_shape_save_sound.
Print Assumptions C10_refinement_file_render.
Print Assumptions C10_refinement_statement_render_with_file.
Print Assumptions C10_refinement_group_render_with_file.
Print Assumptions C10_refinement_file_save.
Print Assumptions C10_refinement_inhabited_file_render.
Print Assumptions C10_refinement_inhabited_code.
