(* C02 (placeholder, theorems follow) *)
From Jen Require Import Model.FileRender.
Theorem C02_noformat_bypass : forall fmt wf f raw t,
  file_raw f = Ok (t, raw) -> f_noformat f = true ->
  snd (file_render fmt wf f) = OWrite raw (wf 1%nat).
Proof. intros fmt wf f raw t H Hn. unfold file_render. rewrite H. cbn. unfold emit. rewrite Hn. reflexivity. Qed.
