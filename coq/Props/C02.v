(* C02: a successful render is exactly the formatter applied to the raw rendering; arbitrary
   (nonsensical) trees are reported as errors, never panics, never emitted as if valid.
   Statements only; proofs are lemmas of Proofs/TotalProofs.v.

   The external formatter go/format.Source is the function [fmt : str -> option str]
   (None = it returned an error); the writer's fault schedule is [wf]. *)
From Jen Require Import Base.Bytes GoStd.Quote Model.Code Model.Naming Model.Render Model.FileRender.
From Jen Require Import Proofs.NamingProofs Proofs.TotalProofs.
Local Open Scope bool_scope.

(* ------------------------------------------------------------------ NoFormat and the formatter *)

(* With NoFormat set the writer receives the raw rendering itself. *)
Theorem C02_noformat_bypass : forall fmt wf f raw t,
  file_raw f = Ok (t, raw) -> f_noformat f = true ->
  snd (file_render fmt wf f) = OWrite raw (wf 1%nat).
Proof. intros fmt wf f raw t H Hn. unfold file_render. rewrite H. cbn. unfold emit. rewrite Hn. reflexivity. Qed.

(* For every file f, formatter and writer: render f once with NoFormat set (f1) and once
   with NoFormat cleared (f0).  The raw text is the same function of the file in both (it
   does not look at NoFormat), both leave the same import table behind, a panic is the same
   panic in both, and otherwise f1 writes the raw text while f0 writes o exactly when the
   formatter maps the raw text to o, and returns the format error (carrying the raw text,
   nothing written) exactly when the formatter rejects the raw text.  The bypass is the ONLY
   difference; formatting happens exactly once. *)
Theorem C02_formatted_is_fmt_of_raw : forall fmt wf f,
  let f1 := set_noformat f true in
  let f0 := set_noformat f false in
  file_raw f1 = file_raw f /\ file_raw f0 = file_raw f /\
  f_imports (fst (file_render fmt wf f1)) = f_imports (fst (file_render fmt wf f0)) /\
  match file_raw f with
  | Panic m => snd (file_render fmt wf f1) = OPanic m /\ snd (file_render fmt wf f0) = OPanic m
  | Ok (t, raw) =>
    f_imports (fst (file_render fmt wf f0)) = t /\
    snd (file_render fmt wf f1) = OWrite raw (wf 1%nat) /\
    (forall o b, snd (file_render fmt wf f0) = OWrite o b <-> fmt raw = Some o /\ b = wf 1%nat) /\
    (forall r, snd (file_render fmt wf f0) = OFormatErr r <-> fmt raw = None /\ r = raw)
  end.
Proof. exact formatted_is_fmt_of_raw. Qed.

(* Statement.RenderWithFile / Group.RenderWithFile (and Render, GoString): always formatted,
   whatever the File's NoFormat flag says. *)
Theorem C02_fragment_is_fmt_of_raw : forall fmt wf c f b,
  code_render_with_file fmt wf c (set_noformat f b) =
    (set_noformat (fst (code_render_with_file fmt wf c f)) b, snd (code_render_with_file fmt wf c f)) /\
  match render (file_cfg f) false (f_imports f) c with
  | Panic m => snd (code_render_with_file fmt wf c f) = OPanic m
  | Ok (t, raw) =>
    f_imports (fst (code_render_with_file fmt wf c f)) = t /\
    (forall o b, snd (code_render_with_file fmt wf c f) = OWrite o b <-> fmt raw = Some o /\ b = wf 1%nat) /\
    (forall r, snd (code_render_with_file fmt wf c f) = OFormatErr r <-> fmt raw = None /\ r = raw)
  end.
Proof. exact fragment_is_fmt_of_raw. Qed.

(* ------------------------------------------------------------------ the naming loop terminates *)

(* The `for !isValidAlias` loop of register always terminates: with m = |reserved words| +
   |entries of the table| at most 2m+1 candidates can be rejected (pigeonhole: a rejected
   candidate, or its prefixed form, is a reserved word or a name in the table, and both
   forms are injective in the index), so the index found is at most 2m+1 - the fuel 2m+2
   of the model is never exhausted.  Every configuration, table and base name. *)
Theorem C02_register_terminates : forall cfg t name alias,
  exists i, uniquify cfg t name alias (register_fuel t) 0 = Some i /\
            (N.to_nat i <= 2 * (length t + length Gen.Tables.reserved) + 1)%nat /\
            candidate_ok cfg t name alias i = true /\
            forall j, (j < i)%N -> candidate_ok cfg t name alias j = false.
Proof. exact uniquify_total. Qed.

Theorem C02_register_total : forall cfg t path, exists t' n, register cfg t path = Ok (t', n).
Proof. exact register_total. Qed.

(* ------------------------------------------------------------------ when rendering panics *)

(* SUFFICIENT, syntactic: a tree whose root is not a nil value, with no literal of
   unsupported type and no values-group holding a Dict among two or more items anywhere,
   renders normally - for every configuration, context and table, whatever the tree is
   otherwise (valid Go or nonsense, nil items below the root, any size). *)
Theorem C02_no_panic_sufficient : forall c, safe c = true ->
  forall cfg ctx t, exists t1 s, render cfg ctx t c = Ok (t1, s).
Proof. intros c H cfg. exact (safe_total cfg c H). Qed.

(* NECESSARY, with the message: every panic of render is one of three - the nil
   dereference of a nil value that is the ROOT of the render (nil items below the root are
   null and skipped by every loop), the explicit Values/Dict panic of a group that is in the
   tree, or the documented unsupported-literal panic of a literal that is in the tree.  No
   other panic exists (in particular not the model's own fuel panic). *)
Theorem C02_panic_cause : forall cfg c ctx t m, render cfg ctx t c = Panic m ->
  (is_nil c = true /\ m = s_nilptr) \/
  (m = s_values_panic /\ anywhere values_dict c = true) \/
  (exists ty, m = s_unsupported ++ ty /\ anywhere (bad_lit_named ty) c = true).
Proof. intros cfg c ctx t m H. exact (render_panic_cause cfg c ctx t m H). Qed.

(* EXACT: render panics iff a panic is REACHED, where [reach cfg t c] (Proofs/TotalProofs.v)
   reads the tree at the initial table t: the root is a nil value or an unsupported literal;
   or a group that is not an all-null "types" group has a non-null item that either is a
   Dict while the group is a "values" group of two or more items, or itself reaches a
   panic; or a statement has a non-null item that reaches one; or a Dict has a pair with
   both sides non-null one side of which reaches one.  Null-ness is taken at t because no
   registration changes it (render_dext).  Every configuration, context, table and tree. *)
Theorem C02_no_panic : forall cfg c ctx t,
  (exists m, render cfg ctx t c = Panic m) <-> reach cfg t c = true.
Proof. exact render_panics_iff. Qed.

(* Each of the three panics occurs ... *)
Example C02_panic_unsupported_literal :
  render (mkcfg [] [] []) false [] (CStmt [CTok (TkId (S "x")); CTok (TkLit (LBad (S "struct {}")))])
  = Panic (S "unsupported type for literal: struct {}").
Proof. vm_compute. reflexivity. Qed.

Example C02_panic_values_dict :
  render (mkcfg [] [] []) false []
    (CGroup 1 (S "values") (S "{") (S "}") (S ",") false
       [CDict [(CTok (TkId (S "a")), CTok (TkId (S "b")))]; CTok (TkId (S "x"))])
  = Panic s_values_panic.
Proof. vm_compute. reflexivity. Qed.

Example C02_panic_nil_root :
  render (mkcfg [] [] []) false [] CNilStmt = Panic s_nilptr /\
  (* ... but a nil item below the root is skipped *)
  render (mkcfg [] [] []) false [] (CStmt [CNil; CTok (TkId (S "x")); CNilGroup]) = Ok ([], S "x").
Proof. vm_compute. split; reflexivity. Qed.

(* ... and the syntactic condition is not necessary: an unsupported literal as the key of a
   Dict pair whose value is null is never rendered, and Values(Dict{}) with an empty Dict
   and a second item does not panic (the empty Dict is null). *)
Example C02_unreached_panic :
  let c1 := CDict [(CTok (TkLit (LBad (S "T"))), CTok TkNull)] in
  let c2 := CGroup 1 (S "values") (S "{") (S "}") (S ",") false [CDict []; CTok (TkId (S "x"))] in
  safe c1 = false /\ render (mkcfg [] [] []) false [] c1 = Ok ([], []) /\
  safe c2 = false /\ render (mkcfg [] [] []) false [] c2 = Ok ([], S "{x}").
Proof. vm_compute. repeat split; reflexivity. Qed.

(* ------------------------------------------------------------------ invalid code is an error *)

(* A File whose items are safe (see above; nil items allowed) never panics in Render: the
   raw text exists, and the call either writes (the raw text under NoFormat, the
   formatter's output otherwise) or - exactly when the formatter rejects the raw text -
   returns the format error and writes nothing.  Invalid compositions are therefore an
   error, not a panic, and are never emitted as if valid. *)
Theorem C02_invalid_is_error_not_panic : forall fmt wf f,
  forallb safe_in (f_items f) = true ->
  exists t raw, file_raw f = Ok (t, raw) /\
    f_imports (fst (file_render fmt wf f)) = t /\
    (forall m, snd (file_render fmt wf f) <> OPanic m) /\
    ((f_noformat f = true /\ snd (file_render fmt wf f) = OWrite raw (wf 1%nat)) \/
     (f_noformat f = false /\ exists o, fmt raw = Some o /\ snd (file_render fmt wf f) = OWrite o (wf 1%nat)) \/
     (f_noformat f = false /\ fmt raw = None /\ snd (file_render fmt wf f) = OFormatErr raw)).
Proof. exact invalid_is_error_not_panic. Qed.

(* the same for a fragment rendered on its own *)
Theorem C02_invalid_fragment_is_error_not_panic : forall fmt wf c f,
  safe c = true ->
  exists t raw, render (file_cfg f) false (f_imports f) c = Ok (t, raw) /\
    (forall m, snd (code_render_with_file fmt wf c f) <> OPanic m) /\
    ((exists o, fmt raw = Some o /\ snd (code_render_with_file fmt wf c f) = OWrite o (wf 1%nat)) \/
     (fmt raw = None /\ snd (code_render_with_file fmt wf c f) = OFormatErr raw)).
Proof. exact invalid_fragment_is_error_not_panic. Qed.

(* ------------------------------------------------------------------ successful output parses *)
(* CONDITIONAL on a contract of go/format.Source that is NOT ours to prove and that the
   installed toolchain does NOT honour for every input: "when it returns no error its output is
   a syntactically valid Go source file (resp. declaration/statement list)".  The recorded
   finding gofmt-hoists-plus-build-comment is a counterexample (a trailing `// +build ...`
   comment is hoisted and the statement that followed it is joined to the previous one), so
   for the real formatter [fmt_sound] is false and these two theorems only say where the
   guarantee would come from: jennifer adds nothing between the formatter and the writer.
   Parseability of what is actually written is decided by the harness oracle (go/parser on
   every output), never by these theorems.  [parses] is abstract. *)
Section Parses.
  Variable fmt : str -> option str.
  Variable wf : nat -> bool.
  Variable parses : str -> Prop.
  Hypothesis fmt_sound : forall s o, fmt s = Some o -> parses o.

  Theorem C02_success_parses : forall f o b,
    f_noformat f = false -> snd (file_render fmt wf f) = OWrite o b -> parses o.
  Proof. exact (success_parses fmt wf parses fmt_sound). Qed.

  Theorem C02_fragment_success_parses : forall c f o b,
    snd (code_render_with_file fmt wf c f) = OWrite o b -> parses o.
  Proof. exact (fragment_success_parses fmt wf parses fmt_sound). Qed.
End Parses.

(* Non-vacuity: a nonsensical tree (an operator, a case clause outside a switch, a Dict and
   an imported name in a row) is safe, renders to raw text, and a formatter that rejects
   everything turns it into a format error carrying that text; a valid file with the
   identity formatter is written. *)
Example C02_example_invalid :
  let c := CStmt [CTok (TkText (S "+")); CGroup 1 (S "case") (S "case ") (S ":") (S ",") false [CTok (TkLit (LInt 1))];
                  CDict [(CTok (TkId (S "k")), CNil); (CTok (TkLit (LStr (S "a"))), CTok (TkText (S "func")))];
                  CGroup 2 (S "qual") [] [] (S ".") false [CTok (TkPkg (S "a.b/c")); CTok (TkId (S "X"))]] in
  let f := add_item (new_file (S "p")) c in
  forallb safe_in (f_items f) = true /\
  snd (file_render (fun _ => None) (fun _ => false) f)
  = OFormatErr (S "package p" ++ [x0a; x0a] ++ S "import c " ++ [c_dq] ++ S "a.b/c" ++ [c_dq] ++ [x0a; x0a; x0a] ++
                S "+ case 1: " ++ [c_dq] ++ S "a" ++ [c_dq] ++ S ":func c.X") /\
  snd (file_render (fun _ => None) (fun _ => false) (set_noformat f true))
  = OWrite (S "package p" ++ [x0a; x0a] ++ S "import c " ++ [c_dq] ++ S "a.b/c" ++ [c_dq] ++ [x0a; x0a; x0a] ++
            S "+ case 1: " ++ [c_dq] ++ S "a" ++ [c_dq] ++ S ":func c.X") false.
Proof. vm_compute. repeat split; reflexivity. Qed.

Example C02_example_valid :
  let f := add_item (new_file (S "p")) (CStmt [CTok (TkText (S "var")); CTok (TkId (S "x")); CTok (TkText (S "=")); CTok (TkLit (LInt 1))]) in
  forallb safe_in (f_items f) = true /\
  snd (file_render (fun s => Some s) (fun _ => false) f)
  = OWrite (S "package p" ++ [x0a; x0a; x0a] ++ S "var x = 1") false.
Proof. vm_compute. split; reflexivity. Qed.
