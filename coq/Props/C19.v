(* C19: the "C" import is never renamed and its preamble sits directly above it. *)
From Jen Require Import Base.Bytes Base.Sort Model.Code Model.Naming Model.Render Model.FileRender GoStd.Quote.
From Jen Require Import Proofs.NamingProofs Proofs.StdProofs Proofs.ImportsProofs.

(* Over every history of registrations and Anon calls (any hints naming "C", any prefix),
   the table's entry for "C" is (C, no alias) or Anon's "_" ... *)
Theorem C19_C_entry : forall ops,
  Forall (fun o => match o with NReg cfg _ => is_local cfg s_C = false | NAnon _ => True end) ops ->
  forall d, alookup s_C (fold_left nstep ops []) = Some d ->
  d = mkdef s_C false \/ id_name d = s_us \/ id_name d = [].
Proof. intros ops H. exact (C_entry_history ops [] H C_entry_nil). Qed.

(* ... so a reference to "C" is always registered and written as C - never aliased,
   prefixed, numbered or underscored - and registering it disturbs no other entry ... *)
Theorem C19_C_never_renamed : forall cfg t,
  is_local cfg s_C = false ->
  (forall d, alookup s_C t = Some d -> d = mkdef s_C false \/ id_name d = s_us \/ id_name d = []) ->
  exists t', register cfg t s_C = Ok (t', s_C) /\ alookup s_C t' = Some (mkdef s_C false) /\
             (forall p, p <> s_C -> alookup p t' = alookup p t).
Proof. exact register_C. Qed.

(* ... it is never treated as a dot-import, whatever the hints say ... *)
Theorem C19_C_never_dot : forall cfg t, is_dot cfg t s_C = false.
Proof. exact is_dot_C. Qed.

(* ... and its import spec never shows a name, whatever the entry holds. *)
Theorem C19_C_spec_has_no_name : forall d, import_spec s_C d = GoQuote s_C.
Proof. intros d. unfold import_spec. rewrite str_eqb_refl. cbn [negb]. rewrite andb_false_r. reflexivity. Qed.

(* With a preamble: the other imports (without "C") come first, then the preamble comments
   in the order given, each followed by one newline, then `import "C"` on its own.  A block
   given in raw comment form (it starts with `//` or `/*`, and is written verbatim) first
   loses its trailing newlines ([trim_raw_preamble], Model/FileRender.v; its properties are
   in Props/C19_lex.v), so that the newline added here is the only one after it. *)
Theorem C19_preamble_adjacent : forall t cgo, cgo <> [] ->
  render_imports t cgo =
    main_block (filter (fun e => negb (str_eqb (fst e) s_C)) t) ++
    concat_str (map (fun c => comment_text (trim_raw_preamble c) ++ [x0a]) cgo) ++
    S "import " ++ [c_dq] ++ S "C" ++ [c_dq] ++ [x0a; x0a].
Proof.
  intros t cgo Hne. unfold render_imports, main_block.
  assert (Hn : nonempty_list cgo = true) by (destruct cgo; [congruence | reflexivity]).
  rewrite Hn, orb_true_r. cbn [andb].
  assert (Hf : filter (fun e : str * importdef => negb (str_eqb (fst e) s_C && true)) t =
               filter (fun e => negb (str_eqb (fst e) s_C)) t).
  { apply filter_ext. intros e. rewrite andb_true_r. reflexivity. }
  rewrite Hf. reflexivity.
Qed.

(* Without a preamble "C" is an ordinary line of the main block. *)
Theorem C19_no_preamble : forall t, render_imports t [] = main_block t.
Proof.
  intros t. unfold render_imports, main_block. cbn [nonempty_list andb]. rewrite andb_false_r. cbn [andb].
  assert (Hf : filter (fun e : str * importdef => negb (str_eqb (fst e) s_C && false)) t = t).
  { induction t as [|e l IH]; [reflexivity|]. cbn [filter]. rewrite andb_false_r. cbn [negb]. f_equal. exact IH. }
  rewrite Hf, app_nil_r. reflexivity.
Qed.

(* Non-vacuity: prefix, a hint naming "C", Anon("C") and a reference, with a preamble. *)
Example C19_example :
  let cfg := mkcfg [] (S "pkg") [(S "C", mkdef (S "x") true)] in
  let t := fold_left nstep [NAnon (S "C"); NReg cfg (S "a.b/d"); NReg cfg (S "C")] [] in
  t = [(S "C", mkdef (S "C") false); (S "a.b/d", mkdef (S "pkg_d") true)] /\
  render_imports t [S "#include <a.h>"] =
    S "import pkg_d " ++ [c_dq] ++ S "a.b/d" ++ [c_dq] ++ [x0a; x0a] ++
    S "// #include <a.h>" ++ [x0a] ++ S "import " ++ [c_dq] ++ S "C" ++ [c_dq] ++ [x0a; x0a].
Proof. vm_compute. split; reflexivity. Qed.

(* A preamble block in raw comment form that ends in newlines: they are dropped and ONE is
   written, so no empty line stands between the comment and the import (the code without
   [trim_raw_preamble] wrote two newlines here, and cgo ignored the detached comment); a
   block that is not raw keeps its text. *)
Example C19_raw_trailing_newline_text :
  render_imports [] [S "// #include <a.h>" ++ [x0a]] =
    S "// #include <a.h>" ++ [x0a] ++ S "import " ++ [c_dq] ++ S "C" ++ [c_dq] ++ [x0a; x0a] /\
  render_imports [] [S "/* int f(); */" ++ [x0a; x0a]; S "int g();" ++ [x0a]] =
    S "/* int f(); */" ++ [x0a] ++
    S "/*" ++ [x0a] ++ S "int g();" ++ [x0a] ++ S "*/" ++ [x0a] ++
    S "import " ++ [c_dq] ++ S "C" ++ [c_dq] ++ [x0a; x0a].
Proof. vm_compute. split; reflexivity. Qed.
