(* C01, tie of the scanner model to go/scanner.  GoStd/Tokens.v: golex is a hand-written model of
   Go's scanner; the token-level theorems of Props/C01_tokens.v are about it.  Gen/LexDiff.v is
   REGENERATED on every run by tools/cmd/lexdiff2coq: it runs go/scanner of the installed
   toolchain over a corpus (the texts of the examples of C01_tokens.v with and without their
   blanks, 130 hand-written edge cases, seeded random soups of operators, words, numbers,
   strings and comments, raw byte soups) and prints, for each text, the token sequence that
   go/scanner reads (None where it reports an error or reads a token outside the model's
   classes).  The obligation: the model gives exactly that answer on every text - both ways,
   accepted and rejected.  This is a differential test of the model (a sample), not a proof
   about go/scanner; it is what ties golex to the real scanner on every run. *)
From Coq Require Import List.
From Jen Require Import Base.Bytes GoStd.Tokens Gen.LexDiff.

Theorem C01_lexdiff_model_agrees_with_go_scanner :
  forallb (fun c => otoks_eqb (golex (fst c)) (snd c)) lexdiff_cases = true.
Proof. exact lexdiff_agree. Qed.
Print Assumptions C01_lexdiff_model_agrees_with_go_scanner.
