(* C01, the stretch goal of DESIGN.md section 5: FAITHFUL RENDERING AS ONE THEOREM OVER A GRAMMAR.

   Spec/MiniGo.v defines a subset of Go's abstract syntax -
     types        named, *T, []T, map[K]V, [n]T, chan T / <-chan T / chan<- T, func types (with a
                  variadic final parameter ...T and 0, 1 or several results), struct types with
                  fields and conventional tags (Tag(map); no embedded fields), interface types
                  with method signatures
     expressions  identifier, int / string / bool literal, nil, unary and binary operators,
                  call (0..n arguments, optional final ...), index, 2- and 3-index slices with
                  optional bounds, selector, parentheses, composite literal (elements without
                  keys: EComp; every element keyed: EKeyed, built with a Dict), func literal,
                  type assertion x.(T)
     statements   expression, assignment / define / op-assign, ++ --, return (also bare),
                  if [init;] cond {} [else ..], for with every subset of the three clauses,
                  for cond {}, for {}, for k[, v] := range x {}, switch [init;] [tag] with case
                  and default clauses (empty bodies included), block, break / continue [label],
                  go / defer call, var x [T] [= e], labeled statement, goto, fallthrough,
                  send statement, select with send / receive / default clauses, type switch
                  [init;] [b :=] x.(type) with type-list and default clauses
     declarations func (0, 1 or several results, variadic final parameter), method (with a
                  receiver), var ( .. ), const ( .. ), type
   - together with [build] (the tree the documented DSL elements produce, DESIGN.md Appendix D,
   groups and keyword tokens taken from the GENERATED tables) and [canon] (cty cexpr cstmt cdecl
   cfile: a direct printer of the text expected before gofmt, which never mentions the
   renderer).  The theorems below say

        render (build a) = canon a        for EVERY tree a

   - every composition, nesting depth and arity at once - from any import table, under any
   configuration, in either context, and the table is left unchanged (nothing here is
   package-qualified).  Proofs: Proofs/CanonProofs.v (induction over the three mutually
   defined syntactic classes with their nested lists; the loops of the renderer unfolded once).

   The hypothesis [tables_ok = true] says that the rows of the generated table which [build]
   uses exist and carry the delimiters [canon] assumes; it is a closed boolean and holds of the
   current table (C01_canon_tables_ok, by computation).

   KEYED COMPOSITE LITERALS (EKeyed t pairs = `T{k1: v1, k2: v2}`, built as
   T.Values(Dict{k1: v1, k2: v2})).  A Dict is a Go map: jennifer sorts the pairs by the TEXT
   their keys render to (sort.SliceStable) and writes nothing for no pair, `k:v` for one, and
   a newline followed by `k:v,` and a newline for each of several.  So the rendered program is
   the source program UP TO THE ORDER OF KEYED ELEMENTS: [canon] prints the elements sorted by
   the canonical text of their keys ([keyed_sorted]; C01_canon_keyed_order says that this is
   a permutation of the elements and that a literal already in that order is printed as it
   stands).  In the model a Dict is the list of its pairs in iteration order, [build] lists
   them in source order, and the sort is stable: render (build a) = canon a needs NO extra
   hypothesis - the hypothesis of the Dict theorems of C16 (every key and value renders without
   registering a package: `settled`) holds automatically, because nothing in MiniGo is
   package-qualified, and no pair is null.  What the real map adds is an arbitrary iteration
   order; the text does not depend on it when the key texts of each literal are pairwise
   distinct - the boolean [keys_ok] - which is C01_canon_keyed_any_map_order (and it IS needed:
   C01_canon_keys_ok_needed).

   WHAT IS NOT PROVED.  That [canon a], read by Go's scanner and parser, gives back the tree
   [a], and that gofmt then only changes layout: that is Go's grammar (go/parser, go/printer),
   not jennifer.  It is decided on every case by the harness oracle (harness/props/c01.go) on
   the files of GOROOT and on generated programs.  Nor does the grammar here cover all of Go
   (no embedded fields, no free-form struct tags, no embedded interfaces or type unions, no generics, qualified identifiers, floats, runes): for those the general emit theorems of Props/C01.v
   and the differential runs stand. *)
From Jen Require Import Base.Bytes Base.Num Model.Code Model.Naming Model.Render Model.FileRender.
From Jen Require Import Base.Sort Spec.MiniGo Proofs.CanonProofs.
From Coq Require Import Permutation.

(* The rows [build] takes from the generated tables are there and are what [canon] assumes
   (Call ( , ) ... Block { } multi-line; func, else, default ... as keyword tokens). *)
Theorem C01_canon_tables_ok : tables_ok = true.
Proof. exact tables_ok_holds. Qed.

(* Every type: the tree built for it renders to its canonical text. *)
Theorem C01_canon_type : forall cfg, tables_ok = true -> forall (a : ty) ctx t,
  render cfg ctx t (build_type a) = Ok (t, cty a).
Proof. exact render_build_type. Qed.

(* Every expression - any operators, any nesting of calls, indexes, slices, selectors,
   parentheses, composite and func literals (whose bodies are arbitrary statements), any number
   of arguments and elements: the tree built for it renders to exactly its canonical text. *)
Theorem C01_canon_expr : forall cfg, tables_ok = true -> forall (a : expr) ctx t,
  render cfg ctx t (build_expr a) = Ok (t, cexpr a).
Proof. exact render_build_expr. Qed.

(* Every statement: every shape of if / for / switch / range, bare return, empty blocks and
   empty case bodies, statements nested in blocks nested in func literals ... *)
Theorem C01_canon_stmt : forall cfg, tables_ok = true -> forall (a : stmt) ctx t,
  render cfg ctx t (build_stmt a) = Ok (t, cstmt a).
Proof. exact render_build_stmt. Qed.

(* Every declaration. *)
Theorem C01_canon_decl : forall cfg, tables_ok = true -> forall (a : decl) ctx t,
  render cfg ctx t (build_decl a) = Ok (t, cdecl a).
Proof. exact render_build_decl. Qed.

(* Every file of declarations: NewFile(name) with the built declarations added, before
   formatting, is `package name`, an empty line, and a newline before each declaration's
   canonical text; no import is registered. *)
Theorem C01_canon_file : tables_ok = true -> forall name (ds : list decl),
  file_raw (build_file name ds) = Ok ([], cfile name ds).
Proof. exact file_raw_build. Qed.

(* The case-block rule inside these theorems: the same Block with the same statements is
   written between braces, each statement on its own line, when it does not follow Case /
   Default in its statement - and as the bare lines when it does. *)
Theorem C01_canon_case_block : forall cfg, tables_ok = true -> forall (body : list stmt) t,
  render cfg false t (CStmt [gBlock 1 (map (fun s => CStmt (bstmt s)) body)]) = Ok (t, braces (map cstmt body)) /\
  render cfg false t (CStmt [kw (S "Default"); gBlock 1 (map (fun s => CStmt (bstmt s)) body)]) =
    Ok (t, S "default: " ++ lines (map cstmt body)).
Proof. exact block_braces_rule. Qed.

(* ------------------------------------------------------------------ keyed elements *)
(* The order in which the keyed elements of a literal are written: sorted by the canonical text
   of the key, bytewise; elements whose keys have the same text keep their relative order. *)
Theorem C01_canon_keyed_sorted_def : forall pairs,
  keyed_sorted pairs = isort_by (fun kv => cexpr (fst kv)) pairs.
Proof. intros; reflexivity. Qed.

(* The text of a keyed literal is the text of the literal with its elements in that order, which
   is a permutation of the elements: nothing is lost, nothing is written twice. *)
Theorem C01_canon_keyed_order : forall t pairs,
  cexpr (EKeyed t pairs) = cexpr (EKeyed t (keyed_sorted pairs)) /\ Permutation (keyed_sorted pairs) pairs.
Proof. exact keyed_canon_sorted. Qed.

(* A literal whose elements are in that order already is written as it stands: the type, ` {`,
   the elements ([keyed_body]: nothing / `k:v` / a newline, then `k:v,` and a newline each), `}`. *)
Theorem C01_canon_keyed_in_order : forall t pairs, keyed_sorted pairs = pairs ->
  cexpr (EKeyed t pairs) = cty t ++ S " {" ++ keyed_body (map ctext_pair pairs) ++ S "}".
Proof. exact keyed_canon_in_order. Qed.

Theorem C01_canon_ctext_pair_def : forall kv, ctext_pair kv = (cexpr (fst kv), cexpr (snd kv)).
Proof. intros; reflexivity. Qed.

(* With pairwise distinct key texts ([keys_ok]) the order in which the pairs are listed - in Go:
   the order in which the map happens to be iterated - does not change the text. *)
Theorem C01_canon_keyed_any_map_order : forall t pairs pairs',
  keys_ok pairs = true -> Permutation pairs pairs' -> cexpr (EKeyed t pairs) = cexpr (EKeyed t pairs').
Proof. exact keyed_canon_perm. Qed.

(* [keys_ok] is needed for that: two different keys with the same text (two calls `f ()`) are
   both written, in iteration order. *)
Example C01_canon_keys_ok_needed :
  let k := ECall (EId (S "f")) [] false in
  let p1 := [(k, EInt 1); (k, EInt 2)] in
  keys_ok p1 = false /\ Permutation p1 (rev p1) /\
  cexpr (EKeyed (TName (S "T")) p1) = S "T {" ++ nl ++ S "f ():1," ++ nl ++ S "f ():2," ++ nl ++ S "}" /\
  cexpr (EKeyed (TName (S "T")) (rev p1)) = S "T {" ++ nl ++ S "f ():2," ++ nl ++ S "f ():1," ++ nl ++ S "}".
Proof. cbv zeta. split; [reflexivity|]. split; [apply perm_swap|]. split; vm_compute; reflexivity. Qed.

(* ------------------------------------------------------------------ examples *)
(* (by computation on the model, independent of the proofs: the shapes the README's examples
   lack) *)
Definition ex_cfg : config := mkcfg [] [] [].
(* a configuration and a table that are not empty: a path-named file with a prefix, a hint, and
   an import already registered *)
Definition ex_cfg2 : config := mkcfg (S "a.b/c") (S "pre") [(S "x.y/z", mkdef (S "zz") false)].
Definition ex_tab2 : table := [(S "fmt", mkdef (S "fmt") false)].

Definition renders_to (c : code) (x : str) : Prop :=
  render ex_cfg false [] c = Ok ([], x) /\ render ex_cfg2 true ex_tab2 c = Ok (ex_tab2, x).

Definition va := EId (S "a").
Definition vb := EId (S "b").
Definition vi := EId (S "i").
Definition tint := TName (S "int").

(* canon of a small function, next to the text written out *)
Definition ex_max : decl :=
  DFunc (S "max") [(S "a", tint); (S "b", tint)] [tint]
    [SIf None (EBin va BGt vb) [SReturn [va]] None; SReturn [vb]].

Example C01_canon_example_max :
  cdecl ex_max = S "func max (a int,b int) int {
if a > b {
return a
}
return b
}" /\ renders_to (build_decl ex_max) (cdecl ex_max).
Proof. vm_compute. repeat split; reflexivity. Qed.

(* the for statement with each of the 8 subsets of its clauses; written out: only the post
   statement (the shape `for ;; post`) *)
Definition ex_for (i c p : bool) : stmt :=
  SFor (if i then Some (SAssign vi [] ADefine (EInt 0) []) else None)
       (if c then Some (EBin vi BLt (EInt 10)) else None)
       (if p then Some (SIncDec vi true) else None) [SContinue None].
Definition ex_bools3 : list (bool * bool * bool) :=
  flat_map (fun i => flat_map (fun c => map (fun p => (i, c, p)) [false; true]) [false; true]) [false; true].

(* [renders_to] as a boolean, to run over a list of programs *)
Definition renders_tob (c : code) (x : str) : bool :=
  match render ex_cfg false [] c, render ex_cfg2 true ex_tab2 c with
  | Ok ([], y1), Ok ([(p, d)], y2) =>
      str_eqb y1 x && str_eqb y2 x && str_eqb p (S "fmt") && str_eqb (id_name d) (S "fmt") && negb (id_alias d)
  | _, _ => false
  end.

Example C01_canon_example_for :
  forallb (fun '(i, c, p) => renders_tob (build_stmt (ex_for i c p)) (cstmt (ex_for i c p))) ex_bools3 = true /\
  length ex_bools3 = 8%nat /\
  cstmt (ex_for false false true) = S "for ;;i ++ {
continue
}" /\
  cstmt (ex_for true true true) = S "for i := 0;i < 10;i ++ {
continue
}" /\
  renders_to (build_stmt (SWhile (EBin vi BLt (EInt 10)) [])) (S "for i < 10 {}") /\
  renders_to (build_stmt (SLoop [])) (S "for  {}") /\
  renders_to (build_stmt (SRange vi (Some vb) true va [])) (S "for i,b := range a {}") /\
  renders_to (build_stmt (SRange vi None false va [])) (S "for i = range a {}").
Proof. vm_compute. repeat split; reflexivity. Qed.

(* bare return; empty case body, empty default body, a switch without clauses; 3-index slices
   with each bound omitted; break with a label *)
Definition ex_switch : stmt :=
  SSwitch (Some (SAssign va [] ADefine (ECall (EId (S "f")) [] false) [])) None
    [CCase (EInt 1) [EInt 2] []; CCase (EInt (-3)) [] [SReturn []; SBreak (Some (S "L"))]; CDefault []].

Example C01_canon_example_switch :
  cstmt ex_switch =
    S "switch a := f (); {" ++ nl ++      (* the absent tag: Empty() after the separator *)
    S "case 1,2: " ++ nl ++               (* an empty body: the blank after the colon, nothing else *)
    S "case -3: " ++ nl ++
    S "return " ++ nl ++                  (* bare return: the opener `return ` and no item *)
    S "break L" ++ nl ++
    S "default: " ++ nl ++
    S "}" /\ renders_to (build_stmt ex_switch) (cstmt ex_switch) /\
  renders_to (build_stmt (SSwitch None None [])) (S "switch  {}") /\
  renders_to (build_stmt (SReturn [])) (S "return ").
Proof. vm_compute. repeat split; reflexivity. Qed.

Example C01_canon_example_slice3 :
  renders_to (build_expr (ESlice3 va (Some vi) (Some vb) (Some (EInt 9)))) (S "a [i:b:9]") /\
  renders_to (build_expr (ESlice3 va None (Some vb) (Some (EInt 9)))) (S "a [:b:9]") /\
  renders_to (build_expr (ESlice3 va None None None)) (S "a [::]") /\
  renders_to (build_expr (ESlice va None (Some vb))) (S "a [:b]") /\
  renders_to (build_expr (ESlice (ESlice va (Some vi) None) None None)) (S "a [i:] [:]").
Proof. vm_compute. repeat split; reflexivity. Qed.

(* arity 0 and 8, a variadic call, a composite literal with 8 elements *)
Definition ex_8 : list expr := map EInt [1; 2; 3; 4; 5; 6; 7; 8]%Z.
Example C01_canon_example_arity :
  renders_to (build_expr (ECall va [] false)) (S "a ()") /\
  renders_to (build_expr (ECall va [] true)) (S "a ()") /\
  renders_to (build_expr (ECall va ex_8 false)) (S "a (1,2,3,4,5,6,7,8)") /\
  renders_to (build_expr (ECall va ex_8 true)) (S "a (1,2,3,4,5,6,7,8 ...)") /\
  renders_to (build_expr (EComp (TSlice tint) ex_8)) (S "[] int {1,2,3,4,5,6,7,8}") /\
  renders_to (build_expr (EComp (TMap (TName (S "string")) (TPtr tint)) [])) (S "map[string] * int {}") /\
  renders_to (build_stmt (SAssign va [vb; vi] AAssign (EInt 1) [EInt 2; EStr (S "x\")])) (S "a,b,i = 1,2,""x\\""").
Proof. vm_compute. repeat split; reflexivity. Qed.

(* keyed literals: no element, one element (inline), several (one per line, sorted by key text:
   upper case before lower case, a quoted key before both), nested in a call and in a value *)
Definition ex_keyed : expr :=
  EKeyed (TName (S "T"))
    [(EId (S "b"), EInt 2); (EId (S "a"), EInt 1);
     (EId (S "B"), ECall (EId (S "f")) [EKeyed (TName (S "T")) [(EId (S "k"), EStr (S "v"))]] false);
     (EStr (S "s"), EKeyed (TName (S "T")) [])].

Example C01_canon_example_keyed :
  cexpr ex_keyed = S "T {
""s"":T {},
B:f (T {k:""v""}),
a:1,
b:2,
}" /\ renders_to (build_expr ex_keyed) (cexpr ex_keyed) /\
  renders_to (build_expr (EKeyed (TMap (TName (S "string")) tint) [(EStr (S "x"), EInt 1)])) (S "map[string] int {""x"":1}") /\
  renders_to (build_expr (EKeyed (TSlice tint) [(EInt 10, va); (EInt 9, vb)])) (S "[] int {
10:a,
9:b,
}").
Proof. vm_compute. repeat split; reflexivity. Qed.

(* the types and statements added later: struct (empty, nested), interface, func type with a
   variadic parameter and two results, array, the three channel directions; a method with a
   receiver; labeled statement, goto, fallthrough, send, type assertion *)
Example C01_canon_example_types :
  renders_to (build_type (TStruct [])) (S "struct{}") /\
  renders_to (build_type (TStruct [(S "a", tint, []); (S "b", TStruct [(S "c", TArray 3 tint, [])], [])]))
             (S "struct{" ++ nl ++ S "a int" ++ nl ++ S "b struct{" ++ nl ++ S "c [3] int" ++ nl ++ S "}" ++ nl ++ S "}") /\
  (* tags: the pairs sorted by key, between backquotes - or quoted when the body has a backquote *)
  renders_to (build_type (TStruct [(S "a", tint, [(S "xml", S "b"); (S "json", S "a,omitempty")]); (S "b", tint, [(S "k", S "`")])]))
             (S "struct{" ++ nl ++ S "a int `json:""a,omitempty"" xml:""b""`" ++ nl ++ S "b int ""k:\""`\""""" ++ nl ++ S "}") /\
  renders_to (build_type (TIface [(S "M", ([(S "x", tint)], [tint; TName (S "error")])); (S "N", ([], []))]))
             (S "interface{" ++ nl ++ S "M (x int) (int,error)" ++ nl ++ S "N ()" ++ nl ++ S "}") /\
  renders_to (build_type (TFunc [(S "a", tint); (S "r", TEllipsis tint)] [tint])) (S "func (a int,r ... int) int") /\
  renders_to (build_type (TChan CRecv (TChan CSend (TChan CBoth tint)))) (S "<- chan chan <- chan int") /\
  renders_to (build_decl (DMethod (S "r", TPtr (TName (S "T"))) (S "m") [] [] [SFallthrough; SGoto (S "L")]))
             (S "func (r * T) m () {" ++ nl ++ S "fallthrough" ++ nl ++ S "goto L" ++ nl ++ S "}") /\
  renders_to (build_stmt (SLabeled (S "L") (SSend va (EAssert vb (TPtr tint))))) (S "L : a <- b .(* int)").
Proof. vm_compute. repeat split; reflexivity. Qed.

(* nesting depth 6: parentheses; calls; func literals whose bodies hold the next one; blocks *)
Fixpoint ex_nest (f : expr -> expr) (n : nat) (x : expr) : expr :=
  match n with O => x | Datatypes.S n' => f (ex_nest f n' x) end.
Definition ex_deep_func : expr :=
  ex_nest (fun x => EFunc [] [] [SIf None (EBool true) [SExpr (ECall x [] false)] (Some (SBlock []))]) 6 va.

Example C01_canon_example_depth :
  renders_to (build_expr (ex_nest EParen 6 va)) (S "((((((a))))))") /\
  renders_to (build_expr (ex_nest (fun x => ECall (EId (S "f")) [x; vb] false) 6 va))
             (S "f (f (f (f (f (f (a,b),b),b),b),b),b)") /\
  renders_to (build_expr (ex_nest (fun x => EIndex x (EBin vi BAdd (EInt 1))) 6 va))
             (S "a [i + 1] [i + 1] [i + 1] [i + 1] [i + 1] [i + 1]") /\
  renders_to (build_expr (ex_nest (fun x => EUn UMinus (EParen (EBin x BMul vb))) 6 va))
             (S "- (- (- (- (- (- (a * b) * b) * b) * b) * b) * b)") /\
  renders_to (build_expr ex_deep_func) (cexpr ex_deep_func).
Proof. vm_compute. repeat split; reflexivity. Qed.

(* a file: package clause, empty line, every declaration after a newline *)
Example C01_canon_example_file :
  let ds := [DType (S "T") (TMap (TName (S "string")) (TSlice (TPtr tint)));
             DVars [(S "x", Some tint, Some (EInt 1)); (S "y", None, Some (EStr (S "s"))); (S "z", Some tint, None)];
             DConsts []; ex_max] in
  cfile (S "p") ds = S "package p


type T map[string] [] * int
var (
x int = 1
y = ""s""
z int
)
const ()
func max (a int,b int) int {
if a > b {
return a
}
return b
}" /\ file_raw (build_file (S "p") ds) = Ok ([], cfile (S "p") ds).
Proof. vm_compute. split; reflexivity. Qed.

(* the deep func literal of C01_canon_example_depth, for the eye: its two outermost levels *)
Example C01_canon_example_func_literal :
  let f1 := EFunc [] [] [SIf None (EBool true) [SExpr (ECall va [] false)] (Some (SBlock []))] in
  cexpr f1 = S "func () {
if true {
a ()
} else {}
}".
Proof. vm_compute. reflexivity. Qed.

Print Assumptions C01_canon_type.
Print Assumptions C01_canon_expr.
Print Assumptions C01_canon_stmt.
Print Assumptions C01_canon_decl.
Print Assumptions C01_canon_file.
Print Assumptions C01_canon_keyed_order.
Print Assumptions C01_canon_keyed_in_order.
Print Assumptions C01_canon_keyed_any_map_order.
