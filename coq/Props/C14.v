(* C14: all forms of a construct are equivalent; callbacks run once, at build time.
   Statements only; every proof is `exact` of a lemma of Proofs/ApiProofs.v (or a
   kernel evaluation of the checker on the table generated from the CURRENT source).

   Vocabulary (Spec/ApiShape.v, Spec/ApiSem.v): [api_table] is Gen/Api.v, one row per exported
   function / method of package jen with its body in the builder IR; [api_wf] is the boolean
   check on such a table; [call cb fuel tbl recv name self args h] runs the function
   [name] of receiver type [recv] ("" = package function) on the store [h] and yields the
   returned value, the new store and the list of user callbacks the body invoked; [cb]
   (arbitrary) says what a user callback does to the store when invoked; [api_structs] (Gen/Api.v
   too) lists the struct types of the package with their embedded types and field names. *)
From Jen Require Import Model.FileRender.
From Jen Require Import Spec.ApiSem Gen.Api Proofs.ApiProofs.

(* The table of the current source passes the check: no Untranslatable body; every *Statement
   method X that returns its receiver (a construct) has a package function X whose body is
   literally `return newStatement().X(<its own parameters, in order>)` and a *Group method X
   whose body is literally `s := X(<params>); g.items = append(g.items, s); return s`, with
   identical parameter lists; conversely every package function / *Group method returning
   *Statement is such a form of a construct; construct bodies are straight-line, call nothing
   else in the API, call every function-typed parameter exactly once and use it in no other
   way; every XFunc whose X builds a Group has the same five Group fields (name, open, close,
   separator, multi) as X, no items, and `f(g)` between the allocation and the append;
   LitFunc / LitRuneFunc / LitByteFunc build the same token type as Lit / LitRune / LitByte with
   content `f()`; every variadic Group construct except Make has a Func variant; Do, DictFunc,
   LitFunc, LitRuneFunc, LitByteFunc, CustomFunc exist and take a callback;
   Statement.Render and Group.Render are `return x.RenderWithFile(w, NewFile(""))`; only package
   functions and methods of *Statement / *Group return *Statement (no method of File or of any
   other type does); Statement, Group and File each have a Render of their own and a GoString that
   is `buf := <new bytes.Buffer>; if err := x.Render(&buf); err != nil { panic(err) }; return
   buf.String()`; no struct type that embeds Group or Statement (File embeds *Group), and nothing
   else such a type embeds, has a method or field named like a *Group / *Statement method that
   returns *Statement (the promoted forms f.X(..) are the Group forms); no struct
   field can hold a function; there is no go / defer statement, no escaping function literal,
   no package variable that can hold a function. *)
Theorem C14_forms_wellformed : api_wf api_table api_structs func_fields go_stmts = true.
Proof. vm_compute. reflexivity. Qed.

(* No callback can survive the constructing call: nothing in package jen can store a
   function (no such struct field, variable or escaping closure, no goroutine, no defer), and
   every exported function that receives one has a straight-line body.  (The L2 renderer
   [Model.Render.render] takes a frozen [code] tree and has no callback parameter at all.) *)
Theorem C14_no_callback_at_render :
  func_fields = [] /\ go_stmts = [] /\
  forall r, In r api_table -> has_cb r = true -> exists l, r_body r = Body l.
Proof.
  exact (conj (proj1 (proj2 (api_wf_parts _ _ _ _ C14_forms_wellformed)))
        (conj (proj2 (proj2 (api_wf_parts _ _ _ _ C14_forms_wellformed)))
              (fun r => cb_rows_straight_line _ r (proj1 (api_wf_parts _ _ _ _ C14_forms_wellformed))))).
Qed.

(* FUNCTION FORM = METHOD FORM ON A FRESH STATEMENT, for every table that passes the check,
   every construct, all arguments, every store and every behaviour of the callbacks:
   X(args) is exactly the computation (&Statement{}).X(args) - same returned pointer, same
   resulting store (hence the same tree), same callback log. *)
Theorem C14_function_form : forall cb tbl sts ff gs, api_wf tbl sts ff gs = true ->
  forall X m, find_row tbl s_Statement X = Some m -> is_construct m = true ->
  forall fuel args h,
    call cb (Datatypes.S fuel) tbl [] X None args h =
    call cb fuel tbl s_Statement X (Some (VStmt (length (st_stmts h)))) args (alloc_stmt h []).
Proof. intros cb tbl sts ff gs H X m. exact (func_form_sem cb tbl X m (proj1 (api_wf_parts _ _ _ _ H))). Qed.

(* GROUP FORM = function form, then the returned statement is appended to g.items, then
   it is returned. *)
Theorem C14_group_form : forall cb tbl sts ff gs, api_wf tbl sts ff gs = true ->
  forall X m, find_row tbl s_Statement X = Some m -> is_construct m = true ->
  forall fuel args g h,
    call cb (Datatypes.S fuel) tbl s_Group X (Some (VGroup g)) args h =
    match call cb fuel tbl [] X None args h with
    | Some (r, h1, lg) =>
      match append_group h1 g r with
      | Some h2 => Some (r, h2, lg)
      | None => None
      end
    | None => None
    end.
Proof. intros cb tbl sts ff gs H X m. exact (group_form_sem cb tbl X m (proj1 (api_wf_parts _ _ _ _ H))). Qed.

(* ALL THREE FORMS TOGETHER.  If g.X(args) returns r: X(args) and (&Statement{}).X(args)
   return the same pointer r (the next free statement cell) with the same callback log and
   leave identical stores h1; the Group form's store h2 has the same statements and Dicts,
   the same groups except g, and g.items = old g.items ++ [r] (r is the group's new LAST item
   and it is the returned pointer itself, not a copy); the tree below r is the same in h2 and
   h1 unless r contains g. *)
Theorem C14_forms_equivalent : forall cb tbl sts ff gs, api_wf tbl sts ff gs = true ->
  forall X m, find_row tbl s_Statement X = Some m -> is_construct m = true ->
  forall fuel args g h r h2 lg,
    call cb (Datatypes.S (Datatypes.S fuel)) tbl s_Group X (Some (VGroup g)) args h = Some (r, h2, lg) ->
    exists h1 gr,
      r = VStmt (length (st_stmts h)) /\
      call cb (Datatypes.S fuel) tbl [] X None args h = Some (r, h1, lg) /\
      call cb fuel tbl s_Statement X (Some r) args (alloc_stmt h []) = Some (r, h1, lg) /\
      st_stmts h2 = st_stmts h1 /\ st_dicts h2 = st_dicts h1 /\
      nth_error (st_groups h1) g = Some gr /\
      nth_error (st_groups h2) g = Some (mkgrec (g_fields gr) (g_items gr ++ [r])) /\
      (forall j, j <> g -> nth_error (st_groups h2) j = nth_error (st_groups h1) j) /\
      (forall n, avoids n h1 g r = true -> snap n h2 r = snap n h1 r).
Proof. intros cb tbl sts ff gs H X m. exact (forms_equivalent cb tbl X m (proj1 (api_wf_parts _ _ _ _ H))). Qed.

(* ...Func VARIANTS OF GROUP CONSTRUCTS.  XFunc(pre.., f) allocates a Group cell with the five
   fields [flds] and NO items, runs f(g) once, and only then appends g to the statement;
   X(pre.., items...) allocates a Group cell with the SAME [flds] and the given items and
   appends it.  So XFunc(f) denotes X applied to whatever items f left in g; the callback log
   is exactly [f]. ([pre] are the leading plain parameters: Options for Custom, none otherwise.) *)
Theorem C14_func_variant : forall cb tbl sts ff gs, api_wf tbl sts ff gs = true ->
  forall XF Y r yr,
  find_row tbl s_Statement XF = Some r -> is_construct r = true -> has_cb r = true ->
  strip_suffix s_Func XF = Some Y -> find_row tbl s_Statement Y = Some yr ->
  builds_group yr || builds_group r = true ->
  exists pre pf pv fe,
    r_params r = pre ++ [pf] /\ is_func pf = true /\ r_params yr = pre ++ [pv] /\ is_variadic pv = true /\
    forallb is_plain pre = true /\ forallb (field_ok (names pre)) fe = true /\
    forall fuel prevs flds, length prevs = length pre ->
      fields_val (combine (names pre) prevs) fe = Some flds ->
      (forall id sp h,
         call cb (Datatypes.S fuel) tbl s_Statement XF (Some (VStmt sp)) (prevs ++ [VCb id]) h =
         let gp := length (st_groups h) in
         match append_stmt (fst (cb id [VGroup gp] (alloc_group h (mkgrec flds [])))) sp [VGroup gp] with
         | Some h3 => Some (VStmt sp, h3, [id])
         | None => None
         end) /\
      (forall its sp h,
         call cb (Datatypes.S fuel) tbl s_Statement Y (Some (VStmt sp)) (prevs ++ its) h =
         let gp := length (st_groups h) in
         match append_stmt (alloc_group h (mkgrec flds its)) sp [VGroup gp] with
         | Some h3 => Some (VStmt sp, h3, [])
         | None => None
         end).
Proof. intros cb tbl sts ff gs H XF Y r yr. exact (func_variant_sem cb tbl XF Y r yr (proj1 (api_wf_parts _ _ _ _ H))). Qed.

(* the field values of the theorem above always exist *)
Theorem C14_func_variant_fields : forall pre l prevs,
  forallb (field_ok (names pre)) l = true -> length prevs = length pre ->
  exists flds, fields_val (combine (names pre) prevs) l = Some flds.
Proof. exact fields_val_total. Qed.

(* LitFunc / LitRuneFunc / LitByteFunc: XFunc(f) appends the token X(v) appends with v := f(),
   f called once, before the append. *)
Theorem C14_lit_func_variant : forall cb tbl sts ff gs, api_wf tbl sts ff gs = true ->
  forall XF Y r yr,
  find_row tbl s_Statement XF = Some r -> is_construct r = true -> has_cb r = true ->
  strip_suffix s_Func XF = Some Y -> find_row tbl s_Statement Y = Some yr ->
  builds_group yr || builds_group r = false -> builds_token yr || builds_token r = true ->
  exists c, forall fuel,
    (forall id sp h,
       call cb (Datatypes.S fuel) tbl s_Statement XF (Some (VStmt sp)) [VCb id] h =
       match append_stmt (fst (cb id [] h)) sp [VTok (VConst c) (snd (cb id [] h))] with
       | Some h3 => Some (VStmt sp, h3, [id])
       | None => None
       end) /\
    (forall v sp h,
       call cb (Datatypes.S fuel) tbl s_Statement Y (Some (VStmt sp)) [v] h =
       match append_stmt h sp [VTok (VConst c) v] with
       | Some h3 => Some (VStmt sp, h3, [])
       | None => None
       end).
Proof. intros cb tbl sts ff gs H XF Y r yr. exact (token_func_variant_sem cb tbl XF Y r yr (proj1 (api_wf_parts _ _ _ _ H))). Qed.

(* CALLBACKS EXACTLY ONCE, SYNCHRONOUSLY: whenever a call of a construct returns - in its method,
   function or Group form - the log of callbacks invoked by the call has exactly one entry per
   function-typed parameter (every construct of jen has at most one: the log has length 1). *)
Theorem C14_callbacks_once : forall cb tbl sts ff gs, api_wf tbl sts ff gs = true ->
  forall X m, find_row tbl s_Statement X = Some m -> is_construct m = true ->
  (forall fuel self args h v h' lg,
     call cb fuel tbl s_Statement X self args h = Some (v, h', lg) ->
     length lg = length (filter is_func (r_params m))) /\
  (forall fuel args h v h' lg,
     call cb fuel tbl [] X None args h = Some (v, h', lg) ->
     length lg = length (filter is_func (r_params m))) /\
  (forall fuel g args h v h' lg,
     call cb fuel tbl s_Group X (Some (VGroup g)) args h = Some (v, h', lg) ->
     length lg = length (filter is_func (r_params m))).
Proof.
  intros cb tbl sts ff gs H X m Hf Hc.
  exact (conj (construct_callbacks_once cb tbl X m (proj1 (api_wf_parts _ _ _ _ H)) Hf Hc)
        (conj (func_form_callbacks_once cb tbl X m (proj1 (api_wf_parts _ _ _ _ H)) Hf Hc)
              (group_form_callbacks_once cb tbl X m (proj1 (api_wf_parts _ _ _ _ H)) Hf Hc))).
Qed.

(* the same for any other exported function that takes a callback (DictFunc) *)
Theorem C14_callbacks_once_other : forall cb tbl sts ff gs, api_wf tbl sts ff gs = true ->
  forall recv name r, find_row tbl recv name = Some r -> has_cb r = true -> returns_stmt r = false ->
  forall fuel self args h v h' lg,
    call cb fuel tbl recv name self args h = Some (v, h', lg) ->
    length lg = length (filter is_func (r_params r)).
Proof. intros cb tbl sts ff gs H recv name r. exact (callback_fn_once cb tbl recv name r (proj1 (api_wf_parts _ _ _ _ H))). Qed.

(* the callback APIs the property names are all there, each with a callback parameter *)
Theorem C14_named_callback_apis : forall recv name, In (recv, name) named_callback_apis ->
  exists r, find_row api_table recv name = Some r /\ has_cb r = true.
Proof. exact (api_wf_named _ _ _ _ C14_forms_wellformed). Qed.

(* GoString = Render = RenderWithFile with a fresh File.
   In the model: [code_render] (what Render and GoString write; GoString additionally turns
   an error into a panic) is by definition [code_render_with_file] on [new_file ""] ... *)
Theorem C14_entry_points_agree : forall fmt wfail c,
  code_render fmt wfail c = snd (code_render_with_file fmt wfail c (new_file [])).
Proof. exact entry_points_agree. Qed.

(* ... and in the current source: the body of Statement.Render and of Group.Render is
   literally `return x.RenderWithFile(w, NewFile(""))`. *)
Theorem C14_render_delegates : forall recv, recv = s_Statement \/ recv = s_Group ->
  exists r w, find_row api_table recv (S "Render") = Some r /\ r_params r = [w] /\
    r_body r = Body [SReturn (ECallMeth (EVar (r_self r)) (S "RenderWithFile") [EVar (p_name w); ECallFn (S "NewFile") [EStr []]])].
Proof. exact (api_wf_render _ _ _ _ C14_forms_wellformed). Qed.

(* ... GoString in the current source: for *Statement, *Group and *File the body is literally
   `buf := <a new bytes.Buffer>; if err := x.Render(&buf); err != nil { panic(err) }; return
   buf.String()` with x the receiver, and the receiver's type has a Render method of its own (so
   x.Render is that one, not a promoted one). *)
Theorem C14_gostring_delegates : forall recv, recv = s_Statement \/ recv = s_Group \/ recv = s_File ->
  exists r b rr, find_row api_table recv (S "GoString") = Some r /\ r_params r = [] /\ r_ret r = S "string" /\
    r_body r = BufString b (ECallMeth (EVar (r_self r)) (S "Render") [EVar b]) /\ b <> r_self r /\
    find_row api_table recv (S "Render") = Some rr.
Proof.
  intros recv H. apply (api_wf_gostring _ _ _ _ C14_forms_wellformed).
  destruct H as [H|[H|H]]; subst; simpl; auto.
Qed.

(* ONLY THE THREE FORMS.  In every table that passes the check a function that returns *Statement
   is a package function or a method of *Statement or *Group (which row_ok ties to a construct);
   File - or any other type - has no method returning *Statement. *)
Theorem C14_only_three_forms : forall tbl sts ff gs, api_wf tbl sts ff gs = true ->
  forall r, In r tbl -> returns_stmt r = true ->
  r_recv r = [] \/ r_recv r = s_Statement \/ r_recv r = s_Group.
Proof. intros tbl sts ff gs H r. exact (returns_stmt_recv tbl r (proj1 (api_wf_parts _ _ _ _ H))). Qed.

(* THE PROMOTED FORMS ARE THE GROUP FORMS.  B is Group (or Statement), T another struct type that
   embeds B - directly as File does, or through further embedded fields: then neither T nor
   anything else T embeds (at any depth; B itself excepted) has a method or a field with the name
   of a method of B that returns *Statement, and all those types are struct types of package jen
   or Statement (types whose methods and fields the table lists).  So t.X(..) can only select
   the method X of B: nothing shadows it, nothing makes it ambiguous. *)
Theorem C14_promoted_forms_not_shadowed : forall tbl sts ff gs, api_wf tbl sts ff gs = true ->
  forall B, B = s_Group \/ B = s_Statement ->
  forall T, In T (map t_name sts) -> reaches sts B T = true ->
  forall U, In U (cone_of sts T) -> U <> B ->
    known_type sts U = true /\
    forall M r, find_row tbl B M = Some r -> returns_stmt r = true ->
      find_row tbl U M = None /\ ~ In M (fields_of sts U).
Proof. exact no_shadow_sound. Qed.

(* ---- non-vacuity: the theorems' hypotheses hold of the current table, and the semantics
   computes what one expects on it.  [demo_cb]: a callback given a group appends two items to
   it; a callback given a statement appends one item; any other returns a value. *)
Definition demo_cb (id : N) (args : list value) (h : store) : store * value :=
  match args with
  | [VGroup g] =>
    (match append_group h g (VOpaque id) with
     | Some h1 => match append_group h1 g (VOpaque (id + 1)) with Some h2 => h2 | None => h1 end
     | None => h
     end, VNil)
  | [VStmt p] => (match append_stmt h p [VOpaque id] with Some h1 => h1 | None => h end, VNil)
  | _ => (h, VOpaque id)
  end.

(* 120 constructs, each in three forms, on the current tree; Block, BlockFunc, LitFunc among them *)
Example C14_example_constructs :
  length (filter is_construct api_table) = 120%nat /\
  (exists m, find_row api_table s_Statement (S "Block") = Some m /\ is_construct m = true) /\
  (exists r yr, find_row api_table s_Statement (S "BlockFunc") = Some r /\ is_construct r = true /\ has_cb r = true /\
                strip_suffix s_Func (S "BlockFunc") = Some (S "Block") /\
                find_row api_table s_Statement (S "Block") = Some yr /\ builds_group yr || builds_group r = true) /\
  (exists r yr, find_row api_table s_Statement (S "LitFunc") = Some r /\ is_construct r = true /\ has_cb r = true /\
                strip_suffix s_Func (S "LitFunc") = Some (S "Lit") /\
                find_row api_table s_Statement (S "Lit") = Some yr /\
                builds_group yr || builds_group r = false /\ builds_token yr || builds_token r = true).
Proof.
  split; [vm_compute; reflexivity|]. split; [eexists; split; vm_compute; reflexivity|].
  split; [do 2 eexists; repeat split; vm_compute; reflexivity|].
  do 2 eexists; repeat split; vm_compute; reflexivity.
Qed.

(* g.BlockFunc(f) on a store holding one empty group: returns statement 0, whose only item is
   a new group 1 {block { } "" multi} holding the two items f appended; group 0 got
   statement 0 as its last item; the log is [f]. *)
Example C14_example_run :
  call demo_cb 3 api_table s_Group (S "BlockFunc") (Some (VGroup 0)) [VCb 7]
       (alloc_group empty_store (mkgrec [] [])) =
  Some (VStmt 0,
        mkstore [[VGroup 1]]
                [mkgrec [] [VStmt 0];
                 mkgrec [VStr (S "block"); VStr (S "{"); VStr (S "}"); VStr []; VBool true] [VOpaque 7; VOpaque 8]]
                [],
        [7%N]) /\
  (* Block(7, 8) builds the same group cell *)
  call demo_cb 3 api_table [] (S "Block") None [VOpaque 7; VOpaque 8] empty_store =
  Some (VStmt 0,
        mkstore [[VGroup 0]]
                [mkgrec [VStr (S "block"); VStr (S "{"); VStr (S "}"); VStr []; VBool true] [VOpaque 7; VOpaque 8]]
                [],
        []) /\
  (* Do(f), DictFunc(f), LitFunc(f): the callback log is [f] *)
  (match call demo_cb 3 api_table [] (S "Do") None [VCb 5] empty_store with Some (_, _, lg) => lg | None => [] end) = [5%N] /\
  (match call demo_cb 3 api_table [] (S "DictFunc") None [VCb 5] empty_store with Some (_, _, lg) => lg | None => [] end) = [5%N] /\
  (match call demo_cb 3 api_table [] (S "LitFunc") None [VCb 5] empty_store with Some (_, _, lg) => lg | None => [] end) = [5%N].
Proof. repeat split; vm_compute; reflexivity. Qed.

(* ---- non-vacuity of the checks on receivers, embedding and GoString.
   File is the one struct type of the current tree that gets the Group forms by promotion; its
   embedding cone is [File; Group]; there are 120 Group forms it must not shadow. *)
Example C14_example_promotion :
  filter (reaches api_structs s_Group) (map t_name api_structs) = [S "File"] /\
  filter (reaches api_structs s_Statement) (map t_name api_structs) = [] /\
  cone_of api_structs (S "File") = [S "File"; S "Group"] /\
  length (form_names api_table s_Group) = 120%nat /\
  declares api_table api_structs (S "File") (S "Render") = true /\
  declares api_table api_structs (S "File") (S "NoFormat") = true.
Proof. repeat match goal with |- _ /\ _ => split end; vm_compute; reflexivity. Qed.

(* tables the checker must reject (each differs from the current one in one row or one struct):
   1. `func (f *File) Type() *Statement { s := Type(); return s }` - a fourth form, shadowing
      the promoted Group form (row_ok: receiver File returns *Statement; no_shadow too);
   2. `func (f *File) Type() string` - shadows without returning *Statement (no_shadow only);
   3. File gets a field called Block;
   4. File embeds an unexported struct that has an exported method Id (found under its real
      receiver type whatever alias the source uses);
   5. File embeds a type of another package (its methods are not in the table);
   6. Statement.GoString renders with RenderWithFile(&buf, NewFilePath(..));
   7. File.GoString written out by hand (Other text);
   8. File.Render removed (f.Render(&buf) would select the promoted Render of *Group). *)
Definition bad_row_1 : api_row :=
  mkrow (S "File") (S "f") (S "Type") [] (S "*Statement")
        (Body [SDefine (S "s") (ECallFn (S "Type") []); SReturn (EVar (S "s"))]).
Definition bad_row_2 : api_row := mkrow (S "File") (S "f") (S "Type") [] (S "string") (Other (S "{ return """" }")).
Definition set_struct (st : struct_info) (sts : list struct_info) : list struct_info :=
  map (fun s => if str_eqb (t_name s) (t_name st) then st else s) sts.
Definition set_row (r : api_row) (tbl : list api_row) : list api_row :=
  map (fun x => if row_is (r_recv r) (r_name r) x then r else x) tbl.
Definition drop_row (recv name : str) (tbl : list api_row) : list api_row :=
  filter (fun x => negb (row_is recv name x)) tbl.

Example C14_example_rejected :
  api_wf (bad_row_1 :: api_table) api_structs [] [] = false /\
  no_shadow (bad_row_1 :: api_table) api_structs = false /\
  rows_wf (bad_row_2 :: api_table) = true /\
  api_wf (bad_row_2 :: api_table) api_structs [] [] = false /\
  api_wf api_table (set_struct (mkstruct (S "File") [S "Group"] [S "name"; S "Block"]) api_structs) [] [] = false /\
  api_wf (mkrow (S "core") (S "c") (S "Id") [] (S "") (Other []) :: api_table)
         (mkstruct (S "core") [] [] :: set_struct (mkstruct (S "File") [S "Group"; S "core"] []) api_structs) [] [] = false /\
  api_wf api_table (set_struct (mkstruct (S "File") [S "Group"; S "bytes.Buffer"] []) api_structs) [] [] = false /\
  api_wf (set_row (mkrow s_Statement (S "s") (S "GoString") [] (S "string")
                     (BufString (S "buf") (ECallMeth (EVar (S "s")) (S "RenderWithFile")
                                   [EVar (S "buf"); ECallFn (S "NewFilePath") [EStr (S "zz.zz/local")]]))) api_table)
         api_structs [] [] = false /\
  api_wf (set_row (mkrow s_File (S "f") (S "GoString") [] (S "string") (Other (S "{ ... }"))) api_table)
         api_structs [] [] = false /\
  api_wf (drop_row s_File (S "Render") api_table) api_structs [] [] = false /\
  (* the helpers do what they say: unchanged inputs are accepted *)
  api_wf (set_row (mkrow s_Statement (S "s") (S "GoString") [] (S "string")
                     (BufString (S "b") (ECallMeth (EVar (S "s")) (S "Render") [EVar (S "b")]))) api_table)
         (set_struct (mkstruct (S "File") [S "Group"] [S "name"]) api_structs) [] [] = true.
Proof. repeat match goal with |- _ /\ _ => split end; vm_compute; reflexivity. Qed.
