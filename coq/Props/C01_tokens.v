(* C01 at the level of TOKENS: the text jennifer writes for a program, read by Go's scanner,
   is the token sequence of that program - no two adjacent pieces of output merge into a
   different token (`+` `+` into `++`, `<` `-` into `<-`, `&` `^` into `&^`, a word into a
   keyword or a number, `.` into a float, `/` `/` into a comment ...) and no piece is split.

   THE PARTS.
   - GoStd/Tokens.v: [golex], a model of go/scanner for identifiers / keywords, decimal
     integers, interpreted strings, all operators and delimiters with longest match; white space
     and comments skipped; None wherever go/scanner would report an error or produce a token
     of another class (so [golex s = Some ts] is a positive statement about s).  Newlines are
     white space: automatic semicolon insertion belongs to the statement structure, which is
     the parser's business.  The model is compared with go/scanner itself by
     harness-style differential cases (tools lexdiff, see the report).
   - Spec/MiniGoTokens.v: [texpr tstmt tclause tdecl tfile], the token sequence of a program
     defined on the abstract syntax of Spec/MiniGo.v, and [expr_ok ...]: every NAME in the
     program is an identifier over ASCII and not a keyword.  Integers (any Z; a negative one
     is the two tokens `-` and the digits) and strings (any byte string) are unconstrained.
   - Proofs/TokensProofs.v: the proofs (a boundary predicate [sep_ok] per token class; the
     bytes the printer puts after a token stop every token).

   WHAT IS PROVED.  For EVERY tree whose names are identifiers: golex (canon a) = Some (tokens a),
   for types, expressions, statements, clauses, declarations and files; and the same for the
   output of the RENDERER on the tree the DSL builds (with Props/C01_canon.v).

   WHAT IS NOT.  That Go's parser builds the tree a from these tokens (the grammar; harness
   oracle c01).  That [golex] is go/scanner: it is a model, tied to the code by differential
   cases only. *)
From Jen Require Import Base.Bytes Base.Num GoStd.Quote GoStd.Tokens Model.Code Model.Naming Model.Render Model.FileRender.
From Jen Require Import Spec.MiniGo Spec.MiniGoTokens Proofs.TokensProofs.

(* ------------------------------------------------------------------ the canonical text *)
(* Every type whose names are identifiers: its text is scanned into its tokens. *)
Theorem C01_tokens_type : forall a : ty, ty_ok a = true -> golex (cty a) = Some (tty a).
Proof. exact golex_cty. Qed.

(* Every expression - any operators in any nesting (a - -b, x & ^y, * p ++, <- -1), calls with
   any number of arguments and the variadic dots, indexes, slices with any bounds omitted,
   selectors, composite and func literals: the text is scanned into exactly the tokens of the
   expression, in order. *)
Theorem C01_tokens_expr : forall a : expr, expr_ok a = true -> golex (cexpr a) = Some (texpr a).
Proof. exact golex_cexpr. Qed.

(* Every statement. *)
Theorem C01_tokens_stmt : forall a : stmt, stmt_ok a = true -> golex (cstmt a) = Some (tstmt a).
Proof. exact golex_cstmt. Qed.

(* Every case / default clause. *)
Theorem C01_tokens_clause : forall a : clause, clause_ok a = true -> golex (cclause a) = Some (tclause a).
Proof. exact golex_cclause. Qed.

(* Every declaration. *)
Theorem C01_tokens_decl : forall a : decl, decl_ok a = true -> golex (cdecl a) = Some (tdecl a).
Proof. exact golex_cdecl. Qed.

(* Every file: `package`, the name, the tokens of the declarations. *)
Theorem C01_tokens_file : forall name ds, ident_ok name = true -> forallb decl_ok ds = true ->
  golex (cfile name ds) = Some (tfile name ds).
Proof. exact golex_cfile. Qed.

(* ------------------------------------------------------------------ the renderer's output *)
(* Whatever the renderer returns for the tree the DSL builds - under any configuration, in
   either context, from any import table - is scanned into the tokens of the program.
   ([tables_ok = true] holds of the generated tables: Props/C01_canon.v, C01_canon_tables_ok.) *)
Theorem C01_tokens_rendered_type : forall cfg, tables_ok = true -> forall (a : ty) ctx t t' s,
  ty_ok a = true -> render cfg ctx t (build_type a) = Ok (t', s) -> golex s = Some (tty a).
Proof. exact render_tokens_type. Qed.

Theorem C01_tokens_rendered_expr : forall cfg, tables_ok = true -> forall (a : expr) ctx t t' s,
  expr_ok a = true -> render cfg ctx t (build_expr a) = Ok (t', s) -> golex s = Some (texpr a).
Proof. exact render_tokens_expr. Qed.

Theorem C01_tokens_rendered_stmt : forall cfg, tables_ok = true -> forall (a : stmt) ctx t t' s,
  stmt_ok a = true -> render cfg ctx t (build_stmt a) = Ok (t', s) -> golex s = Some (tstmt a).
Proof. exact render_tokens_stmt. Qed.

Theorem C01_tokens_rendered_decl : forall cfg, tables_ok = true -> forall (a : decl) ctx t t' s,
  decl_ok a = true -> render cfg ctx t (build_decl a) = Ok (t', s) -> golex s = Some (tdecl a).
Proof. exact render_tokens_decl. Qed.

(* The unformatted file (File.NoFormat) built from the declarations. *)
Theorem C01_tokens_rendered_file : forall name ds t s, tables_ok = true ->
  ident_ok name = true -> forallb decl_ok ds = true ->
  file_raw (build_file name ds) = Ok (t, s) -> golex s = Some (tfile name ds).
Proof. exact file_tokens. Qed.

(* ------------------------------------------------------------------ why: the boundary predicate *)
(* A token text (a word, the decimal text of a number, a quoted string, an operator) before a
   rest at which it stops - [sep_ok]: a word before anything but a letter or digit, a number
   before anything but a letter, digit or `.`, a string before anything, an operator o before
   a rest r such that o is still the longest operator at the head of o ++ r, `.` not before a
   digit, `/` not before `/` or `*` - is read as that one token, and the scanner continues
   with the rest exactly as if it started there. *)
Theorem C01_tokens_boundary : forall t r, tok_wf t -> sep_ok t r = true ->
  golex (snd t ++ r) = pre [t] (golex r).
Proof. exact lex_token. Qed.

(* Every token stops at the end of the text and before each of the bytes that the printer
   writes after a token: blank, newline, `,` `)` `]` `}` `:` `;`. *)
Theorem C01_tokens_boundary_bytes : forall t r, tok_wf t -> bndb r = true -> sep_ok t r = true.
Proof. exact sep_bnd. Qed.

(* [op_at], the operator rule of the scanner model, is longest match over the operator list. *)
Theorem C01_tokens_longest_match : forall s o, op_at s = Some o ->
  In o go_ops /\ has_prefix o s = true /\
  forall o', In o' go_ops -> has_prefix o' s = true -> (length o' <= length o)%nat.
Proof. exact op_at_longest. Qed.

(* The blanks matter: the same pieces put side by side do merge. *)
Theorem C01_tokens_boundary_needed :
  sep_ok (KOp, S "+") (S "+") = false /\ sep_ok (KOp, S "<") (S "-1") = false /\
  sep_ok (KOp, S "&") (S "^y") = false /\ sep_ok (KOp, S "/") (S "/") = false /\
  sep_ok (KOp, S "/") (S "*p") = false /\ sep_ok (KOp, S ".") (S "5") = false /\
  sep_ok (KOp, S ":") (S "=") = false /\ sep_ok (KInt, S "2") (S "...") = false /\
  sep_ok (KIdent, S "x") (S "1") = false /\ sep_ok (KKeyword, S "if") (S "x") = false /\
  sep_ok (KInt, S "1") (S "e") = false.
Proof. exact sep_needed. Qed.

(* ------------------------------------------------------------------ the hypothesis *)
(* [expr_ok] is needed, and it is all that is needed.  Id(..) and Op(..) take any string: a name
   that is a keyword, that contains an operator, or the empty name, is written as it is, and
   the text is then NOT the token sequence of the program (jennifer does not validate names;
   the caller must).  The last witness: the name "=b" after the colon of a slice makes `:=`. *)
Example C01_tokens_hypothesis_needed :
  golex (cexpr (EId (S "if"))) = Some [(KKeyword, S "if")] /\
  texpr (EId (S "if")) = [(KIdent, S "if")] /\
  golex (cexpr (EId (S "a+b"))) = Some [(KIdent, S "a"); (KOp, S "+"); (KIdent, S "b")] /\
  golex (cexpr (ECall (EId []) [] false)) = Some [(KOp, S "("); (KOp, S ")")] /\
  golex (cexpr (ESlice (EId (S "a")) None (Some (EId (S "=b"))))) =
    Some [(KIdent, S "a"); (KOp, S "["); (KOp, S ":="); (KIdent, S "b"); (KOp, S "]")] /\
  golex (cexpr (EId [xc3; xa9])) = None.
Proof. vm_compute. repeat split; reflexivity. Qed.

(* OUTSIDE THE FRAGMENT.  The blanks come from statements; a group writes its separator bare.
   With the separators of the generated constructs (`,` `;` `:` and none) that is harmless -
   the theorems above - but Custom(Options{Separator: "-"}, Lit(1), Lit(-2)) is written
   `1--2`, which is the tokens 1 -- 2 and not 1 - - 2 (the real library prints the same text
   and gofmt rejects it: "expected ';', found '--'").  Custom separators are the caller's. *)
Example C01_tokens_custom_separator_merges :
  let c := CStmt [id (S "x"); op (S "=");
                  CGroup 0 (S "custom") [] [] (S "-") false
                         [CStmt [CTok (TkLit (LInt 1))]; CStmt [CTok (TkLit (LInt (-2)))]]] in
  render (mkcfg [] [] []) false [] c = Ok ([], S "x = 1--2") /\
  golex (S "x = 1--2") = Some [tid (S "x"); top (S "="); (KInt, S "1"); top (S "--"); (KInt, S "2")].
Proof. vm_compute. split; reflexivity. Qed.

(* ------------------------------------------------------------------ example *)
Definition tx_a := EId (S "a").
Definition tx_b := EId (S "b").
Definition tx_p := EId (S "p").
Definition tx_x := EId (S "x").
Definition tx_y := EId (S "y").
Definition tx_i := EId (S "i").
Definition tx_int := TName (S "int").

(* a func declaration with an if (init statement, else), a three-clause for, a switch on a
   composite literal with case and default clauses, a range loop; operators side by side:
   a - -b, x & ^y, p < -1, * p ++, <- -1, + i + + i, x &^= x &^ y; slices with omitted
   bounds; the variadic dots; a string with `//`, quotes and `/* */` in it *)
Definition tokens_ex_prog : decl :=
  DFunc (S "f") [(S "p", TPtr tx_int); (S "m", TMap (TName (S "string")) (TSlice tx_int))] (Some tx_int)
  [ SVar (S "s") None (Some (EStr (S "// not a ""comment"" /* */")));
    SIf (Some (SAssign tx_a [tx_b] ADefine (EBin tx_a BSub (EUn UMinus tx_b)) [EBin tx_x BAnd (EUn UXor tx_y)]))
        (EBin tx_p BLt (EInt (-1)))
        [SIncDec (EUn UStar tx_p) true; SExpr (EUn UArrow (EInt (-1)))]
        (Some (SBlock [SAssign tx_x [] AAndNot (EBin tx_x BAndNot tx_y) []]));
    SFor (Some (SAssign tx_i [] ADefine (EInt 0) []))
         (Some (EBin tx_i BLt (ECall (EId (S "len")) [tx_a] false)))
         (Some (SIncDec tx_i true))
         [SAssign (EIndex tx_a tx_i) [] AAdd (EBin (EUn UPlus tx_i) BAdd (EUn UPlus tx_i)) [];
          SExpr (ECall (ESel (EId (S "fmt")) (S "Println"))
                       [ESlice tx_a None (Some (EInt (-1))); ESlice3 tx_a None None None] true)];
    SSwitch None (Some (EComp (TSlice tx_int) [EInt 1; EInt (-2)]))
      [CCase (EInt 1) [EInt (-2)] [SBreak (Some (S "L")); SReturn [EUn UAmp (EParen tx_x)]];
       CDefault [SGo (EFunc [] None [SReturn []]) [] false]];
    SRange tx_i (Some tx_b) true tx_a [SContinue None];
    SReturn [EBin (EBool true) BLand (EBin ENil BNe tx_p)] ].

(* the hypothesis holds of it; the text, for the eye; the scanner gives its 154 tokens *)
Example C01_tokens_example :
  decl_ok tokens_ex_prog = true /\
  cdecl tokens_ex_prog = S "func f (p * int,m map[string] [] int) int {
var s = ""// not a \""comment\"" /* */""
if a,b := a - - b,x & ^ y;p < -1 {
* p ++
<- -1
} else {
x &^= x &^ y
}
for i := 0;i < len (a);i ++ {
a [i] += + i + + i
fmt . Println (a [:-1],a [::] ...)
}
switch [] int {1,-2} {
case 1,-2: " ++ nl ++ S "break L
return & (x)
default: " ++ nl ++ S "go func () {
return " ++ nl ++ S "} ()
}
for i,b := range a {
continue
}
return true && nil != p
}" /\
  golex (cdecl tokens_ex_prog) = Some (tdecl tokens_ex_prog) /\
  length (tdecl tokens_ex_prog) = 154%nat /\
  golex (cfile (S "p") [tokens_ex_prog]) = Some (tfile (S "p") [tokens_ex_prog]).
Proof. vm_compute. repeat split; reflexivity. Qed.

(* a few of its adjacencies, token by token *)
Example C01_tokens_example_adjacent :
  golex (cexpr (EBin tx_a BSub (EUn UMinus tx_b))) = Some [tid (S "a"); top (S "-"); top (S "-"); tid (S "b")] /\
  golex (cexpr (EBin tx_x BAnd (EUn UXor tx_y))) = Some [tid (S "x"); top (S "&"); top (S "^"); tid (S "y")] /\
  golex (cexpr (EBin tx_p BLt (EInt (-1)))) = Some [tid (S "p"); top (S "<"); top (S "-"); (KInt, S "1")] /\
  golex (cexpr (EUn UArrow (EInt (-1)))) = Some [top (S "<-"); top (S "-"); (KInt, S "1")] /\
  golex (cstmt (SIncDec (EUn UStar tx_p) true)) = Some [top (S "*"); tid (S "p"); top (S "++")] /\
  golex (cexpr (EBin tx_a BDiv (EUn UStar tx_p))) = Some [tid (S "a"); top (S "/"); top (S "*"); tid (S "p")] /\
  golex (cexpr (ECall tx_a [EInt 2] true)) = Some [tid (S "a"); top (S "("); (KInt, S "2"); top (S "..."); top (S ")")] /\
  golex (cexpr (ESel (EInt 1) (S "x"))) = Some [(KInt, S "1"); top (S "."); tid (S "x")].
Proof. vm_compute. repeat split; reflexivity. Qed.

(* the rendered file of the example, through the model of the renderer *)
Example C01_tokens_example_rendered :
  match file_raw (build_file (S "p") [tokens_ex_prog]) with
  | Ok (_, s) => golex s
  | _ => None
  end = Some (tfile (S "p") [tokens_ex_prog]).
Proof. vm_compute. reflexivity. Qed.

Print Assumptions C01_tokens_type.
Print Assumptions C01_tokens_expr.
Print Assumptions C01_tokens_stmt.
Print Assumptions C01_tokens_clause.
Print Assumptions C01_tokens_decl.
Print Assumptions C01_tokens_file.
Print Assumptions C01_tokens_rendered_type.
Print Assumptions C01_tokens_rendered_expr.
Print Assumptions C01_tokens_rendered_stmt.
Print Assumptions C01_tokens_rendered_decl.
Print Assumptions C01_tokens_rendered_file.
Print Assumptions C01_tokens_boundary.
Print Assumptions C01_tokens_boundary_bytes.
Print Assumptions C01_tokens_longest_match.
Print Assumptions C01_tokens_boundary_needed.
