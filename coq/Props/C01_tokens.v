(* C01 at the level of TOKENS: the text jennifer writes for a program, read by Go's scanner,
   is the token sequence of that program - no two adjacent pieces of output merge into a
   different token (`+` `+` into `++`, `<` `-` into `<-`, `&` `^` into `&^`, a word into a
   keyword or a number, `.` into a float, `/` `/` into a comment ...) and no piece is split.

   THE PARTS.
   - GoStd/Tokens.v: [golex], a model of go/scanner for identifiers / keywords, decimal
     integers, interpreted strings, all operators and delimiters with longest match; white space
     and comments skipped; None wherever go/scanner would report an error or produce a token
     of another class (so [golex s = Some ts] is a positive statement about s).  Newlines are
     white space: automatic semicolon insertion belongs to the statement structure, which is
     the parser's business.  The model is compared with go/scanner itself by
     harness-style differential cases (tools lexdiff, see the report).
   - Spec/MiniGoTokens.v: [texpr tstmt tclause tdecl tfile], the token sequence of a program
     defined on the abstract syntax of Spec/MiniGo.v, and [expr_ok ...]: every NAME in the
     program is an identifier over ASCII and not a keyword.  Integers (any Z; a negative one
     is the two tokens `-` and the digits) and strings (any byte string) are unconstrained.
     A struct tag must be one that is written as an interpreted string ([tag_ok]; the scanner
     model has no raw strings: C01_tokens_raw_tag_outside_model).
   - Proofs/TokensProofs.v: the proofs (a boundary predicate [sep_ok] per token class; the
     bytes the printer puts after a token stop every token).

   WHAT IS PROVED.  For EVERY tree whose names are identifiers: golex (canon a) = Some (tokens a),
   for types, expressions, statements, clauses, declarations and files; and the same for the
   output of the RENDERER on the tree the DSL builds (with Props/C01_canon.v).

   KEYED COMPOSITE LITERALS.  jennifer writes the pairs of a Dict sorted by the TEXT of their
   keys, so the token sequence of EKeyed t pairs is that of the elements IN THAT ORDER
   ([keyed_sorted pairs], Spec/MiniGo.v - the one place where [texpr] refers to the printer:
   sorting is by text), each element `k : v`, and when there are several elements each is
   followed by `,` - the last one too (Go: ElementList [ "," ]).  The rendered program is the
   source program up to the order of keyed elements (and that final comma):
   C01_tokens_keyed_order, C01_tokens_keyed_in_order, C01_tokens_keyed_any_map_order.

   WHAT IS NOT.  That Go's parser builds the tree a from these tokens (the grammar; harness
   oracle c01).  That [golex] is go/scanner: it is a model, tied to the code by differential
   cases only. *)
From Jen Require Import Base.Bytes Base.Num GoStd.Quote GoStd.Tokens Model.Code Model.Naming Model.Render Model.FileRender.
From Jen Require Import Spec.MiniGo Spec.MiniGoTokens Proofs.CanonProofs Proofs.TokensProofs.
From Coq Require Import Permutation.

(* ------------------------------------------------------------------ the canonical text *)
(* Every type whose names are identifiers: its text is scanned into its tokens. *)
Theorem C01_tokens_type : forall a : ty, ty_ok a = true -> golex (cty a) = Some (tty a).
Proof. exact golex_cty. Qed.

(* Every expression - any operators in any nesting (a - -b, x & ^y, * p ++, <- -1), calls with
   any number of arguments and the variadic dots, indexes, slices with any bounds omitted,
   selectors, composite and func literals: the text is scanned into exactly the tokens of the
   expression, in order. *)
Theorem C01_tokens_expr : forall a : expr, expr_ok a = true -> golex (cexpr a) = Some (texpr a).
Proof. exact golex_cexpr. Qed.

(* Every statement. *)
Theorem C01_tokens_stmt : forall a : stmt, stmt_ok a = true -> golex (cstmt a) = Some (tstmt a).
Proof. exact golex_cstmt. Qed.

(* Every case / default clause. *)
Theorem C01_tokens_clause : forall a : clause, clause_ok a = true -> golex (cclause a) = Some (tclause a).
Proof. exact golex_cclause. Qed.

(* Every declaration. *)
Theorem C01_tokens_decl : forall a : decl, decl_ok a = true -> golex (cdecl a) = Some (tdecl a).
Proof. exact golex_cdecl. Qed.

(* Every file: `package`, the name, the tokens of the declarations. *)
Theorem C01_tokens_file : forall name ds, ident_ok name = true -> forallb decl_ok ds = true ->
  golex (cfile name ds) = Some (tfile name ds).
Proof. exact golex_cfile. Qed.

(* ------------------------------------------------------------------ keyed elements *)
(* The tokens of a keyed literal are those of the literal with its elements in the order of
   their key texts (a permutation of the elements: Props/C01_canon.v, C01_canon_keyed_order). *)
Theorem C01_tokens_keyed_order : forall t pairs, texpr (EKeyed t pairs) = texpr (EKeyed t (keyed_sorted pairs)).
Proof. exact keyed_tokens_sorted. Qed.

(* For a literal already in that order: the tokens of the type, `{`, the tokens of the elements
   as they stand ([tkeyed]: `k : v` for one element, `k : v ,` each for several), `}`. *)
Theorem C01_tokens_keyed_in_order : forall t pairs, keyed_sorted pairs = pairs ->
  texpr (EKeyed t pairs) = tty t ++ top (S "{") :: tkeyed (map ttoks_pair pairs) ++ [top (S "}")].
Proof. exact keyed_tokens_in_order. Qed.

Theorem C01_tokens_ttoks_pair_def : forall kv, ttoks_pair kv = (texpr (fst kv), texpr (snd kv)).
Proof. intros; reflexivity. Qed.

(* With pairwise distinct key texts the order of the pairs in the map does not matter. *)
Theorem C01_tokens_keyed_any_map_order : forall t pairs pairs',
  keys_ok pairs = true -> Permutation pairs pairs' -> texpr (EKeyed t pairs) = texpr (EKeyed t pairs').
Proof. exact keyed_tokens_perm. Qed.

(* ------------------------------------------------------------------ the renderer's output *)
(* Whatever the renderer returns for the tree the DSL builds - under any configuration, in
   either context, from any import table - is scanned into the tokens of the program.
   ([tables_ok = true] holds of the generated tables: Props/C01_canon.v, C01_canon_tables_ok.) *)
Theorem C01_tokens_rendered_type : forall cfg, tables_ok = true -> forall (a : ty) ctx t t' s,
  ty_ok a = true -> render cfg ctx t (build_type a) = Ok (t', s) -> golex s = Some (tty a).
Proof. exact render_tokens_type. Qed.

Theorem C01_tokens_rendered_expr : forall cfg, tables_ok = true -> forall (a : expr) ctx t t' s,
  expr_ok a = true -> render cfg ctx t (build_expr a) = Ok (t', s) -> golex s = Some (texpr a).
Proof. exact render_tokens_expr. Qed.

Theorem C01_tokens_rendered_stmt : forall cfg, tables_ok = true -> forall (a : stmt) ctx t t' s,
  stmt_ok a = true -> render cfg ctx t (build_stmt a) = Ok (t', s) -> golex s = Some (tstmt a).
Proof. exact render_tokens_stmt. Qed.

Theorem C01_tokens_rendered_decl : forall cfg, tables_ok = true -> forall (a : decl) ctx t t' s,
  decl_ok a = true -> render cfg ctx t (build_decl a) = Ok (t', s) -> golex s = Some (tdecl a).
Proof. exact render_tokens_decl. Qed.

(* The unformatted file (File.NoFormat) built from the declarations. *)
Theorem C01_tokens_rendered_file : forall name ds t s, tables_ok = true ->
  ident_ok name = true -> forallb decl_ok ds = true ->
  file_raw (build_file name ds) = Ok (t, s) -> golex s = Some (tfile name ds).
Proof. exact file_tokens. Qed.

(* ------------------------------------------------------------------ why: the boundary predicate *)
(* A token text (a word, the decimal text of a number, a quoted string, an operator) before a
   rest at which it stops - [sep_ok]: a word before anything but a letter or digit, a number
   before anything but a letter, digit or `.`, a string before anything, an operator o before
   a rest r such that o is still the longest operator at the head of o ++ r, `.` not before a
   digit, `/` not before `/` or `*` - is read as that one token, and the scanner continues
   with the rest exactly as if it started there. *)
Theorem C01_tokens_boundary : forall t r, tok_wf t -> sep_ok t r = true ->
  golex (snd t ++ r) = pre [t] (golex r).
Proof. exact lex_token. Qed.

(* Every token stops at the end of the text and before each of the bytes that the printer
   writes after a token: blank, newline, `,` `)` `]` `}` `:` `;`. *)
Theorem C01_tokens_boundary_bytes : forall t r, tok_wf t -> bndb r = true -> sep_ok t r = true.
Proof. exact sep_bnd. Qed.

(* [op_at], the operator rule of the scanner model, is longest match over the operator list. *)
Theorem C01_tokens_longest_match : forall s o, op_at s = Some o ->
  In o go_ops /\ has_prefix o s = true /\
  forall o', In o' go_ops -> has_prefix o' s = true -> (length o' <= length o)%nat.
Proof. exact op_at_longest. Qed.

(* The blanks matter: the same pieces put side by side do merge. *)
Theorem C01_tokens_boundary_needed :
  sep_ok (KOp, S "+") (S "+") = false /\ sep_ok (KOp, S "<") (S "-1") = false /\
  sep_ok (KOp, S "&") (S "^y") = false /\ sep_ok (KOp, S "/") (S "/") = false /\
  sep_ok (KOp, S "/") (S "*p") = false /\ sep_ok (KOp, S ".") (S "5") = false /\
  sep_ok (KOp, S ":") (S "=") = false /\ sep_ok (KInt, S "2") (S "...") = false /\
  sep_ok (KIdent, S "x") (S "1") = false /\ sep_ok (KKeyword, S "if") (S "x") = false /\
  sep_ok (KInt, S "1") (S "e") = false.
Proof. exact sep_needed. Qed.

(* ------------------------------------------------------------------ the hypothesis *)
(* [expr_ok] is needed, and it is all that is needed.  Id(..) and Op(..) take any string: a name
   that is a keyword, that contains an operator, or the empty name, is written as it is, and
   the text is then NOT the token sequence of the program (jennifer does not validate names;
   the caller must).  The last witness: the name "=b" after the colon of a slice makes `:=`. *)
Example C01_tokens_hypothesis_needed :
  golex (cexpr (EId (S "if"))) = Some [(KKeyword, S "if")] /\
  texpr (EId (S "if")) = [(KIdent, S "if")] /\
  golex (cexpr (EId (S "a+b"))) = Some [(KIdent, S "a"); (KOp, S "+"); (KIdent, S "b")] /\
  golex (cexpr (ECall (EId []) [] false)) = Some [(KOp, S "("); (KOp, S ")")] /\
  golex (cexpr (ESlice (EId (S "a")) None (Some (EId (S "=b"))))) =
    Some [(KIdent, S "a"); (KOp, S "["); (KOp, S ":="); (KIdent, S "b"); (KOp, S "]")] /\
  golex (cexpr (EId [xc3; xa9])) = None.
Proof. vm_compute. repeat split; reflexivity. Qed.

(* OUTSIDE THE FRAGMENT.  The blanks come from statements; a group writes its separator bare.
   With the separators of the generated constructs (`,` `;` `:` and none) that is harmless -
   the theorems above - but Custom(Options{Separator: "-"}, Lit(1), Lit(-2)) is written
   `1--2`, which is the tokens 1 -- 2 and not 1 - - 2 (the real library prints the same text
   and gofmt rejects it: "expected ';', found '--'").  Custom separators are the caller's. *)
Example C01_tokens_custom_separator_merges :
  let c := CStmt [id (S "x"); op (S "=");
                  CGroup 0 (S "custom") [] [] (S "-") false
                         [CStmt [CTok (TkLit (LInt 1))]; CStmt [CTok (TkLit (LInt (-2)))]]] in
  render (mkcfg [] [] []) false [] c = Ok ([], S "x = 1--2") /\
  golex (S "x = 1--2") = Some [tid (S "x"); top (S "="); (KInt, S "1"); top (S "--"); (KInt, S "2")].
Proof. vm_compute. split; reflexivity. Qed.

(* ------------------------------------------------------------------ example *)
Definition tx_a := EId (S "a").
Definition tx_b := EId (S "b").
Definition tx_p := EId (S "p").
Definition tx_x := EId (S "x").
Definition tx_y := EId (S "y").
Definition tx_i := EId (S "i").
Definition tx_int := TName (S "int").

(* a func declaration with an if (init statement, else), a three-clause for, a switch on a
   composite literal with case and default clauses, a range loop; operators side by side:
   a - -b, x & ^y, p < -1, * p ++, <- -1, + i + + i, x &^= x &^ y; slices with omitted
   bounds; the variadic dots; a string with `//`, quotes and `/* */` in it *)
Definition tokens_ex_prog : decl :=
  DFunc (S "f") [(S "p", TPtr tx_int); (S "m", TMap (TName (S "string")) (TSlice tx_int))] [tx_int]
  [ SVar (S "s") None (Some (EStr (S "// not a ""comment"" /* */")));
    SIf (Some (SAssign tx_a [tx_b] ADefine (EBin tx_a BSub (EUn UMinus tx_b)) [EBin tx_x BAnd (EUn UXor tx_y)]))
        (EBin tx_p BLt (EInt (-1)))
        [SIncDec (EUn UStar tx_p) true; SExpr (EUn UArrow (EInt (-1)))]
        (Some (SBlock [SAssign tx_x [] AAndNot (EBin tx_x BAndNot tx_y) []]));
    SFor (Some (SAssign tx_i [] ADefine (EInt 0) []))
         (Some (EBin tx_i BLt (ECall (EId (S "len")) [tx_a] false)))
         (Some (SIncDec tx_i true))
         [SAssign (EIndex tx_a tx_i) [] AAdd (EBin (EUn UPlus tx_i) BAdd (EUn UPlus tx_i)) [];
          SExpr (ECall (ESel (EId (S "fmt")) (S "Println"))
                       [ESlice tx_a None (Some (EInt (-1))); ESlice3 tx_a None None None] true)];
    SSwitch None (Some (EComp (TSlice tx_int) [EInt 1; EInt (-2)]))
      [CCase (EInt 1) [EInt (-2)] [SBreak (Some (S "L")); SReturn [EUn UAmp (EParen tx_x)]];
       CDefault [SGo (EFunc [] [] [SReturn []]) [] false]];
    SRange tx_i (Some tx_b) true tx_a [SContinue None];
    SReturn [EBin (EBool true) BLand (EBin ENil BNe tx_p)] ].

(* the hypothesis holds of it; the text, for the eye; the scanner gives its 154 tokens *)
Example C01_tokens_example :
  decl_ok tokens_ex_prog = true /\
  cdecl tokens_ex_prog = S "func f (p * int,m map[string] [] int) int {
var s = ""// not a \""comment\"" /* */""
if a,b := a - - b,x & ^ y;p < -1 {
* p ++
<- -1
} else {
x &^= x &^ y
}
for i := 0;i < len (a);i ++ {
a [i] += + i + + i
fmt . Println (a [:-1],a [::] ...)
}
switch [] int {1,-2} {
case 1,-2: " ++ nl ++ S "break L
return & (x)
default: " ++ nl ++ S "go func () {
return " ++ nl ++ S "} ()
}
for i,b := range a {
continue
}
return true && nil != p
}" /\
  golex (cdecl tokens_ex_prog) = Some (tdecl tokens_ex_prog) /\
  length (tdecl tokens_ex_prog) = 154%nat /\
  golex (cfile (S "p") [tokens_ex_prog]) = Some (tfile (S "p") [tokens_ex_prog]).
Proof. vm_compute. repeat split; reflexivity. Qed.

(* a few of its adjacencies, token by token *)
Example C01_tokens_example_adjacent :
  golex (cexpr (EBin tx_a BSub (EUn UMinus tx_b))) = Some [tid (S "a"); top (S "-"); top (S "-"); tid (S "b")] /\
  golex (cexpr (EBin tx_x BAnd (EUn UXor tx_y))) = Some [tid (S "x"); top (S "&"); top (S "^"); tid (S "y")] /\
  golex (cexpr (EBin tx_p BLt (EInt (-1)))) = Some [tid (S "p"); top (S "<"); top (S "-"); (KInt, S "1")] /\
  golex (cexpr (EUn UArrow (EInt (-1)))) = Some [top (S "<-"); top (S "-"); (KInt, S "1")] /\
  golex (cstmt (SIncDec (EUn UStar tx_p) true)) = Some [top (S "*"); tid (S "p"); top (S "++")] /\
  golex (cexpr (EBin tx_a BDiv (EUn UStar tx_p))) = Some [tid (S "a"); top (S "/"); top (S "*"); tid (S "p")] /\
  golex (cexpr (ECall tx_a [EInt 2] true)) = Some [tid (S "a"); top (S "("); (KInt, S "2"); top (S "..."); top (S ")")] /\
  golex (cexpr (ESel (EInt 1) (S "x"))) = Some [(KInt, S "1"); top (S "."); tid (S "x")].
Proof. vm_compute. repeat split; reflexivity. Qed.

(* the rendered file of the example, through the model of the renderer *)
Example C01_tokens_example_rendered :
  match file_raw (build_file (S "p") [tokens_ex_prog]) with
  | Ok (_, s) => golex s
  | _ => None
  end = Some (tfile (S "p") [tokens_ex_prog]).
Proof. vm_compute. reflexivity. Qed.

(* a keyed literal: the elements come out sorted by key text, each followed by a comma *)
Example C01_tokens_example_keyed :
  let e := EKeyed (TName (S "T")) [(tx_b, EInt 2); (tx_a, EKeyed (TSlice tx_int) [(EInt 0, tx_x)])] in
  expr_ok e = true /\
  cexpr e = S "T {" ++ nl ++ S "a:[] int {0:x}," ++ nl ++ S "b:2," ++ nl ++ S "}" /\
  golex (cexpr e) = Some (texpr e) /\
  texpr e = [tid (S "T"); top (S "{");
             tid (S "a"); top (S ":"); top (S "["); top (S "]"); tid (S "int"); top (S "{");
               (KInt, S "0"); top (S ":"); tid (S "x"); top (S "}"); top (S ",");
             tid (S "b"); top (S ":"); (KInt, S "2"); top (S ","); top (S "}")].
Proof. vm_compute. repeat split; reflexivity. Qed.

(* ------------------------------------------------------------------ example 2: the constructs added later *)
(* struct types (also empty, nested; a field with a tag that jennifer must write as an
   interpreted string because it contains a backquote), interface types with method signatures (no result, one,
   several), func types with a variadic parameter and two results, array and channel types of
   the three directions, a keyed composite literal written in the source as {Y: 2, X: 1}, a
   method declaration with a receiver, a variadic parameter and two results, a labeled
   statement, goto, fallthrough, a send statement, a type assertion, a func literal with two
   results, a select statement (receive, send and default clauses), type switches (with init
   statement and binding; bare and without clauses) *)
Definition nx_int := TName (S "int").
Definition nx_decls : list decl :=
  [ DType (S "Point")
      (TStruct [(S "X", nx_int, [(S "json", S "a`b"); (S "db", S "X")]); (S "Y", nx_int, []);
                (S "tags", TMap (TName (S "string")) (TArray 4 (TName (S "byte"))), []);
                (S "inner", TStruct [], []);
                (S "cb", TFunc [(S "a", nx_int); (S "rest", TEllipsis (TName (S "string")))] [nx_int; TName (S "error")], [])]);
    DType (S "Shape")
      (TIface [(S "Area", ([], [TName (S "float64")])); (S "Scale", ([(S "k", nx_int)], []));
               (S "Pair", ([], [nx_int; nx_int]))]);
    DType (S "Empty") (TIface []);
    DVars [(S "in", Some (TChan CRecv nx_int), None);
           (S "out", Some (TChan CSend (TChan CBoth nx_int)), None);
           (S "origin", None, Some (EKeyed (TName (S "Point")) [(EId (S "Y"), EInt 2); (EId (S "X"), EInt 1)]))];
    DMethod (S "p", TPtr (TName (S "Point"))) (S "Move") [(S "dx", nx_int); (S "ds", TEllipsis nx_int)]
      [nx_int; TName (S "error")]
      [ SLabeled (S "L")
          (SLoop [ SSwitch None (Some (EId (S "dx")))
                     [CCase (EInt 0) [] [SFallthrough]; CDefault [SGoto (S "L")]];
                   SSend (EId (S "out")) (EAssert (EId (S "v")) (TChan CBoth nx_int));
                   SBreak (Some (S "L")) ]);
        SAssign (EId (S "f")) [] ADefine (EFunc [] [nx_int; nx_int] [SReturn [EInt 1; EInt 2]]) [];
        SReturn [EInt 0; ENil] ];
    DFunc (S "one") [] [TFunc [] []] [SReturn [ENil]];
    DFunc (S "sel") [(S "v", TIface [])] []
      [ SSelect [CComm (SAssign (EId (S "x")) [] ADefine (EUn UArrow (EId (S "in"))) [])
                       [SExpr (ECall (EId (S "use")) [EId (S "x")] false)];
                 CComm (SSend (EId (S "out")) ENil) [];
                 CDefault []];
        STypeSwitch (Some (SAssign (EId (S "y")) [] ADefine (EId (S "v")) [])) (Some (S "t")) (EId (S "y"))
          [CType nx_int [TName (S "string")] [SExpr (ECall (EId (S "use")) [EId (S "t")] false)];
           CType (TPtr (TName (S "Point"))) [] [];
           CDefault []];
        STypeSwitch None None (EId (S "v")) [] ] ].

Example C01_tokens_example_new :
  forallb decl_ok nx_decls = true /\
  cfile (S "p") nx_decls = S "package p


type Point struct{
X int ""db:\""X\"" json:\""a`b\""""
Y int
tags map[string] [4] byte
inner struct{}
cb func (a int,rest ... string) (int,error)
}
type Shape interface{
Area () float64
Scale (k int)
Pair () (int,int)
}
type Empty interface{}
var (
in <- chan int
out chan <- chan int
origin = Point {
X:1,
Y:2,
}
)
func (p * Point) Move (dx int,ds ... int) (int,error) {
L : for  {
switch dx {
case 0: " ++ nl ++ S "fallthrough
default: " ++ nl ++ S "goto L
}
out <- v .(chan int)
break L
}
f := func () (int,int) {
return 1,2
}
return 0,nil
}
func one () func () {
return nil
}
func sel (v interface{}) {
select {
case x := <- in: " ++ nl ++ S "use (x)
case out <- nil: " ++ nl ++ S "default: " ++ nl ++ S "}
switch y := v;t := y .(type) {
case int,string: " ++ nl ++ S "use (t)
case * Point: " ++ nl ++ S "default: " ++ nl ++ S "}
switch v .(type) {}
}" /\
  golex (cfile (S "p") nx_decls) = Some (tfile (S "p") nx_decls) /\
  length (tfile (S "p") nx_decls) = 239%nat /\
  file_raw (build_file (S "p") nx_decls) = Ok ([], cfile (S "p") nx_decls).
Proof. vm_compute. repeat split; reflexivity. Qed.

(* STRUCT TAGS AND THE SCANNER MODEL.  jennifer writes a tag between backquotes whenever
   strconv.CanBackquote allows it - a raw string literal, a token class the scanner model
   GoStd/Tokens.v does not have (it answers None, conservatively; the model is pinned to
   go/scanner by the generated differential cases of Gen/LexDiff.v, which expect None there).
   So [ty_ok] asks of a tag that it is NOT backquotable ([tag_ok]); a conventional tag is
   outside the token theorems - render = canon (Props/C01_canon.v) covers it. *)
Example C01_tokens_raw_tag_outside_model :
  let t := TStruct [(S "A", nx_int, [(S "json", S "a")])] in
  ty_ok t = false /\ cty t = S "struct{" ++ nl ++ S "A int `json:""a""`" ++ nl ++ S "}" /\ golex (cty t) = None.
Proof. vm_compute. repeat split; reflexivity. Qed.

Print Assumptions C01_tokens_type.
Print Assumptions C01_tokens_expr.
Print Assumptions C01_tokens_stmt.
Print Assumptions C01_tokens_clause.
Print Assumptions C01_tokens_decl.
Print Assumptions C01_tokens_file.
Print Assumptions C01_tokens_rendered_type.
Print Assumptions C01_tokens_rendered_expr.
Print Assumptions C01_tokens_rendered_stmt.
Print Assumptions C01_tokens_rendered_decl.
Print Assumptions C01_tokens_rendered_file.
Print Assumptions C01_tokens_keyed_order.
Print Assumptions C01_tokens_keyed_in_order.
Print Assumptions C01_tokens_keyed_any_map_order.
Print Assumptions C01_tokens_boundary.
Print Assumptions C01_tokens_boundary_bytes.
Print Assumptions C01_tokens_longest_match.
Print Assumptions C01_tokens_boundary_needed.
