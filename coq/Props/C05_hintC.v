(* C05, two corollaries asked for by the review.
   Statements only; proofs are lemmas of Proofs/ReviewMiscProofs.v. *)
From Jen Require Import Base.Bytes Base.Num Model.Code Model.Naming Model.Render Model.FileRender Gen.Tables.
From Jen Require Import Proofs.NamingProofs Proofs.RenderProofs Proofs.ReviewMiscProofs.
Local Open Scope bool_scope.

(* THE RECORDED FINDING hint-named-C, AS A THEOREM.  C05_names_unique asks that no user hint
   is named C (hint_name_ok).  Without that hypothesis the conclusion is false: the history
       ImportName("a/b", "C");  reference to a/b;  reference to "C"
   (hint_C_ops under hint_C_cfg) meets every other requirement - the hint is an identifier,
   not "_", not reserved, nothing is Anon'd - and ends in a table in which two different
   paths carry the name C, which is neither "_" nor ".". *)
Theorem C05_hint_named_C_refuted :
  (forall p h, alookup p (cfg_hints hint_C_cfg) = Some h ->
               is_ident (id_name h) = true /\ id_name h <> s_us /\ is_reserved (id_name h) = false) /\
  cfg_prefix hint_C_cfg = [] /\
  Forall (fun o => match o with NReg _ _ => True | NAnon p => p <> s_C end) hint_C_ops /\
  exists p1 d1 p2 d2,
    let t := fold_left nstep hint_C_ops [] in
    alookup p1 t = Some d1 /\ alookup p2 t = Some d2 /\ p1 <> p2 /\
    id_name d1 = id_name d2 /\ id_name d1 = s_C /\ id_name d1 <> s_us /\ id_name d1 <> s_dot.
Proof. exact hint_named_C_refuted. Qed.

(* The same through File.Render: NewFile("main"), ImportName("a/b", "C"), Qual("a/b", "X"),
   Qual("C", "Y").  Both imports are written without alias and both references read C.*: in
   the generated file C.X refers to cgo, not to a/b. *)
Theorem C05_hint_named_C_file :
  file_cfg hint_C_file = hint_C_cfg /\
  file_raw hint_C_file =
    Ok ([(S "a/b", mkdef s_C false); (s_C, mkdef s_C false)],
        concat_str (map (fun l => l ++ [x0a])
          [S "package main"; []; S "import ("; S """C"""; S """a/b"""; S ")"; []; []; S "C.X"]) ++ S "C.Y").
Proof. exact hint_named_C_file. Qed.

(* A RESERVED OR TAKEN HINT IS REPLACED (corollary of C05_register_cases).  One register call
   that creates the entry of a path whose hint (ImportName or ImportAlias) has a name other
   than ".": if that name is a reserved word, or some entry of the table already carries it,
   then the name stored and written is NOT the hint, the entry is an explicit alias, and the
   name is hint ++ <decimal i> for some i > 0, with the PackagePrefix in front if one is
   set. *)
Theorem C05_reserved_or_taken_hint_is_replaced : forall cfg t p t' n h,
  register cfg t p = Ok (t', n) ->
  is_local cfg p = false -> registered_name t p = None -> p <> s_C ->
  alookup p (cfg_hints cfg) = Some h -> id_name h <> [] -> id_name h <> s_dot ->
  (is_reserved (id_name h) = true \/ exists p' d', In (p', d') t /\ id_name d' = id_name h) ->
  n <> id_name h /\ alookup p t' = Some (mkdef n true) /\
  exists i, (i <> 0)%N /\
    (n = id_name h ++ N_to_dec i \/ n = cfg_prefix cfg ++ s_us ++ id_name h ++ N_to_dec i).
Proof. exact reserved_or_taken_hint_is_replaced. Qed.

(* Non-vacuity: a hint that is a keyword, and a hint that is taken by an earlier import. *)
Example C05_replaced_example :
  let cfg := mkcfg [] [] [(S "x/y", mkdef (S "func") false); (S "u/v", mkdef (S "d") true)] in
  register cfg [] (S "x/y") = Ok ([(S "x/y", mkdef (S "func1") true)], S "func1") /\
  is_reserved (S "func") = true /\
  register cfg [(S "a/d", mkdef (S "d") true)] (S "u/v") =
    Ok ([(S "a/d", mkdef (S "d") true); (S "u/v", mkdef (S "d1") true)], S "d1").
Proof. repeat split; vm_compute; reflexivity. Qed.
