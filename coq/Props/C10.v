(* C10: failure atomicity and error propagation for Render and Save.
   The writer is modelled by what a render call does to it: [outcome] says how many Write
   calls happen and with which bytes; [wf k] says whether the k-th Write fails; the file
   system is a map path -> content with an arbitrary failing write. *)
From Jen Require Import Base.Bytes Model.Code Model.Naming Model.Render Model.FileRender.

(* the Write calls a render performs, in order: (bytes, failed) *)
Definition writes_of (o : outcome) : list (str * bool) :=
  match o with OWrite out failed => [(out, failed)] | _ => [] end.
(* does the call return an error (or panic)? *)
Definition is_error (o : outcome) : bool :=
  match o with OWrite _ failed => failed | _ => true end.

(* File.Render: if rendering panics or the formatter rejects the text, NOTHING is written;
   otherwise exactly ONE write carries the whole output (formatted, or raw under NoFormat),
   and the call fails iff that write fails (the writer's error is returned, never
   swallowed) - for every tree, formatter and fault schedule. *)
Theorem C10_render_atomic : forall fmt wf f,
  let o := snd (file_render fmt wf f) in
  match file_raw f with
  | Panic m => o = OPanic m /\ writes_of o = []
  | Ok (t, raw) =>
    if f_noformat f then o = OWrite raw (wf 1%nat)
    else match fmt raw with
         | Some out => o = OWrite out (wf 1%nat)
         | None => o = OFormatErr raw /\ writes_of o = []
         end
  end.
Proof.
  intros fmt wf f. cbv zeta. unfold file_render.
  destruct (file_raw f) as [[t raw]|m]; cbn [snd]; [|split; reflexivity].
  unfold emit. destruct (f_noformat f); [reflexivity|].
  destruct (fmt raw); [reflexivity | split; reflexivity].
Qed.

Theorem C10_at_most_one_write : forall fmt wf f,
  (length (writes_of (snd (file_render fmt wf f))) <= 1)%nat.
Proof. intros. destruct (snd (file_render fmt wf f)); simpl; auto. Qed.

(* a write happens only after rendering and formatting succeeded, and success means the
   writer received exactly the output *)
Theorem C10_success_iff_written : forall fmt wf f,
  is_error (snd (file_render fmt wf f)) = false ->
  exists out, writes_of (snd (file_render fmt wf f)) = [(out, false)].
Proof. intros fmt wf f. destruct (snd (file_render fmt wf f)); simpl; try discriminate. intros ->. eauto. Qed.

(* Statement/Group RenderWithFile and Render: the same shape (always formatted). *)
Theorem C10_code_render_atomic : forall fmt wf c f,
  let o := snd (code_render_with_file fmt wf c f) in
  match render (file_cfg f) false (f_imports f) c with
  | Panic m => o = OPanic m /\ writes_of o = []
  | Ok (t, raw) =>
    match fmt raw with
    | Some out => o = OWrite out (wf 1%nat)
    | None => o = OFormatErr raw /\ writes_of o = []
    end
  end.
Proof.
  intros fmt wf c f. cbv zeta. unfold code_render_with_file.
  destruct (render (file_cfg f) false (f_imports f) c) as [[t raw]|m]; cbn [snd]; [|split; reflexivity].
  unfold emit. destruct (fmt raw); [reflexivity | split; reflexivity].
Qed.

(* File.Save: a render failure leaves the file system exactly as it was and is returned;
   otherwise os.WriteFile(path, output) is called once and its error is returned; on
   success the saved file holds exactly the rendered output. *)
Theorem C10_save_atomic : forall fmt fsf f path fs,
  let o := snd (file_save fmt fsf f path) in
  match snd (file_render fmt (fun _ => false) f) with
  | OPanic m => o = SPanic m /\ apply_save fs o = fs
  | OFormatErr raw => o = SRenderErr raw /\ apply_save fs o = fs
  | OWrite out _ =>
    o = SWrite path out (fsf path) /\
    (fsf path = true -> apply_save fs o = fs) /\
    (fsf path = false -> alookup path (apply_save fs o) = Some out /\
                         forall p', p' <> path -> alookup p' (apply_save fs o) = alookup p' fs)
  end.
Proof.
  intros fmt fsf f path fs. cbv zeta. unfold file_save.
  destruct (file_render fmt (fun _ => false) f) as [f' o]. cbn [snd].
  destruct o as [m|raw|out failed]; cbn [snd apply_save]; try (split; reflexivity).
  split; [reflexivity|]. destruct (fsf path); split; try discriminate; try reflexivity.
  intros _. split; [apply alookup_aset_same|]. intros p' Hp. apply alookup_aset_other. congruence.
Qed.

(* Non-vacuity: an invalid composition with a failing formatter, and a valid one with a
   failing writer. *)
Example C10_example :
  let f := add_item (new_file (S "p")) (CStmt [CTok (TkId (S "x"))]) in
  snd (file_render (fun _ => None) (fun _ => false) f) = OFormatErr (S "package p" ++ [x0a; x0a; x0a] ++ S "x") /\
  snd (file_render (fun s => Some s) (fun _ => true) f) = OWrite (S "package p" ++ [x0a; x0a; x0a] ++ S "x") true.
Proof. vm_compute. split; reflexivity. Qed.
