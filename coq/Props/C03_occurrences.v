(* C03: every occurrence of a qualified identifier is written with the one name the import
   block declares for its path.  Statements only; every proof is `exact` of a lemma of
   Proofs/PureProofs.v.  Built on T1 (Props/C01_pure.v): the rendered text is [ptext] at the
   final table t1, and ptext reads the name of a package token from t1 and from nowhere else. *)
From Jen Require Import Base.Bytes Base.Sort Model.Code Model.Naming Model.Render Model.FileRender.
From Jen Require Import Proofs.NamingProofs Proofs.RenderProofs Proofs.OccsProofs Spec.Pure Proofs.PureProofs.
Local Open Scope bool_scope.

(* THE TEXT OF ONE OCCURRENCE, exactly.  In the pure text at table t - in any context, under
   any group identity - Qual(p, n) is
     n        when p is a dot import at t or the local package,
     q.n      otherwise, q being the registration t holds for p
   (no text, a failure of the spec, if t has no registration: never at the table of a
   render, C01_render_is_pure_text).  q is a function of (t, p): it does not depend on the
   position, the context, the identifier n, or the order in which the tree was traversed. *)
Theorem C03_qual_pure_text : forall cfg t ctx gid p n,
  ptext cfg t ctx (qual gid p n) =
  if is_dot cfg t p || is_local cfg p then Ok n
  else match registered_name t p with Some q => Ok (q ++ S "." ++ n) | None => Panic s_unregistered end.
Proof. exact ptext_qual. Qed.

(* Written positions: [rendered_in cfg t c' c] - c' is c, or stands in an item of c that is
   not null (a pair of a Dict with both sides not null; not inside a `types` group whose
   items are all null).  Null-ness does not change during or after a render, so the
   positions are the same whether judged at the starting table, at any table on the way, or
   at the final one. *)
Theorem C03_positions_table_independent : forall cfg t t' c' c,
  ext cfg t t' -> (rendered_in cfg t c' c <-> rendered_in cfg t' c' c).
Proof. exact rendered_in_ext. Qed.

(* EVERY OCCURRENCE, IN THE WHOLE TEXT.  For every tree whose render succeeds with table t1
   and text s (any starting table; cfg_ok as in C05), and every written occurrence of
   Qual(p, n) in it: s contains, as a contiguous part, the text w of that occurrence, where
     w = n      if p is a dot import or the local package,
     w = q.n    otherwise, and q is THE registration of p in t1: the name of p's entry d -
                the entry whose line `import_spec p d` the import block printed from t1
                contains (C03_qualifier_is_binding says that line reads `q "p"`, or `"p"`
                when q is the package's real name).

   PARTIAL, and what is missing.  The full statement would index the text by occurrences:
   "s is the concatenation, in traversal order, of fixed layout bytes and one piece per
   written leaf, and the piece of the k-th written Qual(p, n) is q.n".  Here each occurrence
   is witnessed by SOME part of s equal to its text: two occurrences of the same Qual(p, n)
   are not shown to be witnessed by two different parts, and the theorem does not say that
   s has no other qualified identifiers (a raw token Id("x.y") or Op("x.y") writes one
   without any package token, so that would be false of trees built from raw tokens).  The occurrence-indexed decomposition IS
   the definition of ptext (C01_pure_group, C01_pure_statement, C01_pure_dict: each construct
   concatenates its items' texts with layout bytes only; C03_qual_pure_text: the text of the
   item), so together with C01_render_is_pure_text nothing about the bytes is left open;
   what is not built is a separate trace semantics that names the pieces. *)
Theorem C03_every_occurrence_same_name_partial : forall cfg, cfg_ok cfg -> forall ctx t c t1 s,
  render cfg ctx t c = Ok (t1, s) ->
  forall gid p n, rendered_in cfg t1 (qual gid p n) c ->
  exists w pre post,
    s = pre ++ w ++ post /\ qual_text cfg t1 p n = Ok w /\
    (is_dot cfg t1 p || is_local cfg p = true -> w = n) /\
    (is_dot cfg t1 p || is_local cfg p = false ->
     exists q d, registered_name t1 p = Some q /\ w = q ++ S "." ++ n /\
                 alookup p t1 = Some d /\ id_name d = q /\
                 forall cgo, exists a b, render_imports t1 cgo = a ++ import_spec p d ++ [x0a] ++ b).
Proof. exact qual_occurrences. Qed.

(* ONE QUALIFIER PER PATH.  For a path p that is written qualified (not local, not a dot
   import) somewhere in the tree there is one q - the registration of p in the final table -
   such that EVERY written Qual(p, n), for every identifier n and at every position, stands
   in the text as q.n.  (Two different paths never share q: C03_names_distinct.) *)
Theorem C03_one_qualifier_per_path : forall cfg, cfg_ok cfg -> forall ctx t c t1 s,
  render cfg ctx t c = Ok (t1, s) ->
  forall p, is_dot cfg t1 p || is_local cfg p = false ->
  (exists gid n, rendered_in cfg t1 (qual gid p n) c) ->
  exists q, registered_name t1 p = Some q /\
    forall gid n, rendered_in cfg t1 (qual gid p n) c -> exists pre post, s = pre ++ q ++ S "." ++ n ++ post.
Proof. exact qual_occurrences_same_q. Qed.

(* Non-vacuity: three occurrences of two paths that collide on `d`, at different depths - in
   a statement, in a call inside it, as a Dict key inside a block.  The hypotheses hold, the
   three positions are written positions, and the text carries d for both occurrences of
   a.b/d and d1 for c.b/d. *)
Example C03_occurrences_example :
  let cfg := mkcfg (S "my/pkg") [] [] in
  let q1 := qual 1 (S "a.b/d") (S "A") in
  let q2 := qual 2 (S "c.b/d") (S "B") in
  let q3 := qual 3 (S "a.b/d") (S "C") in
  let call := CGroup 4 (S "call") (S "(") (S ")") (S ",") false [q2; CNil] in
  let blk := CGroup 5 (S "block") (S "{") (S "}") [] true
               [CStmt [CGroup 6 (S "values") (S "{") (S "}") (S ",") false [CDict [(q3, CTok (TkLit (LInt 1)))]]]] in
  let c := CStmt [q1; call; blk] in
  cfg_ok cfg /\
  match render cfg false [] c with
  | Ok (t1, s) =>
    s = S "d.A (d1.B) {" ++ [x0a] ++ S "{d.C:1}" ++ [x0a] ++ S "}" /\
    registered_name t1 (S "a.b/d") = Some (S "d") /\ registered_name t1 (S "c.b/d") = Some (S "d1") /\
    rendered_in cfg t1 q1 c /\ rendered_in cfg t1 q2 c /\ rendered_in cfg t1 q3 c
  | Panic _ => False
  end.
Proof.
  cbv zeta. split; [split; [intros p h H; discriminate | left; reflexivity]|].
  vm_compute. repeat split; try reflexivity.
  - eapply ri_stmt; [left; reflexivity | reflexivity | apply ri_here].
  - eapply ri_stmt; [right; left; reflexivity | reflexivity |].
    eapply ri_group; [reflexivity | left; reflexivity | reflexivity | apply ri_here].
  - eapply ri_stmt; [right; right; left; reflexivity | reflexivity |].
    eapply ri_group; [reflexivity | left; reflexivity | reflexivity |].
    eapply ri_stmt; [left; reflexivity | reflexivity |].
    eapply ri_group; [reflexivity | left; reflexivity | reflexivity |].
    eapply (ri_key _ _ _ _ (_, _)); [left; reflexivity | reflexivity | apply ri_here].
Qed.
