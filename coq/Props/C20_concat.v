(* C20, modified clones: a clone with items appended to it renders as the plain concatenation
   "items of the original, then the appended items" - with one exception, stated exactly. *)
From Jen Require Import Base.Bytes Model.Heap Model.Render Model.FileRender.
From Jen Require Import Proofs.HeapProofs Proofs.AdjacencyProofs.
Local Open Scope N_scope.

(* Setting as in Props/C20.v.  c is the clone of v made after history ops1; ops2 is ANY later
   history (appends to v, to c, to other clones ...); app = the codes appended to c, in order;
   vs = the items of v as they are at the end (snapshot h v = CStmt vs).  The clone's frozen
   tree is CStmt (CStmt vs :: app): its first item is the whole original statement.  If
     (1) no block group of app is (the same *Group as) a top-level group of vs, and
     (2) the RAW first item of app is not a block group, or the RAW last item of vs is neither a
         Case group nor a token whose content is "default"
         (raw: Statement.previous looks at index - 1 whether or not that item is null, so a
         Null() in between counts),
   then for every configuration, import table and case-context flag the clone renders - text
   and resulting table - exactly as the one-level statement vs ++ app. *)
Theorem C20_modified_clone_is_concat : forall grow, grow_ok grow -> forall ops1 ops2 v,
  bound (run grow clone_wrap ops1) v = true ->
  let c := hp_nvars (run grow clone_wrap ops1) in
  let h := run grow clone_wrap (ops1 ++ OClone v :: ops2) in
  let app := appended_to c ops2 in
  exists vs, snapshot h v = CStmt vs /\ snapshot h c = CStmt (CStmt vs :: app) /\
    ((forall g, In g (block_gids app) -> ~ In g (gids vs)) ->
     head_is_block app = false \/ last_is_case vs = false ->
     forall cfg ctx t, render cfg ctx t (snapshot h c) = render cfg ctx t (CStmt (vs ++ app))).
Proof. exact modified_clone_is_concat. Qed.

(* The render-level fact behind it, for arbitrary trees. *)
Theorem C20_wrapped_head_is_concat : forall cfg ctx t vs app,
  (forall g, In g (block_gids app) -> ~ In g (gids vs)) ->
  head_is_block app = false \/ last_is_case vs = false ->
  render cfg ctx t (CStmt (CStmt vs :: app)) = render cfg ctx t (CStmt (vs ++ app)).
Proof. exact wrapped_head_is_concat_syntactic. Qed.

(* The exception (2 fails): Case(a).Clone().Block(b).  The block's previous item is the
   original *Statement, not its Case group: the clone keeps the braces that the
   concatenation Case(a).Block(b) drops. *)
Theorem C20_clone_case_block_keeps_braces :
  head_is_block [cc_block] = true /\ last_is_case [cc_case] = true /\
  render cc_cfg false [] (CStmt (CStmt [cc_case] :: [cc_block]))
    = Ok ([], S "case a: {" ++ [x0a] ++ S "b" ++ [x0a] ++ S "}") /\
  render cc_cfg false [] (CStmt ([cc_case] ++ [cc_block]))
    = Ok ([], S "case a: " ++ [x0a] ++ S "b").
Proof. exact clone_case_block_keeps_braces. Qed.

(* The other exception (1 fails): the SAME *Group stands in the original after a Case and
   is appended to the clone; in the concatenation Statement.previous finds its first
   occurrence (after the Case: no braces, twice), in the clone the appended one keeps them. *)
Theorem C20_clone_shared_block_differs :
  (exists g, In g (block_gids [cc_block]) /\ In g (gids [cc_case; cc_block])) /\
  head_is_block [cc_block] = true /\ last_is_case [cc_case; cc_block] = false /\
  render cc_cfg false [] (CStmt (CStmt [cc_case; cc_block] :: [cc_block]))
    = Ok ([], S "case a: " ++ [x0a] ++ S "b {" ++ [x0a] ++ S "b" ++ [x0a] ++ S "}") /\
  render cc_cfg false [] (CStmt ([cc_case; cc_block] ++ [cc_block]))
    = Ok ([], S "case a: " ++ [x0a] ++ S "b " ++ [x0a] ++ S "b").
Proof. exact clone_shared_block_differs. Qed.

(* Raw, not live, neighbours decide: with a Null() after the Case the condition holds and
   the clone IS the concatenation, although the last live item of the original is a Case. *)
Theorem C20_clone_null_between :
  last_is_case [cc_case; CTok TkNull] = false /\
  render cc_cfg false [] (CStmt (CStmt [cc_case; CTok TkNull] :: [cc_block]))
  = render cc_cfg false [] (CStmt ([cc_case; CTok TkNull] ++ [cc_block])).
Proof. exact clone_null_between. Qed.

(* Non-vacuity on a history: original `case a:`, clone, then `x` and a block appended to the
   clone and `y` to the original: first appended item is not a block. *)
Example C20_concat_example :
  let ops1 := [ONew; OAppend 0 [cc_case]] in
  let ops2 := [OAppend 1 [cc_tk x78; cc_block]; OAppend 0 [cc_tk x79]] in
  let h := run go_grow clone_wrap (ops1 ++ OClone 0 :: ops2) in
  bound (run go_grow clone_wrap ops1) 0 = true /\ hp_nvars (run go_grow clone_wrap ops1) = 1 /\
  appended_to 1 ops2 = [cc_tk x78; cc_block] /\ head_is_block (appended_to 1 ops2) = false /\
  render cc_cfg false [] (snapshot h 1) =
    Ok ([], S "case a: y x {" ++ [x0a] ++ S "b" ++ [x0a] ++ S "}") /\
  render cc_cfg false [] (CStmt ([cc_case; cc_tk x79] ++ [cc_tk x78; cc_block])) = render cc_cfg false [] (snapshot h 1).
Proof. vm_compute. repeat split; reflexivity. Qed.

Print Assumptions C20_modified_clone_is_concat.
Print Assumptions C20_wrapped_head_is_concat.
Print Assumptions C20_clone_case_block_keeps_braces.
Print Assumptions C20_clone_shared_block_differs.
Print Assumptions C20_clone_null_between.
