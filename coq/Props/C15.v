(* C15: comments are contained and preserved; file-level comments are placed right.
   Statements only; every proof is `exact` of a lemma of Proofs/CommentProofs.v.

   What "contained" means here: the skeleton lexer of GoStd/Skeleton.v (regions code / line
   comment / block comment / string / raw string / rune, as go/scanner delimits them; run
   against go/scanner on every rendered output by the harness) reads the text jennifer
   writes for a comment as exactly ONE comment region, and is back in code, with nothing
   pending, right after it.

   NOT proved (checked on every case by the Go oracle instead, DESIGN.md section 3): that
   two texts whose code regions are equal up to white space give equal go/scanner token
   sequences - this is Go's scanner, not jennifer.  The DESIGN theorem C15_tokens_unchanged
   (a whole tree with and without the comment) is therefore present only through its
   jennifer-specific parts: C15_code_outside_comment_unchanged, C15_comment_item_inert,
   C15_comment_at_item_end and C15_multi_group_newline. *)
From Jen Require Import Base.Bytes GoStd.Quote GoStd.Skeleton GoStd.IsPrint.
From Jen Require Import Model.Render Model.FileRender Gen.Tables.
From Jen Require Import Proofs.CommentProofs.

(* The domain of the property: the text does not start with a comment marker ([no_marker])
   and does not contain the block-comment closer ([in_domain] = both). *)

(* One-line text: in code state (whatever code [acc] is pending), the comment text followed
   by a newline is one line-comment region `// t`; the lexer continues in code state, with
   nothing pending, at that newline. *)
Theorem C15_line_comment_contained : forall t rest acc,
  no_marker t -> contains_byte x0a t = false ->
  lex MCode acc (comment_text t ++ [x0a] ++ rest)
  = flush KCode acc ++ (KLine, S "// " ++ t) :: lex MCode [] ([x0a] ++ rest).
Proof. exact line_comment_contained. Qed.

(* ... and at the very end of a text (a file whose last item is a comment, NoFormat). *)
Theorem C15_line_comment_contained_eof : forall t acc,
  no_marker t -> contains_byte x0a t = false ->
  lex MCode acc (comment_text t) = flush KCode acc ++ [(KLine, S "// " ++ t)].
Proof. exact line_comment_contained_eof. Qed.

(* Text with a newline and without `*/`: one block-comment region
   `/*` newline t [newline unless t ends in one] `*/`, whatever follows; the lexer
   continues in code state with nothing pending right after it.  (Texts ending in `*` or
   `/`, or whose lines start with `*` or `/`, are covered: the closer is always preceded by
   a newline.) *)
Theorem C15_block_comment_contained : forall t rest acc,
  no_marker t -> contains_byte x0a t = true -> contains (S "*/") t = false ->
  lex MCode acc (comment_text t ++ rest)
  = flush KCode acc ++
    (KBlock, S "/*" ++ [x0a] ++ t ++ (if has_suffix [x0a] t then [] else [x0a]) ++ S "*/")
    :: lex MCode [] rest.
Proof. exact block_comment_contained. Qed.

(* In a whole text: after any prefix that leaves the lexer in code state, a comment of the
   domain followed by a newline is one comment region holding exactly comment_text t, the
   regions before and after are those of the prefix and of the rest, and deleting the
   comment leaves the text outside comments byte-identical. *)
Theorem C15_comment_in_context : forall pre t rest,
  ends_in_code pre -> in_domain t ->
  exists o acc, lex_run MCode [] pre = (o, MCode, acc) /\
    skel (pre ++ comment_text t ++ [x0a] ++ rest)
    = o ++ flush KCode acc ++ (comment_kind t, comment_text t) :: skel ([x0a] ++ rest) /\
    code_of (skel (pre ++ comment_text t ++ [x0a] ++ rest)) = code_of (skel (pre ++ [x0a] ++ rest)).
Proof. exact comment_in_context. Qed.

Theorem C15_code_outside_comment_unchanged : forall t acc rest, in_domain t ->
  code_of (lex MCode acc (comment_text t ++ [x0a] ++ rest)) = code_of (lex MCode acc ([x0a] ++ rest)).
Proof. exact code_outside_comment_unchanged. Qed.

(* The regions of the skeleton lexer partition the text (nothing is dropped or invented). *)
Theorem C15_skel_partition : forall s, text_of (skel s) = s.
Proof. exact skel_partition. Qed.

(* Multi-line groups (Group.render, Group.renderItems).  The items loop of any group
   produces, for the texts xs of its non-null items in order (item_texts), the
   concatenation of [sep unless first] ++ [newline if multi] ++ text. *)
Theorem C15_group_loop_text : forall cfg rec name sep multi n l t first t' isnull text,
  group_loop cfg rec name sep multi n t first l = Ok (t', isnull, text) ->
  exists xs, item_texts cfg rec t l t' xs /\ text = group_text sep multi first xs /\
             isnull = (first && is_nil xs).
Proof. exact group_loop_text. Qed.

(* A multi-line group without separator (every multi-line construct of the generated table:
   C15_multi_rows_no_separator; the File; a case body = Block with blanked braces): the
   output is open, one newline + text per non-null item, then - only when there was an item
   and the closer is not empty - a newline, then the closer.  Hence every item text is
   preceded by a newline and followed EITHER by a newline (the next item's, or the one
   before the closer) OR, when the group has no closer, by the end of the group's text - so
   a trailing line comment in an item can reach neither the closer nor the next item. *)
Theorem C15_multi_group_newline : forall cfg ctx t gid name open close items t' out,
  render cfg ctx t (CGroup gid name open close [] true items) = Ok (t', out) ->
  let blank := str_eqb name s_block && ctx in
  let o := if blank then [] else open in
  let cl := if blank then [] else close in
  (str_eqb name s_types && forallb (is_null cfg t) items = true /\ out = []) \/
  exists xs, item_texts cfg (render cfg) t items t' xs /\
    out = o ++ concat_str (map (fun x => x0a :: x) xs) ++
          (if negb (is_nil xs) && nonempty cl then [x0a] else []) ++ cl /\
    forall xs1 x xs2, xs = xs1 ++ x :: xs2 ->
      exists before after, out = before ++ [x0a] ++ x ++ after /\
        (starts_with_nl after \/ (after = [] /\ cl = [])).
Proof. exact multi_group_layout. Qed.

Theorem C15_multi_rows_no_separator :
  forallb (fun r => negb (gr_multi r) || is_nil (gr_sep r)) group_table = true.
Proof. exact multi_rows_no_separator. Qed.

(* A comment added as an item of its own (Group.Comment / Add(Comment(t))): the import table
   and the texts of all other items are what they are without it; its own text is
   comment_text t at its place.  (item_texts is a function of the items: C15_item_texts_fun.) *)
Theorem C15_comment_item_inert : forall cfg t l1 tm xs1 l2 t' xs2 s,
  item_texts cfg (render cfg) t l1 tm xs1 -> item_texts cfg (render cfg) tm l2 t' xs2 ->
  item_texts cfg (render cfg) t (l1 ++ l2) t' (xs1 ++ xs2) /\
  item_texts cfg (render cfg) t (l1 ++ CStmt [CComment s] :: l2) t' (xs1 ++ comment_text s :: xs2).
Proof. exact comment_item_inert. Qed.

Theorem C15_item_texts_fun : forall cfg rec t l t1 xs, item_texts cfg rec t l t1 xs ->
  forall t2 ys, item_texts cfg rec t l t2 ys -> t1 = t2 /\ xs = ys.
Proof. exact item_texts_fun. Qed.

(* A comment appended to the end of an item (stmt.Comment(t)): the item's text, at most
   one space, then comment_text t; same import table. *)
Theorem C15_comment_at_item_end : forall cfg ctx t items t1 x s,
  render cfg ctx t (CStmt items) = Ok (t1, x) ->
  exists sp, (sp = [] \/ sp = S " ") /\
    render cfg ctx t (CStmt (items ++ [CComment s])) = Ok (t1, x ++ sp ++ comment_text s).
Proof. exact comment_at_item_end. Qed.

(* The head of a file: header block, package comments one per line, package clause. *)
Theorem C15_file_head_layout : forall f,
  file_head f = header_block (f_headers f) ++ comment_lines (f_comments f) ++ package_clause f.
Proof. exact file_head_layout. Qed.

(* HeaderComment texts are kept apart.  file_head f = header_block ++ comment_lines ++
   package_clause (above); when there are header comments, the lexer run over the header
   block, from code state with [acc] pending, yields the header comments - each one comment
   region, separated by exactly one newline of code - and ends in code state with exactly
   TWO newlines pending: an empty line stands between the last header comment and whatever
   follows (the first package comment or `package`).  Go's parser ends a comment group at an
   empty line, so no header is in the group attached to the package clause. *)
Theorem C15_header_not_doc : forall hs acc,
  Forall in_domain hs -> hs <> [] ->
  lex_run MCode acc (header_block hs) = (comment_regions acc hs, MCode, [x0a; x0a]).
Proof. exact header_block_lex. Qed.

(* PackageComment texts are the doc comment: the lexer run over them yields the comments -
   each one comment region, separated by exactly one newline of code (so they form ONE
   comment group) - and ends in code state with exactly ONE newline pending; `package`
   follows immediately (C15_file_head_layout, package_clause starts with it): the group
   ends on the line before the package clause, which is how Go defines the doc comment. *)
Theorem C15_package_comment_is_doc : forall cs acc,
  Forall in_domain cs -> cs <> [] ->
  lex_run MCode acc (comment_lines cs) = (comment_regions acc cs, MCode, [x0a]) /\
  forall f, has_prefix (S "package ") (package_clause f) = true.
Proof. exact package_comments_lex. Qed.

(* Both at once, on the whole head followed by anything (a1, a2: the code pending, reversed). *)
Theorem C15_file_head_lex : forall f rest,
  Forall in_domain (f_headers f) -> Forall in_domain (f_comments f) ->
  let a1 := if is_nil (f_headers f) then [] else [x0a; x0a] in
  let a2 := if is_nil (f_comments f) then a1 else [x0a] in
  skel (file_head f ++ rest)
  = comment_regions [] (f_headers f) ++ comment_regions a1 (f_comments f) ++
    lex MCode a2 (package_clause f ++ rest).
Proof. exact file_head_lex. Qed.

(* CanonicalPath: the package clause is `package <name> // import <strconv.Quote path>`;
   the import-comment rule of go/build (findImportComment + strconv.Unquote) applied to what
   follows the package name gives back exactly the path, for EVERY byte string; and the
   annotation is one line comment ending at the newline of the clause. *)
Theorem C15_canonical_wellformed : forall f rest,
  nonempty (f_canonical f) = true ->
  package_clause f = S "package " ++ f_name f ++ S " // import " ++ GoQuote (f_canonical f) ++ [x0a; x0a] /\
  parse_import_comment (S " // import " ++ GoQuote (f_canonical f) ++ x0a :: rest) = Some (f_canonical f).
Proof. exact canonical_wellformed. Qed.

Theorem C15_canonical_contained : forall p acc rest,
  lex MCode acc (S "// import " ++ GoQuote p ++ x0a :: rest)
  = flush KCode acc ++ (KLine, S "// import " ++ GoQuote p) :: lex MCode [] (x0a :: rest).
Proof. exact import_comment_contained. Qed.

(* Non-vacuity and computed instances: code-like text with braces and quotes; a text whose
   last line is a lone star; a text ending in a slash after a star on the previous line. *)
Example C15_example_domain :
  in_domain (S "} func main() { ""x"" `y` /") /\
  in_domain (S "a" ++ [x0a] ++ S "*") /\
  in_domain (S "*" ++ [x0a] ++ S "/") /\
  ends_in_code (S "func f() {" ++ [x0a]).
Proof. repeat split; try reflexivity. eexists. eexists. vm_compute. reflexivity. Qed.

Example C15_example_lex :
  skel (S "{" ++ [x0a] ++ comment_text (S "a" ++ [x0a] ++ S "*") ++ [x0a] ++ S "x() " ++
        comment_text (S "} ""q") ++ [x0a] ++ S "}")
  = [(KCode, S "{" ++ [x0a]);
     (KBlock, S "/*" ++ [x0a] ++ S "a" ++ [x0a] ++ S "*" ++ [x0a] ++ S "*/");
     (KCode, [x0a] ++ S "x() ");
     (KLine, S "// } ""q");
     (KCode, [x0a] ++ S "}")].
Proof. vm_compute. reflexivity. Qed.

Example C15_example_import :
  parse_import_comment (S " // import " ++ GoQuote (S "a.b/""c""/" ++ [xc3; xa9]) ++ [x0a; x0a])
  = Some (S "a.b/""c""/" ++ [xc3; xa9]).
Proof. vm_compute. reflexivity. Qed.
