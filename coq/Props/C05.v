(* C05: import names are unique and legal for any path, hint and prefix.
   Statements only; every proof is `exact` of a lemma of Proofs/NamingProofs.v. *)
From Jen Require Import Base.Bytes Model.Code Model.Naming Gen.Tables Gen.Goroot.
From Jen Require Import Proofs.NamingProofs Spec.TableUses.

(* The import table of a File is only ever changed by registrations (performed by renders,
   each under the hints and PackagePrefix in force at that moment) and by Anon calls.  For
   EVERY such history - any paths, any order, hints and prefix changing in between - in which
   the user-supplied hint names are Go identifiers (or "." or absent; not the blank
   identifier and not C: see the recorded finding hint-named-C) and the prefix is empty or
   an identifier: distinct paths never share a name other than "_" and ".". *)
Theorem C05_names_unique : forall (ops : list nop) p1 d1 p2 d2,
  Forall nop_ok ops ->
  let t := fold_left nstep ops [] in
  alookup p1 t = Some d1 -> alookup p2 t = Some d2 -> p1 <> p2 ->
  id_name d1 = id_name d2 -> id_name d1 = s_us \/ id_name d1 = s_dot.
Proof. exact history_names_unique. Qed.

(* ... and every name in the table is "_", ".", "C" or an identifier that is not reserved. *)
Theorem C05_names_legal : forall (ops : list nop) p d,
  Forall nop_ok ops ->
  alookup p (fold_left nstep ops []) = Some d ->
  id_name d = s_us \/ id_name d = s_dot \/ id_name d = s_C \/
  (is_ident (id_name d) = true /\ is_reserved (id_name d) = false).
Proof. exact history_names_legal. Qed.

(* "Reserved" covers every keyword and every universe-scope identifier of the installed
   toolchain (tables regenerated from /repo/jen/reserved.go and from go/token, go/types on
   every run): removing a word from the list breaks this obligation. *)
Theorem C05_reserved_complete : forall w, In w (go_keywords ++ go_universe) -> is_reserved w = true.
Proof. exact reserved_word_never_chosen. Qed.

(* ... and the list is used the way the model uses it (Spec/TableUses.v; tables2coq reads the
   source on every run).  The translator met nothing it could not read: no init function, no
   assignment to / address of `reserved`, IsReservedWord is LITERALLY
   `for _, n := range reserved { if a == n { return true } }; return false`
   (reserved_problems = []); isValidAlias(a) begins with `if a == "." { return true }` and
   `if IsReservedWord(a) { return false }`; and in the whole of package jen (non-test files)
   the identifier `reserved` occurs only as its declaration and as the range of that loop,
   `IsReservedWord` only as its declaration and in that test.  The scan of the registered
   names that follows in isValidAlias, and the numbering loop of register, are NOT read from
   the source: they are tied to the model by the differential run. *)
Theorem C05_reserved_tied :
  reserved_problems = [] /\ isvalidalias_head = expected_isvalidalias_head /\
  uses_within table_uses u_reserved [r_decl; r_range] /\ used_as table_uses u_reserved r_range /\
  uses_within table_uses u_isreserved [r_decl; r_guard] /\ used_as table_uses u_isreserved r_guard.
Proof. exact reserved_tied. Qed.

(* For every byte string given as a path - digits, punctuation, unicode, trailing slash,
   empty - the guessed alias matches [a-z][a-z0-9]*. *)
Theorem C05_guess_alias_ident : forall path, is_ident (guess_alias path) = true.
Proof. exact guess_alias_ident. Qed.

(* The standard-library hint table only contains identifiers. *)
Theorem C05_std_hints_are_identifiers : std_hints_check = true.
Proof. exact std_hints_ok. Qed.

(* One registration step, spelled out: the four ways register can answer. *)
Theorem C05_register_cases : forall cfg t path t' n,
  register cfg t path = Ok (t', n) -> reg_case cfg t path t' n.
Proof. exact register_cases. Qed.

(* Non-vacuity: a history with a prefix, colliding paths, a keyword as last element, a
   hint that is a reserved word and an Anon import meets the hypotheses, and the table
   computed by the model is the one the theorems talk about. *)
Example C05_example :
  let cfg := mkcfg (S "my/pkg") (S "pkg") [(S "x.y/other", mkdef (S "func") true)] in
  let ops := [NReg cfg (S "a.b/d"); NAnon (S "q/anon"); NReg cfg (S "c.b/d"); NReg cfg (S "a.b/type");
              NReg cfg (S "x.y/other"); NReg cfg (S "fmt"); NReg cfg (S "a.b/123")] in
  Forall nop_ok ops /\
  map (fun e => (fst e, id_name (snd e))) (fold_left nstep ops []) =
  [(S "a.b/d", S "pkg_d"); (S "q/anon", S "_"); (S "c.b/d", S "pkg_d1"); (S "a.b/type", S "pkg_type1");
   (S "x.y/other", S "pkg_func1"); (S "fmt", S "fmt"); (S "a.b/123", S "pkg_pkg")].
Proof.
  cbv zeta. split; [|vm_compute; reflexivity].
  assert (Hc : cfg_ok (mkcfg (S "my/pkg") (S "pkg") [(S "x.y/other", mkdef (S "func") true)])).
  { split; [|right; reflexivity]. intros p h. simpl.
    destruct (str_eqb p (S "x.y/other")); [|discriminate]. intros E. injection E as <-.
    right. right. split; [reflexivity|]. split; discriminate. }
  repeat (apply Forall_cons; [first [exact Hc | simpl; discriminate]|]). apply Forall_nil.
Qed.
