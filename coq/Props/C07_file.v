(* C07, File level: output is deterministic.  In Go `File.imports` and `File.hints` are maps;
   the model keeps them as association lists, so the list order of the model is an artefact
   (and stands for whatever order the Go runtime would choose when ranging over them).
   These theorems show that it never matters: for EVERY order of both maps the same bytes
   are written.  Statements only; proofs are lemmas of Proofs/PermProofs.v.
   (The Dict's own pair order, the Tag's and the import block's are in Props/C07.v.) *)
From Jen Require Import Base.Bytes Model.Code Model.Naming Model.Render Model.FileRender.
From Jen Require Import Proofs.RenderProofs Proofs.PermProofs.
From Coq Require Import Permutation.

(* [teq t t']: the same entries, each path once, in any order. *)
Theorem C07_teq_def : forall t t' : table, teq t t' <-> NoDup (akeys t) /\ Permutation t t'.
Proof. intros; reflexivity. Qed.

(* A map assignment `m[k] = v` on two orders of the same map gives two orders of the same map. *)
Theorem C07_aset_teq : forall k (v : importdef) t t', teq t t' -> teq (aset k v t) (aset k v t').
Proof. intros k v t t'. exact (aset_teq k v t t'). Qed.

(* register (file.go): for configurations that differ only in the order of the hint map and
   import tables that differ only in order, the same name is chosen and the resulting tables
   again differ only in order ... *)
Theorem C07_register_perm : forall cfg cfg', ceq cfg cfg' -> forall t t' p t1 n,
  teq t t' -> register cfg t p = Ok (t1, n) ->
  exists t1', register cfg' t' p = Ok (t1', n) /\ teq t1 t1'.
Proof. exact register_teq. Qed.

(* ... and it panics in one iff it panics in the other (with the same message). *)
Theorem C07_register_perm_panic : forall cfg cfg', ceq cfg cfg' -> forall t t' p m,
  teq t t' -> (register cfg t p = Panic m <-> register cfg' t' p = Panic m).
Proof. exact register_teq_panic. Qed.

(* isNull does not depend on the order of either map. *)
Theorem C07_is_null_perm : forall cfg cfg', ceq cfg cfg' -> forall t t' c,
  teq t t' -> is_null cfg t c = is_null cfg' t' c.
Proof. exact is_null_teq. Qed.

(* THE RENDER THEOREM.  For every tree (all constructs, arities, nesting, Dicts, Tags, null
   items, case blocks), every context, every two orders of the hint map and every two orders
   of the import table: rendering produces THE SAME TEXT and import tables that again differ
   only in order.  (The Dict's own pairs are traversed in the same order on both sides here;
   permuting them is C07_dict_perm.) *)
Theorem C07_render_perm : forall cfg cfg', ceq cfg cfg' -> forall c ctx t t' t1 s,
  teq t t' -> render cfg ctx t c = Ok (t1, s) ->
  exists t1', render cfg' ctx t' c = Ok (t1', s) /\ teq t1 t1'.
Proof. exact render_teq. Qed.

(* A render panics under one order iff it panics under the other, with the same message. *)
Theorem C07_render_perm_panic : forall cfg cfg', ceq cfg cfg' -> forall c ctx t t' m,
  teq t t' -> (render cfg ctx t c = Panic m <-> render cfg' ctx t' c = Panic m).
Proof. exact render_teq_panic. Qed.

(* The same, with every auxiliary definition spelled out. *)
Theorem C07_render_perm_explicit : forall cfg h' c ctx t t',
  NoDup (akeys (cfg_hints cfg)) -> Permutation (cfg_hints cfg) h' ->
  NoDup (akeys t) -> Permutation t t' ->
  match render cfg ctx t c, render (mkcfg (cfg_path cfg) (cfg_prefix cfg) h') ctx t' c with
  | Ok (t1, s), Ok (t1', s') => s = s' /\ NoDup (akeys t1) /\ Permutation t1 t1'
  | Panic m, Panic m' => m = m'
  | _, _ => False
  end.
Proof. exact render_perm_explicit. Qed.

(* FILE.  Two Files that are equal except that File.imports and File.hints are traversed in
   another order produce the same source text (header, package clause, import block, body)
   and import tables that differ only in order; or both panic with the same message. *)
Theorem C07_file_raw_perm : forall f h' t',
  NoDup (akeys (f_hints f)) -> Permutation (f_hints f) h' ->
  NoDup (akeys (f_imports f)) -> Permutation (f_imports f) t' ->
  match file_raw f, file_raw (set_hints (set_imports f t') h') with
  | Ok (t1, raw), Ok (t1', raw') => raw = raw' /\ NoDup (akeys t1) /\ Permutation t1 t1'
  | Panic m, Panic m' => m = m'
  | _, _ => False
  end.
Proof. exact file_raw_perm. Qed.

(* Hence File.Render has the same outcome - the same bytes in the one Write call, or the same
   formatter error, or the same panic - for every formatter and writer; and the two Files
   are again equal up to the order of the two maps, so this holds for every later render. *)
Theorem C07_file_render_perm : forall fmt wfail f h' t',
  NoDup (akeys (f_hints f)) -> Permutation (f_hints f) h' ->
  NoDup (akeys (f_imports f)) -> Permutation (f_imports f) t' ->
  let f' := set_hints (set_imports f t') h' in
  snd (file_render fmt wfail f) = snd (file_render fmt wfail f') /\
  file_eqv (fst (file_render fmt wfail f)) (fst (file_render fmt wfail f')).
Proof. exact file_render_perm_explicit. Qed.

(* the relational form, which iterates: related Files stay related and write the same bytes *)
Theorem C07_file_render_eqv : forall fmt wfail f f', file_eqv f f' ->
  snd (file_render fmt wfail f) = snd (file_render fmt wfail f') /\
  file_eqv (fst (file_render fmt wfail f)) (fst (file_render fmt wfail f')).
Proof. exact file_render_perm. Qed.

(* Statement.RenderWithFile / Group.RenderWithFile likewise. *)
Theorem C07_code_render_with_file_eqv : forall fmt wfail c f f', file_eqv f f' ->
  snd (code_render_with_file fmt wfail c f) = snd (code_render_with_file fmt wfail c f') /\
  file_eqv (fst (code_render_with_file fmt wfail c f)) (fst (code_render_with_file fmt wfail c f')).
Proof. exact code_render_with_file_perm. Qed.

(* ImportNames(m) ranges over the Go map m: whatever order the runtime chooses, every lookup
   in the resulting hint map gives the same answer ... *)
Theorem C07_import_names_perm : forall f m m',
  NoDup (map fst m) -> Permutation m m' ->
  forall k, alookup k (f_hints (import_names f m)) = alookup k (f_hints (import_names f m')).
Proof. exact import_names_perm. Qed.

(* ... and a File.Render after it writes the same bytes. *)
Theorem C07_import_names_render_perm : forall fmt wfail f m m',
  NoDup (akeys (f_hints f)) -> NoDup (akeys (f_imports f)) ->
  NoDup (map fst m) -> Permutation m m' ->
  snd (file_render fmt wfail (import_names f m)) = snd (file_render fmt wfail (import_names f m')).
Proof. exact import_names_render_perm. Qed.

(* Anon(paths...): the order of the arguments does not matter either (no distinctness needed:
   every path gets the same entry). *)
Theorem C07_anon_perm : forall f paths paths',
  Permutation paths paths' ->
  forall k, alookup k (f_imports (anon f paths)) = alookup k (f_imports (anon f paths')).
Proof. exact anon_perm. Qed.

Theorem C07_anon_render_perm : forall fmt wfail f paths paths',
  NoDup (akeys (f_hints f)) -> NoDup (akeys (f_imports f)) ->
  Permutation paths paths' ->
  snd (file_render fmt wfail (anon f paths)) = snd (file_render fmt wfail (anon f paths')).
Proof. exact anon_render_perm. Qed.

(* NO OTHER NONDETERMINISM.  The model's file_render is a Coq FUNCTION
     file_render : (str -> option str) -> (nat -> bool) -> file -> file * outcome
   of the File, the formatter and the writer's failure schedule: no clock, no address, no
   global variable, no random source occurs in its type or its definition, so "the same
   construction gives the same bytes" holds by construction - and of its three arguments it
   consults the formatter only on the one text it produces and the schedule only at the first
   Write.  Together with the theorems above (map orders) and C07_dict_perm / C07_tag_perm /
   C07_imports_perm this is determinism OF THE MODEL.  For the Go code the corresponding
   statement - the library reads and writes no package-level variable other than the
   constant tables, and calls nothing time- or address-dependent - is not a theorem about the
   model: it is Tie A's `package_vars` obligation (see Props/C09.v) plus the correspondence
   runs that compare the bytes of repeated in-process and cross-process builds with the
   model. *)
Theorem C07_no_other_nondeterminism : forall fmt fmt' wfail wfail' f,
  (forall s, fmt s = fmt' s) -> wfail 1%nat = wfail' 1%nat ->
  file_render fmt wfail f = file_render fmt' wfail' f.
Proof. exact file_render_function. Qed.

(* ---- examples: hypotheses are satisfiable, and the orders really are different lists ---- *)
Definition ex_items : list code :=
  [CStmt [CTok (TkText (S "var")); CTok (TkId (S "a")); CTok (TkText (S "="));
          qual 1 (S "a.b/x") (S "A")];
   CStmt [CTok (TkText (S "var")); CTok (TkId (S "b")); CTok (TkText (S "="));
          qual 2 (S "c.d/x") (S "B")];                     (* collides with a.b/x: renamed x1 *)
   CStmt [CTok (TkText (S "var")); CTok (TkId (S "c")); CTok (TkText (S "="));
          qual 3 (S "e.f/y") (S "C")];                     (* named by a hint *)
   CStmt [CTok (TkText (S "var")); CTok (TkId (S "d")); CTok (TkText (S "="));
          qual 4 (S "g.h/dot") (S "D")];                   (* dot-imported by a hint *)
   CStmt [CTok (TkText (S "var")); CTok (TkId (S "e")); CTok (TkText (S "="));
          CDict [(qual 5 (S "i.j/x") (S "K"), CTok (TkLit (LInt 1)))]]].   (* new: x2 *)

Definition ex_imports : table :=
  [(S "a.b/x", mkdef (S "x") true); (S "os", mkdef (S "_") true); (S "c.d/x", mkdef (S "x1") true)].
Definition ex_hints : table :=
  [(S "e.f/y", mkdef (S "why") true); (S "g.h/dot", mkdef (S ".") true)].

Definition ex_file (h t : table) : file :=
  mkfile (S "main") (S "m.n/main") [] h t [] [S "Code generated."] [] true [] ex_items.

(* 3 imports, 2 hints, two different orders of each: the same text (and it is a success) *)
Example C07_file_example :
  let f := ex_file ex_hints ex_imports in
  let f' := ex_file (rev ex_hints) (rev ex_imports) in
  f_imports f <> f_imports f' /\ f_hints f <> f_hints f' /\
  file_eqv f f' /\
  match file_raw f, file_raw f' with
  | Ok (t1, raw), Ok (t1', raw') => raw = raw' /\ t1 <> t1' /\ length t1 = 6%nat
  | _, _ => False
  end.
Proof.
  split; [intros H; discriminate|]. split; [intros H; discriminate|]. split.
  - constructor; try reflexivity; (split; [repeat constructor; cbn; intuition discriminate|]).
    + apply perm_swap.
    + apply (Permutation_rev ex_imports).
  - vm_compute. split; [reflexivity|]. split; [intros H; discriminate | reflexivity].
Qed.

(* the text both orders produce *)
Example C07_file_example_text :
  match file_raw (ex_file (rev ex_hints) (rev ex_imports)) with
  | Ok (_, raw) =>
    raw = S "// Code generated." ++ [x0a; x0a] ++ S "package main" ++ [x0a; x0a] ++
          S "import (" ++ [x0a] ++
          S "x ""a.b/x""" ++ [x0a] ++ S "x1 ""c.d/x""" ++ [x0a] ++ S "why ""e.f/y""" ++ [x0a] ++
          S ". ""g.h/dot""" ++ [x0a] ++ S "x2 ""i.j/x""" ++ [x0a] ++ S "_ ""os""" ++ [x0a] ++
          S ")" ++ [x0a; x0a] ++ [x0a] ++
          S "var a = x.A" ++ [x0a] ++ S "var b = x1.B" ++ [x0a] ++ S "var c = why.C" ++ [x0a] ++
          S "var d = D" ++ [x0a] ++ S "var e = x2.K:1"
  | Panic _ => False
  end.
Proof. vm_compute. reflexivity. Qed.

(* ImportNames with the argument map in two orders, then Render: same outcome *)
Example C07_import_names_example :
  let m := [(S "a.b/x", S "ex"); (S "e.f/y", S "why"); (S "i.j/x", S "jay")] in
  let f := ex_file [] [] in
  f_hints (import_names f m) <> f_hints (import_names f (rev m)) /\
  snd (file_render (fun s => Some s) (fun _ => false) (import_names f m)) =
  snd (file_render (fun s => Some s) (fun _ => false) (import_names f (rev m))).
Proof. split; [intros H; discriminate | vm_compute; reflexivity]. Qed.
