(* C06: references to the local package and to dot-imports are unqualified.
   Statements only; proofs are lemmas of Proofs/RenderProofs.v. *)
From Jen Require Import Base.Bytes Model.Code Model.Naming Model.Render Model.FileRender GoStd.Quote.
From Jen Require Import Proofs.NamingProofs Proofs.RenderProofs.

(* How Qual(path, name) renders, for every table, configuration and context: the path is
   registered first; a local or dot path gives the bare name, any other path
   <registered name>.<name>. *)
Theorem C06_qual_rendering : forall cfg ctx t gid p n,
  render cfg ctx t (qual gid p n) =
  match register cfg t p with
  | Panic m => Panic m
  | Ok (t0, _) =>
    if is_dot cfg t0 p || is_local cfg p then Ok (t0, n)
    else match register cfg t0 p with
         | Panic m => Panic m
         | Ok (t1, q) => Ok (t1, q ++ S "." ++ n)
         end
  end.
Proof. exact render_qual. Qed.

(* A path equal to the File's own path: the bare name, and the import table is untouched
   (so no import is produced) - whatever the prefix, hints and table. *)
Theorem C06_local_bare : forall cfg ctx t gid p n,
  is_local cfg p = true -> render cfg ctx t (qual gid p n) = Ok (t, n).
Proof. exact render_qual_local. Qed.

(* Exact comparison: any path different from the local path (prefix, suffix, other case)
   is not local ... *)
Theorem C06_near_miss_not_local : forall cfg p, p <> cfg_path cfg -> is_local cfg p = false.
Proof. exact near_miss_not_local. Qed.

(* ... and is imported and qualified by its registered name. *)
Theorem C06_near_miss_imported : forall cfg ctx t gid p n t0 q,
  is_local cfg p = false -> register cfg t p = Ok (t0, q) -> is_dot cfg t0 p = false ->
  registered_name t0 p = Some q ->
  render cfg ctx t (qual gid p n) = Ok (t0, q ++ S "." ++ n).
Proof. exact render_qual_imported. Qed.

(* A path declared a dot-import (ImportAlias(path, ".")) and not rendered before: the bare
   name, and the table gets the entry (".", alias) - for any PackagePrefix, any other hints,
   any number of other dot imports already in the table. *)
Theorem C06_dot_bare_and_imported : forall cfg ctx t gid p n h,
  is_local cfg p = false -> registered_name t p = None -> p <> s_C ->
  alookup p (cfg_hints cfg) = Some h -> id_name h = s_dot -> id_alias h = true ->
  render cfg ctx t (qual gid p n) = Ok (aset p (mkdef s_dot true) t, n).
Proof. exact render_qual_dot. Qed.

(* The import block line of such an entry is exactly `. "path"`. *)
Theorem C06_dot_import_line : forall p, p <> s_C ->
  import_spec p (mkdef s_dot true) = S ". " ++ GoQuote p.
Proof.
  intros p Hp. unfold import_spec. cbn [id_alias id_name andb].
  apply str_eqb_neq in Hp. rewrite Hp. reflexivity.
Qed.

(* Non-vacuity: with a prefix, another hint and another dot import present. *)
Example C06_example :
  let cfg := mkcfg (S "my/pkg") (S "pkg")
                   [(S "a.b/d", mkdef s_dot true); (S "x.y/z", mkdef (S "zz") false); (S "c.d/e", mkdef s_dot true)] in
  render cfg false [(S "c.d/e", mkdef s_dot true)] (qual 1 (S "a.b/d") (S "A")) =
    Ok ([(S "c.d/e", mkdef s_dot true); (S "a.b/d", mkdef s_dot true)], S "A") /\
  render cfg false [] (qual 1 (S "my/pkg") (S "A")) = Ok ([], S "A") /\
  render cfg false [] (qual 1 (S "my/pkgx") (S "A")) = Ok ([(S "my/pkgx", mkdef (S "pkg_pkgx") true)], S "pkg_pkgx.A").
Proof. vm_compute. repeat split; reflexivity. Qed.
