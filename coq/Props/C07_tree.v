(* C07, maps inside the tree: the iteration order of EVERY Dict and Tag, nested anywhere.
   Props/C07.v has one Dict whose keys AND values are settled; Props/C07_file.v has the two
   maps of the File.  Here: (a) one Dict whose VALUES may register imports, (b) the recorded
   finding for equal key texts, (c) whole trees and Files.
   Statements only; proofs are lemmas of Proofs/DictGeneralProofs.v. *)
From Jen Require Import Base.Bytes Base.Sort Model.Code Model.Naming Model.Render Model.FileRender Gen.Tables.
From Jen Require Import Proofs.NamingProofs Proofs.RenderProofs Proofs.DictProofs Proofs.OccsProofs Spec.Pure
                        Proofs.PureProofs Proofs.DictGeneralProofs.
From Coq Require Import Permutation.

(* ------------------------------------------------------------------ (a) one Dict *)
(* [keys_settled cfg t txt pairs]: every surviving KEY renders at t to txt(key) and leaves t
   as it is - the packages its qualified identifiers name are imported already. *)
Theorem C07_keys_settled_def : forall cfg t txt pairs,
  keys_settled cfg t txt pairs <->
  forall kv, In kv pairs -> live cfg t kv = true -> render cfg false t (fst kv) = Ok (t, txt (fst kv)).
Proof. intros; reflexivity. Qed.

(* Any two iteration orders of the same Dict give the same result - the same bytes AND the
   same import table, or the same panic - when the surviving keys are settled at t and their
   texts are pairwise distinct.  NOTHING is asked of the values: they may register new
   imports, also colliding ones.  (They are rendered in the second pass, in sorted-key order,
   so the order of their registrations does not depend on the map order.)  No hypothesis on
   the configuration either. *)
Theorem C07_dict_perm_general : forall cfg t txt ctx pairs pairs',
  keys_settled cfg t txt pairs -> Permutation pairs pairs' ->
  NoDup (map (fun kv => txt (fst kv)) (filter (live cfg t) pairs)) ->
  render cfg ctx t (CDict pairs) = render cfg ctx t (CDict pairs').
Proof. exact dict_perm_general. Qed.

(* keys without package references, or whose paths are registered in t (covered, C01_pure),
   and that have a pure text, are settled - with the pure text *)
Theorem C07_covered_keys_settled : forall cfg t pairs,
  (forall kv, In kv pairs -> live cfg t kv = true ->
     covered cfg t (fst kv) /\ exists k, ptext cfg t false (fst kv) = Ok k) ->
  keys_settled cfg t (the_text cfg t false) pairs.
Proof. exact covered_keys_settled. Qed.

(* ------------------------------------------------------------------ (b) equal key texts: refuted *)
(* THE RECORDED FINDING about jen/dict.go after the fix c432903 (every pair is kept when two
   keys render to the same text; sort.SliceStable over a slice filled in map order): with two
   surviving keys whose texts are EQUAL the output depends on the iteration order.  Witness:
   two distinct keys `f()` (settled: no imports anywhere, legal configuration), values 1, 2. *)
Theorem C07_dict_equal_keys_refuted :
  exists cfg t txt pairs pairs',
    cfg_ok cfg /\ keys_settled cfg t txt pairs /\ Permutation pairs pairs' /\
    map (fun kv => txt (fst kv)) (filter (live cfg t) pairs) = [S "f ()"; S "f ()"] /\
    render cfg false t (CDict pairs) = Ok (t, [x0a] ++ S "f ():1," ++ [x0a] ++ S "f ():2," ++ [x0a]) /\
    render cfg false t (CDict pairs') = Ok (t, [x0a] ++ S "f ():2," ++ [x0a] ++ S "f ():1," ++ [x0a]).
Proof. exact dict_equal_keys_refuted. Qed.

(* ------------------------------------------------------------------ (c) trees *)
(* [tree_perm c c']: c' is c with the pairs of ANY nested Dict and the entries of ANY nested
   Tag in another order, everything else equal; closed under groups, statements, Dict keys and
   Dict values.  The five rules: *)
Theorem C07_tree_perm_rules :
  (forall c, tree_perm c c) /\
  (forall gid name o cl sep multi items items', Forall2 tree_perm items items' ->
     tree_perm (CGroup gid name o cl sep multi items) (CGroup gid name o cl sep multi items')) /\
  (forall items items', Forall2 tree_perm items items' -> tree_perm (CStmt items) (CStmt items')) /\
  (forall pairs pairs' pairs'',
     Forall2 (fun kv kv' => tree_perm (fst kv) (fst kv') /\ tree_perm (snd kv) (snd kv')) pairs pairs' ->
     Permutation pairs' pairs'' -> tree_perm (CDict pairs) (CDict pairs'')) /\
  (forall kvs kvs', Permutation kvs kvs' -> tree_perm (CTag kvs) (CTag kvs')).
Proof. exact (conj tp_refl (conj tp_group (conj tp_stmt (conj tp_dict tp_tag)))). Qed.

(* THE SIDE CONDITION [maps_ok cfg t c], at a table t.  Wherever the tree is WRITTEN (items
   that are not null, pairs whose two sides are not null): the keys of a Tag are pairwise
   distinct (a Go map[string]string), and the surviving keys of a Dict render at t without
   changing t, to pairwise distinct texts ([rtxt cfg t k]: the text a render of k from t
   writes).  Nothing is asked of Dict values, of other items, of what is not written. *)
Theorem C07_maps_ok_group : forall cfg t gid name o cl sep multi items,
  maps_ok cfg t (CGroup gid name o cl sep multi items) <->
  Forall (fun x => is_null cfg t x = false -> maps_ok cfg t x) items.
Proof. exact maps_ok_group_iff. Qed.

Theorem C07_maps_ok_stmt : forall cfg t items,
  maps_ok cfg t (CStmt items) <-> Forall (fun x => is_null cfg t x = false -> maps_ok cfg t x) items.
Proof. exact maps_ok_stmt_iff. Qed.

Theorem C07_maps_ok_dict : forall cfg t pairs,
  maps_ok cfg t (CDict pairs) <->
  Forall (fun kv => live cfg t kv = true -> maps_ok cfg t (fst kv) /\ maps_ok cfg t (snd kv)) pairs /\
  (forall kv, In kv pairs -> live cfg t kv = true -> exists s, render cfg false t (fst kv) = Ok (t, s)) /\
  NoDup (map (fun kv => rtxt cfg t (fst kv)) (filter (live cfg t) pairs)).
Proof. exact maps_ok_dict_iff. Qed.

Theorem C07_maps_ok_tag : forall cfg t kvs, maps_ok cfg t (CTag kvs) <-> NoDup (map fst kvs).
Proof. exact maps_ok_tag_iff. Qed.

Theorem C07_maps_ok_leaves : forall cfg t tk s,
  maps_ok cfg t CNil /\ maps_ok cfg t CNilStmt /\ maps_ok cfg t CNilGroup /\ maps_ok cfg t (CTok tk) /\
  maps_ok cfg t (CComment s).
Proof. intros. repeat split; constructor. Qed.

Theorem C07_rtxt_def : forall cfg t c,
  rtxt cfg t c = match render cfg false t c with Ok (_, s) => s | Panic _ => [] end.
Proof. intros; reflexivity. Qed.

(* The condition is kept by every registration: once true, it is true at every later table
   of the same File - in particular at each table the traversal passes through. *)
Theorem C07_maps_ok_later_tables : forall cfg, cfg_ok cfg -> forall c t t',
  ext cfg t t' -> maps_ok cfg t c -> maps_ok cfg t' c.
Proof. exact maps_ok_ext. Qed.

(* TREES.  For every tree (all constructs, arities, nesting: Dicts inside Dict keys and values
   inside blocks ...), every variant c' of it under other iteration orders, every context and
   every table t at which the side condition holds: the same result - the same bytes and the
   same import table, or the same panic.  Values and all other items may register imports. *)
Theorem C07_tree_perm : forall cfg, cfg_ok cfg -> forall c c' t ctx,
  tree_perm c c' -> maps_ok cfg t c -> render cfg ctx t c = render cfg ctx t c'.
Proof. exact render_tree_perm_eq. Qed.

(* FILES.  Two Files that are the same construction - equal but for the iteration orders of
   the maps inside their bodies - produce the same source text (head, import block, body) and
   the same import table; hence the same outcome of File.Render for every formatter and
   writer. *)
Theorem C07_with_items_def : forall f items,
  f_items (with_items f items) = items /\ f_imports (with_items f items) = f_imports f /\
  file_cfg (with_items f items) = file_cfg f /\ file_head (with_items f items) = file_head f /\
  f_cgo (with_items f items) = f_cgo f /\ f_noformat (with_items f items) = f_noformat f.
Proof. intros. repeat split; reflexivity. Qed.

Theorem C07_file_raw_tree_perm : forall f items',
  cfg_ok (file_cfg f) -> Forall2 tree_perm (f_items f) items' ->
  maps_ok (file_cfg f) (f_imports f) (file_group f) ->
  file_raw (with_items f items') = file_raw f.
Proof. exact file_raw_tree_perm. Qed.

Theorem C07_file_render_tree_perm : forall fmt wfail f items',
  cfg_ok (file_cfg f) -> Forall2 tree_perm (f_items f) items' ->
  maps_ok (file_cfg f) (f_imports f) (file_group f) ->
  snd (file_render fmt wfail (with_items f items')) = snd (file_render fmt wfail f) /\
  f_imports (fst (file_render fmt wfail (with_items f items'))) = f_imports (fst (file_render fmt wfail f)).
Proof. exact file_render_tree_perm. Qed.

(* AT A COVERED TABLE (every path the tree needs is registered: any render after the first
   one, C01_render_is_pure_text) the table never changes and the condition is just: the
   surviving keys of every written Dict have pairwise distinct PURE texts (and Tag keys are
   distinct).  Both orders then write the pure text of the tree. *)
Theorem C07_pure_maps_ok_dict : forall cfg t pairs,
  Forall (fun kv => live cfg t kv = true -> pure_maps_ok cfg t (fst kv) /\ pure_maps_ok cfg t (snd kv)) pairs ->
  (forall kv, In kv pairs -> live cfg t kv = true -> exists k, ptext cfg t false (fst kv) = Ok k) ->
  NoDup (map (fun kv => the_text cfg t false (fst kv)) (filter (live cfg t) pairs)) ->
  pure_maps_ok cfg t (CDict pairs).
Proof. exact pmo_dict. Qed.

Theorem C07_tree_perm_covered : forall cfg, cfg_ok cfg -> forall c c' t ctx,
  covered cfg t c -> pure_maps_ok cfg t c -> tree_perm c c' ->
  render cfg ctx t c' = with_table t (ptext cfg t ctx c) /\ render cfg ctx t c = render cfg ctx t c'.
Proof. exact render_tree_perm_covered. Qed.

Theorem C07_pure_maps_ok_suffices : forall cfg c t, covered cfg t c -> pure_maps_ok cfg t c -> maps_ok cfg t c.
Proof. exact pure_maps_ok_covered. Qed.

(* ------------------------------------------------------------------ (c) threaded: the precise condition *)
(* maps_ok asks the Dict keys to be settled at the table the render STARTS from.  A key may as
   well name a package that an EARLIER part of the same tree imports (first statement
   fmt.Println(...), later a Dict with key fmt.X): what matters is the table the traversal has
   when it ARRIVES at the Dict.  [maps_safe cfg t c] says exactly that by following the
   traversal; its loops mirror Group.renderItems, Statement.render and the second Dict pass and
   hand to each item the table it is rendered from: *)
Theorem C07_maps_safe_group_items : forall cfg (P : table -> code -> Prop) t x l,
  (forall t0, prereg cfg t x = Ok t0 ->          (* the group registers a package-token item first *)
     (is_null cfg t0 x = true -> gitems_safe cfg P t0 l) /\
     (is_null cfg t0 x = false ->
        P t0 x /\ forall ta s, render cfg false t0 x = Ok (ta, s) -> gitems_safe cfg P ta l)) ->
  gitems_safe cfg P t (x :: l).
Proof. exact gs_cons. Qed.

Theorem C07_maps_safe_stmt_items : forall cfg (P : table -> code -> Prop) t x l,
  (is_null cfg t x = true -> sitems_safe cfg P t l) ->
  (is_null cfg t x = false ->
     P t x /\ forall ctx ta s, render cfg ctx t x = Ok (ta, s) -> sitems_safe cfg P ta l) ->
  sitems_safe cfg P t (x :: l).
Proof. exact ss_cons. Qed.

Theorem C07_maps_safe_pass2 : forall cfg (P : table -> code -> Prop) t kv l,
  P t (fst kv) ->
  (forall ta s, render cfg false t (fst kv) = Ok (ta, s) ->
     P ta (snd kv) /\ forall tb s', render cfg false ta (snd kv) = Ok (tb, s') -> pass2_safe cfg P tb l) ->
  pass2_safe cfg P t (kv :: l).
Proof. exact p2_cons. Qed.

Theorem C07_maps_safe_empty_loops : forall cfg (P : table -> code -> Prop) t,
  gitems_safe cfg P t [] /\ sitems_safe cfg P t [] /\ pass2_safe cfg P t [].
Proof. intros. repeat split; constructor. Qed.

Theorem C07_maps_safe_group : forall cfg t gid name o cl sep multi items,
  (str_eqb name s_types && forallb (is_null cfg t) items = false -> gitems_safe cfg (maps_safe cfg) t items) ->
  maps_safe cfg t (CGroup gid name o cl sep multi items).
Proof. exact ms_group. Qed.

Theorem C07_maps_safe_stmt : forall cfg t items,
  sitems_safe cfg (maps_safe cfg) t items -> maps_safe cfg t (CStmt items).
Proof. exact ms_stmt. Qed.

(* a Dict reached with table t: every surviving key is settled at t (first pass), their texts
   are pairwise distinct, and the second pass - over the pairs in key order - is safe *)
Theorem C07_maps_safe_dict : forall cfg t pairs,
  (forall kv, In kv pairs -> live cfg t kv = true ->
     maps_safe cfg t (fst kv) /\ exists s, render cfg false t (fst kv) = Ok (t, s)) ->
  NoDup (map (fun kv => rtxt cfg t (fst kv)) (filter (live cfg t) pairs)) ->
  pass2_safe cfg (maps_safe cfg) t (isort_by (fun kv => rtxt cfg t (fst kv)) (filter (live cfg t) pairs)) ->
  maps_safe cfg t (CDict pairs).
Proof. exact ms_dict. Qed.

Theorem C07_maps_safe_tag_leaves : forall cfg t kvs tk s,
  (NoDup (map fst kvs) -> maps_safe cfg t (CTag kvs)) /\
  maps_safe cfg t CNil /\ maps_safe cfg t CNilStmt /\ maps_safe cfg t CNilGroup /\ maps_safe cfg t (CTok tk) /\
  maps_safe cfg t (CComment s).
Proof. intros. split; [exact (ms_tag cfg t kvs) | repeat split; constructor]. Qed.

(* TREES, threaded.  For EVERY configuration: a tree that is safe from t and any variant of it
   under other iteration orders render from t to the same result. *)
Theorem C07_tree_perm_threaded : forall cfg c c' t ctx,
  tree_perm c c' -> maps_safe cfg t c -> render cfg ctx t c = render cfg ctx t c'.
Proof. exact render_tree_perm_threaded_eq. Qed.

(* it subsumes the condition at the starting table *)
Theorem C07_maps_ok_is_safe : forall cfg, cfg_ok cfg -> forall c t, maps_ok cfg t c -> maps_safe cfg t c.
Proof. exact maps_ok_safe. Qed.

Theorem C07_file_raw_tree_perm_threaded : forall f items',
  Forall2 tree_perm (f_items f) items' ->
  maps_safe (file_cfg f) (f_imports f) (file_group f) ->
  file_raw (with_items f items') = file_raw f.
Proof. exact file_raw_tree_perm_threaded. Qed.

(* an executable check of the side condition *)
Theorem C07_maps_okb_sound : forall cfg t c, maps_okb cfg t c = true -> maps_ok cfg t c.
Proof. exact maps_okb_sound. Qed.

(* ------------------------------------------------------------------ examples *)
Definition C07t_cfg : config := mkcfg [] [] [].
Definition C07t_id (s : str) : code := CStmt [CTok (TkId s)].
Definition C07t_vals (gid : N) (d : code) : code := CGroup gid s_values (S "{") (S "}") (S ",") false [d].

(* (a) a fresh File (empty import table) whose Dict VALUES register two packages that collide
   on the name x: the keys are settled and distinct, so both orders give the same bytes and
   the same table - the package of the smaller key gets x, the other x1 *)
Definition C07t_pairs : list (code * code) :=
  [(C07t_id (S "B"), CStmt [qual 2 (S "c.d/x") (S "Y")]); (C07t_id (S "A"), CStmt [qual 1 (S "a.b/x") (S "X")])].

Example C07_dict_general_example :
  let txt := rtxt C07t_cfg [] in
  keys_settled C07t_cfg [] txt C07t_pairs /\
  NoDup (map (fun kv => txt (fst kv)) (filter (live C07t_cfg []) C07t_pairs)) /\
  Permutation C07t_pairs (rev C07t_pairs) /\
  render C07t_cfg false [] (CDict (rev C07t_pairs)) =
    Ok ([(S "a.b/x", mkdef (S "x") true); (S "c.d/x", mkdef (S "x1") true)],
        [x0a] ++ S "A:x.X," ++ [x0a] ++ S "B:x1.Y," ++ [x0a]).
Proof.
  cbv zeta. split; [|split; [|split]].
  - intros kv [<-|[<-|[]]] _; vm_compute; reflexivity.
  - apply nodupb_sound. vm_compute. reflexivity.
  - apply perm_swap.
  - vm_compute. reflexivity.
Qed.

(* (c) a Dict inside a Dict value inside a Block, and a Tag; the inner Dict's value registers
   an import.  The second tree has all three maps in the opposite order. *)
Definition C07t_inner : list (code * code) :=
  [(C07t_id (S "a"), CStmt [CTok (TkLit (LInt 1))]); (C07t_id (S "b"), CStmt [qual 3 (S "p/q") (S "Z")])].
Definition C07t_tag : list (str * str) := [(S "json", S "x"); (S "xml", S "y")].
Definition C07t_outer (inner : list (code * code)) (tag : list (str * str)) : list (code * code) :=
  [(C07t_id (S "k1"), CStmt [C07t_vals 5 (CDict inner)]); (C07t_id (S "k2"), CTag tag)].
Definition C07t_block (outer : list (code * code)) : code :=
  CGroup 1 (S "block") (S "{") (S "}") [] true [CStmt [C07t_vals 4 (CDict outer)]].

Definition C07t_tree : code := C07t_block (C07t_outer C07t_inner C07t_tag).
Definition C07t_tree' : code := C07t_block (rev (C07t_outer (rev C07t_inner) (rev C07t_tag))).

Lemma C07t_related : tree_perm C07t_tree C07t_tree'.
Proof.
  apply tp_group. constructor; [|constructor]. apply tp_stmt. constructor; [|constructor].
  apply tp_group. constructor; [|constructor].
  apply tp_dict with (pairs' := C07t_outer (rev C07t_inner) (rev C07t_tag)); [|apply perm_swap].
  constructor; [|constructor; [|constructor]]; (split; [apply tp_refl|]); cbn [snd C07t_outer].
  - apply tp_stmt. constructor; [|constructor]. apply tp_group. constructor; [|constructor].
    apply tp_dict with (pairs' := C07t_inner); [|apply perm_swap].
    apply Forall2_refl_all. intros kv. split; apply tp_refl.
  - apply tp_tag. apply perm_swap.
Qed.

Example C07_tree_example :
  cfg_ok C07t_cfg /\ tree_perm C07t_tree C07t_tree' /\ C07t_tree <> C07t_tree' /\ maps_ok C07t_cfg [] C07t_tree /\
  render C07t_cfg false [] C07t_tree' =
    Ok ([(S "p/q", mkdef (S "q") true)],
        S "{" ++ [x0a] ++ S "{" ++ [x0a] ++
        S "k1:{" ++ [x0a] ++ S "a:1," ++ [x0a] ++ S "b:q.Z," ++ [x0a] ++ S "}," ++ [x0a] ++
        S "k2:`json:""x"" xml:""y""`," ++ [x0a] ++ S "}" ++ [x0a] ++ S "}").
Proof.
  split; [split; [intros p h E; discriminate | left; reflexivity]|].
  split; [exact C07t_related|]. split; [intros H; discriminate|].
  split; [apply maps_okb_sound; vm_compute; reflexivity | vm_compute; reflexivity].
Qed.

(* the File: a fresh File with that block and the colliding Dict as body, and the same File
   with every map in the opposite order *)
Definition C07t_file : file :=
  add_item (add_item (new_file (S "main")) C07t_tree) (CStmt [C07t_vals 8 (CDict C07t_pairs)]).
Definition C07t_items' : list code := [C07t_tree'; CStmt [C07t_vals 8 (CDict (rev C07t_pairs))]].

Example C07_file_tree_example :
  cfg_ok (file_cfg C07t_file) /\ Forall2 tree_perm (f_items C07t_file) C07t_items' /\
  maps_ok (file_cfg C07t_file) (f_imports C07t_file) (file_group C07t_file) /\
  f_items C07t_file <> C07t_items' /\
  match file_raw (with_items C07t_file C07t_items') with
  | Ok (t1, _) => map (fun e => (fst e, id_name (snd e))) t1 = [(S "p/q", S "q"); (S "a.b/x", S "x"); (S "c.d/x", S "x1")]
  | Panic _ => False
  end.
Proof.
  split; [split; [intros p h E; discriminate | left; reflexivity]|].
  split.
  - constructor; [exact C07t_related|]. constructor; [|constructor].
    apply tp_stmt. constructor; [|constructor]. apply tp_group. constructor; [|constructor].
    apply tp_dict with (pairs' := C07t_pairs); [|apply perm_swap].
    apply Forall2_refl_all. intros kv. split; apply tp_refl.
  - split; [apply maps_okb_sound; vm_compute; reflexivity|].
    split; [intros H; discriminate | vm_compute; reflexivity].
Qed.

(* threaded: a fresh table; the first statement imports fmt, the Dict of the second statement
   has two KEYS that are qualified identifiers of fmt and a value that imports os.  The keys
   are not settled at the empty table (maps_ok fails), they are where the Dict is reached
   (maps_safe holds), and both orders write the same bytes and table. *)
Example C07_threaded_example :
  maps_safe th_cfg [] (th_tree th_pairs) /\ ~ maps_ok th_cfg [] (th_tree th_pairs) /\
  tree_perm (th_tree th_pairs) (th_tree (rev th_pairs)) /\
  render th_cfg false [] (th_tree (rev th_pairs)) =
    Ok ([(S "fmt", mkdef (S "fmt") false); (S "os", mkdef (S "os") false)],
        [x0a] ++ S "fmt.Println" ++ [x0a] ++ S "{" ++ [x0a] ++ S "fmt.A:os.X," ++ [x0a] ++ S "fmt.B:2," ++ [x0a] ++ S "}").
Proof.
  split; [exact th_tree_safe|]. split; [exact th_tree_not_ok|]. split; [|vm_compute; reflexivity].
  apply tp_group. constructor; [apply tp_refl|]. constructor; [|constructor].
  apply tp_stmt. constructor; [|constructor]. apply tp_group. constructor; [|constructor].
  apply tp_dict with (pairs' := th_pairs); [|apply perm_swap].
  apply Forall2_refl_all. intros kv. split; apply tp_refl.
Qed.
