(* C16, general form: what a Dict renders to FROM ANY TABLE.
   Props/C16.v states the Dict specification under `settled` (keys AND values render from t
   to t), which excludes the most common use: the first render of a fresh File with
   Dict{Id("A"): Qual("fmt", "X")} - the value registers an import.  Here nothing is assumed
   about the table.  Statements only; proofs are lemmas of Proofs/DictGeneralProofs.v. *)
From Jen Require Import Base.Bytes Base.Sort Model.Code Model.Naming Model.Render Gen.Tables.
From Jen Require Import Proofs.NamingProofs Proofs.RenderProofs Proofs.DictProofs Spec.Pure Proofs.PureProofs
                        Proofs.DictGeneralProofs.
From Coq Require Import Permutation Sorted.

(* [ktext cfg t kv] / [vtext cfg t kv]: the PURE text (Spec/Pure.v, C01_pure) of the key /
   the value of a pair at table t - a function of the tree and that one table. *)
Theorem C16_ktext_vtext_def : forall cfg t kv,
  ktext cfg t kv = match ptext cfg t false (fst kv) with Ok s => s | Panic _ => [] end /\
  vtext cfg t kv = match ptext cfg t false (snd kv) with Ok s => s | Panic _ => [] end.
Proof. intros; split; reflexivity. Qed.

(* THE GENERAL SPECIFICATION.  For every configuration with legal hints (cfg_ok, C05), every
   Dict - any number of pairs in any iteration order, any key and value expressions, whatever
   they register - every context and every starting table t: if the render succeeds with
   table t1 and text s, then s is the dict_body (nothing / `k:v` / one `k:v,` per line) of
   exactly the pairs whose key and value are both non-null, each once, as (pure key text,
   pure value text) at the FINAL table t1, sorted by key text. *)
Theorem C16_dict_spec_general : forall cfg, cfg_ok cfg -> forall ctx t pairs t1 s,
  render cfg ctx t (CDict pairs) = Ok (t1, s) ->
  s = dict_body (isort_by fst (map (fun kv => (ktext cfg t1 kv, vtext cfg t1 kv)) (filter (live cfg t1) pairs))).
Proof. exact dict_spec_general. Qed.

(* Which pairs survive does not depend on the table at which null-ness is asked - the one
   the render started from or the one it left: no registration changes null-ness. *)
Theorem C16_survivors_same_at_both_tables : forall cfg, cfg_ok cfg -> forall ctx t pairs t1 s,
  render cfg ctx t (CDict pairs) = Ok (t1, s) -> filter (live cfg t1) pairs = filter (live cfg t) pairs.
Proof. exact dict_live_final. Qed.

Theorem C16_dict_spec_general_initial : forall cfg, cfg_ok cfg -> forall ctx t pairs t1 s,
  render cfg ctx t (CDict pairs) = Ok (t1, s) ->
  s = dict_body (isort_by fst (map (fun kv => (ktext cfg t1 kv, vtext cfg t1 kv)) (filter (live cfg t) pairs))).
Proof. exact dict_spec_general_initial. Qed.

(* The texts are real texts: every surviving key and value HAS a pure text at t1 (no Panic
   hides behind the [] default of ktext/vtext), and it is what a render of that key or value
   from t1 writes, leaving t1 as it is. *)
Theorem C16_texts_exist : forall cfg, cfg_ok cfg -> forall ctx t pairs t1 s,
  render cfg ctx t (CDict pairs) = Ok (t1, s) ->
  forall kv, In kv pairs -> live cfg t1 kv = true ->
    ptext cfg t1 false (fst kv) = Ok (ktext cfg t1 kv) /\ ptext cfg t1 false (snd kv) = Ok (vtext cfg t1 kv) /\
    render cfg false t1 (fst kv) = Ok (t1, ktext cfg t1 kv) /\ render cfg false t1 (snd kv) = Ok (t1, vtext cfg t1 kv).
Proof. exact dict_texts_exist. Qed.

(* Values(Dict{...}) is `{` body `}` - from any table. *)
Theorem C16_values_dict_general : forall cfg, cfg_ok cfg -> forall ctx gid t pairs t1 s,
  render cfg ctx t (CGroup gid s_values (S "{") (S "}") (S ",") false [CDict pairs]) = Ok (t1, s) ->
  s = S "{" ++ dict_body (isort_by fst (map (fun kv => (ktext cfg t1 kv, vtext cfg t1 kv)) (filter (live cfg t1) pairs))) ++ S "}".
Proof. exact values_dict_spec_general. Qed.

(* TIES.  The sort is stable (insertion sort; sort.SliceStable in jen/dict.go): for every
   key text k, the pairs whose key text is k stand in the output in the order in which the
   map iteration delivered them.  With C16_each_pair_once_in_key_order (sorted permutation)
   this fixes the output list completely - second theorem: a list that is sorted by key and
   holds, for every key text, the same pairs in the same order as the input IS the output. *)
Theorem C16_ties_keep_map_order : forall (kvs : list (str * str)) k,
  filter (has_key fst k) (isort_by fst kvs) = filter (has_key fst k) kvs.
Proof. intros kvs k. exact (isort_by_stable fst k kvs). Qed.

Theorem C16_has_key_def : forall (kv : str * str) k, has_key fst k kv = str_eqb (fst kv) k.
Proof. intros; reflexivity. Qed.

Theorem C16_output_list_characterised : forall (kvs s : list (str * str)),
  StronglySorted (key_le fst) s -> (forall k, filter (has_key fst k) s = filter (has_key fst k) kvs) ->
  s = isort_by fst kvs.
Proof. intros kvs s. exact (isort_by_characterised fst kvs s). Qed.

(* ---- examples ---- *)
Definition C16g_cfg : config := mkcfg [] [] [].
Definition C16g_id (s : str) : code := CStmt [CTok (TkId s)].
Definition C16g_pairs : list (code * code) :=
  [(C16g_id (S "B"), CStmt [qual 2 (S "c.d/x") (S "Y")]); (C16g_id (S "A"), CStmt [qual 1 (S "a.b/x") (S "X")])].

(* A fresh File (empty table): the two values register two packages that collide on the name
   x.  The hypothesis of the general theorem holds (the render succeeds, and changes the
   table), the text is the one the formula gives, ... *)
Example C16_general_example :
  let t1 := [(S "a.b/x", mkdef (S "x") true); (S "c.d/x", mkdef (S "x1") true)] in
  cfg_ok C16g_cfg /\
  render C16g_cfg false [] (CGroup 9 s_values (S "{") (S "}") (S ",") false [CDict C16g_pairs]) =
    Ok (t1, S "{" ++ [x0a] ++ S "A:x.X," ++ [x0a] ++ S "B:x1.Y," ++ [x0a] ++ S "}") /\
  map (fun kv => (ktext C16g_cfg t1 kv, vtext C16g_cfg t1 kv)) (filter (live C16g_cfg t1) C16g_pairs) =
    [(S "B", S "x1.Y"); (S "A", S "x.X")].
Proof.
  cbv zeta. split; [split; [intros p h E; discriminate | left; reflexivity]|].
  split; vm_compute; reflexivity.
Qed.

(* ... while the hypothesis `settled` of C16_dict_spec fails at that table for every choice
   of texts: this Dict was outside the old theorem. *)
Example C16_general_example_not_settled : forall txt, ~ settled C16g_cfg [] txt C16g_pairs.
Proof.
  intros txt H. destruct (H _ (or_introl eq_refl) eq_refl) as [_ Hv]. vm_compute in Hv. discriminate.
Qed.

(* Ties: two distinct keys that both read `f ()` (gofmt: `f()`); both pairs are written, in
   the order of the list = the order of the map iteration. *)
Example C16_ties_example :
  render C16g_cfg false [] (CDict eqkey_pairs) =
    Ok ([], [x0a] ++ S "f ():1," ++ [x0a] ++ S "f ():2," ++ [x0a]) /\
  render C16g_cfg false [] (CDict (rev eqkey_pairs)) =
    Ok ([], [x0a] ++ S "f ():2," ++ [x0a] ++ S "f ():1," ++ [x0a]).
Proof. split; vm_compute; reflexivity. Qed.
