(* C03, the import block line by line.
   Statements only; proofs are lemmas of Proofs/ReviewMiscProofs.v.

   The review noted that "the block contains import_spec p d followed by a newline"
   (C03_qualifier_is_binding) cannot tell the line `"p"` from the line `q "p"`: the former is a
   suffix of the latter.  Here the block is described exactly.

   Vocabulary (Proofs/ReviewMiscProofs.v, Proofs/OccsProofs.v, Proofs/ImportsProofs.v):
     listed t cgo        the entries the main import declaration lists: all of t, minus "C"
                         when a cgo preamble exists
     spec_of (p, d)      the ImportSpec of an entry: (Some name, p) if the entry says alias
                         and p is not "C", (None, p) otherwise
     spec_text           `name "p"` resp. `"p"` (the path printed with strconv.Quote)
     block_specs l       map spec_of (isort_by fst l): the specs in the order printed
     block_lines l       map spec_text (block_specs l)
     block_text lines    nothing for no line; `import <line>` for one line; otherwise
                         `import (`, one line per element, `)`; each followed by a newline, the
                         declaration by an empty line *)
From Jen Require Import Base.Bytes Base.Sort Model.Code Model.Naming Model.Render Model.FileRender GoStd.Quote.
From Jen Require Import Proofs.ImportsProofs Proofs.OccsProofs Proofs.ReviewMiscProofs.
Local Open Scope bool_scope.

(* THE BLOCK, EXACTLY.  For every table without repeated paths (kept by Anon and File.Render:
   C04) and every cgo preamble:
   1. the text of the import block is block_text of the lines, then the preamble part;
   2. the lines are import_spec of the listed entries sorted by path - one line per entry;
   3. no two specs of the block carry the same path;
   4. the spec of a listed path p is the one its entry (p, d) determines, and it is the ONLY
      spec of the block that carries the path p;
   5. every spec of the block belongs to an entry of the table. *)
Theorem C03_block_line_exact : forall t cgo,
  NoDup (akeys t) ->
  render_imports t cgo =
    block_text (block_lines (listed t cgo)) ++ (if nonempty_list cgo then preamble_block cgo else []) /\
  block_lines (listed t cgo) = map (fun e => import_spec (fst e) (snd e)) (isort_by fst (listed t cgo)) /\
  NoDup (map snd (block_specs (listed t cgo))) /\
  (forall p d, alookup p t = Some d -> cgo = [] \/ p <> s_C ->
     In (spec_of (p, d)) (block_specs (listed t cgo)) /\
     forall sp, In sp (block_specs (listed t cgo)) -> snd sp = p -> sp = spec_of (p, d)) /\
  (forall sp, In sp (block_specs (listed t cgo)) ->
     exists d, alookup (snd sp) t = Some d /\ sp = spec_of (snd sp, d)).
Proof. exact block_line_exact. Qed.

(* The case the review names.  An entry stored WITHOUT alias: its line is the bare quoted
   path, and the block has no spec `a "p"` for any a. *)
Theorem C03_unaliased_line : forall t cgo p d,
  NoDup (akeys t) -> alookup p t = Some d -> cgo = [] \/ p <> s_C -> id_alias d = false ->
  import_spec p d = GoQuote p /\
  In (None, p) (block_specs (listed t cgo)) /\
  forall a, ~ In (Some a, p) (block_specs (listed t cgo)).
Proof. exact block_unaliased_line. Qed.

(* An entry stored WITH alias (path other than "C"): its line is `name "p"`; the bare line
   `"p"` is not a spec of the block, and no other alias is given to p. *)
Theorem C03_aliased_line : forall t cgo p d,
  NoDup (akeys t) -> alookup p t = Some d -> p <> s_C -> id_alias d = true ->
  import_spec p d = id_name d ++ S " " ++ GoQuote p /\
  In (Some (id_name d), p) (block_specs (listed t cgo)) /\
  ~ In (None, p) (block_specs (listed t cgo)) /\
  forall a, In (Some a, p) (block_specs (listed t cgo)) -> a = id_name d.
Proof. exact block_aliased_line. Qed.

(* The quoted path determines the path (different paths never print alike). *)
Theorem C03_quoted_path_injective : forall a b, GoQuote a = GoQuote b -> a = b.
Proof. exact GoQuote_inj. Qed.

(* THE TEXT DETERMINES THE LINES.  Split at newlines (nl_lines: the newline-terminated lines
   of a text), the parenthesised declaration is `import (`, exactly the lines of the specs,
   `)` and an empty line.  Hypothesis: no stored name contains a newline - true of every name
   jennifer stores ("_", ".", "C" or an identifier: C05_names_legal). *)
Theorem C03_block_text_lines : forall l : table,
  (forall p d, In (p, d) l -> ~ In x0a (id_name d)) -> (2 <= length l)%nat ->
  nl_lines (main_block l) [] = S "import (" :: block_lines l ++ [S ")"; []].
Proof. exact block_text_lines. Qed.

(* Non-vacuity: the table of the C03 example file (aliased and unaliased entries, an Anon
   entry) meets the hypotheses; the specs and lines computed by the model are the ones the
   theorems describe; `"math/rand"` has no aliased twin and `pp_rand1 "crypto/rand"` no bare
   one. *)
Example C03_block_example :
  let t := [(S "a.b/d", mkdef (S "pp_d") true); (S "only/anon", mkdef s_us true);
            (S "math/rand", mkdef (S "rand") false); (S "crypto/rand", mkdef (S "pp_rand1") true)] in
  NoDup (akeys t) /\
  (forall p d, In (p, d) t -> ~ In x0a (id_name d)) /\
  block_specs (listed t []) =
    [(Some (S "pp_d"), S "a.b/d"); (Some (S "pp_rand1"), S "crypto/rand"); (None, S "math/rand");
     (Some s_us, S "only/anon")] /\
  block_lines (listed t []) =
    [S "pp_d ""a.b/d"""; S "pp_rand1 ""crypto/rand"""; S """math/rand"""; S "_ ""only/anon"""] /\
  render_imports t [] =
    concat_str (map (fun l => l ++ [x0a])
      [S "import ("; S "pp_d ""a.b/d"""; S "pp_rand1 ""crypto/rand"""; S """math/rand"""; S "_ ""only/anon"""; S ")"; []]).
Proof.
  cbv zeta. split.
  - repeat constructor; simpl; intuition discriminate.
  - split; [|repeat split; vm_compute; reflexivity].
    intros p d Hin. simpl in Hin.
    repeat (destruct Hin as [E|Hin]; [injection E as <- <-; vm_compute; intuition discriminate|]). destruct Hin.
Qed.
