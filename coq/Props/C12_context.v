(* C12 in context: a quoted string / rune literal is ONE token wherever it stands in code.
   Props/C12.v (C12_string_one_token) starts Go's string scanning AT the literal; here the
   skeleton lexer of GoStd/Skeleton.v is run over a whole text pre ++ literal ++ rest. *)
From Jen Require Import Base.Bytes GoStd.Quote GoStd.Skeleton Model.Render.
From Jen Require Import Proofs.CommentProofs Proofs.AdjacencyProofs.

(* For EVERY byte string s and every prefix after which the lexer is in code
   ([ends_in_code]: not inside a comment, string, raw string or rune literal; any code
   pending), the lexer over pre ++ GoQuote s ++ rest yields the regions of pre, the pending
   code, the region (KStr, GoQuote s), and then exactly what it yields on rest alone: it is
   back in code with nothing pending right after the literal's closing quote.  Nothing of
   the literal leaks into the code around it and nothing of rest is swallowed. *)
Theorem C12_string_in_context : forall pre s rest, ends_in_code pre ->
  exists o acc, lex_run MCode [] pre = (o, MCode, acc) /\
    skel (pre ++ GoQuote s ++ rest) = o ++ flush KCode acc ++ (KStr, GoQuote s) :: skel rest /\
    lex_run MCode [] (pre ++ GoQuote s) = (o ++ flush KCode acc ++ [(KStr, GoQuote s)], MCode, []).
Proof. exact string_in_context. Qed.

(* The same for strconv.QuoteRune of any int32 (invalid ones become U+FFFD's literal). *)
Theorem C12_rune_in_context : forall pre r rest, ends_in_code pre ->
  exists o acc, lex_run MCode [] pre = (o, MCode, acc) /\
    skel (pre ++ GoQuoteRune r ++ rest) = o ++ flush KCode acc ++ (KRune, GoQuoteRune r) :: skel rest /\
    lex_run MCode [] (pre ++ GoQuoteRune r) = (o ++ flush KCode acc ++ [(KRune, GoQuoteRune r)], MCode, []).
Proof. exact rune_in_context. Qed.

(* The hypothesis matters: after `// ` or an open backquote the lexer is not in code, and the
   same bytes are then part of the comment. *)
Theorem C12_context_hypothesis_needed :
  ~ ends_in_code (S "// ") /\ ~ ends_in_code [c_bq] /\
  skel (S "// " ++ GoQuote (S "a") ++ [x0a]) = [(KLine, S "// " ++ GoQuote (S "a")); (KCode, [x0a])].
Proof. exact string_not_in_code_context. Qed.

(* Non-vacuity: quote, backslash, newline, NUL, invalid UTF-8, backquote, comment markers in
   the string; code with a finished comment, a raw string and a rune literal before it. *)
Example C12_context_example :
  let pre := S "x /* c */ := `r` + 'q' + f(" in
  let s := [x22; x5c; x0a; x00; xff; x60] ++ S "// */ /*" in
  ends_in_code pre /\
  skel (pre ++ GoQuote s ++ S ") // done") =
  [(KCode, S "x "); (KBlock, S "/* c */"); (KCode, S " := "); (KRaw, S "`r`"); (KCode, S " + ");
   (KRune, S "'q'"); (KCode, S " + f("); (KStr, GoQuote s); (KCode, S ") "); (KLine, S "// done")].
Proof. split; [do 2 eexists; vm_compute; reflexivity | vm_compute; reflexivity]. Qed.

Print Assumptions C12_string_in_context.
Print Assumptions C12_rune_in_context.
Print Assumptions C12_context_hypothesis_needed.
