(* C12: string, rune and byte literals preserve their exact content and are one token.
   Statements only; every proof is `exact` of a lemma of Proofs/. *)
From Jen Require Import Base.Bytes Base.Num Base.Utf8 GoStd.Quote GoStd.IsPrint GoStd.LitEval Model.Render.
From Jen Require Import Proofs.QuoteProofs Proofs.LitProofs.

(* The model of Lit(string) is strconv.Quote (what %#v prints for a string). *)
Theorem C12_lit_uses_quote : forall s, lit_text (LStr s) = Ok (GoQuote s).
Proof. intros; reflexivity. Qed.

(* For EVERY byte string - invalid UTF-8, control characters, quotes, backquotes, newlines -
   the quoted text, read as a Go interpreted string literal, has exactly the value s. *)
Theorem C12_string_roundtrip : forall s, go_string_value (GoQuote s) = Some s.
Proof. exact GoQuote_value. Qed.

(* ... and this does not depend on the printability tables: it holds for every predicate
   that does not call newline printable. *)
Theorem C12_string_roundtrip_any_tables : forall is_print : N -> bool, is_print 10%N = false ->
  forall s, go_string_value (Quote is_print s) = Some s.
Proof. exact Quote_roundtrip_any. Qed.

(* One token: Go's string scanning started at the literal followed by ANY text stops
   exactly where the literal ends (nothing leaks into, or is swallowed from, the
   surrounding code), and the literal contains no raw newline byte. *)
Theorem C12_string_one_token : forall s rest,
  scan_string_lit (GoQuote s ++ rest) = Some (s, rest) /\ ~ In c_nl (GoQuote s).
Proof. exact GoQuote_one_token. Qed.

(* For every valid code point r (at most 0x10FFFF, not a surrogate) the text of
   strconv.QuoteRune is a rune literal of value r, scans as one rune token whatever
   follows, and contains no raw newline. *)
Theorem C12_rune : forall r, valid_rune r = true ->
  go_rune_value (GoQuoteRune r) = Some r /\
  (forall rest, scan_rune_lit (GoQuoteRune r ++ rest) = Some (r, rest)) /\
  ~ In c_nl (GoQuoteRune r).
Proof. exact GoQuoteRune_spec. Qed.

(* The same for the token LitRune(r) renders, r an int32 holding a valid code point. *)
Theorem C12_rune_token : forall r : Z, (0 <= r)%Z -> valid_rune (Z.to_N r) = true ->
  go_rune_value (rune_text r) = Some (Z.to_N r) /\
  (forall rest, scan_rune_lit (rune_text r ++ rest) = Some (Z.to_N r, rest)).
Proof. exact rune_text_valid. Qed.

(* A negative, surrogate or too large int32 renders the literal of U+FFFD (what
   strconv.QuoteRune does with an invalid rune): still a well-formed literal, value 0xFFFD. *)
Theorem C12_rune_invalid : forall r : Z, ((r < 0)%Z \/ valid_rune (Z.to_N r) = false) ->
  rune_text r = GoQuoteRune rune_error /\ go_rune_value (rune_text r) = Some rune_error.
Proof. exact rune_text_invalid. Qed.

(* LitByte(b): the text is byte(0x<hex>) and evaluates to the constant b of type byte,
   for all 256 bytes. *)
Theorem C12_byte : forall b, (b < 256)%N ->
  byte_text b = S "byte(0x" ++ N_to_hex b ++ S ")" /\
  eval_lit (byte_text b) = Some (TByte, VInt (Z.of_N b)).
Proof. exact byte_text_spec. Qed.

(* Non-vacuity and cross-checks by computation. *)
Example C12_example_string :
  (* quote, backslash, newline, NUL, an invalid UTF-8 byte, a backquote, a letter *)
  let s := [x22; x5c; x0a; x00; xff; x60; x61] in
  scan_string_lit (GoQuote s ++ S " + x") = Some (s, S " + x") /\
  GoQuote s = [x22; x5c; x22; x5c; x5c; x5c; x6e; x5c; x78; x30; x30; x5c; x78; x66; x66; x60; x61; x22].
Proof. split; vm_compute; reflexivity. Qed.

Example C12_example_runes :
  map GoQuoteRune [97; 39; 10; 0x1F600; 0xD800]%N =
  [S "'a'"; S "'\''"; S "'\n'"; [x27; xf0; x9f; x98; x80; x27]; [x27; xef; xbf; xbd; x27]] /\
  map (fun r => go_rune_value (GoQuoteRune r)) [97; 39; 10; 0x1F600; 0xD800]%N =
  [Some 97; Some 39; Some 10; Some 0x1F600; Some 0xFFFD]%N /\
  valid_rune 0x1F600 = true /\ valid_rune 0xD800 = false.
Proof. repeat split; vm_compute; reflexivity. Qed.

(* the byte sweep, by computation, agrees with the theorem *)
Example C12_byte_sweep :
  forallb (fun b => match eval_lit (byte_text b) with
                    | Some (TByte, VInt z) => (z =? Z.of_N b)%Z
                    | _ => false
                    end) (map N.of_nat (seq 0 256)) = true /\
  eval_lit (byte_text 256) = None.
Proof. split; vm_compute; reflexivity. Qed.
