(* C13, statements: nil and Null() items vanish from a STATEMENT chain as well - with one
   exception, which is stated and witnessed here.
   Statements only; proofs are lemmas of Proofs/ReviewNullProofs.v.

   Why there is an exception.  Statement.render asks, for each item that is a group, which
   item stands IMMEDIATELY in front of it in the chain (Statement.previous; model: prev_of,
   case_ctx in Model/Render.v) - whether that item is null or not.  A `block` group whose
   predecessor is a Case group or a `default` token is written without its braces.  A null
   item put between `Case(x)` and `Block(y)` is written as nothing, but it IS the
   predecessor now: the braces come back.

   Vocabulary (Proofs/ReviewNullProofs.v):
     is_block c           c is a group named "block"
     hd_is_block ys       the first item of ys is one
     last_is_case l       the last item of l is a group named "case" or a token whose content
                          is "default" ([] : false)
     stmt_insert_ok xs ns ys :=
         hd_is_block ys = true -> last_is_case (xs ++ ns) = last_is_case xs
     gids_consistent l    items of l with the same group identity are the same value (the
                          identity is the pointer in Go; NoDup of the identities suffices) *)
From Jen Require Import Base.Bytes Model.Code Model.Naming Model.Render Gen.Tables.
From Jen Require Import Proofs.NullProofs Proofs.ReviewNullProofs.
Local Open Scope bool_scope.

(* NULL INVARIANCE FOR STATEMENTS.  Inserting nullish items (nil, typed nil pointers, Null(),
   empty statements / delimiter-less groups / tags / Dicts made of such) into a statement
   chain - any number, at any position - changes neither the rendered bytes nor the import
   table, from every table and in every context, nor whether the statement itself is null.
   Side condition: if the item right after the insertion point is a Block, the item right in
   front of it answers the case/default test as before. *)
Theorem C13_stmt_null_invariance : forall cfg xs ns ys,
  forallb nullish ns = true -> gids_consistent (xs ++ ns ++ ys) -> stmt_insert_ok xs ns ys ->
  (forall ctx t, render cfg ctx t (CStmt (xs ++ ns ++ ys)) = render cfg ctx t (CStmt (xs ++ ys))) /\
  (forall t, is_null cfg t (CStmt (xs ++ ns ++ ys)) = is_null cfg t (CStmt (xs ++ ys))).
Proof. exact stmt_null_invariance. Qed.

(* The side condition in plain words: it holds unless the next item is a Block AND the last
   item in front of the insertion point, or the last inserted item, is a Case group or a
   `default` token.  (No item the API builds is both nullish and a Case group - its opening
   text is "case " - so for API-built trees only the first alternative can occur.) *)
Theorem C13_stmt_side_condition : forall xs ns ys,
  hd_is_block ys && (last_is_case xs || last_is_case ns) = false -> stmt_insert_ok xs ns ys.
Proof. exact stmt_insert_ok_simple. Qed.

Theorem C13_stmt_side_condition_nonblock : forall xs ns ys,
  hd_is_block ys = false -> stmt_insert_ok xs ns ys.
Proof. exact stmt_insert_ok_nonblock. Qed.

Theorem C13_case_group_not_nullish : forall gid o cl sep multi items,
  nonempty o = true -> nullish (CGroup gid s_case o cl sep multi items) = false.
Proof. exact nullish_not_case_group. Qed.

Theorem C13_distinct_identities_consistent : forall l, NoDup (gid_list l) -> gids_consistent l.
Proof. exact gids_consistent_NoDup. Qed.

(* ... and the two statements are interchangeable anywhere ([req], Props/C13.v): with
   C13_group_congruence and C13_statement_congruence the insertion may happen at any depth. *)
Theorem C13_stmt_insertion_interchangeable : forall cfg xs ns ys,
  forallb nullish ns = true -> gids_consistent (xs ++ ns ++ ys) -> stmt_insert_ok xs ns ys ->
  req cfg (CStmt (xs ++ ns ++ ys)) (CStmt (xs ++ ys)).
Proof. exact stmt_null_req. Qed.

(* THE EXCEPTION IS REAL (named exclusion of the property's "at any position").
   ex_case = Case(x), ex_block = Block(y).  The first two hypotheses of the theorem hold, the
   side condition does not, and the text changes: Case(x).Block(y) is written without
   braces, Case(x).Add(Null()).Block(y) and Case(x).Add(g).Block(y) with g a typed nil pointer to Group with them.
   (The typed nil *Group in front of a Block does not panic: never in the model, and not in
   /repo since commit 22d7055.) *)
Theorem C13_stmt_case_block_exception :
  let cfg := mkcfg [] [] [] in
  forallb nullish [CTok TkNull] = true /\
  gids_consistent ([ex_case] ++ [CTok TkNull] ++ [ex_block]) /\
  ~ stmt_insert_ok [ex_case] [CTok TkNull] [ex_block] /\
  render cfg false [] (CStmt ([ex_case] ++ [ex_block])) = Ok ([], S "case x: " ++ [x0a] ++ S "y") /\
  render cfg false [] (CStmt ([ex_case] ++ [CTok TkNull] ++ [ex_block])) =
    Ok ([], S "case x: {" ++ [x0a] ++ S "y" ++ [x0a] ++ S "}") /\
  render cfg false [] (CStmt ([ex_case] ++ [CNilGroup] ++ [ex_block])) =
    Ok ([], S "case x: {" ++ [x0a] ++ S "y" ++ [x0a] ++ S "}").
Proof. exact stmt_case_block_exception. Qed.

(* Non-vacuity: the hypotheses are satisfiable, also with a Case and a Block in the chain -
   null items before the Case, after the Block, and between items that are not a
   Case/Block pair all vanish. *)
Example C13_stmt_example :
  let cfg := mkcfg [] [] [] in
  let id s := CTok (TkId s) in
  let xs := [id (S "a"); ex_case] in
  let ys := [ex_block; id (S "b")] in
  (* nulls in front of the Case: xs' = [a], ns, ys' = Case :: Block :: b *)
  let ns := [CNil; CTok TkNull; CStmt []; CNilStmt; CTag []] in
  forallb nullish ns = true /\
  gids_consistent ([id (S "a")] ++ ns ++ ex_case :: ys) /\
  stmt_insert_ok [id (S "a")] ns (ex_case :: ys) /\
  render cfg false [] (CStmt ([id (S "a")] ++ ns ++ ex_case :: ys)) =
    Ok ([], S "a case x: " ++ [x0a] ++ S "y b") /\
  (* nulls after the Block *)
  stmt_insert_ok (xs ++ [ex_block]) ns [id (S "b")] /\
  render cfg false [] (CStmt ((xs ++ [ex_block]) ++ ns ++ [id (S "b")])) =
    Ok ([], S "a case x: " ++ [x0a] ++ S "y b") /\
  render cfg false [] (CStmt (xs ++ ys)) = Ok ([], S "a case x: " ++ [x0a] ++ S "y b").
Proof.
  cbv zeta. split; [reflexivity|]. split.
  - apply gids_consistent_NoDup. vm_compute. repeat constructor; simpl; intuition discriminate.
  - split; [apply stmt_insert_ok_nonblock; reflexivity|].
    split; [vm_compute; reflexivity|].
    split; [apply stmt_insert_ok_nonblock; reflexivity|].
    split; vm_compute; reflexivity.
Qed.
