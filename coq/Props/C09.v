(* C09: Files do not interfere - a File's output depends only on that File's own contents
   and settings.  Statements only; proofs are lemmas of Proofs/FrameProofs.v.

   What IS proved here
   - about jennifer's SOURCE (Gen/Globals.v, regenerated from the working tree by
     tools/cmd/globals2coq on every run): package jen has no package-level variable that any
     function writes, aliases or hands to a callee that could write it; no struct field of
     func type; no use of sync, sync/atomic, goroutines or channels; the package-level
     variables are exactly the two read-only tables the model has, of the table types; no
     write to, escape of or call through a package-level variable of ANOTHER package, only
     stateless functions of other packages (C09_no_mutable_globals,
     C09_globals_are_the_modelled_tables); the scan covered every .go file compiled with cgo
     on or off, with or without -race, there is no assembly / C / object file, no bodiless
     function, no go:linkname, and no import outside an allow-list (C09_whole_package_scanned);
   - about the MODEL (the case interpreter of Model/Exec.v, which is tied to the code by
     differential execution): every operation works on one File index; it leaves every
     other File of the world untouched and its result is a function of that File's state
     alone (C09_step_frame, C09_step_without_file); hence for every history the
     observations of File i are those of the sub-history of operations on i run alone from
     the empty world, whatever is done to other Files before, in between and after
     (C09_frame); histories with the same per-File sub-histories - in particular any two
     interleavings of histories over disjoint Files, e.g. the sequential composition - give
     every File the same observations and final state (C09_reorder, C09_interleave); a tree
     rendered with File A and then with File B renders in each according to that File's own
     settings and import table (C09_shared_code, C09_shared_code_own_settings).

   What is NOT a theorem (named gap, DESIGN.md section 5, C09)
   - DATA-RACE FREEDOM under the Go memory model and any SCHEDULER-dependent behaviour.  The
     model is a sequential Gallina function: it has no goroutines, no memory model, no
     notion of two operations overlapping in time.  "Concurrently on other goroutines" is
     covered only as far as every concurrent execution WITHOUT a data race is equivalent to
     some interleaving at operation granularity, which is what C09_interleave quantifies
     over; that the Go code HAS no data race (no write to memory shared between Files) is
     checked by the harness (harness/props/c09.go: job sets run sequentially in several
     orders, interleaved, and concurrently under the race detector) and made plausible by
     C09_no_mutable_globals, but it is not proved.
   - The footprint claim for the Go code - building or rendering writes only the File it
     is invoked on - is the syntactic scan behind Gen/Globals.v plus the correspondence runs,
     not a theorem about Go.
   - Hypothesis of C09_frame / C09_interleave: the whole history is accepted by the
     interpreter ([run_tagged] returns Some): every line is well formed and every File is
     created before it is used.  The harness only produces such histories. *)
From Jen Require Import Base.Bytes Model.Code Model.Naming Model.Render Model.FileRender Model.Exec.
From Jen Require Import Model.Top Gen.Globals Proofs.FrameProofs.
From Coq Require Import NArith List Bool.
Import ListNotations.
Local Open Scope N_scope.

(* ---- the source has no mutable global state (Tie A) ---- *)

(* Decisions taken HERE and not in the translator (tools/cmd/globals2coq only reports). *)
Definition mem (x : str) (l : list str) : bool := existsb (str_eqb x) l.

(* A package-level variable may have a type whose values cannot reach shared memory (basic
   types, strings, arrays and structs of those), or exactly the type of one of the two modelled
   tables.  Types are printed with full package paths: a type called `string` declared in jen
   is "github.com/dave/jennifer/jen.string".  A func, interface, channel or pointer typed
   variable (a closure with hidden state, `var reserved = func() func(string) bool {..}()`) is
   rejected whatever its occurrences look like. *)
Definition table_types : list str := [S "map[string]string"; S "[]string"].
Definition var_type_ok (v : str * (str * bool)) : bool :=
  negb (snd (snd v)) || mem (fst (snd v)) table_types.

(* What package jen may import.  Functions of the first group keep no state that one call can
   leave for the next (what jen imports at 8235fd5 plus five packages of the same kind; their
   package-level VARIABLES, e.g. unicode.Categories, are covered by foreign_vars); of package os
   (environment, working directory, ... are process-wide state) only the listed functions may
   be mentioned.  Any other import - "C", unsafe, reflect, runtime, sync, math/rand, an
   in-module package such as github.com/dave/jennifer/jen/internal/x - is not scanned by
   globals2coq and therefore needs a decision here. *)
Definition stateless_imports : list str :=
  [S "bytes"; S "fmt"; S "go/format"; S "io"; S "regexp"; S "sort"; S "strconv"; S "strings";
   S "unicode"; S "unicode/utf8";
   (* not imported today, equally stateless: a refactoring may start using them *)
   S "errors"; S "math"; S "math/bits"; S "path"; S "unicode/utf16"].
Definition allowed_imports : list str := stateless_imports ++ [S "os"].
Definition allowed_funcs : list (str * str) := [(S "os", S "WriteFile")].
Definition func_ok (f : str * str) : bool :=
  mem (fst f) stateless_imports ||
  existsb (fun g => str_eqb (fst f) (fst g) && str_eqb (snd f) (snd g)) allowed_funcs.

(* Every package-level variable of package jen is read-only: no function assigns it or an
   element or field of it, increments it, appends to it, deletes from it, takes its address,
   calls it, calls a pointer-receiver method on it, or passes / copies a value through which it
   could be written; its type is a table type or cannot reach shared memory (var_type_ok);
   the same holds for every occurrence of a package-level variable of ANOTHER package
   (unicode.Categories, io.EOF, os.Args: foreign_vars), and the package-level functions of
   other packages that jen mentions are stateless ones (func_ok); no type declared in jen has a
   field of func type (no hidden callback); nothing in jen uses sync, sync/atomic, `go` or
   channels.  Adding a package-level alias counter or a cache of rendered text, or keeping the
   counter in another package's map, makes this fail at coqc time. *)
Theorem C09_no_mutable_globals :
  forallb (fun v => negb (snd v)) package_vars = true /\
  func_fields = [] /\ global_sync = [] /\ globals_problems = [] /\
  map fst package_var_types = map fst package_vars /\
  forallb var_type_ok package_var_types = true /\
  forallb (fun v => negb (snd v)) foreign_vars = true /\
  forallb func_ok foreign_funcs = true.
Proof. vm_compute. repeat split; reflexivity. Qed.

(* The package-level variables are exactly the two tables the model reads (Gen/Tables.v:
   std_hints, reserved), and no init function runs before main. *)
Theorem C09_globals_are_the_modelled_tables :
  forallb (fun v => existsb (str_eqb (fst v)) [S "standardLibraryHints"; S "reserved"]) package_vars = true /\
  init_funcs = [].
Proof. vm_compute. split; reflexivity. Qed.

(* The scan saw the whole package, under every way of building it.  globals2coq reads every
   .go file of jen/ that is compiled with cgo on OR off, with OR without -race (for the GOOS /
   GOARCH / toolchain ./check runs on); excluded_go_files are the non-test .go files left out
   under at least one of these four configurations.  The only such file is verif_hooks.go
   (tag verif, the read-only hooks of the harness): a `//go:build cgo` / `!cgo` or `race` /
   `!race` pair of files, a file behind any other tag, a file for another platform
   (x_windows.go, x_arm64.go) or an ignored file (_x.go) makes this fail and asks for a
   decision.  There is no assembly, C, object or header file in jen/, no function without a
   body and no go:linkname (state the Go scan cannot see), and jen imports nothing outside
   allowed_imports (state in a package that is not scanned). *)
Theorem C09_whole_package_scanned :
  excluded_go_files = [S "verif_hooks.go"] /\
  non_go_sources = [] /\
  bodiless_funcs = [] /\
  forallb (fun p => mem p allowed_imports) jen_imports = true.
Proof. vm_compute. repeat split; reflexivity. Qed.

(* ---- one operation ---- *)

(* An operation on File i (op_file op = Some i: every operation except rplain):
   (1) every other File j of the world is, after the operation, exactly what it was before;
   (2) if two worlds agree on File i, the operation is accepted by both or by neither, yields
       the same observations in both and leaves File i in the same state in both - the
       result depends on wget w i only. *)
Theorem C09_step_frame : forall op i, op_file op = Some i ->
  (forall w w' obs j, step w op = Some (w', obs) -> j <> i -> wget w' j = wget w j) /\
  (forall w1 w2, wget w1 i = wget w2 i ->
     match step w1 op, step w2 op with
     | Some (w1', obs1), Some (w2', obs2) => obs1 = obs2 /\ wget w1' i = wget w2' i
     | None, None => True
     | _, _ => False
     end).
Proof.
  intros op i Hf. split.
  - intros w w' obs j Hs Hj. pose proof (step_frame i w op Hf) as H. rewrite Hs in H. exact (H j Hj).
  - intros w1 w2 Hw. exact (step_local i w1 w2 Hw op Hf).
Qed.

(* An operation without a File (rplain: Render / GoString of a bare statement) leaves the
   whole world as it is, and its observations do not depend on the world. *)
Theorem C09_step_without_file : forall op, op_file op = None -> forall w1 w2,
  match step w1 op, step w2 op with
  | Some (w1', obs1), Some (w2', obs2) => w1' = w1 /\ w2' = w2 /\ obs1 = obs2
  | None, None => True
  | _, _ => False
  end.
Proof. intros op Hf w1 w2. exact (step_nofile w1 w2 op Hf). Qed.

(* [run_tagged] is the model's run_ops with every observation labelled by its File. *)
Theorem C09_run_tagged_is_run_ops : forall ops w,
  run_ops w ops = option_map (fun r => all_obs (snd r)) (run_tagged w ops).
Proof. intros ops w. exact (run_ops_tagged ops w). Qed.

(* ---- histories ---- *)

(* THE FRAME THEOREM.  For every history accepted by the interpreter and every File i: the
   observations produced by the operations on File i are exactly the observations of the
   sub-history of operations on i run alone from the empty world - whatever operations on
   other Files (creating, building, rendering, saving them) come before, in between and
   after. *)
Theorem C09_frame : forall ops r i, run_tagged [] ops = Some r ->
  run_ops [] (filter (on_file i) ops) = Some (obs_of i (snd r)).
Proof. intros ops r i. exact (frame_run_ops ops [] r i). Qed.

(* The same from any two worlds that agree on File i, including the final state of File i. *)
Theorem C09_frame_general : forall i ops w wi r,
  wget w i = wget wi i -> run_tagged w ops = Some r ->
  exists ri, run_tagged wi (filter (on_file i) ops) = Some ri /\
             all_obs (snd ri) = obs_of i (snd r) /\ wget (fst ri) i = wget (fst r) i.
Proof. exact run_frame. Qed.

(* Conversely the whole history is accepted as soon as every per-File sub-history is and
   every File-less operation is: Files cannot make each other fail. *)
Theorem C09_compose : forall ops w,
  (forall op, In op ops -> op_file op = None -> step [] op <> None) ->
  (forall j, run_tagged w (filter (on_file j) ops) <> None) ->
  run_tagged w ops <> None.
Proof. exact run_compose. Qed.

(* Two histories with the same per-File sub-histories (any reordering that keeps each File's
   own operations in order) give every File the same observations and final state. *)
Theorem C09_reorder : forall ops1 ops2 w r1,
  (forall i, filter (on_file i) ops1 = filter (on_file i) ops2) ->
  (forall op, In op ops2 -> op_file op = None -> In op ops1) ->
  run_tagged w ops1 = Some r1 ->
  exists r2, run_tagged w ops2 = Some r2 /\
             forall i, obs_of i (snd r1) = obs_of i (snd r2) /\ wget (fst r1) i = wget (fst r2) i.
Proof. exact run_same_projections. Qed.

(* Any two interleavings l1, l2 (at operation granularity) of two histories a, b over
   disjoint sets of Files: if one is accepted so is the other, and every File gets the same
   observations and ends in the same state.  a ++ b is one of the interleavings
   (C09_sequential_is_an_interleaving), so every interleaving is observationally the
   sequential composition. *)
Theorem C09_interleave : forall a b l1 l2 w r1,
  files_disjoint a b -> merge a b l1 -> merge a b l2 ->
  run_tagged w l1 = Some r1 ->
  exists r2, run_tagged w l2 = Some r2 /\
             forall i, obs_of i (snd r1) = obs_of i (snd r2) /\ wget (fst r1) i = wget (fst r2) i.
Proof. exact run_interleave. Qed.

Theorem C09_sequential_is_an_interleaving : forall a b : list sexp, merge a b (a ++ b).
Proof. exact merge_app. Qed.

(* ---- a Code value shared by two Files ---- *)

(* A tree c rendered with File A and then with File B (A <> B), from any world: the
   observation and new state of each File are [code_render_with_file] of c and of THAT File's
   state before the two renders; B's render is the same as if A's had not happened.
   In the model this is immediate: a tree is an immutable value and a render returns only
   the new state of the rendering File.  The corresponding fact about the Go code -
   rendering does not mutate the tree - was a defect (the in-place blanking of Group items)
   fixed by commit 0f36ef9; it is checked by correspondence in the C08 / C09 harness streams,
   which render shared values repeatedly and with several Files. *)
Theorem C09_shared_code : forall w A B fA fB feA feB sc c swA swB wfA wfB,
  A <> B -> atom_N feA = Some A -> atom_N feB = Some B ->
  wget w A = Some fA -> wget w B = Some fB ->
  dcode sc = Some c -> atom_bool swA = Some wfA -> atom_bool swB = Some wfB ->
  exists r, run_tagged w [op_rcode feA sc swA; op_rcode feB sc swB] = Some r /\
    obs_of A (snd r) = [print_outcome false (snd (code_render_with_file id_fmt (fun _ => wfA) c fA))] /\
    obs_of B (snd r) = [print_outcome false (snd (code_render_with_file id_fmt (fun _ => wfB) c fB))] /\
    wget (fst r) A = Some (fst (code_render_with_file id_fmt (fun _ => wfA) c fA)) /\
    wget (fst r) B = Some (fst (code_render_with_file id_fmt (fun _ => wfB) c fB)).
Proof. exact shared_code_two_files. Qed.

(* "According to that File's own imports and settings": what a tree renders to with a File,
   and the import table it leaves, are determined by the File's path, prefix, hints and import
   table (and the tree) - by nothing else, in particular by nothing another File did. *)
Theorem C09_shared_code_own_settings : forall fmt wf c f1 f2,
  file_cfg f1 = file_cfg f2 -> f_imports f1 = f_imports f2 ->
  snd (code_render_with_file fmt wf c f1) = snd (code_render_with_file fmt wf c f2) /\
  f_imports (fst (code_render_with_file fmt wf c f1)) = f_imports (fst (code_render_with_file fmt wf c f2)).
Proof. exact render_with_file_own_settings. Qed.

(* ---- examples ---- *)
(* One shared statement  Qual("a.b/c","F").Call(Qual("x.y/c","G"))  added to three Files:
   File 0 plain; File 1 with ImportAlias("a.b/c","zz"); File 2 with PackagePrefix("p") and
   NoFormat, rendered and then rendered once more with RenderWithFile. *)
Definition ex_parse (line : str) : list sexp := match read_line line with Some l => l | None => [] end.

Definition ex_a : list sexp := Eval vm_compute in ex_parse (S
  "(newfile 0 x6d61696e) (fadd 0 (s (q 1 x612e622f63 x46) (g Call 2 (q 3 x782e792f63 x47)))) (render 0 0)").
Definition ex_b : list sexp := Eval vm_compute in ex_parse (S
  "(newfile 1 x6d61696e) (importalias 1 x612e622f63 x7a7a) (fadd 1 (s (q 1 x612e622f63 x46) (g Call 2 (q 3 x782e792f63 x47)))) (render 1 0) (imports 1)").
Definition ex_c : list sexp := Eval vm_compute in ex_parse (S
  "(newfile 2 x6d61696e) (prefix 2 x70) (noformat 2 1) (fadd 2 (s (q 1 x612e622f63 x46) (g Call 2 (q 3 x782e792f63 x47)))) (render 2 0) (rcode 2 (s (q 1 x612e622f63 x46) (g Call 2 (q 3 x782e792f63 x47))) 0)").

(* a round-robin interleaving of the three histories *)
Definition ex_round_robin : list sexp :=
  match ex_a, ex_b, ex_c with
  | [a1; a2; a3], [b1; b2; b3; b4; b5], [c1; c2; c3; c4; c5; c6] =>
    [c1; a1; b1; b2; c2; a2; c3; b3; c4; a3; c5; b4; c6; b5]
  | _, _, _ => []
  end.
(* File 2 first, then File 1 and File 0 alternating *)
Definition ex_other : list sexp :=
  match ex_a, ex_b, ex_c with
  | [a1; a2; a3], [b1; b2; b3; b4; b5], [c1; c2; c3; c4; c5; c6] =>
    [c1; c2; c3; c4; c5; c6; b1; a1; b2; a2; b3; a3; b4; b5]
  | _, _, _ => []
  end.

Definition ex_per_file (ops : list sexp) : option (list (list str)) :=
  option_map (fun r => map (fun i => obs_of i (snd r)) [0; 1; 2]) (run_tagged [] ops).

(* Three Files, three schedules (sequential, round robin, another one): per File the same
   observations, equal to those of each File's history run alone; and the shared statement
   reads c.F(c1.G) in File 0, zz.F(c.G) in File 1, p_c.F(p_c1.G) in File 2. *)
Example C09_example_three_files :
  length ex_round_robin = 14%nat /\
  ex_per_file (ex_a ++ ex_b ++ ex_c) = ex_per_file ex_round_robin /\
  ex_per_file ex_round_robin = ex_per_file ex_other /\
  (match ex_per_file ex_round_robin, run_ops [] ex_a, run_ops [] ex_b, run_ops [] ex_c with
   | Some [o0; o1; o2], Some ra, Some rb, Some rc => o0 = ra /\ o1 = rb /\ o2 = rc /\ length rc = 2%nat
   | _, _, _, _ => False
   end) /\
  run_case (S "(newfile 2 x6d61696e) (prefix 2 x70) (rcode 2 (s (q 1 x612e622f63 x46) (g Call 2 (q 3 x782e792f63 x47))) 0)")
    = S "(write fmt " ++ hex_of_str (S "p_c.F (p_c1.G)") ++ S " 0)" /\
  run_case (S "(newfile 1 x6d61696e) (importalias 1 x612e622f63 x7a7a) (rcode 1 (s (q 1 x612e622f63 x46) (g Call 2 (q 3 x782e792f63 x47))) 0)")
    = S "(write fmt " ++ hex_of_str (S "zz.F (c.G)") ++ S " 0)".
Proof. vm_compute. repeat split; reflexivity. Qed.

(* The hypotheses of C09_interleave are satisfiable: a = Files 0 and 1, b = File 2, l1 the
   sequential composition, l2 with b's operations spread over a's. *)
Definition ex_ab : list sexp := ex_a ++ ex_b.
Definition ex_spread : list sexp :=
  match ex_ab, ex_c with
  | [a1; a2; a3; b1; b2; b3; b4; b5], [c1; c2; c3; c4; c5; c6] =>
    [c1; a1; a2; c2; c3; a3; b1; c4; b2; b3; c5; b4; c6; b5]
  | _, _ => []
  end.

Example C09_example_interleave :
  files_disjoint ex_ab ex_c /\ merge ex_ab ex_c (ex_ab ++ ex_c) /\ merge ex_ab ex_c ex_spread /\
  run_tagged [] (ex_ab ++ ex_c) <> None.
Proof.
  split; [apply files_disjointb_ok; vm_compute; reflexivity|].
  split; [apply merge_app|].
  split; [|vm_compute; discriminate].
  vm_compute. repeat first [apply merge_nil | apply merge_l | apply merge_r].
Qed.
