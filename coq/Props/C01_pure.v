(* C01 (faithful rendering), the factorisation theorem T1 of DESIGN.md section 4, second half:
   THE RENDERED TEXT IS A PURE FUNCTION OF THE TREE AND THE FINAL IMPORT TABLE.
   Statements only; every proof is `exact` of a lemma of Proofs/PureProofs.v.

   [ptext cfg t ctx c] (Spec/Pure.v) is defined by recursion on the tree and reads ONE table t
   without changing or threading it:
     token        its text; a package token: the name t holds for the path ([] for the local path)
     group        open ++ group_text sep multi true (texts of the items not null at t)
                       ++ closer ++ close;   nothing for a `types` group whose items are all null;
                  no delimiters for a `block` directly after case/default (ctx)
     statement    the texts of the items not null at t, joined by single spaces
     Dict         the pairs with both sides not null at t, sorted by key text, in the dict_body layout
     tag, comment their texts
   and fails (Panic) where the implementation panics: nil values, literals of unsupported type,
   Values(Dict, more items). *)
From Jen Require Import Base.Bytes Base.Sort Model.Code Model.Naming Model.Render Model.FileRender.
From Jen Require Import Proofs.NamingProofs Proofs.RenderProofs Proofs.CommentProofs Proofs.EmitProofs
                        Proofs.DictProofs Proofs.OccsProofs Spec.Pure Proofs.PureProofs.
Local Open Scope bool_scope.

(* T1.  For every tree (any constructs, arities, nesting, Dicts, null items, case blocks), every
   context and every starting table t (fresh File, Anon entries, earlier renders): if the
   render succeeds with table t1 and text s then
     - s is the pure text of the tree at t1, and
     - t1 covers the tree: every path the tree needs (occs, C04) has a registration in t1.
   In plain words: rendering = register the imports the tree needs, then write a text that
   depends only on the tree and on the final table.  Which table the render started from,
   and in which order it met the package tokens, matters for t1 (C03, C05) and for nothing
   else.  Hypothesis: hint names and prefix are identifiers (cfg_ok, see C05). *)
Theorem C01_render_is_pure_text : forall cfg, cfg_ok cfg -> forall c ctx t t1 s,
  render cfg ctx t c = Ok (t1, s) -> ptext cfg t1 ctx c = Ok s /\ covered cfg t1 c.
Proof. exact render_factorisation. Qed.

(* The same text at every later table that extends t1 (more renders with the File, Anon of
   new paths): the pure text of a tree does not change once its paths are registered. *)
Theorem C01_pure_text_at_later_tables : forall cfg, cfg_ok cfg -> forall c ctx t t1 s t2,
  render cfg ctx t c = Ok (t1, s) -> ext cfg t1 t2 -> ptext cfg t2 ctx c = Ok s.
Proof. exact render_factorisation_later. Qed.

Theorem C01_pure_text_ext : forall cfg t t' c ctx,
  ext cfg t t' -> covered cfg t c -> ptext cfg t' ctx c = ptext cfg t ctx c.
Proof. exact ptext_ext. Qed.

(* The engine of T1, for EVERY configuration: at a table that already holds a registration
   for every path the tree needs, rendering returns the table unchanged and writes exactly
   the pure text - and when one fails the other fails with the same message. *)
Theorem C01_render_at_covered_table : forall cfg t c, covered cfg t c ->
  forall ctx, render cfg ctx t c = with_table t (ptext cfg t ctx c).
Proof. exact render_covered. Qed.

Theorem C01_render_succeeds_iff_pure_text : forall cfg c ctx t s, covered cfg t c ->
  (render cfg ctx t c = Ok (t, s) <-> ptext cfg t ctx c = Ok s).
Proof. exact render_at_covered. Qed.

(* THE FILE.  The unformatted source File.Render hands to gofmt is: the head (header
   comments, package comments, package clause), the import block printed from the FINAL
   table t1, and the pure text at t1 of the body (a multi-line group without delimiters
   holding the file's items). *)
Theorem C01_file_is_pure_text : forall f t1 raw,
  cfg_ok (file_cfg f) -> file_raw f = Ok (t1, raw) ->
  exists s, ptext (file_cfg f) t1 false (file_group f) = Ok s /\ covered (file_cfg f) t1 (file_group f) /\
            raw = file_head f ++ render_imports t1 (f_cgo f) ++ s.
Proof. exact file_raw_pure. Qed.

(* ------------------------------------------------------------------ ptext, unfolded for readers *)
(* a package token: nothing for the local package, the registered name otherwise *)
Theorem C01_pure_package_token : forall cfg t ctx p,
  ptext cfg t ctx (CTok (TkPkg p)) =
  if is_local cfg p then Ok []
  else match registered_name t p with Some n => Ok n | None => Panic s_unregistered end.
Proof. intros; reflexivity. Qed.

(* Qual(p, n): the bare name for a dot import or the local package, else name-of-p . n *)
Theorem C01_pure_qual : forall cfg t ctx gid p n,
  ptext cfg t ctx (qual gid p n) =
  if is_dot cfg t p || is_local cfg p then Ok n
  else match registered_name t p with Some q => Ok (q ++ S "." ++ n) | None => Panic s_unregistered end.
Proof. exact ptext_qual. Qed.

(* a group *)
Theorem C01_pure_group : forall cfg t ctx gid name o cl sep multi items,
  ptext cfg t ctx (CGroup gid name o cl sep multi items) =
  if str_eqb name s_types && forallb (is_null cfg t) items then Ok []
  else
    let blank := str_eqb name s_block && ctx in
    let o' := if blank then [] else o in
    let cl' := if blank then [] else cl in
    bind (pitems cfg t (ptext cfg t) name (length items) items) (fun xs =>
    Ok (o' ++ group_text sep multi true xs ++ closer sep multi cl' xs ++ cl')).
Proof. exact ptext_group. Qed.

(* ... whose item texts are, when no item fails and the group is not Values(Dict, more), the
   pure texts of the items that are not null, in order *)
Theorem C01_pure_group_items : forall cfg t name n items,
  (forall x, In x items -> is_null cfg t x = false ->
     str_eqb name s_values && is_dict x && Nat.ltb 1 n = false /\ exists s, ptext cfg t false x = Ok s) ->
  pitems cfg t (ptext cfg t) name n items =
  Ok (flat_map (fun x => if is_null cfg t x then [] else [the_text cfg t false x]) items).
Proof. exact pitems_ok. Qed.

(* a statement: every group item is told whether it directly follows case/default *)
Theorem C01_pure_statement : forall cfg t ctx items,
  ptext cfg t ctx (CStmt items) =
  bind (pstmt_items cfg t (ptext cfg t) items items) (fun xs => Ok (join (S " ") xs)).
Proof. exact ptext_stmt. Qed.

Theorem C01_pure_statement_items : forall cfg t all items,
  (forall x, In x items -> is_null cfg t x = false -> exists s, ptext cfg t (case_ctx all x) x = Ok s) ->
  pstmt_items cfg t (ptext cfg t) all items =
  Ok (flat_map (fun x => if is_null cfg t x then [] else [the_text cfg t (case_ctx all x) x]) items).
Proof. exact pstmt_items_ok. Qed.

(* a Dict: keys in map order, then the values in key order (the order in which a failure
   would surface) ... *)
Theorem C01_pure_dict : forall cfg t ctx pairs,
  ptext cfg t ctx (CDict pairs) =
  bind (pdict_entries cfg t (ptext cfg t) pairs) (fun es =>
  bind (pvalues (isort_by fst es)) (fun kvs => Ok (dict_body kvs))).
Proof. exact ptext_dict. Qed.

(* ... which, when no key and no value of a surviving pair fails, is the closed formula *)
Theorem C01_pure_dict_ok : forall cfg t ctx pairs,
  (forall kv, In kv pairs -> live cfg t kv = true ->
     (exists k, ptext cfg t false (fst kv) = Ok k) /\ exists v, ptext cfg t false (snd kv) = Ok v) ->
  ptext cfg t ctx (CDict pairs) =
  Ok (dict_body (isort_by fst (map (pair_text cfg t) (filter (live cfg t) pairs)))).
Proof. exact ptext_dict_ok. Qed.

(* the constructs only concatenate: the pure text of every written sub-tree (reached through
   items that are not null) is a contiguous part of the pure text of the tree *)
Theorem C01_pure_text_contains_subtrees : forall cfg t c' c,
  rendered_in cfg t c' c -> forall ctx s, ptext cfg t ctx c = Ok s ->
  exists ctx' s' pre post, ptext cfg t ctx' c' = Ok s' /\ s = pre ++ s' ++ post.
Proof. exact ptext_contains. Qed.

(* ------------------------------------------------------------------ non-vacuity *)
(* A file with a local path and a dot-import hint; a switch with a case block and a default
   block; a Dict inside Values whose keys are Quals of two paths that collide on `d` (the
   pair order in the text is the order of the RENDERED keys d.B < d1.K, not the map order);
   a pair with a null key (dropped); a reference to the local package (bare); a dot import
   (bare, null as a token); nil (skipped).  The hypotheses hold, and the pure text at the
   final table is the rendered body. *)
Definition C01_pure_example_file : file :=
  let f := new_file_path_name (S "my/pkg") (S "pkg") in
  let f := import_alias f (S "dot/x") (S ".") in
  let f := add_item f
    (CStmt [CTok (TkText (S "switch")); qual 1 (S "a.b/d") (S "V");
            CGroup 2 (S "block") (S "{") (S "}") [] true
              [CStmt [CGroup 3 (S "case") (S "case ") (S ":") (S ",") false
                        [qual 4 (S "c.b/d") (S "A"); qual 5 (S "my/pkg") (S "L")];
                      CGroup 6 (S "block") (S "{") (S "}") [] true
                        [CStmt [qual 7 (S "a.b/d") (S "F"); CTok (TkText (S "="));
                                CGroup 8 (S "values") (S "{") (S "}") (S ",") false
                                  [CDict [(qual 9 (S "c.b/d") (S "K"), CTok (TkLit (LInt 1)));
                                          (qual 10 (S "a.b/d") (S "B"), qual 11 (S "dot/x") (S "D"));
                                          (CTok TkNull, CTok (TkId (S "dropped")))]]]]];
               CStmt [CTok (TkText (S "default"));
                      CGroup 12 (S "block") (S "{") (S "}") [] true [CStmt [qual 13 (S "c.b/d") (S "G")]; CNil]]]]) in
  add_item f (CStmt [CTok (TkPkg (S "dot/x")); CTok (TkId (S "x")); CComment (S "c")]).

Lemma C01_pure_example_cfg_ok : cfg_ok (file_cfg C01_pure_example_file).
Proof.
  split; [|left; reflexivity]. intros p h. simpl.
  destruct (str_eqb p (S "dot/x")); [|discriminate].
  intros E. injection E as <-. right. left. reflexivity.
Qed.

Example C01_pure_example :
  let f := C01_pure_example_file in
  cfg_ok (file_cfg f) /\
  match file_raw f with
  | Ok (t1, raw) =>
    t1 = [(S "a.b/d", mkdef (S "d") true); (S "c.b/d", mkdef (S "d1") true); (S "dot/x", mkdef (S ".") true)] /\
    match ptext (file_cfg f) t1 false (file_group f) with
    | Ok s =>
      raw = file_head f ++ render_imports t1 (f_cgo f) ++ s /\
      s = [x0a] ++
          concat_str (map (fun l => l ++ [x0a])
            [S "switch d.V {";
             S "case d1.A,L: ";
             S "d.F = {";
             S "d.B:D,";
             S "d1.K:1,";
             S "}";
             S "default: ";
             S "d1.G";
             S "}"]) ++
          S "x // c"
    | Panic _ => False
    end
  | Panic _ => False
  end.
Proof. cbv zeta. split; [exact C01_pure_example_cfg_ok|]. vm_compute. repeat split; reflexivity. Qed.

(* a failure is the same failure: a literal of unsupported type in a Dict value, a second
   item next to a Dict in Values; a package token without a name in the table fails in the
   spec only (and never at the table a render returns) *)
Example C01_pure_example_failures :
  let cfg := mkcfg [] [] [] in
  let bad := CDict [(CTok (TkId (S "b")), CTok (TkLit (LBad (S "T1")))); (CTok (TkId (S "a")), CTok (TkLit (LBad (S "T2"))))] in
  let vals := CGroup 1 (S "values") (S "{") (S "}") (S ",") false [CDict []; bad; CNil] in
  render cfg false [] bad = Panic (s_unsupported ++ S "T2") /\ ptext cfg [] false bad = Panic (s_unsupported ++ S "T2") /\
  render cfg false [] vals = Panic s_values_panic /\ ptext cfg [] false vals = Panic s_values_panic /\
  ptext cfg [] false (qual 2 (S "a/b") (S "X")) = Panic s_unregistered.
Proof. vm_compute. repeat split; reflexivity. Qed.
