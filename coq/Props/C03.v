(* C03: every qualified identifier resolves to the package it was built with.
   Statements only; every proof is `exact` of a lemma of Proofs/. *)
From Jen Require Import Base.Bytes Base.Sort Model.Code Model.Naming Model.Render Model.FileRender GoStd.Quote GoStd.IsPrint.
From Jen Require Import Gen.Tables Gen.Goroot.
From Jen Require Import Proofs.NamingProofs Proofs.RenderProofs Proofs.QuoteProofs Proofs.TagProofs Proofs.StdProofs
                        Proofs.OccsProofs.
Local Open Scope bool_scope.

(* QUALIFIER = BINDING.  For every File (any hints, prefix, local path, Anon set, earlier
   renders) with legal hint names and prefix (cfg_ok, see C05) whose render succeeds with
   table t1, and every path p the body references (p in occs of the body, C04: so p is not
   the local path) that is not a dot import:
   - t1 holds a registration q for p - the entry d of p has the name q, and q is neither
     empty nor "_";
   - every Qual(p, n) rendered from t1 - or from any later table t2 that extends t1: a second
     render of this File, a render of other code with this File - reads exactly q.n and
     leaves the table alone: the same q at every occurrence, now and later;
   - the import block printed from t1 contains the line of (p, d); that line is `q "p"` when
     the entry says alias (and p is not "C"), and the bare quoted path otherwise
     (C03_unaliased_only_real_names says when that happens). *)
Theorem C03_qualifier_is_binding : forall f t1 raw,
  cfg_ok (file_cfg f) -> file_raw f = Ok (t1, raw) ->
  forall p, In p (occs (file_cfg f) (f_imports f) (file_group f)) -> is_dot (file_cfg f) t1 p = false ->
  exists q d,
    registered_name t1 p = Some q /\ alookup p t1 = Some d /\ id_name d = q /\ q <> [] /\ q <> s_us /\
    (forall t2, ext (file_cfg f) t1 t2 -> forall ctx' gid n,
        render (file_cfg f) ctx' t2 (qual gid p n) = Ok (t2, q ++ S "." ++ n)) /\
    (exists pre post, render_imports t1 (f_cgo f) = pre ++ import_spec p d ++ [x0a] ++ post) /\
    import_spec p d = (if id_alias d && negb (str_eqb p s_C) then q ++ S " " ++ GoQuote p else GoQuote p).
Proof. exact file_qualifier_binding. Qed.

(* The same for the occurrences met DURING the render that produced t1: whatever the table
   tm was when a Qual(p, n) was reached, if the final table t1 keeps the table tm' the Qual
   left (every later step of a render keeps the registrations made so far: C08,
   render_keeps) and p is not a dot import, the text written is q.n for the q that t1
   holds.  (The body text of a group or statement is assembled from the texts these
   renders return - Model/Render.v - and rendering the File again from t1 gives the same
   bytes: C08_file_render_twice.) *)
Theorem C03_occurrence_uses_final_name : forall cfg, cfg_ok cfg -> forall ctx tm gid p n tm' s' t1 q,
  render cfg ctx tm (qual gid p n) = Ok (tm', s') -> keeps tm' t1 ->
  is_local cfg p = false -> is_dot cfg tm' p = false -> registered_name t1 p = Some q ->
  s' = q ++ S "." ++ n.
Proof. exact qual_occurrence_final_name. Qed.

(* The path is printed with strconv.Quote; read as a Go string literal it is exactly p, for
   every byte string - so the block binds q to that path and no other. *)
Theorem C03_path_reads_back : forall p, go_string_value (GoQuote p) = Some p.
Proof. exact (Quote_roundtrip go_is_print go_is_print_nl). Qed.

(* NO ALIAS ONLY FOR REAL NAMES.  One register call that creates the entry of a path (not
   local, not yet registered; any table, hints, prefix): if the entry is stored WITHOUT alias
   then the qualifier n is exactly the stored name and comes from one of three sources
   (real_name_source): the path is "C" and n is C; or the user gave ImportName(p, n) - a hint
   with the alias flag off - and n is that name unchanged; or there is no named hint and n
   is the name of jennifer's standard-library table, unchanged.  "Unchanged": candidate
   number 0, no numeric suffix, no PackagePrefix - a renamed candidate is always stored as
   an alias. *)
Theorem C03_unaliased_only_real_names : forall cfg t p t' n,
  register cfg t p = Ok (t', n) -> is_local cfg p = false -> registered_name t p = None ->
  forall d, alookup p t' = Some d -> id_alias d = false ->
    id_name d = n /\
    ((p = s_C /\ n = s_C) \/
     (p <> s_C /\ exists h, alookup p (cfg_hints cfg) = Some h /\ id_name h <> [] /\ id_alias h = false /\ n = id_name h) \/
     (p <> s_C /\ (forall h, alookup p (cfg_hints cfg) = Some h -> id_name h = []) /\ std_hint p <> [] /\ n = std_hint p)).
Proof. exact register_unaliased. Qed.

(* Over a whole render (any tree): every entry of the final table that is stored without
   alias either is an entry the table already had, or has such a source. *)
Theorem C03_unaliased_after_render : forall cfg c ctx t t1 s,
  render cfg ctx t c = Ok (t1, s) ->
  forall p d, alookup p t1 = Some d -> id_alias d = false ->
    alookup p t = Some d \/ real_name_source cfg p (id_name d).
Proof. exact render_unaliased. Qed.

(* The standard-library table's name is the declared name of the package, for every path
   that is an importable package of the installed toolchain (C18). *)
Theorem C03_std_name_is_real : forall p real,
  std_hint p <> [] -> alookup p goroot_packages = Some real -> std_hint p = real.
Proof. exact std_hint_true. Qed.

(* NO AMBIGUOUS QUALIFIER.  In the table a render leaves, two different paths never carry the
   same registered name, unless both are dot imports.  Inv is the naming invariant of C05; it
   holds for the table of a new File, Anon (of paths other than "C") and File.Render keep
   it. *)
Theorem C03_names_distinct : forall f t1 raw,
  cfg_ok (file_cfg f) -> Inv (f_imports f) -> file_raw f = Ok (t1, raw) ->
  forall p1 p2 q1 q2, p1 <> p2 ->
    registered_name t1 p1 = Some q1 -> registered_name t1 p2 = Some q2 -> q1 = q2 -> q1 = s_dot.
Proof. exact file_names_distinct. Qed.

Theorem C03_invariant_fresh : forall f ps, f_imports f = [] -> ~ In s_C ps -> Inv (f_imports (anon f ps)).
Proof. exact fresh_file_Inv. Qed.

Theorem C03_invariant_kept : forall f t1 raw,
  cfg_ok (file_cfg f) -> file_raw f = Ok (t1, raw) -> Inv (f_imports f) -> Inv (f_imports (set_imports f t1)).
Proof. exact file_render_Inv. Qed.

(* The table of a rendered File is a history of register calls in the sense of C05 (so
   C05_names_unique and C05_names_legal apply to it). *)
Theorem C03_render_is_history : forall cfg c ctx t t1 s,
  render cfg ctx t c = Ok (t1, s) -> exists ps, t1 = fold_left nstep (map (NReg cfg) ps) t.
Proof. exact render_history. Qed.

(* ANON THEN REFERENCE.  The entry Anon stores (name "_") does not count as a registration:
   the first reference registers the path as if it were new and replaces the entry. *)
Theorem C03_anon_is_not_a_registration : forall t p,
  alookup p t = Some (mkdef s_us true) -> registered_name t p = None.
Proof. exact anon_entry_unregistered. Qed.

(* Non-vacuity.  Local path, prefix, Anon of a path that is referenced later and of one that
   is not, an ImportName hint, an ImportAlias hint whose name collides with a guessed alias,
   two paths with the same last element, both rand packages, a keyword as last element,
   a path referenced twice.  The hypotheses of the theorems hold and the model's output is
   the file the theorems describe: every reference carries the qualifier its import line
   binds; `realname` and `rand` are written without alias; the Anon entry of a.b/d became a
   registration; only/anon stays `_`. *)
Definition C03_example_file : file :=
  let f := new_file_path_name (S "my/pkg") (S "pkg") in
  let f := anon f [S "a.b/d"; S "only/anon"] in
  let f := import_name f (S "x.y/real") (S "realname") in
  let f := import_alias f (S "x.y/al") (S "d") in
  let f := set_prefix f (S "pp") in
  let f := add_item f (CStmt [qual 1 (S "a.b/d") (S "A"); qual 2 (S "c.b/d") (S "B"); qual 3 (S "a.b/d") (S "C")]) in
  add_item f (CStmt [qual 4 (S "x.y/real") (S "R"); qual 5 (S "x.y/al") (S "L"); qual 6 (S "math/rand") (S "Int");
                     qual 7 (S "crypto/rand") (S "Read"); qual 8 (S "a.b/type") (S "T")]).

Lemma C03_example_cfg_ok : cfg_ok (file_cfg C03_example_file).
Proof.
  split; [|right; reflexivity]. intros p h. simpl.
  destruct (str_eqb p (S "x.y/real")).
  - intros E. injection E as <-. right. right. split; [reflexivity|]. split; discriminate.
  - destruct (str_eqb p (S "x.y/al")); [|discriminate].
    intros E. injection E as <-. right. right. split; [reflexivity|]. split; discriminate.
Qed.

Example C03_example :
  let f := C03_example_file in
  cfg_ok (file_cfg f) /\ Inv (f_imports f) /\
  registered_name (f_imports f) (S "a.b/d") = None /\
  match file_raw f with
  | Ok (t1, raw) =>
    registered_name t1 (S "a.b/d") = Some (S "pp_d") /\ registered_name t1 (S "only/anon") = None /\
    raw = concat_str (map (fun l => l ++ [x0a])
            [S "package pkg"; [];
             S "import (";
             S "pp_d ""a.b/d""";
             S "pp_type1 ""a.b/type""";
             S "pp_d1 ""c.b/d""";
             S "pp_rand1 ""crypto/rand""";
             S """math/rand""";
             S "_ ""only/anon""";
             S "pp_d2 ""x.y/al""";
             S """x.y/real""";
             S ")"; []; [];
             S "pp_d.A pp_d1.B pp_d.C"]) ++
          S "realname.R pp_d2.L rand.Int pp_rand1.Read pp_type1.T"
  | Panic _ => False
  end.
Proof.
  cbv zeta. split; [exact C03_example_cfg_ok|]. split.
  - apply (fresh_file_Inv (new_file_path_name (S "my/pkg") (S "pkg")) [S "a.b/d"; S "only/anon"]); [reflexivity|].
    simpl. intuition discriminate.
  - vm_compute. repeat split; reflexivity.
Qed.
