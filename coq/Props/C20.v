(* C20: Clone isolation - clones and originals never corrupt each other.
   Statements only; every proof is `exact` of a lemma of Proofs/HeapProofs.v.

   Setting (Model/Heap.v): statement variables 0, 1, 2, ... hold Go slice headers
   (array, len, cap) over arrays of items; an item is a frozen code value or a reference to
   a variable.  A history is any list of operations
       ONew            newStatement()
       OAppend v cs    *v = append( *v, cs...)   for any k >= 0 codes (every builder method)
       OClone v        the next variable := v.Clone()   (v may itself be a clone)
   [run grow clone ops] executes it with growth policy [grow] (an arbitrary function with
   n <= grow c n: capacity is exhausted or not at the policy's whim) and [clone] as the
   implementation of Clone: [clone_wrap] is the code as written (`return &Statement{s}`),
   [clone_header] the mutant that copies the slice header.  Operations on variables that do
   not exist yet do nothing, so the theorems quantify over ALL lists of operations.
   [snapshot h v] is the frozen tree Model/Render.v renders for variable v. *)
From Jen Require Import Base.Bytes Model.Heap Model.Render Model.FileRender Gen.Clone.
From Jen Require Import Spec.CloneShape Proofs.HeapProofs Proofs.CloneShapeProofs.
Local Open Scope N_scope.

(* ---- the obligation on the code (regenerated from /repo on every run) ----
   Statement is []Code; newStatement returns a fresh empty slice; Clone's body is exactly
   `return &Statement{s}`; in every method of Statement the slice header is only read
   (range, index read, len, cap, comparison with nil) or replaced by
   `*s = append( *s, ...)` on the receiver; a COPY of the header (a local `items := *s`, the
   parameter of a helper of package jen that receives `*s`) is only read as well, and so is
   every variable or parameter it is handed on to ([copies_readonly] lists every copy with
   the category of each of its mentions, Spec/CloneShape.v says which categories are
   harmless and that the table is closed under handing on); nothing else in package jen
   touches a Statement value.

   `*s = append( *s, ..)` is an [OAppend] on the cell the user called the builder on only if
   `s` still points to that cell and the statement runs during the call.  So the translator
   also reports (in append_only_violations / other_writes): every assignment to, and every
   address of, a receiver or parameter of type *Statement; the append inside a function
   literal or under go/defer (a closure may run after the call returned); every conversion
   from or to a pointer to Statement, []Code or a type with that underlying type (so `*p` of
   a pointer of another type cannot be a statement's cell), package unsafe, and statements
   handed to package reflect.  And no OTHER cell that existed before the call may be appended
   to: [builder_calls] lists every mention of a method of Statement in package jen with what
   its receiver expression is, and [foreign_builder_calls] (Spec/CloneShape.v) keeps those
   that are neither the enclosing method's own receiver, nor a cell created during the same
   call (`newStatement().Op(op)`, `s := Op(op)` in a Group method), nor mentions of a method
   that never appends to its receiver (render, isNull, previous, ...): it must be empty.

   Hence every builder call is an OAppend on its receiver, Clone is OClone with [clone_wrap],
   newStatement is ONew.  Changing Clone to copy the header, letting any function write an
   element in place, append to a copy, store or return a copy, take an address, redirect the
   receiver, append to another statement, or defer the append into a closure, makes this fail
   at coqc time. *)
Theorem C20_code_shape :
  clone_body_is_wrap = true /\ forallb snd append_only_methods = true /\
  append_only_violations = [] /\ other_writes = [] /\
  copies_closed_readonly copies_readonly = true /\
  statement_is_code_slice = true /\ new_statement_is_fresh = true /\
  foreign_builder_calls ptr_results ptr_locals self_appending_methods builder_calls = [].
Proof. vm_compute. repeat split; reflexivity. Qed.

(* What the table check means: every mention of every copy of a Statement's slice header
   either only reads (range, index read, len, cap, nil comparison, source of append/copy,
   reslice of itself) or hands the header on - possibly resliced or converted - to a local
   variable or a parameter of a function of package jen that is in the table too ...

   When the table is [] (the pinned tree) this says nothing by itself; that NO copy exists
   then rests on the translator's enumeration, which is trusted and is exactly this: every
   node of every non-test file of package jen (as `go build` without tags selects them) that
   go/types records as an expression whose type is identical to Statement and that is a
   value (not a type), except a parenthesis around one and a composite literal
   `Statement{..}`, gets a category from its syntactic position; it gets a row unless the
   category is one of the five direct ones (operand of range, X of an index expression that
   is read, argument of len, of cap, and `*s` on either side of - or the append call in -
   `*s = append( *s, ..)` on the receiver), whose numbers are in [direct_header_uses].  A
   header can be copied without such an expression appearing only by copying a composite
   value that holds a Statement (reported: any expression whose type holds a Statement by
   value in a struct, array, slice, map or channel), by `for .. = range` (reported), through
   a pointer of another type (reported, above), or by unsafe/reflect (reported, above; reflect
   on a statement held in an interface value is not seen). *)
Theorem C20_copies_table_sound : table_sound copies_readonly.
Proof. exact (proj1 (copies_closed_readonly_iff copies_readonly) (proj1 (proj2 (proj2 (proj2 (proj2 C20_code_shape)))))). Qed.

(* ... so no copy is ever appended to, written through, the destination of copy(), stored,
   returned, captured, or has its address taken. *)
Theorem C20_copies_never_write : forall r u,
  In r copies_readonly -> In u (row_uses r) -> ~ writes_or_escapes (final_use u).
Proof. exact (sound_table_never_writes copies_readonly (proj1 (proj2 (proj2 (proj2 (proj2 C20_code_shape)))))). Qed.

(* Every mention of a method of Statement in package jen has as its receiver the cell the
   enclosing method was called on (the receiver identifier, a single-assignment local bound
   to it, or the result of a receiver-returning method on it), or a cell created during the
   same call (&Statement{..}, the result of a function of jen all of whose returns are
   fresh, a receiver-returning method on such a result, a single-assignment local bound to
   one), or the method never appends to its receiver (it neither contains the append nor
   calls, on its own cell, a method that does). *)
Theorem C20_builder_calls_sound :
  calls_sound ptr_results ptr_locals self_appending_methods builder_calls.
Proof.
  exact (foreign_builder_calls_nil_sound _ _ _ _
           (proj2 (proj2 (proj2 (proj2 (proj2 (proj2 (proj2 C20_code_shape)))))))).
Qed.

(* not vacuous: some calls are accepted because their receiver is fresh (on the pinned tree the
   123 `newStatement().X(..)` / `Comment(c).render(..)` of the package functions), and some
   methods do append *)
Example C20_builder_calls_nonempty :
  fresh_builder_calls ptr_results ptr_locals builder_calls <> [] /\ self_appending_methods <> [].
Proof. vm_compute. split; discriminate. Qed.

(* ---- the invariant ----
   No two live statement variables' headers reference the same array.  It is established
   by newStatement and by Clone-as-written and preserved by append, under every growth
   policy (on well-formed heaps: header arrays exist, have length cap, len <= cap, and
   identities are below the allocation counters - [wf] is itself preserved). *)
Theorem C20_Inv_no_shared_array_step : forall grow h,
  grow_ok grow -> wf h -> Inv_no_shared_array h ->
  (wf (new_stmt h) /\ Inv_no_shared_array (new_stmt h)) /\
  (forall v, wf (clone_wrap h v) /\ Inv_no_shared_array (clone_wrap h v)) /\
  (forall v xs, wf (append grow h v xs) /\ Inv_no_shared_array (append grow h v xs)).
Proof. exact inv_established_and_preserved. Qed.

(* It holds after every history. *)
Theorem C20_Inv_no_shared_array : forall grow ops,
  grow_ok grow -> wf (run grow clone_wrap ops) /\ Inv_no_shared_array (run grow clone_wrap ops).
Proof. exact wf_inv_run. Qed.

(* ---- refinement of the list model ----
   For every growth policy and every history, the slice a[0:len] of every variable is the
   abstract list "(reference to the parent if it is a clone) ++ items appended to it", and
   its snapshot is the abstract value. *)
Theorem C20_refines_lists : forall grow, grow_ok grow -> forall ops v,
  view (run grow clone_wrap ops) v = aview (arun ops) v /\
  snapshot (run grow clone_wrap ops) v = asnapshot (arun ops) v.
Proof. exact refines_lists_all. Qed.

(* The abstract value in words: [value of the parent, as it is now] ++ own items. *)
Theorem C20_list_model_value : forall ops v s,
  nget (a_vars (arun ops)) v = Some s ->
  asnapshot (arun ops) v =
  CStmt ((match a_parent s with Some p => [asnapshot (arun ops) p] | None => [] end) ++ a_own s).
Proof. exact asnapshot_eq. Qed.

(* ---- consequences ---- *)

(* Own items are never lost, altered or reordered, and nothing else is ever stored in a
   statement: whatever happens later (ops2 is arbitrary - appends to the original, to
   sibling clones, to clones of clones, new statements, more clones), the slice of v is what
   it was followed by exactly the codes that ops2 appended to v itself, in order. *)
Theorem C20_items_kept : forall grow, grow_ok grow -> forall ops ops2 v l,
  view (run grow clone_wrap ops) v = Some l ->
  view (run grow clone_wrap (ops ++ ops2)) v = Some (l ++ map ICode (appended_to v ops2)).
Proof. exact items_kept. Qed.

(* The same for a clone, at the level of what is rendered: at every later time the clone c
   of v is [v as it is then] followed by exactly the codes appended to c, in order. *)
Theorem C20_clone_items_kept : forall grow, grow_ok grow -> forall ops1 ops2 v,
  bound (run grow clone_wrap ops1) v = true ->
  let c := hp_nvars (run grow clone_wrap ops1) in
  let h := run grow clone_wrap (ops1 ++ OClone v :: ops2) in
  snapshot h c = CStmt (snapshot h v :: appended_to c ops2).
Proof. exact clone_items_kept. Qed.

(* Frame: the snapshot of v changes only by appends to v itself or to a statement v was
   (transitively) cloned from. *)
Theorem C20_frame : forall grow, grow_ok grow -> forall ops ops2 v,
  bound (run grow clone_wrap ops) v = true ->
  (forall u, In u (ancestors (run grow clone_wrap ops) v) -> appended_to u ops2 = []) ->
  snapshot (run grow clone_wrap (ops ++ ops2)) v = snapshot (run grow clone_wrap ops) v.
Proof. exact frame. Qed.

(* A (nested) clone is younger than everything it was cloned from ... *)
Theorem C20_clones_are_younger : forall grow, grow_ok grow -> forall ops c v,
  In v (ancestors (run grow clone_wrap ops) c) -> v <> c -> v < c.
Proof. exact clones_are_younger. Qed.

(* ... and appends to younger statements - in particular to any clone of v, clone of a
   clone of v, existing or created during ops2 - leave the original's snapshot, hence its
   rendering, unchanged. *)
Theorem C20_original_unchanged : forall grow, grow_ok grow -> forall ops ops2 v,
  bound (run grow clone_wrap ops) v = true ->
  (forall w cs, In (OAppend w cs) ops2 -> v < w) ->
  snapshot (run grow clone_wrap (ops ++ ops2)) v = snapshot (run grow clone_wrap ops) v.
Proof. exact original_unchanged. Qed.

(* An unmodified clone renders exactly like its original, at every later time and whatever
   was appended to the original meanwhile: same text and same import table for every
   configuration, starting table and case-context flag; same isNull; same outcome of
   Render/GoString.  (No exception: the inner statement is rendered with its own items as
   the "enclosing statement", so Statement.previous / case-context lookups see the same
   neighbours.  The exception concerns MODIFIED clones only, see the Example below.) *)
Theorem C20_unmodified_clone_renders_same : forall grow, grow_ok grow -> forall ops1 ops2 v,
  bound (run grow clone_wrap ops1) v = true ->
  let c := hp_nvars (run grow clone_wrap ops1) in
  let h := run grow clone_wrap (ops1 ++ OClone v :: ops2) in
  appended_to c ops2 = [] ->
  (forall cfg ctx ctx' t, render cfg ctx t (snapshot h c) = render cfg ctx' t (snapshot h v)) /\
  (forall cfg t, is_null cfg t (snapshot h c) = is_null cfg t (snapshot h v)) /\
  (forall fmt wfail, code_render fmt wfail (snapshot h c) = code_render fmt wfail (snapshot h v)).
Proof. exact unmodified_clone_renders_same. Qed.

(* ---- the documented mutant ----
   With Clone copying the slice header and Go's growth policy there are histories in which
   an append to the clone changes the original's snapshot, an append to the original
   alters an item of the clone, and the invariant fails. *)
Theorem C20_header_copy_refuted :
  let run := run go_grow clone_header in
  (exists ops ops2 v,
      bound (run ops) v = true /\ (forall w cs, In (OAppend w cs) ops2 -> v < w) /\
      snapshot (run (ops ++ ops2)) v <> snapshot (run ops) v) /\
  (exists ops ops2 v l,
      view (run ops) v = Some l /\
      view (run (ops ++ ops2)) v <> Some (l ++ map ICode (appended_to v ops2))) /\
  (exists ops, ~ Inv_no_shared_array (run ops)).
Proof. exact header_copy_refuted. Qed.

(* The growth policy used there (and for executing cases) is a growth policy. *)
Theorem C20_go_grow_ok : grow_ok go_grow.
Proof. exact go_grow_ok. Qed.

(* ---- non-vacuity ---- *)
Definition C20_tk (b : byte) : code := CTok (TkId [b]).

(* original 0 = a b c d (cap 6: spare capacity at clone time), clone 1, clone of clone 2,
   interleaved appends that do and do not exhaust capacity *)
Definition C20_history : list op :=
  [ONew; OAppend 0 [C20_tk x61; C20_tk x62; C20_tk x63]; OAppend 0 [C20_tk x64]; OClone 0;
   OAppend 1 [C20_tk x78]; OAppend 0 [C20_tk x79]; OClone 1; OAppend 2 [C20_tk x7a];
   OAppend 1 []; OAppend 0 [C20_tk x65; C20_tk x66; C20_tk x67]; ONew; OClone 0].

Example C20_example :
  let h := run go_grow clone_wrap C20_history in
  map (fun v => (h_len v, h_cap v)) (map snd (hp_vars h)) =
    [(8, 12); (2, 2); (2, 2); (0, 0); (1, 1)]%nat /\
  bound h 0 = true /\ ancestors h 2 = [2; 1; 0] /\ hp_nvars h = 5 /\
  appended_to 4 [] = [] /\
  code_render (fun s => Some s) (fun _ => false) (snapshot h 0) = OWrite (S "a b c d y e f g") false /\
  code_render (fun s => Some s) (fun _ => false) (snapshot h 1) = OWrite (S "a b c d y e f g x") false /\
  code_render (fun s => Some s) (fun _ => false) (snapshot h 2) = OWrite (S "a b c d y e f g x z") false /\
  code_render (fun s => Some s) (fun _ => false) (snapshot h 4) = OWrite (S "a b c d y e f g") false.
Proof. vm_compute. repeat split; reflexivity. Qed.

(* the same history with the mutant: the clone's x is overwritten by the original's y *)
Example C20_example_mutant :
  let h := run go_grow clone_header C20_history in
  code_render (fun s => Some s) (fun _ => false) (snapshot h 1) = OWrite (S "a b c d y") false.
Proof. vm_compute. reflexivity. Qed.

(* Outside the property (a MODIFIED clone): a group appended to a clone has the whole
   original *Statement as its `previous` item, not the original's last token.  So
   `Case(a)` followed by `.Block(b)` appended to the statement itself renders without
   braces (case-context), but appended to a clone of `Case(a)` it renders with braces. *)
Example C20_modified_clone_previous_is_the_statement :
  let cas := CGroup 1 (S "case") (S "case ") (S ":") (S ",") false [C20_tk x61] in
  let blk := CGroup 2 (S "block") (S "{") (S "}") [] true [C20_tk x62] in
  let direct := run go_grow clone_wrap [ONew; OAppend 0 [cas]; OAppend 0 [blk]] in
  let cloned := run go_grow clone_wrap [ONew; OAppend 0 [cas]; OClone 0; OAppend 1 [blk]] in
  code_render (fun s => Some s) (fun _ => false) (snapshot direct 0) = OWrite (S "case a: " ++ [x0a] ++ S "b") false /\
  code_render (fun s => Some s) (fun _ => false) (snapshot cloned 1) = OWrite (S "case a: {" ++ [x0a] ++ S "b" ++ [x0a] ++ S "}") false.
Proof. vm_compute. split; reflexivity. Qed.

Print Assumptions C20_code_shape.
Print Assumptions C20_copies_table_sound.
Print Assumptions C20_copies_never_write.
Print Assumptions C20_builder_calls_sound.
Print Assumptions C20_Inv_no_shared_array_step.
Print Assumptions C20_Inv_no_shared_array.
Print Assumptions C20_refines_lists.
Print Assumptions C20_list_model_value.
Print Assumptions C20_items_kept.
Print Assumptions C20_clone_items_kept.
Print Assumptions C20_frame.
Print Assumptions C20_clones_are_younger.
Print Assumptions C20_original_unchanged.
Print Assumptions C20_unmodified_clone_renders_same.
Print Assumptions C20_header_copy_refuted.
Print Assumptions C20_go_grow_ok.
