(* C08: rendering is repeatable and import names are stable across renders.
   Statements only; proofs are lemmas of Proofs/RenderProofs.v. *)
From Jen Require Import Base.Bytes Model.Code Model.Naming Model.Render Model.FileRender.
From Jen Require Import Proofs.NamingProofs Proofs.RenderProofs.

(* THE STABILISATION THEOREM.  For every tree (any constructs, arities, nesting, Dicts, null
   items, case blocks), every context and every table: if a render succeeds with table t1 and
   text s, then (1) t1 keeps every registration of t and changes no path between dot and
   ordinary import, and (2) rendering again from t1 - or from ANY later table t2 that
   extends t1 in that sense (further renders of other trees, Anon of new paths) - returns
   t2 unchanged and exactly the same text.  Hypothesis: hint names and prefix are
   identifiers (cfg_ok; see C05). *)
Theorem C08_render_stable : forall cfg, cfg_ok cfg -> forall c ctx t t1 s,
  render cfg ctx t c = Ok (t1, s) ->
  ext cfg t t1 /\ forall t2, ext cfg t1 t2 -> render cfg ctx t2 c = Ok (t2, s).
Proof. intros cfg H c ctx. exact (render_stable cfg H c ctx). Qed.

(* Rendering the same tree twice gives identical bytes and an identical table the second
   and every later time. *)
Theorem C08_render_idempotent : forall cfg, cfg_ok cfg -> forall c ctx t t1 s,
  render cfg ctx t c = Ok (t1, s) -> render cfg ctx t1 c = Ok (t1, s).
Proof. exact render_idempotent. Qed.

(* File.Render twice: same raw text, same table, hence (same formatter) same bytes. *)
Theorem C08_file_render_twice : forall fmt wf f t raw,
  cfg_ok (file_cfg f) -> file_raw f = Ok (t, raw) ->
  file_raw (set_imports f t) = Ok (t, raw) /\
  snd (file_render fmt wf (fst (file_render fmt wf f))) = snd (file_render fmt wf f).
Proof.
  intros fmt wf f t raw Hc Hr. unfold file_raw in Hr.
  destruct (render (file_cfg f) false (f_imports f) (file_group f)) as [[t1 s]|m] eqn:E; cbn [bind fst snd] in Hr; [|discriminate].
  injection Hr as <- <-.
  pose proof (render_idempotent _ Hc _ _ _ _ _ E) as E2.
  assert (Hraw : file_raw (set_imports f t1) = Ok (t1, file_head f ++ render_imports t1 (f_cgo f) ++ s)).
  { unfold file_raw. change (file_cfg (set_imports f t1)) with (file_cfg f).
    change (f_imports (set_imports f t1)) with t1. change (file_group (set_imports f t1)) with (file_group f).
    rewrite E2. reflexivity. }
  split; [exact Hraw|].
  unfold file_render at 2 3. unfold file_raw. rewrite E. cbn [bind fst snd].
  unfold file_render. rewrite Hraw. reflexivity.
Qed.

(* Names are stable: a registration survives every render, under any later hints or prefix
   (the configuration cfg' of the later render is arbitrary) ... *)
Theorem C08_names_stable : forall cfg', cfg_ok cfg' -> forall c ctx t t1 s p q,
  registered_name t p = Some q -> render cfg' ctx t c = Ok (t1, s) -> registered_name t1 p = Some q.
Proof.
  intros cfg' H c ctx t t1 s p q Hk Hr.
  eapply keeps_registered; [eapply render_keeps; eassumption | exact Hk].
Qed.

(* ... and a registered path is written under that name by every later render, whatever
   hints were added since (a later dot hint, or the removal of one, does not change it). *)
Theorem C08_registered_name_is_used : forall cfg' t p q,
  is_local cfg' p = false -> registered_name t p = Some q -> register cfg' t p = Ok (t, q).
Proof. intros cfg' t p q Hl Hk. unfold register. rewrite Hl, Hk. reflexivity. Qed.

(* Anon of a path that is not registered keeps every registration (the property excludes
   Anon of an already referenced path). *)
Theorem C08_anon_keeps : forall t p,
  registered_name t p = None -> keeps t (aset p (mkdef s_us true) t).
Proof. intros t p H. apply keeps_aset. exact H. Qed.

(* Non-vacuity: a case block, a Dict and two colliding paths rendered twice. *)
Example C08_example :
  let cfg := mkcfg [] (S "pkg") [] in
  let c := CStmt [CGroup 1 (S "case") (S "case ") (S ":") (S ",") false [qual 2 (S "a.b/d") (S "A")];
                  CGroup 3 (S "block") (S "{") (S "}") [] true
                    [CStmt [CDict [(qual 4 (S "c.b/d") (S "K"), CTok (TkLit (LInt 1)))]]]] in
  cfg_ok cfg /\
  match render cfg false [] c with
  | Ok (t1, s) => render cfg false t1 c = Ok (t1, s) /\ length t1 = 2%nat
  | Panic _ => False
  end.
Proof. split; [split; [intros p h H; discriminate | right; reflexivity] | vm_compute; split; reflexivity]. Qed.
