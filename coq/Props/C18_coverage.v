(* C18: coverage of the installed toolchain by jennifer's standard-library table.
   Statements only; proofs are lemmas of Proofs/ReviewMiscProofs.v.  Both tables are
   regenerated on every run (std_hints from /repo/jen/hints.go, goroot_packages from the
   package clauses under GOROOT/src): the numbers below are about the installed toolchain. *)
From Jen Require Import Base.Bytes Model.Code Model.Naming Gen.Tables Gen.Goroot.
From Jen Require Import Proofs.NamingProofs Proofs.StdProofs Proofs.ReviewMiscProofs.

(* EVERY importable package of the installed toolchain IS in jennifer's table: for none of
   them does register fall back to a guessed alias, so the unaliased branch of
   C18_register_std is the one taken whenever the name is free. *)
Theorem C18_coverage : forall p, In p (akeys goroot_packages) -> std_hint p <> [].
Proof. exact std_hints_cover_goroot. Qed.

(* ... and the table's name is the declared name - C18_table_true without the hypothesis that
   the path is in the table. *)
Theorem C18_coverage_true : forall p real, alookup p goroot_packages = Some real -> std_hint p = real.
Proof. exact std_hint_is_declared_name. Qed.

(* The counts on this toolchain: 166 importable packages, all covered; the table has 284
   entries, 118 of which are not importable packages of the toolchain (internal and vendored
   directories, which user code cannot import). *)
Example C18_counts :
  length goroot_packages = 166%nat /\ goroot_covered = 166%nat /\
  length std_hints = 284%nat /\ length std_hints_not_in_goroot = 118%nat.
Proof. repeat split; vm_compute; reflexivity. Qed.

(* a few of the 118, and none of them is importable: every one has `internal` or `vendor` as
   a path element *)
Example C18_uncovered_are_internal :
  forallb (fun e => contains (S "internal") (fst e) || contains (S "vendor") (fst e))%bool std_hints_not_in_goroot = true /\
  alookup (S "crypto/internal/boring") std_hints = Some (S "boring") /\
  alookup (S "crypto/internal/boring") goroot_packages = None.
Proof. repeat split; vm_compute; reflexivity. Qed.
