(* C13: nil and Null() items vanish from lists; Empty() keeps its separator.
   Statements only; proofs are lemmas of Proofs/NullProofs.v. *)
From Jen Require Import Base.Bytes Model.Code Model.Naming Model.Render Gen.Tables.
From Jen Require Import Proofs.NullProofs.

(* The items the property names, independent of any File: nil, typed nil pointers, Null(),
   statements and delimiter-less groups made only of such items, empty Tags, Dicts without
   a surviving pair.  They are null in every table. *)
Theorem C13_nullish_is_null : forall cfg c, nullish c = true -> forall t, is_null cfg t c = true.
Proof. exact nullish_is_null. Qed.

(* NULL INVARIANCE.  For every group - every construct of the generated table and every
   Custom option set (name, open, close, separator, multi are arbitrary), every arity,
   every position and multiplicity of the inserted items - inserting nullish items changes
   neither the rendered bytes nor the import table, from every state; nor whether the
   group itself is null.  Side condition: no Dict item in a Values group (Values(Dict, x)
   panics by design: recorded finding). *)
Theorem C13_null_invariance : forall cfg gid name o cl sep multi xs ns ys,
  forallb nullish ns = true -> dict_free name (xs ++ ys) ->
  (forall ctx t, render cfg ctx t (CGroup gid name o cl sep multi (xs ++ ns ++ ys)) =
                 render cfg ctx t (CGroup gid name o cl sep multi (xs ++ ys))) /\
  (forall t, is_null cfg t (CGroup gid name o cl sep multi (xs ++ ns ++ ys)) =
             is_null cfg t (CGroup gid name o cl sep multi (xs ++ ys))).
Proof. exact group_null_invariance. Qed.

(* CLOSURE UNDER NESTING.  [req c c'] : c and c' are interchangeable anywhere (same bytes
   and table from every state, same null-ness, same look to the enclosing element's
   tests).  An insertion yields interchangeable groups, and interchangeable items yield
   interchangeable groups and statements - so nullish items may be injected at any depth
   of a program without changing anything. *)
Theorem C13_insertion_interchangeable : forall cfg gid name o cl sep multi xs ns ys,
  forallb nullish ns = true -> dict_free name (xs ++ ys) ->
  req cfg (CGroup gid name o cl sep multi (xs ++ ns ++ ys)) (CGroup gid name o cl sep multi (xs ++ ys)).
Proof. exact group_null_req. Qed.

Theorem C13_group_congruence : forall cfg gid name o cl sep multi l l',
  Forall2 (req cfg) l l' -> req cfg (CGroup gid name o cl sep multi l) (CGroup gid name o cl sep multi l').
Proof. exact group_cong. Qed.

Theorem C13_statement_congruence : forall cfg l l',
  Forall2 (req cfg) l l' -> req cfg (CStmt l) (CStmt l').
Proof. exact stmt_cong. Qed.

Theorem C13_interchangeable_refl_trans : forall cfg,
  (forall c, req cfg c c) /\ (forall a b c, req cfg a b -> req cfg b c -> req cfg a c).
Proof. intros cfg. split; [exact (req_refl cfg) | exact (req_trans cfg)]. Qed.

(* Empty() is a token with empty text: not null, so it is counted as an item and takes part
   in separation. *)
Theorem C13_empty_is_an_item : forall cfg t,
  is_null cfg t (CTok (TkText [])) = false /\ render cfg false t (CTok (TkText [])) = Ok (t, []).
Proof. intros. split; reflexivity. Qed.

(* Non-vacuity, and the two shapes behind the side conditions. *)
Example C13_example :
  let cfg := mkcfg [] [] [] in
  let id s := CStmt [CTok (TkId s)] in
  let call items := CGroup 1 (S "call") (S "(") (S ")") (S ",") false items in
  let index items := CGroup 2 (S "index") (S "[") (S "]") (S ":") false items in
  render cfg false [] (call [id (S "a"); CNil; CTok TkNull; CStmt []; CStmt [CTag []]; id (S "b"); CNilGroup]) = Ok ([], S "(a,b)") /\
  render cfg false [] (call [id (S "a"); id (S "b")]) = Ok ([], S "(a,b)") /\
  render cfg false [] (index [CStmt [CTok (TkText [])]; id (S "x")]) = Ok ([], S "[:x]") /\
  render cfg false [] (index [CStmt [CTok TkNull]; id (S "x")]) = Ok ([], S "[x]").
Proof. vm_compute. repeat split; reflexivity. Qed.

(* the Values/Dict exception is real: a second item, even a null one, panics *)
Example C13_values_dict_exception :
  let cfg := mkcfg [] [] [] in
  let d := CDict [(CStmt [CTok (TkId (S "k"))], CStmt [CTok (TkId (S "v"))])] in
  render cfg false [] (CGroup 1 s_values (S "{") (S "}") (S ",") false [d]) = Ok ([], S "{k:v}") /\
  render cfg false [] (CGroup 1 s_values (S "{") (S "}") (S ",") false [d; CTok TkNull]) = Panic s_values_panic.
Proof. vm_compute. split; reflexivity. Qed.
