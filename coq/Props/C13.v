(* C13: nil and Null() items vanish from lists; Empty() keeps its separator.
   Statements only; proofs are lemmas of Proofs/NullProofs.v. *)
From Jen Require Import Base.Bytes Model.Code Model.Naming Model.Render Gen.Tables.
From Jen Require Import Base.Sort Proofs.NullProofs Proofs.CommentProofs Proofs.EmitProofs.

(* The items the property names, independent of any File: nil, typed nil pointers, Null(),
   statements and delimiter-less groups made only of such items, empty Tags, Dicts without
   a surviving pair.  They are null in every table. *)
Theorem C13_nullish_is_null : forall cfg c, nullish c = true -> forall t, is_null cfg t c = true.
Proof. exact nullish_is_null. Qed.

(* NULL INVARIANCE.  For every group - every construct of the generated table and every
   Custom option set (name, open, close, separator, multi are arbitrary), every arity,
   every position and multiplicity of the inserted items - inserting nullish items changes
   neither the rendered bytes nor the import table, from every state; nor whether the
   group itself is null.  Side condition: no Dict item in a Values group (Values(Dict, x)
   panics by design: recorded finding). *)
Theorem C13_null_invariance : forall cfg gid name o cl sep multi xs ns ys,
  forallb nullish ns = true -> dict_free name (xs ++ ys) ->
  (forall ctx t, render cfg ctx t (CGroup gid name o cl sep multi (xs ++ ns ++ ys)) =
                 render cfg ctx t (CGroup gid name o cl sep multi (xs ++ ys))) /\
  (forall t, is_null cfg t (CGroup gid name o cl sep multi (xs ++ ns ++ ys)) =
             is_null cfg t (CGroup gid name o cl sep multi (xs ++ ys))).
Proof. exact group_null_invariance. Qed.

(* CLOSURE UNDER NESTING.  [req c c'] : c and c' are interchangeable anywhere (same bytes
   and table from every state, same null-ness, same look to the enclosing element's
   tests).  An insertion yields interchangeable groups, and interchangeable items yield
   interchangeable groups and statements - so nullish items may be injected at any depth
   of a program without changing anything. *)
Theorem C13_insertion_interchangeable : forall cfg gid name o cl sep multi xs ns ys,
  forallb nullish ns = true -> dict_free name (xs ++ ys) ->
  req cfg (CGroup gid name o cl sep multi (xs ++ ns ++ ys)) (CGroup gid name o cl sep multi (xs ++ ys)).
Proof. exact group_null_req. Qed.

Theorem C13_group_congruence : forall cfg gid name o cl sep multi l l',
  Forall2 (req cfg) l l' -> req cfg (CGroup gid name o cl sep multi l) (CGroup gid name o cl sep multi l').
Proof. exact group_cong. Qed.

Theorem C13_statement_congruence : forall cfg l l',
  Forall2 (req cfg) l l' -> req cfg (CStmt l) (CStmt l').
Proof. exact stmt_cong. Qed.

Theorem C13_interchangeable_refl_trans : forall cfg,
  (forall c, req cfg c c) /\ (forall a b c, req cfg a b -> req cfg b c -> req cfg a c).
Proof. intros cfg. split; [exact (req_refl cfg) | exact (req_trans cfg)]. Qed.

(* Empty() is a token with empty text: not null, so it is counted as an item and takes part
   in separation. *)
Theorem C13_empty_is_an_item : forall cfg t,
  is_null cfg t (CTok (TkText [])) = false /\ render cfg false t (CTok (TkText [])) = Ok (t, []).
Proof. intros. split; reflexivity. Qed.

(* THE RENDERED LIST IS EXACTLY THE REMAINING ITEMS.  For a one-line group of any construct
   whose (non-null) items are settled at table t (they render to the texts [txt] without
   registering anything new), with nullish items inserted anywhere: the output is
   open ++ the texts of the non-null items, in order, joined by the separator (n-1
   separators for n items) ++ close (no braces for a block after case/default; nothing for
   an all-null Types list). *)
Theorem C13_exactly_remaining_items : forall cfg t txt ctx gid name o cl sep xs ns ys,
  forallb nullish ns = true -> settled_items cfg t txt (xs ++ ys) -> dict_free name (xs ++ ys) ->
  let live := filter (live_item cfg t) (xs ++ ys) in
  let blank := str_eqb name s_block && ctx in
  render cfg ctx t (CGroup gid name o cl sep false (xs ++ ns ++ ys)) =
  Ok (t, if str_eqb name s_types && is_nil live then []
         else (if blank then [] else o) ++ join sep (map txt live) ++ (if blank then [] else cl)).
Proof. exact list_exactly_remaining_items. Qed.

(* Empty() contributes the empty text at its place between separators: it is counted. *)
Theorem C13_empty_separates : forall cfg t txt ctx gid name o cl sep xs ys,
  settled_items cfg t txt (xs ++ CTok (TkText []) :: ys) -> dict_free name (xs ++ CTok (TkText []) :: ys) ->
  str_eqb name s_types = false ->
  let blank := str_eqb name s_block && ctx in
  render cfg ctx t (CGroup gid name o cl sep false (xs ++ CTok (TkText []) :: ys)) =
  Ok (t, (if blank then [] else o) ++
         join sep (map txt (filter (live_item cfg t) xs) ++ [] :: map txt (filter (live_item cfg t) ys)) ++
         (if blank then [] else cl)).
Proof. exact empty_takes_part. Qed.

(* exactly k-1 occurrences of a one-byte separator that occurs in no item text *)
Theorem C13_separator_count : forall b multi first xs,
  b <> x0a -> Forall (fun x => countb b x = 0) xs ->
  countb b (group_text [b] multi first xs) = (length xs - (if first then 1 else 0))%nat.
Proof. exact emit_separator_occurrences. Qed.

(* Non-vacuity, and the two shapes behind the side conditions. *)
Example C13_example :
  let cfg := mkcfg [] [] [] in
  let id s := CStmt [CTok (TkId s)] in
  let call items := CGroup 1 (S "call") (S "(") (S ")") (S ",") false items in
  let index items := CGroup 2 (S "index") (S "[") (S "]") (S ":") false items in
  render cfg false [] (call [id (S "a"); CNil; CTok TkNull; CStmt []; CStmt [CTag []]; id (S "b"); CNilGroup]) = Ok ([], S "(a,b)") /\
  render cfg false [] (call [id (S "a"); id (S "b")]) = Ok ([], S "(a,b)") /\
  render cfg false [] (index [CStmt [CTok (TkText [])]; id (S "x")]) = Ok ([], S "[:x]") /\
  render cfg false [] (index [CStmt [CTok TkNull]; id (S "x")]) = Ok ([], S "[x]").
Proof. vm_compute. repeat split; reflexivity. Qed.

(* the Values/Dict exception is real: a second item, even a null one, panics *)
Example C13_values_dict_exception :
  let cfg := mkcfg [] [] [] in
  let d := CDict [(CStmt [CTok (TkId (S "k"))], CStmt [CTok (TkId (S "v"))])] in
  render cfg false [] (CGroup 1 s_values (S "{") (S "}") (S ",") false [d]) = Ok ([], S "{k:v}") /\
  render cfg false [] (CGroup 1 s_values (S "{") (S "}") (S ",") false [d; CTok TkNull]) = Panic s_values_panic.
Proof. vm_compute. split; reflexivity. Qed.
