(* C18: standard-library packages are referred to by their real names.
   The tables are regenerated on every run: std_hints from /repo/jen/hints.go,
   goroot_packages from the package clauses under GOROOT/src of the installed toolchain,
   gennames_table from the gennames tool built from /repo and run on that toolchain. *)
From Jen Require Import Base.Bytes Model.Code Model.Naming Gen.Tables Gen.Goroot Gen.Gennames.
From Jen Require Import Proofs.NamingProofs Proofs.StdProofs Spec.TableUses.

(* Every entry of jennifer's hint table that names an importable package of the installed
   toolchain carries that package's declared name (checked by the kernel on the current
   tables). *)
Theorem C18_table_true : forall p n real,
  In (p, n) std_hints -> alookup p goroot_packages = Some real -> n = real.
Proof. intros p n real. exact (table_true_spec std_hints p n real std_hints_true). Qed.

(* The hint table is used the way the model uses it (Spec/TableUses.v; read from the source on
   every run): no init function, no assignment to / address of the table, nothing the
   translator could not read (hints_problems = []); the name of an import that has no
   registered name is chosen by exactly the three-armed chain expected_name_choice - the
   user's hint if it has a name; else standardLibraryHints[path] if it is not "", with
   alias = false; else guessAlias(path) with alias = true - standing in register itself or
   in a helper that register calls once on its own path (link); and in the whole of package
   jen (non-test files) `standardLibraryHints` occurs only as its declaration and in that
   chain, `guessAlias` only as its declaration, in that chain and on NewFilePath's own
   argument.  What register does with the chosen name afterwards (the numbering loop, the
   prefix, the stored entry) is NOT read from the source: Tie A covers the data and these
   uses, the algorithm is tied to the model by the differential run. *)
Theorem C18_hints_tied :
  hints_problems = [] /\ name_choice = expected_name_choice /\ link_ok name_choice_link = true /\
  uses_within table_uses u_hints [r_decl; r_choice] /\ used_as table_uses u_hints r_choice /\
  uses_within table_uses u_guess [r_decl; r_choice; r_pkgname] /\ used_as table_uses u_guess r_choice.
Proof. exact hints_tied. Qed.

(* The same guarantee for the table the gennames tool prints on this toolchain. *)
Theorem C18_gennames_true : gennames_problems = [] /\ forall p n real,
  In (p, n) gennames_table -> alookup p goroot_packages = Some real -> n = real.
Proof.
  split; [exact (proj2 gennames_true)|].
  intros p n real. exact (table_true_spec gennames_table p n real (proj1 gennames_true)).
Qed.

(* First reference to a path the user gave no hint for, in any table and under any prefix:
   the stored entry either has an explicit alias (then every reference is qualified by that
   alias, C03), or it is written without alias and the qualifier is the table's name - which
   for a package of the toolchain is its real declared name.  A path missing from the
   table always gets an explicit alias: a guessed name is never trusted. *)
Theorem C18_register_std : forall cfg t path t' q,
  is_local cfg path = false -> registered_name t path = None -> path <> s_C ->
  alookup path (cfg_hints cfg) = None ->
  register cfg t path = Ok (t', q) ->
  exists d, alookup path t' = Some d /\ id_name d = q /\
    (id_alias d = false -> forall real, alookup path goroot_packages = Some real -> q = real) /\
    (std_hint path = [] -> id_alias d = true).
Proof.
  intros cfg t path t' q Hl Hk HC Hh Hr.
  destruct (register_unhinted cfg t path t' q Hl Hk HC Hh Hr) as (d & H1 & H2 & H3 & H4).
  exists d. split; [exact H1|]. split; [exact H2|]. split; [|exact H4].
  intros Ha real Hreal. destruct (H3 Ha) as [-> Hne]. apply std_hint_true; assumption.
Qed.

(* Non-vacuity and collisions: math/rand and crypto/rand in both orders. *)
Example C18_example :
  let cfg := mkcfg [] [] [] in
  let run ps := map (fun e => (fst e, id_name (snd e), id_alias (snd e)))
                    (fold_left nstep (map (NReg cfg) ps) []) in
  run [S "math/rand"; S "crypto/rand"] = [(S "math/rand", S "rand", false); (S "crypto/rand", S "rand1", true)] /\
  run [S "crypto/rand"; S "math/rand"] = [(S "crypto/rand", S "rand", false); (S "math/rand", S "rand1", true)] /\
  alookup (S "math/rand") goroot_packages = Some (S "rand").
Proof. vm_compute. repeat split; reflexivity. Qed.
