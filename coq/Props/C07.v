(* C07: output is deterministic.  A Go map is modelled as an association list whose order is
   the iteration order the runtime happens to choose; "for every iteration order" is a
   universally quantified Permutation. *)
From Jen Require Import Base.Bytes Base.Sort Model.Code Model.Naming Model.Render Model.FileRender Gen.Tables.
From Jen Require Import Proofs.TagProofs Proofs.DictProofs Proofs.ImportsProofs.
From Coq Require Import Permutation.

(* struct tags *)
Theorem C07_tag_perm : forall kvs kvs',
  NoDup (map fst kvs) -> Permutation kvs kvs' -> tag_text kvs = tag_text kvs'.
Proof. exact tag_text_perm. Qed.

(* Dict: any two iteration orders give the same bytes and table, when the surviving keys
   render to pairwise distinct texts and are settled (do not register new imports while
   being rendered; see the refutation below for why this is needed) *)
Theorem C07_dict_perm : forall cfg t txt ctx pairs pairs',
  settled cfg t txt pairs -> Permutation pairs pairs' ->
  NoDup (map (fun kv => txt (fst kv)) (filter (live cfg t) pairs)) ->
  render cfg ctx t (CDict pairs) = render cfg ctx t (CDict pairs').
Proof. exact dict_perm. Qed.

(* the import block is a function of the set of entries of the import table *)
Theorem C07_imports_perm : forall t t' cgo,
  NoDup (akeys t) -> Permutation t t' -> render_imports t cgo = render_imports t' cgo.
Proof. exact render_imports_perm. Qed.

(* every lookup in the hint map and in the import table is order-independent ... *)
Theorem C07_lookup_perm : forall (m m' : table) k,
  NoDup (akeys m) -> Permutation m m' -> alookup k m = alookup k m'.
Proof. intros m m' k. exact (alookup_perm m m' k). Qed.

(* ... and so is the test whether a candidate name is already taken *)
Theorem C07_valid_alias_perm : forall t t' a, Permutation t t' -> is_valid_alias t a = is_valid_alias t' a.
Proof. exact is_valid_alias_perm. Qed.

(* The recorded finding: Dict keys that register NEW imports competing for one name are
   rendered (into a scratch buffer) in iteration order, so two orders give different files. *)
Theorem C07_dict_perm_refuted : exists cfg pairs pairs',
  Permutation pairs pairs' /\
  render cfg false [] (CDict pairs) <> render cfg false [] (CDict pairs').
Proof.
  exists (mkcfg [] [] []).
  exists [(CGroup 1 (S "qual") [] [] (S ".") false [CTok (TkPkg (S "a.b/x")); CTok (TkId (S "A"))], CStmt [CTok (TkLit (LInt 1))]);
          (CGroup 2 (S "qual") [] [] (S ".") false [CTok (TkPkg (S "c.d/x")); CTok (TkId (S "B"))], CStmt [CTok (TkLit (LInt 2))])].
  exists [(CGroup 2 (S "qual") [] [] (S ".") false [CTok (TkPkg (S "c.d/x")); CTok (TkId (S "B"))], CStmt [CTok (TkLit (LInt 2))]);
          (CGroup 1 (S "qual") [] [] (S ".") false [CTok (TkPkg (S "a.b/x")); CTok (TkId (S "A"))], CStmt [CTok (TkLit (LInt 1))])].
  split; [apply perm_swap|]. vm_compute. intros H. discriminate.
Qed.

(* Non-vacuity of the Dict theorem: keys that are qualified identifiers of an already
   imported package are settled. *)
Example C07_example :
  let cfg := mkcfg [] [] [] in
  let t := [(S "a.b/x", mkdef (S "x") true)] in
  let q n := CGroup 1 (S "qual") [] [] (S ".") false [CTok (TkPkg (S "a.b/x")); CTok (TkId n)] in
  let pairs := [(q (S "B"), CStmt [CTok (TkLit (LInt 2))]); (q (S "A"), CStmt [CTok (TkLit (LInt 1))])] in
  render cfg false t (CDict pairs) = render cfg false t (CDict (rev pairs)) /\
  render cfg false t (CDict pairs) = Ok (t, [x0a] ++ S "x.A:1," ++ [x0a] ++ S "x.B:2," ++ [x0a]).
Proof. vm_compute. split; reflexivity. Qed.
