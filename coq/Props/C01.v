(* C01: faithful rendering - any Go program built through the DSL re-parses to itself.
   Statements only; proofs are lemmas of Proofs/EmitProofs.v, Proofs/SyntaxProofs.v and
   Proofs/CommentProofs.v.

   WHAT IS AND WHAT IS NOT THEOREM.  The property ends in Go's parser ("the output re-parses
   to the original syntax tree").  go/parser is not a Coq function here, so that last step is
   decided, on every case, by the harness oracle (harness/props/c01.go: go/parser on what the
   implementation wrote, node-by-node comparison with the source tree; the extracted model is
   compared byte for byte with the implementation on the same cases).  What is proved here is
   the jennifer-specific content of the property, for EVERY tree, arity and nesting depth:

     C01_table_conforms, C01_tables_agree, C01_func_variants_agree, C01_tokens_conform,
     C01_keywords_covered, C01_universe_covered     - the tables of constructs, as generated
                                                      from the source on every run, against a
                                                      reference written from the Go spec;
     C01_group_is_spec, C01_statement_is_spec,
     C01_render_is_spec, C01_render_settled         - what a group / statement writes: the
                                                      emit spec, generic and per table row;
     C01_file_layout                                - the assembly of a file;
     C01_bracket_counts_equal                       - a necessary condition for parsing.

   They are PARTIAL with respect to the property's statement in exactly this sense: that the
   reference concrete syntax, so assembled, parses back to the tree it was built from is
   Go's grammar and is left to the oracle. *)
From Jen Require Import Base.Bytes Model.Code Model.Naming Model.Render Model.FileRender Model.Exec.
From Jen Require Import Gen.Tables Gen.Goroot Spec.GoSyntax.
From Jen Require Import Proofs.NamingProofs Proofs.NullProofs Proofs.CommentProofs Proofs.EmitProofs Proofs.SyntaxProofs.

(* ------------------------------------------------------------------ the tables *)
(* Every row of the hand-written reference table of Go's delimited constructs
   (Spec/GoSyntax.v go_syntax: Call `(` `,` `)`, Index `[` `:` `]`, If `if ` `;`, Case `case `
   `,` `:`, Block `{` `}` multi-line, ... 37 constructs) occurs in the table compiled into
   jennifer (jen/generated.go, extracted on every run) under the same method name, with the
   internal name = the method in lower case (the renderer's special cases test the names
   block, case, types, values) and identical opener, closer, separator and multi-line flag.
   Extra constructs in jennifer's table are allowed. *)
Theorem C01_table_conforms : forall s, In s go_syntax ->
  exists g, In g group_table /\
    gr_method g = sy_method s /\ gr_name g = to_lower (sy_method s) /\
    gr_open g = sy_open s /\ gr_close g = sy_close s /\ gr_sep g = sy_sep s /\
    gr_multi g = sy_multi s /\ gr_func g = false.
Proof. exact table_conforms. Qed.

(* What is compiled (jen/generated.go) equals what the generator's data says
   (genjen/data.go), for groups and for one-token constructs; and the extractor met nothing
   that it could not read.  Since the fourth referee "read" is exact: EVERY declaration of
   jen/generated.go is a function whose body is literally one of the five shapes that
   genjen/render.go emits, instantiated from the row - for a Statement method one literal
   (&Group with items = the variadic parameter or []Code of all parameters in order, name,
   open, close, separator, multi; or token with typ, content), the callback call f(g) for a
   Func variant, ONE append of that variable to the receiver, return of the receiver, and
   nothing else; the package function and the Group method of the same name delegate to it
   with exactly their parameters - and no init function exists and nothing assigns to or
   takes the address of `reserved` / `standardLibraryHints` (tools/cmd/tables2coq header,
   rules 1 and 5).  A construct written in any other way, for instance through a helper, is a
   problem here and its row is missing from group_table. *)
Theorem C01_tables_agree :
  group_table = data_group_table /\ token_table = data_token_table /\ table_problems = [].
Proof. exact tables_agree. Qed.

(* Method names are unique: the case interpreter finds every row under its method. *)
Theorem C01_methods_unique :
  Forall (fun g => find_group (gr_method g) = Some g) group_table /\
  Forall (fun r => find_token (tr_method r) = Some r) token_table.
Proof. exact methods_unique. Qed.

(* Every XFunc row builds the same Group (name, opener, closer, separator, multi) as X. *)
Theorem C01_func_variants_agree : forall g, In g group_table -> gr_func g = true ->
  exists p, In p group_table /\ gr_func p = false /\ gr_method g = gr_method p ++ S "Func" /\
    gr_name g = gr_name p /\ gr_open g = gr_open p /\ gr_close g = gr_close p /\
    gr_sep g = gr_sep p /\ gr_multi g = gr_multi p.
Proof. exact func_variants_agree. Qed.

(* Every one-token construct writes exactly the Go token it is named after: its text is the
   method name in lower case (Break -> break); it is a keyword token iff the text is one of
   Go's keywords (the list of the installed go/token), else an identifier token whose text is
   predeclared in Go's universe block - or `err`, the README's helper; rendering writes the
   text unchanged, except that `default` is written `default:`. *)
Theorem C01_tokens_conform : forall r, In r token_table ->
  tr_text r = to_lower (tr_method r) /\
  ((In (tr_text r) go_keywords /\ tr_type r = s_kw /\ token_of_row r = TkText (tr_text r)) \/
   (~ In (tr_text r) go_keywords /\ tr_type r = s_idt /\ token_of_row r = TkId (tr_text r) /\
    (In (tr_text r) go_universe \/ In (tr_text r) conventional_identifiers))) /\
  forall cfg t, render_token cfg t (token_of_row r) =
                Ok (t, if str_eqb (tr_text r) s_default then S "default:" else tr_text r).
Proof. exact tokens_conform. Qed.

Theorem C01_default_has_colon : forall cfg t,
  render_token cfg t (TkText (S "default")) = Ok (t, S "default:").
Proof. exact default_has_colon. Qed.

(* Each of Go's 25 keywords has its place: a keyword token, the opener of a group (`if `,
   `for `, `switch `, `case `, `return `, `map[`, `struct{`, `interface{`) or the File
   (`package`, `import`); and the keyword list of the installed Go is the one of the spec. *)
Theorem C01_keywords_covered :
  forallb keyword_home go_keywords = true /\
  forallb (fun k => mem k go_keywords) spec_keywords = true /\
  forallb (fun k => mem k spec_keywords) go_keywords = true.
Proof. exact keywords_covered. Qed.

(* Each predeclared identifier of the installed Go has a construct: an identifier token or a
   built-in call `name(`. *)
Theorem C01_universe_covered : forallb universe_home go_universe = true.
Proof. exact universe_covered. Qed.

(* ------------------------------------------------------------------ the emit spec *)
(* [item_texts cfg rec t items t' xs] (Proofs/CommentProofs.v): xs are the texts the
   renderer produced for exactly the items that were not null when the loop reached them, in
   order; t' is the import table afterwards.  [group_text sep multi first xs] is the text:
   for each x in xs, the separator (not before the first item written), a newline if
   multi-line, then x.  The items loop of a group is that function of its non-null items. *)
Theorem C01_group_loop_emit : forall cfg rec name sep multi n l t first t' isnull text,
  group_loop cfg rec name sep multi n t first l = Ok (t', isnull, text) ->
  exists xs, item_texts cfg rec t l t' xs /\ text = group_text sep multi first xs /\
             isnull = (first && is_nil xs).
Proof. exact group_loop_emit. Qed.

(* the text is an intercalation: the items (each after its newline if multi-line) joined by
   the separator - one separator between any two neighbours, none before or after *)
Theorem C01_emit_is_join : forall sep multi xs,
  group_text sep multi true xs = join sep (map (item_pre multi) xs).
Proof. exact group_text_join. Qed.

(* counted on the bytes: besides the item texts, k - 1 separators and (multi-line) k newlines *)
Theorem C01_emit_separator_count : forall sep multi first xs,
  length (group_text sep multi first xs) =
  length (concat_str xs) + (length xs - (if first then 1 else 0)) * length sep +
  (if multi then length xs else 0).
Proof. exact emit_separator_count. Qed.

(* Any Group - every construct of the table and every Custom option set: opener, emitted
   items, line end before a non-empty closer of a multi-line group that wrote something
   (`,` + newline when the separator is the comma), closer.  A `block` directly after
   case/default in its statement ([ctx]) loses its braces for this render; a `types` group
   whose items are all null writes nothing. *)
Theorem C01_group_is_spec : forall cfg ctx t gid name o cl sep multi items t' out,
  render cfg ctx t (CGroup gid name o cl sep multi items) = Ok (t', out) ->
  let blank := str_eqb name s_block && ctx in
  let o' := if blank then [] else o in
  let cl' := if blank then [] else cl in
  (str_eqb name s_types && forallb (is_null cfg t) items = true /\ t' = t /\ out = []) \/
  (str_eqb name s_types && forallb (is_null cfg t) items = false /\
   exists xs, item_texts cfg (render cfg) t items t' xs /\
     out = o' ++ group_text sep multi true xs ++ closer sep multi cl' xs ++ cl').
Proof. exact render_group_emit. Qed.

(* Any Statement: the texts of its non-null items joined by single spaces. *)
Theorem C01_statement_is_spec : forall cfg ctx t items t' out,
  render cfg ctx t (CStmt items) = Ok (t', out) ->
  exists xs, stmt_texts cfg (render cfg) items t items t' xs /\ out = join (S " ") xs.
Proof. exact render_stmt_emit. Qed.

(* The same, instantiated by the kernel with each row of the GENERATED table: one-line
   constructs write opener ++ items joined by the row's separator ++ closer; multi-line
   constructs (none has a separator) write opener, newline + text per item, a newline before
   a non-empty closer if anything was written, closer. *)
Theorem C01_render_is_spec : forall row, In row group_table ->
  forall cfg ctx t gid items t' out,
  render cfg ctx t (group_of_row gid row items) = Ok (t', out) ->
  let blank := str_eqb (gr_name row) s_block && ctx in
  let o := if blank then [] else gr_open row in
  let cl := if blank then [] else gr_close row in
  (gr_name row = s_types /\ forallb (is_null cfg t) items = true /\ t' = t /\ out = []) \/
  exists xs, item_texts cfg (render cfg) t items t' xs /\
    out = o ++ (if gr_multi row
                then concat_str (map (fun x => x0a :: x) xs) ++
                     (if negb (is_nil xs) && nonempty cl then [x0a] else [])
                else join (gr_sep row) xs) ++ cl.
Proof. exact render_row_spec. Qed.

(* In closed form when the written items are settled at the table (they render without
   registering an import: literals, identifiers, keywords, operators, calls of such,
   qualified identifiers of packages already imported; [txt] gives their texts): a one-line
   construct is opener ++ (texts of the items that are not null, in order, joined by the
   separator) ++ closer, and the table is untouched. *)
Theorem C01_render_settled : forall row, In row group_table -> gr_multi row = false ->
  forall cfg t txt ctx gid items,
  settled_items cfg t txt items -> no_values_panic cfg t (gr_name row) (length items) items ->
  let live := filter (live_item cfg t) items in
  let blank := str_eqb (gr_name row) s_block && ctx in
  render cfg ctx t (group_of_row gid row items) =
  Ok (t, if str_eqb (gr_name row) s_types && is_nil live then []
         else (if blank then [] else gr_open row) ++ join (gr_sep row) (map txt live) ++
              (if blank then [] else gr_close row)).
Proof. exact render_row_settled. Qed.

Theorem C01_statement_settled : forall cfg t txt ctx items,
  settled_stmt cfg t txt items ->
  render cfg ctx t (CStmt items) = Ok (t, join (S " ") (map txt (filter (live_item cfg t) items))).
Proof. exact render_stmt_settled. Qed.

(* Multi-line groups: every item text stands directly after a newline (any separator); for the
   separator-less multi-line groups (all of the table's, the File, a case body) what FOLLOWS
   each item is C15_multi_group_newline (Props/C15.v, CommentProofs.multi_group_layout). *)
Theorem C01_multi_item_after_newline : forall sep first xs1 x xs2,
  group_text sep true first (xs1 ++ x :: xs2) =
  (group_text sep true first xs1 ++ (if first && is_nil xs1 then [] else sep)) ++ [x0a] ++ x ++
  group_text sep true false xs2.
Proof. exact group_text_multi_split. Qed.

(* ------------------------------------------------------------------ the file *)
(* The text handed to the formatter: header comments each on its line followed by an empty
   line (only if there are any), package comments each on its line, `package <name>`
   [` // import <quoted canonical path>`] and an empty line (these three: header_block,
   comment_lines, package_clause of Proofs/CommentProofs.v), the import block computed from
   the table as it is AFTER the body was rendered (render_imports: Props/C07.v, C19.v), then
   the body: the file's non-null items, each preceded by a newline. *)
Theorem C01_file_layout : forall f t raw,
  file_raw f = Ok (t, raw) ->
  exists xs, item_texts (file_cfg f) (render (file_cfg f)) (f_imports f) (f_items f) t xs /\
    raw = header_block (f_headers f) ++ comment_lines (f_comments f) ++ package_clause f ++
          render_imports t (f_cgo f) ++ concat_str (map (fun x => x0a :: x) xs).
Proof. exact file_raw_layout. Qed.

(* ------------------------------------------------------------------ brackets *)
(* Openers and closers of every row of the table are balanced pairs; separators hold no bracket. *)
Theorem C01_delimiters_balanced :
  forallb (fun g => brackets_match (gr_open g ++ gr_close g) && brackets_match (gr_sep g)) group_table = true.
Proof. exact delimiters_balanced. Qed.

(* A necessary condition for parsing that holds for EVERY tree, arity and depth: if every
   group in the tree has balanced delimiters (true of every construct of the table:
   C01_row_brackets_ok) and every leaf text - identifier, keyword, operator, literal, tag,
   comment - has as many `(` as `)`, `[` as `]`, `{` as `}` ([brackets_ok]; package tokens are
   free: their text is the registered name), then from any import table satisfying the naming
   invariants of C05 (the empty table of a new File; every table reached by rendering, Anon
   ...), under hints that are identifiers, the output has equal counts of each bracket
   kind - and the table still satisfies the invariants.
   (Counts, not nesting order; string literals and comments that contain unmatched brackets
   are outside [brackets_ok]: excluding their text needs the lexer of C15.) *)
Theorem C01_bracket_counts_equal : forall cfg, cfg_ok cfg ->
  forall c, brackets_ok c = true ->
  forall ctx t t' out, Inv t -> Legal t -> render cfg ctx t c = Ok (t', out) ->
    brackets_match out = true /\ Inv t' /\ Legal t'.
Proof. exact bracket_counts_equal. Qed.

Theorem C01_row_brackets_ok : forall row gid items, In row group_table ->
  forallb brackets_ok items = true -> brackets_ok (group_of_row gid row items) = true.
Proof. exact row_brackets_ok. Qed.

(* ------------------------------------------------------------------ non-vacuity *)
Definition ex_cfg : config := mkcfg [] [] [].
Definition ex_id (s : str) : code := CStmt [CTok (TkId s)].
Definition ex_txt (c : code) : str :=
  match render ex_cfg false [] c with Ok (_, s) => s | Panic _ => [] end.

(* settled items exist: identifiers, Empty(), nil, Null() at the empty table *)
Example C01_example_settled :
  let items := [ex_id (S "a"); CNil; CTok (TkText []); CTok TkNull; ex_id (S "b")] in
  settled_items ex_cfg [] ex_txt items /\
  no_values_panic ex_cfg [] (S "index") (length items) items /\
  render ex_cfg false [] (CGroup 1%N (S "index") (S "[") (S "]") (S ":") false items) = Ok ([], S "[a::b]").
Proof.
  cbv zeta. split; [|split].
  - intros c Hin. cbn [In] in Hin.
    destruct Hin as [<-|[<-|[<-|[<-|[<-|[]]]]]]; (split; [exact I | intros Hn; vm_compute in Hn; first [discriminate Hn | vm_compute; reflexivity]]).
  - intros c _ _. reflexivity.
  - vm_compute. reflexivity.
Qed.

(* every construct of the table once, nested; a qualified identifier; a case block *)
Example C01_example_render :
  let g m gid items := match find_group m with Some r => group_of_row gid r items | None => CNil end in
  let q := CGroup 9%N (S "qual") [] [] (S ".") false [CTok (TkPkg (S "a.b/fmt")); CTok (TkId (S "P"))] in
  let sw := CStmt [g (S "Switch") 1%N [ex_id (S "x")];
                   g (S "Block") 2%N
                     [CStmt [g (S "Case") 3%N [ex_id (S "u"); ex_id (S "v")];
                             g (S "Block") 4%N [CStmt [q; g (S "Call") 5%N [ex_id (S "u"); CNil; ex_id (S "v")]]]];
                      CStmt [CTok (TkText (S "default")); g (S "Block") 6%N []]]] in
  brackets_ok sw = true /\
  render ex_cfg false [] sw =
  Ok ([(S "a.b/fmt", mkdef (S "fmt") true)],
      S "switch x {" ++ [x0a] ++ S "case u,v: " ++ [x0a] ++ S "fmt.P (u,v)" ++ [x0a] ++ S "default: " ++ [x0a] ++ S "}").
Proof. vm_compute. split; reflexivity. Qed.

Example C01_example_file :
  let f := add_item (add_item (add_header (add_pkg_comment (new_file (S "p")) (S "doc")) (S "hdr"))
                     (ex_id (S "a"))) (CNil) in
  file_raw f = Ok ([], S "// hdr" ++ [x0a; x0a] ++ S "// doc" ++ [x0a] ++ S "package p" ++ [x0a; x0a; x0a] ++ S "a").
Proof. vm_compute. reflexivity. Qed.

(* hypotheses of C01_bracket_counts_equal are satisfiable: the empty configuration and table *)
Example C01_example_invariants : cfg_ok ex_cfg /\ Inv [] /\ Legal [].
Proof.
  split; [|split; [exact Inv_nil | exact Legal_nil]].
  split; [intros p h H; discriminate | left; reflexivity].
Qed.
