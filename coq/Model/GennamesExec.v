(* Cases of kind (gennames): the model of the gennames tool (Model/Gennames.v) run on a
   listing, i.e. on what a `go` executable printed for `go list -e -f ...`.

   A line
     (gennames) (opts <standard 0|1> <novendor 0|1> <filter>) (names x<package> x<variable>) <listing>
   with  <filter>  = all          the default -filter ".*" (matches every path)
                   | x<hex>       a literal: -filter regexp.QuoteMeta(literal), i.e. the path
                                  contains the literal
         <listing> = (out x<hex of the bytes `go list` printed on stdout>)
                   | (fail)       the command exits with a non-zero status
   yields always four observations
     (gn-outcome fail)                           go list failed: exit status 1, nothing written
   | (gn-outcome panic x<message>)               the tool panics (a selected line with < 3 fields)
   | (gn-outcome written)
     (gn-table (x<path> x<name>) ...)            the table, sorted by path (bytewise)
     (gn-order (x<path> x<name>) ...)            the same pairs in the order they are printed
     (gn-file x<source handed to go/format>)     the generated file before formatting
   (the last three are empty unless the outcome is `written`).  Any other shape of the line
   is a (badcase). *)
From Jen Require Export Model.Exec.
From Jen Require Import Base.Sort Model.Gennames.

Definition print_pairs (head : str) (l : list (str * str)) : str :=
  paren (head :: map (fun kv => paren [hex_of_str (fst kv); hex_of_str (snd kv)]) l).

Definition print_gn_written (what : str) (tbl : gn_table) (raw : str) : list str :=
  [what;
   print_pairs (S "gn-table") (isort_by fst tbl);
   print_pairs (S "gn-order") (gn_printed tbl);
   paren [S "gn-file"; hex_of_str raw]].

Definition print_gn_outcome (r : gn_outcome) : list str :=
  match r with
  | GnGoListFailed => print_gn_written (S "(gn-outcome fail)") [] []
  | GnPanic m => print_gn_written (paren [S "gn-outcome"; S "panic"; hex_of_str m]) [] []
  | GnWritten tbl raw => print_gn_written (S "(gn-outcome written)") tbl raw
  end.

Definition gn_filter_of (e : sexp) : option (str -> bool) :=
  if atom_is (S "all") e then Some (fun _ => true)
  else omap (fun lit path => contains lit path) (atom_str e).

Definition gn_listing_of (e : sexp) : option (option str) :=
  match e with
  | SList [Atom h] => if str_eqb h (S "fail") then Some None else None
  | SList [Atom h; x] => if str_eqb h (S "out") then omap Some (atom_str x) else None
  | _ => None
  end.

Definition run_gennames_case (ops : list sexp) : option (list str) :=
  match ops with
  | [SList [Atom ho; st; nv; fl]; SList [Atom hn; pkg; name]; listing] =>
    if str_eqb ho (S "opts") && str_eqb hn (S "names") then
      obind (atom_bool st) (fun st' => obind (atom_bool nv) (fun nv' => obind (gn_filter_of fl) (fun fl' =>
      obind (atom_str pkg) (fun pkg' => obind (atom_str name) (fun name' => obind (gn_listing_of listing) (fun l' =>
        Some (print_gn_outcome (gn_run (mkopts st' nv' fl') pkg' name' l'))))))))
    else None
  | _ => None
  end.
