(* The renderer: isNull / render of token, Group, Statement, Dict, tag, comment
   (jen/tokens.go group.go statement.go dict.go tag.go comments.go), implementation-shaped:
   one left-to-right traversal that threads the import table. *)
From Jen Require Export Model.Naming.
From Jen Require Import Base.Num Base.Sort Base.Utf8 GoStd.Quote GoStd.IsPrint.
Local Open Scope N_scope.

Definition GoQuote : str -> str := Quote go_is_print.
Definition GoQuoteRune : N -> str := QuoteRune go_is_print.

Definition nonempty (s : str) : bool := match s with [] => false | _ => true end.

(* ---- literals (tokens.go:44-76) ---- *)
Definition intkind_name (k : intkind) : str :=
  match k with KInt8 => S "int8" | KInt16 => S "int16" | KInt32 => S "int32" | KInt64 => S "int64" end.
Definition uintkind_name (k : uintkind) : str :=
  match k with
  | KUint => S "uint" | KUint8 => S "uint8" | KUint16 => S "uint16"
  | KUint32 => S "uint32" | KUint64 => S "uint64" | KUintptr => S "uintptr"
  end.

Definition float64_text (txt : str) : str :=
  if negb (contains_byte x2e txt) && negb (contains_byte x65 txt) then txt ++ S ".0" else txt.

Definition s_unsupported : str := S "unsupported type for literal: ".

Definition lit_text (l : lit) : result str :=
  match l with
  | LBool true => Ok (S "true")
  | LBool false => Ok (S "false")
  | LStr s => Ok (GoQuote s)
  | LInt z => Ok (Z_to_dec z)
  | LC128 txt => Ok txt
  | LF64 txt => Ok (float64_text txt)
  | LF32 txt => Ok (S "float32(" ++ txt ++ S ")")
  | LIntT k z => Ok (intkind_name k ++ S "(" ++ Z_to_dec z ++ S ")")
  | LUintT k n => Ok (uintkind_name k ++ S "(0x" ++ N_to_hex n ++ S ")")
  | LC64 txt => Ok (S "complex64" ++ txt)
  | LBad ty => Panic (s_unsupported ++ ty)
  end.

Definition rune_text (r : Z) : str :=
  GoQuoteRune (if (r <? 0)%Z then rune_error else Z.to_N r).

Definition byte_text (b : N) : str := S "byte(0x" ++ N_to_hex b ++ S ")".

(* ---- comments (comments.go:77-108) ---- *)
Definition comment_text (s : str) : str :=
  if has_prefix (S "//") s || has_prefix (S "/*") s then s
  else if contains_byte x0a s then
    S "/*" ++ [x0a] ++ s ++ (if has_suffix [x0a] s then [] else [x0a]) ++ S "*/"
  else S "// " ++ s.

(* ---- struct tags (tag.go:37-75) ---- *)
Definition tag_body (kvs : list (str * str)) : str :=
  join (S " ") (map (fun kv => fst kv ++ S ":" ++ GoQuote (snd kv)) (isort_by fst kvs)).

Definition tag_text (kvs : list (str * str)) : str :=
  match kvs with
  | [] => []
  | _ => let b := tag_body kvs in
         if CanBackquote b then [c_bq] ++ b ++ [c_bq] else GoQuote b
  end.

Definition s_default : str := S "default".
Definition s_block : str := S "block".
Definition s_case : str := S "case".
Definition s_types : str := S "types".
Definition s_values : str := S "values".
Definition s_comma : str := S ",".
Definition s_nl : str := [x0a].
Definition s_values_panic : str := S "Error in Values: if Dict is used, must be one item only".
Definition s_nilptr : str := S "runtime error: invalid memory address or nil pointer dereference".

(* group.go: the token that token.render writes as `default:` - a keyword / operator / layout /
   delimiter token whose content is "default".  (Before /repo's fix of the case-block rule the
   content alone was compared, whatever the token type: Lit("default") in front of a Block
   made the Block drop its braces.) *)
Definition tok_content_is_default (t : token) : bool :=
  match t with
  | TkText s => str_eqb s s_default
  | _ => false
  end.

Definition is_case_or_default (c : code) : bool :=
  match c with
  | CGroup _ name _ _ _ _ _ => str_eqb name s_case
  | CTok t => tok_content_is_default t
  | _ => false
  end.

(* Statement.previous: the item before the first occurrence of the group with identity [gid] *)
Fixpoint prev_of (gid : N) (prev : option code) (items : list code) : option code :=
  match items with
  | [] => None
  | x :: r =>
    match x with
    | CGroup g _ _ _ _ _ _ => if g =? gid then prev else prev_of gid (Some x) r
    | _ => prev_of gid (Some x) r
    end
  end.

Definition case_ctx (all : list code) (c : code) : bool :=
  match c with
  | CGroup gid _ _ _ _ _ _ =>
    match prev_of gid None all with Some p => is_case_or_default p | None => false end
  | _ => false
  end.

Definition is_dict (c : code) : bool := match c with CDict _ => true | _ => false end.

Section Render.
  Variable cfg : config.

  Fixpoint is_null (t : table) (c : code) : bool :=
    match c with
    | CNil | CNilStmt | CNilGroup => true
    | CTok (TkPkg p) => is_dot cfg t p || is_local cfg p
    | CTok TkNull => true
    | CTok _ => false
    | CGroup _ _ open close _ _ items =>
      if nonempty open || nonempty close then false else forallb (is_null t) items
    | CStmt items => forallb (is_null t) items
    | CDict pairs => forallb (fun kv => is_null t (fst kv) || is_null t (snd kv)) pairs
    | CTag kvs => match kvs with [] => true | _ => false end
    | CComment _ => false
    end.

  Definition render_token (t : table) (tk : token) : result (table * str) :=
    match tk with
    | TkPkg p => register cfg t p
    | TkId s => Ok (t, s)
    | TkText s => Ok (t, s ++ (if str_eqb s s_default then S ":" else []))
    | TkLit l => bind (lit_text l) (fun x => Ok (t, x))
    | TkRune r => Ok (t, rune_text r)
    | TkByte b => Ok (t, byte_text b)
    | TkNull => Ok (t, [])
    end.

  Definition renderer := bool -> table -> code -> result (table * str).

  (* Statement.render: non-null items joined by single spaces *)
  Definition stmt_loop (rec : renderer) (all : list code) :=
    fix loop (t : table) (first : bool) (l : list code) : result (table * str) :=
      match l with
      | [] => Ok (t, [])
      | c :: l' =>
        if is_null t c then loop t first l'
        else
          bind (rec (case_ctx all c) t c) (fun r1 =>
          bind (loop (fst r1) false l') (fun r2 =>
          Ok (fst r2, (if first then [] else S " ") ++ snd r1 ++ snd r2)))
      end.

  (* Group.renderItems; returns (table, isNull, text) *)
  Definition group_loop (rec : renderer) (name sep : str) (multi : bool) (nitems : nat) :=
    fix loop (t : table) (first : bool) (l : list code) : result (table * bool * str) :=
      match l with
      | [] => Ok (t, first, [])
      | c :: l' =>
        bind (match c with
              | CTok (TkPkg p) => bind (register cfg t p) (fun r => Ok (fst r))
              | _ => Ok t
              end) (fun t0 =>
        if is_null t0 c then loop t0 first l'
        else if str_eqb name s_values && is_dict c && Nat.ltb 1 nitems then Panic s_values_panic
        else
          bind (rec false t0 c) (fun r1 =>
          bind (loop (fst r1) false l') (fun r2 =>
          Ok (fst (fst r2), snd (fst r2),
              (if first then [] else sep) ++ (if multi then s_nl else []) ++ snd r1 ++ snd r2))))
      end.

  (* Dict.render, first pass: render the key of every live pair into a scratch buffer *)
  Definition dict_entry := (str * (table -> result (table * str)) * (table -> result (table * str)))%type.

  Definition dict_pass1 (rec : renderer) :=
    fix loop (t : table) (l : list (code * code)) : result (table * list dict_entry) :=
      match l with
      | [] => Ok (t, [])
      | kv :: l' =>
        if is_null t (fst kv) || is_null t (snd kv) then loop t l'
        else
          bind (rec false t (fst kv)) (fun r1 =>
          bind (loop (fst r1) l') (fun r2 =>
          Ok (fst r2, (snd r1, (fun t' => rec false t' (fst kv)), (fun t' => rec false t' (snd kv))) :: snd r2)))
      end.

  (* second pass over the entries sorted by key text *)
  Fixpoint dict_pass2 (several : bool) (t : table) (first : bool) (l : list dict_entry) : result (table * str) :=
    match l with
    | [] => Ok (t, [])
    | e :: l' =>
      bind (snd (fst e) t) (fun rk =>
      bind (snd e (fst rk)) (fun rv =>
      bind (dict_pass2 several (fst rv) false l') (fun r2 =>
      Ok (fst r2,
          (if first && several then s_nl else []) ++ snd rk ++ S ":" ++ snd rv ++
          (if several then S "," ++ s_nl else []) ++ snd r2))))
    end.

  Definition dict_key (e : dict_entry) : str := fst (fst e).

  Fixpoint render (ctx : bool) (t : table) (c : code) {struct c} : result (table * str) :=
    match c with
    | CNil | CNilStmt | CNilGroup => Panic s_nilptr
    | CTok tk => render_token t tk
    | CGroup gid name open close sep multi items =>
      if str_eqb name s_types && forallb (is_null t) items then Ok (t, [])
      else
        let blank := str_eqb name s_block && ctx in
        let o := if blank then [] else open in
        let cl := if blank then [] else close in
        bind (group_loop render name sep multi (length items) t true items) (fun r =>
        let t1 := fst (fst r) in
        let isnull := snd (fst r) in
        Ok (t1, o ++ snd r ++
                (if negb isnull && multi && nonempty cl
                 then (if str_eqb sep s_comma then s_comma ++ s_nl else s_nl) else []) ++ cl))
    | CStmt items => stmt_loop render items t true items
    | CDict pairs =>
      bind (dict_pass1 render t pairs) (fun r =>
      let sorted := isort_by dict_key (snd r) in
      dict_pass2 (Nat.ltb 1 (length sorted)) (fst r) true sorted)
    | CTag kvs => Ok (t, tag_text kvs)
    | CComment s => Ok (t, comment_text s)
    end.
End Render.
