(* L2: the frozen tree of Code values that rendering sees, and the File's naming state. *)
From Jen Require Export Base.Bytes.

Inductive intkind := KInt8 | KInt16 | KInt32 | KInt64.
Inductive uintkind := KUint | KUint8 | KUint16 | KUint32 | KUint64 | KUintptr.

(* content of a literalToken, by dynamic type.  Float and complex texts are what fmt's
   %#v prints for the value (an oracle supplied by the harness; see DESIGN.md section 3). *)
Inductive lit :=
| LBool (b : bool)
| LStr (s : str)
| LInt (z : Z)                      (* int *)
| LIntT (k : intkind) (z : Z)       (* int8 .. int64 *)
| LUintT (k : uintkind) (n : N)     (* uint .. uintptr *)
| LF64 (txt : str)
| LF32 (txt : str)
| LC128 (txt : str)
| LC64 (txt : str)
| LBad (tyname : str).              (* any other dynamic type: documented panic *)

Inductive token :=
| TkPkg (path : str)                (* packageToken *)
| TkId (s : str)                    (* identifierToken *)
| TkText (s : str)                  (* keyword / operator / layout / delimiter token *)
| TkLit (l : lit)
| TkRune (r : Z)                    (* literalRuneToken, an int32 *)
| TkByte (b : N)                    (* literalByteToken *)
| TkNull.

Inductive code :=
| CNil                              (* nil interface value *)
| CNilStmt                          (* typed nil pointer to Statement *)
| CNilGroup                         (* typed nil pointer to Group *)
| CTok (t : token)
| CGroup (gid : N) (name : str) (open close sep : str) (multi : bool) (items : list code)
| CStmt (items : list code)
| CDict (pairs : list (code * code))   (* a Go map: the list order is the iteration order *)
| CTag (kvs : list (str * str))        (* a Go map *)
| CComment (s : str).

(* induction principle with the nested lists exposed *)
Section CodeInd.
  Variable P : code -> Prop.
  Hypothesis Hnil : P CNil.
  Hypothesis Hnils : P CNilStmt.
  Hypothesis Hnilg : P CNilGroup.
  Hypothesis Htok : forall t, P (CTok t).
  Hypothesis Hgrp : forall gid name open close sep multi items,
      Forall P items -> P (CGroup gid name open close sep multi items).
  Hypothesis Hstmt : forall items, Forall P items -> P (CStmt items).
  Hypothesis Hdict : forall pairs,
      Forall (fun kv => P (fst kv) /\ P (snd kv)) pairs -> P (CDict pairs).
  Hypothesis Htag : forall kvs, P (CTag kvs).
  Hypothesis Hcom : forall s, P (CComment s).

  Fixpoint code_ind' (c : code) : P c :=
    match c with
    | CNil => Hnil
    | CNilStmt => Hnils
    | CNilGroup => Hnilg
    | CTok t => Htok t
    | CGroup gid name open close sep multi items =>
        Hgrp gid name open close sep multi items
          ((fix go (l : list code) : Forall P l :=
              match l with
              | [] => Forall_nil P
              | x :: l' => Forall_cons x (code_ind' x) (go l')
              end) items)
    | CStmt items =>
        Hstmt items
          ((fix go (l : list code) : Forall P l :=
              match l with
              | [] => Forall_nil P
              | x :: l' => Forall_cons x (code_ind' x) (go l')
              end) items)
    | CDict pairs =>
        Hdict pairs
          ((fix go (l : list (code * code)) : Forall (fun kv => P (fst kv) /\ P (snd kv)) l :=
              match l with
              | [] => Forall_nil _
              | (k, v) :: l' => Forall_cons (k, v) (conj (code_ind' k) (code_ind' v)) (go l')
              end) pairs)
    | CTag kvs => Htag kvs
    | CComment s => Hcom s
    end.
End CodeInd.

(* importdef and the per-File naming state *)
Record importdef := mkdef { id_name : str; id_alias : bool }.

Definition table := list (str * importdef).     (* File.imports / File.hints: Go maps *)

(* what rendering reads but never writes *)
Record config := mkcfg {
  cfg_path : str;            (* File.path *)
  cfg_prefix : str;          (* File.PackagePrefix *)
  cfg_hints : table          (* File.hints *)
}.

Inductive result (A : Type) :=
| Ok (a : A)
| Panic (msg : str).
Arguments Ok {A} a.
Arguments Panic {A} msg.

Definition bind {A B} (r : result A) (f : A -> result B) : result B :=
  match r with Ok a => f a | Panic m => Panic m end.
