(* The case reader and interpreter: one ASCII line describing a history is parsed (in
   Gallina), executed on the model, and the observations are printed in the same syntax.
   This is the function that is extracted to OCaml and also evaluated by vm_compute. *)
From Jen Require Export Model.FileRender.
From Jen Require Import Base.Num Base.Sort GoStd.Quote Gen.Tables.
Local Open Scope N_scope.

Inductive sexp :=
| Atom (a : str)
| SList (l : list sexp).

(* ---- reading ---- *)
(* linear-time reversal (List.rev is quadratic, which matters for 100 KB atoms) *)
Definition frev {A} (l : list A) : list A := rev_append l [].
Definition push_atom (cur : str) (top : list sexp) : list sexp :=
  match cur with [] => top | _ => Atom (frev cur) :: top end.

(* cur: current atom reversed; top: current list reversed; stack: enclosing lists reversed *)
Fixpoint parse_sexp (s : str) (cur : str) (top : list sexp) (stack : list (list sexp)) : option (list sexp) :=
  match s with
  | [] => match stack with [] => Some (frev (push_atom cur top)) | _ => None end
  | c :: s' =>
    if beq c x20 then parse_sexp s' [] (push_atom cur top) stack
    else if beq c x28 then parse_sexp s' [] [] (push_atom cur top :: stack)
    else if beq c x29 then
      match stack with
      | [] => None
      | up :: stack' => parse_sexp s' [] (SList (frev (push_atom cur top)) :: up) stack'
      end
    else parse_sexp s' (c :: cur) top stack
  end.

Definition read_line (s : str) : option (list sexp) := parse_sexp s [] [] [].

Fixpoint unhex_pairs (s : str) : option str :=
  match s with
  | [] => Some []
  | h1 :: h2 :: t =>
    match unhex h1, unhex h2, unhex_pairs t with
    | Some a, Some b, Some r => Some (n2b (a * 16 + b) :: r)
    | _, _, _ => None
    end
  | _ => None
  end.

(* an atom "x<hex pairs>" denotes a byte string *)
Definition atom_str (e : sexp) : option str :=
  match e with
  | Atom (x78 :: h) => unhex_pairs h
  | _ => None
  end.
Definition atom_N (e : sexp) : option N := match e with Atom a => dec_to_N a | _ => None end.
Definition atom_Z (e : sexp) : option Z := match e with Atom a => dec_to_Z a | _ => None end.
Definition atom_bool (e : sexp) : option bool :=
  match e with
  | Atom [x30] => Some false
  | Atom [x31] => Some true
  | _ => None
  end.
Definition atom_is (name : str) (e : sexp) : bool :=
  match e with Atom a => str_eqb a name | _ => false end.

Definition omap {A B} (f : A -> B) (o : option A) : option B := option_map f o.
Definition obind {A B} (o : option A) (f : A -> option B) : option B :=
  match o with Some a => f a | None => None end.

Fixpoint all_some {A} (l : list (option A)) : option (list A) :=
  match l with
  | [] => Some []
  | Some a :: l' => omap (cons a) (all_some l')
  | None :: _ => None
  end.

Definition find_group (m : str) : option group_row :=
  find (fun r => str_eqb (gr_method r) m) group_table.
Definition find_token (m : str) : option token_row :=
  find (fun r => str_eqb (tr_method r) m) token_table.

Definition token_of_row (r : token_row) : token :=
  if str_eqb (tr_type r) (S "identifierToken") then TkId (tr_text r) else TkText (tr_text r).

Definition intkind_of (a : str) : option intkind :=
  if str_eqb a (S "int8") then Some KInt8 else if str_eqb a (S "int16") then Some KInt16
  else if str_eqb a (S "int32") then Some KInt32 else if str_eqb a (S "int64") then Some KInt64 else None.
Definition uintkind_of (a : str) : option uintkind :=
  if str_eqb a (S "uint") then Some KUint else if str_eqb a (S "uint8") then Some KUint8
  else if str_eqb a (S "uint16") then Some KUint16 else if str_eqb a (S "uint32") then Some KUint32
  else if str_eqb a (S "uint64") then Some KUint64 else if str_eqb a (S "uintptr") then Some KUintptr else None.

Definition dlit (h : str) (args : list sexp) : option lit :=
  match args with
  | [a] =>
    if str_eqb h (S "lb") then omap LBool (atom_bool a)
    else if str_eqb h (S "ls") then omap LStr (atom_str a)
    else if str_eqb h (S "li") then omap LInt (atom_Z a)
    else if str_eqb h (S "lf64") then omap LF64 (atom_str a)
    else if str_eqb h (S "lf32") then omap LF32 (atom_str a)
    else if str_eqb h (S "lc128") then omap LC128 (atom_str a)
    else if str_eqb h (S "lc64") then omap LC64 (atom_str a)
    else if str_eqb h (S "lbad") then omap LBad (atom_str a)
    else None
  | [Atom k; a] =>
    if str_eqb h (S "lit") then obind (intkind_of k) (fun k' => omap (LIntT k') (atom_Z a))
    else if str_eqb h (S "lut") then obind (uintkind_of k) (fun k' => omap (LUintT k') (atom_N a))
    else None
  | _ => None
  end.

Definition dpair_str (e : sexp) : option (str * str) :=
  match e with
  | SList [a; b] => obind (atom_str a) (fun x => omap (fun y => (x, y)) (atom_str b))
  | _ => None
  end.

Definition is_lit_head (h : str) : bool :=
  match h with x6c :: _ => negb (str_eqb h (S "lay")) | _ => false end.

Fixpoint dcode (e : sexp) : option code :=
  match e with
  | Atom a =>
    if str_eqb a (S "nil") then Some CNil
    else if str_eqb a (S "nils") then Some CNilStmt
    else if str_eqb a (S "nilg") then Some CNilGroup
    else if str_eqb a (S "null") then Some (CTok TkNull)
    else None
  | SList (Atom h :: args) =>
    let dlist := fix dlist (l : list sexp) : option (list code) :=
                   match l with
                   | [] => Some []
                   | x :: l' => match dcode x, dlist l' with
                                | Some c, Some cs => Some (c :: cs)
                                | _, _ => None
                                end
                   end in
    if str_eqb h (S "id") then match args with [a] => omap (fun s => CTok (TkId s)) (atom_str a) | _ => None end
    else if str_eqb h (S "tx") then match args with [a] => omap (fun s => CTok (TkText s)) (atom_str a) | _ => None end
    else if str_eqb h (S "pk") then match args with [a] => omap (fun s => CTok (TkPkg s)) (atom_str a) | _ => None end
    else if str_eqb h (S "c") then
      match args with [Atom m] => omap (fun r => CTok (token_of_row r)) (find_token m) | _ => None end
    else if str_eqb h (S "lr") then match args with [a] => omap (fun z => CTok (TkRune z)) (atom_Z a) | _ => None end
    else if str_eqb h (S "lby") then match args with [a] => omap (fun n => CTok (TkByte n)) (atom_N a) | _ => None end
    else if is_lit_head h then omap (fun l => CTok (TkLit l)) (dlit h args)
    else if str_eqb h (S "q") then
      match args with
      | [g; p; n] =>
        obind (atom_N g) (fun gid => obind (atom_str p) (fun path => omap (fun name =>
          CGroup gid (S "qual") [] [] (S ".") false [CTok (TkPkg path); CTok (TkId name)]) (atom_str n)))
      | _ => None
      end
    else if str_eqb h (S "g") then
      match args with
      | Atom m :: g :: items =>
        obind (find_group m) (fun r => obind (atom_N g) (fun gid => omap (fun cs =>
          CGroup gid (gr_name r) (gr_open r) (gr_close r) (gr_sep r) (gr_multi r) cs) (dlist items)))
      | _ => None
      end
    else if str_eqb h (S "cu") then
      match args with
      | g :: o :: c :: sp :: m :: items =>
        obind (atom_N g) (fun gid => obind (atom_str o) (fun o' => obind (atom_str c) (fun c' =>
        obind (atom_str sp) (fun sp' => obind (atom_bool m) (fun m' => omap (fun cs =>
          CGroup gid (S "custom") o' c' sp' m' cs) (dlist items))))))
      | _ => None
      end
    else if str_eqb h (S "s") then omap CStmt (dlist args)
    else if str_eqb h (S "d") then
      omap CDict
        ((fix dpairs (l : list sexp) : option (list (code * code)) :=
            match l with
            | [] => Some []
            | SList [k; v] :: l' =>
              match dcode k, dcode v, dpairs l' with
              | Some k', Some v', Some r => Some ((k', v') :: r)
              | _, _, _ => None
              end
            | _ => None
            end) args)
    else if str_eqb h (S "tag") then omap CTag (all_some (map dpair_str args))
    else if str_eqb h (S "cm") then match args with [a] => omap CComment (atom_str a) | _ => None end
    else None
  | _ => None
  end.

(* ---- printing ---- *)
Definition hex_of_str (s : str) : str := x78 :: flat_map (fun b => hex2 (b2n b)) s.
Definition paren (l : list str) : str := S "(" ++ join (S " ") l ++ S ")".
Definition bool_atom (b : bool) : str := if b then S "1" else S "0".

Definition print_outcome (noformat : bool) (o : outcome) : str :=
  match o with
  | OPanic m => paren [S "panic"; hex_of_str m]
  | OFormatErr raw => paren [S "fmterr"; hex_of_str raw]
  | OWrite out failed => paren [S "write"; (if noformat then S "raw" else S "fmt"); hex_of_str out; bool_atom failed]
  end.

Definition print_save (o : save_outcome) : str :=
  match o with
  | SPanic m => paren [S "panic"; hex_of_str m]
  | SRenderErr raw => paren [S "fmterr"; hex_of_str raw]
  | SWrite path out failed => paren [S "save"; hex_of_str path; hex_of_str out; bool_atom failed]
  end.

Definition print_imports (t : table) : str :=
  paren (S "imports" ::
         map (fun e => paren [hex_of_str (fst e); hex_of_str (id_name (snd e)); bool_atom (id_alias (snd e))])
             (isort_by fst t)).

(* ---- interpreter ---- *)
Definition world := list (N * file).

Fixpoint wget (w : world) (i : N) : option file :=
  match w with
  | [] => None
  | (j, f) :: w' => if i =? j then Some f else wget w' i
  end.
Fixpoint wset (w : world) (i : N) (f : file) : world :=
  match w with
  | [] => [(i, f)]
  | (j, g) :: w' => if i =? j then (i, f) :: w' else (j, g) :: wset w' i f
  end.

(* In the model the formatter is the identity: the harness applies go/format to the
   printed text itself (DESIGN.md 2.1); the write-fault flag comes with the operation. *)
Definition id_fmt (s : str) : option str := Some s.

Definition with_file (w : world) (fe : sexp) (k : N -> file -> option (world * list str)) : option (world * list str) :=
  obind (atom_N fe) (fun i => obind (wget w i) (fun f => k i f)).

Definition upd (w : world) (i : N) (f : file) : option (world * list str) := Some (wset w i f, []).

Definition step (w : world) (op : sexp) : option (world * list str) :=
  match op with
  | SList (Atom h :: args) =>
    if str_eqb h (S "newfile") then
      match args with [fe; n] => obind (atom_N fe) (fun i => obind (atom_str n) (fun n' => upd w i (new_file n'))) | _ => None end
    else if str_eqb h (S "newfilepath") then
      match args with [fe; p] => obind (atom_N fe) (fun i => obind (atom_str p) (fun p' => upd w i (new_file_path p'))) | _ => None end
    else if str_eqb h (S "newfilepathname") then
      match args with
      | [fe; p; n] => obind (atom_N fe) (fun i => obind (atom_str p) (fun p' => obind (atom_str n) (fun n' => upd w i (new_file_path_name p' n'))))
      | _ => None
      end
    else if str_eqb h (S "prefix") then
      match args with [fe; a] => with_file w fe (fun i f => obind (atom_str a) (fun a' => upd w i (set_prefix f a'))) | _ => None end
    else if str_eqb h (S "noformat") then
      match args with [fe; a] => with_file w fe (fun i f => obind (atom_bool a) (fun a' => upd w i (set_noformat f a'))) | _ => None end
    else if str_eqb h (S "canonical") then
      match args with [fe; a] => with_file w fe (fun i f => obind (atom_str a) (fun a' => upd w i (set_canonical f a'))) | _ => None end
    else if str_eqb h (S "header") then
      match args with [fe; a] => with_file w fe (fun i f => obind (atom_str a) (fun a' => upd w i (add_header f a'))) | _ => None end
    else if str_eqb h (S "pkgcomment") then
      match args with [fe; a] => with_file w fe (fun i f => obind (atom_str a) (fun a' => upd w i (add_pkg_comment f a'))) | _ => None end
    else if str_eqb h (S "cgo") then
      match args with [fe; a] => with_file w fe (fun i f => obind (atom_str a) (fun a' => upd w i (add_cgo f a'))) | _ => None end
    else if str_eqb h (S "anon") then
      match args with fe :: ps => with_file w fe (fun i f => obind (all_some (map atom_str ps)) (fun ps' => upd w i (anon f ps'))) | _ => None end
    else if str_eqb h (S "importname") then
      match args with
      | [fe; p; n] => with_file w fe (fun i f => obind (atom_str p) (fun p' => obind (atom_str n) (fun n' => upd w i (import_name f p' n'))))
      | _ => None
      end
    else if str_eqb h (S "importalias") then
      match args with
      | [fe; p; n] => with_file w fe (fun i f => obind (atom_str p) (fun p' => obind (atom_str n) (fun n' => upd w i (import_alias f p' n'))))
      | _ => None
      end
    else if str_eqb h (S "importnames") then
      match args with fe :: ps => with_file w fe (fun i f => obind (all_some (map dpair_str ps)) (fun ps' => upd w i (import_names f ps'))) | _ => None end
    else if str_eqb h (S "fadd") then
      match args with [fe; c] => with_file w fe (fun i f => obind (dcode c) (fun c' => upd w i (add_item f c'))) | _ => None end
    else if str_eqb h (S "render") then
      match args with
      | [fe; wf] => with_file w fe (fun i f => obind (atom_bool wf) (fun wf' =>
          let r := file_render id_fmt (fun _ => wf') f in
          Some (wset w i (fst r), [print_outcome (f_noformat f) (snd r)])))
      | _ => None
      end
    else if str_eqb h (S "rcode") then
      match args with
      | [fe; c; wf] => with_file w fe (fun i f => obind (dcode c) (fun c' => obind (atom_bool wf) (fun wf' =>
          let r := code_render_with_file id_fmt (fun _ => wf') c' f in
          Some (wset w i (fst r), [print_outcome false (snd r)]))))
      | _ => None
      end
    else if str_eqb h (S "rplain") then
      match args with
      | [c; wf] => obind (dcode c) (fun c' => obind (atom_bool wf) (fun wf' =>
          Some (w, [print_outcome false (code_render id_fmt (fun _ => wf') c')])))
      | _ => None
      end
    else if str_eqb h (S "save") then
      match args with
      | [fe; p; ff] => with_file w fe (fun i f => obind (atom_str p) (fun p' => obind (atom_bool ff) (fun ff' =>
          let r := file_save id_fmt (fun _ => ff') f p' in
          Some (wset w i (fst r), [print_save (snd r)]))))
      | _ => None
      end
    else if str_eqb h (S "imports") then
      match args with [fe] => with_file w fe (fun i f => Some (w, [print_imports (f_imports f)])) | _ => None end
    else None
  | _ => None
  end.

Fixpoint run_ops (w : world) (ops : list sexp) : option (list str) :=
  match ops with
  | [] => Some []
  | op :: ops' =>
    match step w op with
    | Some (w', obs) => omap (app obs) (run_ops w' ops')
    | None => None
    end
  end.

Definition s_badcase : str := S "(badcase)".

(* file histories: the default kind of case *)
Definition run_file_case (ops : list sexp) : option (list str) := run_ops [] ops.
