(* Import naming: isLocal, isDotImport, isValidAlias, guessAlias, register (jen/file.go). *)
From Jen Require Export Model.Code.
From Jen Require Import Base.Num Gen.Tables.
Local Open Scope N_scope.

Definition s_dot : str := S ".".
Definition s_us : str := S "_".
Definition s_C : str := S "C".

Definition is_reserved (a : str) : bool := existsb (str_eqb a) reserved.

Definition is_local (cfg : config) (path : str) : bool := str_eqb (cfg_path cfg) path.

(* an entry counts as registered when its name is neither empty nor "_" (file.go, register) *)
Definition registered_name (t : table) (path : str) : option str :=
  match alookup path t with
  | Some d => if str_eqb (id_name d) [] || str_eqb (id_name d) s_us then None else Some (id_name d)
  | None => None
  end.

Definition hint_is_dot (cfg : config) (path : str) : bool :=
  match alookup path (cfg_hints cfg) with
  | Some d => str_eqb (id_name d) s_dot && id_alias d
  | None => false
  end.

(* isDotImport: never for "C"; a registered import keeps the form it was first rendered
   with; otherwise the hint decides *)
Definition is_dot (cfg : config) (t : table) (path : str) : bool :=
  if str_eqb path s_C then false
  else match alookup path t with
       | Some d =>
         if str_eqb (id_name d) [] || str_eqb (id_name d) s_us then hint_is_dot cfg path
         else str_eqb (id_name d) s_dot && id_alias d
       | None => hint_is_dot cfg path
       end.

Definition is_valid_alias (t : table) (a : str) : bool :=
  if str_eqb a s_dot then true
  else if is_reserved a then false
  else negb (existsb (fun e => str_eqb a (id_name (snd e))) t).

(* strings.ToLower followed by removal of everything outside [a-z0-9], on bytes.
   U+0130 and U+212A are the only non-ASCII runes whose lower case is ASCII. *)
Definition lower_alnum1 (b : byte) (r : str) : str :=
  let c := b2n b in
  if (65 <=? c) && (c <=? 90) then n2b (c + 32) :: r
  else if ((97 <=? c) && (c <=? 122)) || ((48 <=? c) && (c <=? 57)) then b :: r
  else r.

Fixpoint lower_alnum (s : str) : str :=
  match s with
  | [] => []
  | b :: t =>
    match t with
    | b1 :: t1 =>
      if beq b xc4 && beq b1 xb0 then x69 :: lower_alnum t1
      else match t1 with
           | b2 :: t2 =>
             if beq b xe2 && beq b1 x84 && beq b2 xaa then x6b :: lower_alnum t2
             else lower_alnum1 b (lower_alnum t)
           | [] => lower_alnum1 b (lower_alnum t)
           end
    | [] => lower_alnum1 b (lower_alnum t)
    end
  end.

Fixpoint drop_digits (s : str) : str :=
  match s with
  | [] => []
  | b :: t => let c := b2n b in if (48 <=? c) && (c <=? 57) then drop_digits t else s
  end.

Definition strip_slash (s : str) : str :=
  match rev s with
  | x2f :: r => rev r
  | _ => s
  end.

Definition guess_alias (path : str) : str :=
  let a := strip_slash path in
  let a := if contains_byte x2f a then after_last x2f a else a in
  let a := drop_digits (lower_alnum a) in
  match a with [] => S "pkg" | _ => a end.

Definition std_hint (path : str) : str :=
  match alookup path std_hints with Some n => n | None => [] end.

(* Only add a prefix if the name is an alias (and never to a dot-import) *)
Definition with_prefix (cfg : config) (name : str) (alias : bool) : str :=
  if negb (str_eqb (cfg_prefix cfg) []) && alias && negb (str_eqb name s_dot)
  then cfg_prefix cfg ++ s_us ++ name else name.

Definition candidate (name : str) (i : N) : str :=
  if i =? 0 then name else name ++ N_to_dec i.

Definition candidate_ok (cfg : config) (t : table) (name : str) (alias : bool) (i : N) : bool :=
  let u := candidate name i in
  is_valid_alias t u && is_valid_alias t (with_prefix cfg u (alias || negb (str_eqb u name))).

(* the `for !isValidAlias` loop; None when the fuel runs out (excluded by register_terminates) *)
Fixpoint uniquify (cfg : config) (t : table) (name : str) (alias : bool) (fuel : nat) (i : N) : option N :=
  match fuel with
  | O => None
  | Datatypes.S fuel' =>
    if candidate_ok cfg t name alias i then Some i
    else uniquify cfg t name alias fuel' (i + 1)
  end.

Definition register_fuel (t : table) : nat := (2 * (length t + length reserved) + 2)%nat.

Definition choose_name (cfg : config) (path : str) : str * bool :=
  match alookup path (cfg_hints cfg) with
  | Some h => if negb (str_eqb (id_name h) []) then (id_name h, id_alias h)
              else if negb (str_eqb (std_hint path) []) then (std_hint path, false)
              else (guess_alias path, true)
  | None => if negb (str_eqb (std_hint path) []) then (std_hint path, false)
            else (guess_alias path, true)
  end.

Definition s_fuel : str := S "model: register fuel exhausted".

Definition register (cfg : config) (t : table) (path : str) : result (table * str) :=
  if is_local cfg path then Ok (t, [])
  else match registered_name t path with
  | Some n => Ok (t, n)
  | None =>
    if str_eqb path s_C then Ok (aset s_C (mkdef s_C false) t, s_C)
    else
      let (name, alias) := choose_name cfg path in
      match uniquify cfg t name alias (register_fuel t) 0 with
      | None => Panic s_fuel
      | Some i =>
        let u := candidate name i in
        let alias' := alias || negb (str_eqb u name) in
        let final := with_prefix cfg u alias' in
        Ok (aset path (mkdef final alias') t, final)
      end
  end.
