(* File: state, builder methods that only touch the File, renderImports, File.Render,
   Statement/Group.RenderWithFile, File.Save (jen/file.go, jen/jen.go). *)
From Jen Require Export Model.Render.
From Jen Require Import Base.Sort GoStd.Quote.

Record file := mkfile {
  f_name : str;
  f_path : str;
  f_prefix : str;
  f_hints : table;
  f_imports : table;
  f_comments : list str;
  f_headers : list str;
  f_cgo : list str;
  f_noformat : bool;
  f_canonical : str;
  f_items : list code
}.

Definition file_cfg (f : file) : config := mkcfg (f_path f) (f_prefix f) (f_hints f).

Definition new_file (name : str) : file :=
  mkfile name [] [] [] [] [] [] [] false [] [].
Definition new_file_path (path : str) : file :=
  mkfile (guess_alias path) path [] [] [] [] [] [] false [] [].
Definition new_file_path_name (path name : str) : file :=
  mkfile name path [] [] [] [] [] [] false [] [].

Definition set_imports (f : file) (t : table) : file :=
  mkfile (f_name f) (f_path f) (f_prefix f) (f_hints f) t (f_comments f) (f_headers f)
         (f_cgo f) (f_noformat f) (f_canonical f) (f_items f).
Definition set_hints (f : file) (h : table) : file :=
  mkfile (f_name f) (f_path f) (f_prefix f) h (f_imports f) (f_comments f) (f_headers f)
         (f_cgo f) (f_noformat f) (f_canonical f) (f_items f).
Definition set_prefix (f : file) (p : str) : file :=
  mkfile (f_name f) (f_path f) p (f_hints f) (f_imports f) (f_comments f) (f_headers f)
         (f_cgo f) (f_noformat f) (f_canonical f) (f_items f).
Definition set_noformat (f : file) (b : bool) : file :=
  mkfile (f_name f) (f_path f) (f_prefix f) (f_hints f) (f_imports f) (f_comments f) (f_headers f)
         (f_cgo f) b (f_canonical f) (f_items f).
Definition set_canonical (f : file) (p : str) : file :=
  mkfile (f_name f) (f_path f) (f_prefix f) (f_hints f) (f_imports f) (f_comments f) (f_headers f)
         (f_cgo f) (f_noformat f) p (f_items f).
Definition add_header (f : file) (c : str) : file :=
  mkfile (f_name f) (f_path f) (f_prefix f) (f_hints f) (f_imports f) (f_comments f) (f_headers f ++ [c])
         (f_cgo f) (f_noformat f) (f_canonical f) (f_items f).
Definition add_pkg_comment (f : file) (c : str) : file :=
  mkfile (f_name f) (f_path f) (f_prefix f) (f_hints f) (f_imports f) (f_comments f ++ [c]) (f_headers f)
         (f_cgo f) (f_noformat f) (f_canonical f) (f_items f).
Definition add_cgo (f : file) (c : str) : file :=
  mkfile (f_name f) (f_path f) (f_prefix f) (f_hints f) (f_imports f) (f_comments f) (f_headers f)
         (f_cgo f ++ [c]) (f_noformat f) (f_canonical f) (f_items f).
Definition add_item (f : file) (c : code) : file :=
  mkfile (f_name f) (f_path f) (f_prefix f) (f_hints f) (f_imports f) (f_comments f) (f_headers f)
         (f_cgo f) (f_noformat f) (f_canonical f) (f_items f ++ [c]).

Definition anon (f : file) (paths : list str) : file :=
  set_imports f (fold_left (fun t p => aset p (mkdef s_us true) t) paths (f_imports f)).
Definition import_name (f : file) (path name : str) : file :=
  set_hints f (aset path (mkdef name false) (f_hints f)).
Definition import_alias (f : file) (path alias : str) : file :=
  set_hints f (aset path (mkdef alias true) (f_hints f)).
Definition import_names (f : file) (m : list (str * str)) : file :=
  set_hints f (fold_left (fun h kv => aset (fst kv) (mkdef (snd kv) false) h) m (f_hints f)).

Definition nonempty_list {A} (l : list A) : bool := match l with [] => false | _ => true end.

(* ---- renderImports (jen.go:96-174) ---- *)
Definition import_spec (path : str) (d : importdef) : str :=
  if id_alias d && negb (str_eqb path s_C)
  then id_name d ++ S " " ++ GoQuote path
  else GoQuote path.

Definition cgo_name_set (t : table) : bool :=
  match alookup s_C t with Some d => nonempty (id_name d) | None => false end.

(* A preamble block in RAW comment form (the test of Comment.render, see [comment_text]: the
   text starts with `//` or `/*` and is written verbatim) loses ALL its trailing newlines
   before it is rendered: strings.TrimRight(c, "\n").  Other blocks are left as they are.
   [trim_right_nl] is linear (one pass, no [rev]). *)
Definition is_raw_comment (s : str) : bool := has_prefix (S "//") s || has_prefix (S "/*") s.

Fixpoint trim_right_nl (s : str) : str :=
  match s with
  | [] => []
  | c :: r => match trim_right_nl r with
              | [] => if beq c x0a then [] else [c]
              | r' => c :: r'
              end
  end.

Definition trim_raw_preamble (s : str) : str :=
  if is_raw_comment s then trim_right_nl s else s.

Definition render_imports (t : table) (cgo : list str) : str :=
  let separate := (cgo_name_set t || nonempty_list cgo) && nonempty_list cgo in
  let filtered := filter (fun e => negb (str_eqb (fst e) s_C && separate)) t in
  (match filtered with
   | [] => []
   | [e] => S "import " ++ import_spec (fst e) (snd e) ++ [x0a; x0a]
   | _ =>
     S "import (" ++ [x0a] ++
     concat_str (map (fun e => import_spec (fst e) (snd e) ++ [x0a]) (isort_by fst filtered)) ++
     S ")" ++ [x0a; x0a]
   end) ++
  (if separate
   then concat_str (map (fun c => comment_text (trim_raw_preamble c) ++ [x0a]) cgo) ++ S "import " ++ [c_dq] ++ S "C" ++ [c_dq] ++ [x0a; x0a]
   else []).

(* ---- File.Render (jen.go:34-94): the text handed to the formatter ---- *)
Definition file_group (f : file) : code := CGroup 0 [] [] [] [] true (f_items f).

Definition file_head (f : file) : str :=
  (match f_headers f with
   | [] => []
   | hs => concat_str (map (fun c => comment_text c ++ [x0a]) hs) ++ [x0a]
   end) ++
  concat_str (map (fun c => comment_text c ++ [x0a]) (f_comments f)) ++
  S "package " ++ f_name f ++
  (if nonempty (f_canonical f) then S " // import " ++ GoQuote (f_canonical f) else []) ++
  [x0a; x0a].

(* returns the table after rendering the body and the unformatted source *)
Definition file_raw (f : file) : result (table * str) :=
  bind (render (file_cfg f) false (f_imports f) (file_group f)) (fun r =>
  Ok (fst r, file_head f ++ render_imports (fst r) (f_cgo f) ++ snd r)).

(* What a render call does to its writer.  [fmt] is go/format.Source (external, see
   DESIGN.md section 3); [wfail k] says whether the k-th Write call (from 1) fails. *)
Inductive outcome :=
| OPanic (msg : str)                     (* nothing written *)
| OFormatErr (raw : str)                 (* error wrapping the unformatted text; nothing written *)
| OWrite (out : str) (failed : bool).    (* exactly one Write carrying out; its error is returned *)

Section Outcomes.
  Variable fmt : str -> option str.
  Variable wfail : nat -> bool.

  Definition emit (noformat : bool) (raw : str) : outcome :=
    if noformat then OWrite raw (wfail 1%nat)
    else match fmt raw with
         | Some o => OWrite o (wfail 1%nat)
         | None => OFormatErr raw
         end.

  Definition file_render (f : file) : file * outcome :=
    match file_raw f with
    | Panic m => (f, OPanic m)
    | Ok (t, raw) => (set_imports f t, emit (f_noformat f) raw)
    end.

  (* Statement.RenderWithFile / Group.RenderWithFile: always formatted *)
  Definition code_render_with_file (c : code) (f : file) : file * outcome :=
    match render (file_cfg f) false (f_imports f) c with
    | Panic m => (f, OPanic m)
    | Ok (t, raw) => (set_imports f t, emit false raw)
    end.

  (* Render / GoString: a fresh NewFile("") *)
  Definition code_render (c : code) : outcome := snd (code_render_with_file c (new_file [])).
End Outcomes.

(* ---- File.Save (jen.go:21-31) over an abstract file system ---- *)
Definition fsys := list (str * str).
Inductive save_outcome :=
| SPanic (msg : str)
| SRenderErr (raw : str)                 (* file system untouched *)
| SWrite (path out : str) (failed : bool).  (* one os.WriteFile(path, out); error returned iff failed *)

Definition file_save (fmt : str -> option str) (fs_fails : str -> bool) (f : file) (path : str)
  : file * save_outcome :=
  match file_render fmt (fun _ => false) f with
  | (f', OPanic m) => (f', SPanic m)
  | (f', OFormatErr raw) => (f', SRenderErr raw)
  | (f', OWrite out _) => (f', SWrite path out (fs_fails path))
  end.

Definition apply_save (fs : fsys) (o : save_outcome) : fsys :=
  match o with
  | SWrite path out false => aset path out fs
  | _ => fs
  end.
