(* The entry point that is extracted and evaluated by vm_compute: one line in, one line out.
   The first element of a line may name the kind of case: (heap) (skel) (lit) (gennames); otherwise
   the line is a file history (Model/Exec.v). *)
From Jen Require Export Model.Exec.
From Jen Require Import Model.HeapExec Model.SkelExec Model.LitExec Model.GennamesExec.

Definition dispatch (ops : list sexp) : option (list str) :=
  match ops with
  | SList [Atom k] :: rest =>
    if str_eqb k (S "heap") then run_heap_case rest
    else if str_eqb k (S "skel") then run_skel_case rest
    else if str_eqb k (S "lit") then run_lit_case rest
    else if str_eqb k (S "gennames") then run_gennames_case rest
    else None
  | _ => run_file_case ops
  end.

Definition run_case (line : str) : str :=
  match read_line line with
  | Some ops =>
    match dispatch ops with
    | Some obs => join (S " ") obs
    | None => s_badcase
    end
  | None => s_badcase
  end.
