(* L1: the slice-level model of *Statement values (jen/statement.go, jen/add.go and every
   builder method, which all do `*s = append( *s, x...)`).

   A statement variable is the identity of a *Statement; it holds a Go slice header
   (array, len, cap).  Arrays are lists of items whose length is the capacity.  An item is a
   frozen [code] value or a reference [IRef v] to a statement variable: that is what
   Clone stores (`return &Statement{s}` puts the POINTER to the original into a fresh
   one-element slice), so later appends to the original are visible through the clone.

   [append] writes in place when len + k <= cap and otherwise allocates a fresh array of
   capacity [grow oldcap (len + k)] and copies.  [grow] is a Section variable: nothing below
   depends on a particular growth policy ([go_grow] at the end is a Go-like one that is used
   for execution only).

   Variable and array identities are allocated by counters (0, 1, 2, ...), so a reference
   always points to an older variable and [snapshot] needs fuel [v + 1] only.

   The file also holds the abstract list model that C20 compares with: a statement is an
   optional parent reference plus the items appended to it. *)
From Jen Require Export Model.Code.
Local Open Scope N_scope.

Definition var := N.

Inductive item :=
| ICode (c : code)
| IRef (v : var).

Record header := mkhdr { h_arr : N; h_len : nat; h_cap : nat }.

Record heap := mkheap {
  hp_vars : list (var * header);      (* statement variables (live *Statement cells) *)
  hp_arrs : list (N * list item);     (* backing arrays; length = capacity *)
  hp_nvars : N;                       (* next variable identity *)
  hp_narrs : N                        (* next array identity *)
}.

(* association lists keyed by N *)
Fixpoint nget {A} (m : list (N * A)) (k : N) : option A :=
  match m with
  | [] => None
  | (j, x) :: m' => if j =? k then Some x else nget m' k
  end.

Fixpoint nset {A} (m : list (N * A)) (k : N) (x : A) : list (N * A) :=
  match m with
  | [] => [(k, x)]
  | (j, y) :: m' => if j =? k then (k, x) :: m' else (j, y) :: nset m' k x
  end.

(* the zero value of the element type Code: the nil interface *)
Definition zero_item : item := ICode CNil.

(* a[i : i+len xs] = xs *)
Definition write_at (a : list item) (i : nat) (xs : list item) : list item :=
  firstn i a ++ xs ++ skipn (i + length xs) a.

Definition empty_heap : heap := mkheap [] [] 0 0.

(* the slice a variable denotes: a[0:len] *)
Definition view (h : heap) (v : var) : option (list item) :=
  match nget (hp_vars h) v with
  | Some hd =>
    match nget (hp_arrs h) (h_arr hd) with
    | Some a => Some (firstn (h_len hd) a)
    | None => None
    end
  | None => None
  end.

Definition bound (h : heap) (v : var) : bool :=
  match nget (hp_vars h) v with Some _ => true | None => false end.

(* ---- from L1 to L2: the frozen tree rendering sees ---- *)
(* [get] gives the items of a variable.  Out of fuel: CNil; dangling reference: CNilStmt
   (neither happens for heaps built by histories, see Proofs/HeapProofs.v). *)
Fixpoint resolve (get : var -> option (list item)) (fuel : nat) (v : var) : code :=
  match fuel with
  | O => CNil
  | Datatypes.S f =>
    match get v with
    | None => CNilStmt
    | Some its =>
      CStmt (map (fun it => match it with ICode c => c | IRef w => resolve get f w end) its)
    end
  end.

Definition var_fuel (v : var) : nat := Datatypes.S (N.to_nat v).

Definition snapshot (h : heap) (v : var) : code := resolve (view h) (var_fuel v) v.

(* the variables a variable's value depends on (itself, what it references, ...) *)
Definition refs_of (its : list item) : list var :=
  flat_map (fun it => match it with IRef w => [w] | ICode _ => [] end) its.

Fixpoint reach (get : var -> option (list item)) (fuel : nat) (v : var) : list var :=
  match fuel with
  | O => []
  | Datatypes.S f =>
    v :: match get v with
         | Some its => flat_map (reach get f) (refs_of its)
         | None => []
         end
  end.

Definition ancestors (h : heap) (v : var) : list var := reach (view h) (var_fuel v) v.

(* ---- histories ---- *)
Inductive op :=
| ONew                                  (* newStatement(): the next variable *)
| OAppend (v : var) (cs : list code)    (* *v = append( *v, cs...) *)
| OClone (v : var).                     (* the next variable := v.Clone() *)

Section Slices.
  Variable grow : nat -> nat -> nat.    (* old capacity -> needed length -> new capacity *)

  (* newStatement: `&Statement{}`, an empty slice (len = cap = 0).  It gets an array identity
     of its own; an array of capacity 0 has no element, so its identity is immaterial. *)
  Definition new_stmt (h : heap) : heap :=
    mkheap (nset (hp_vars h) (hp_nvars h) (mkhdr (hp_narrs h) 0 0))
           (nset (hp_arrs h) (hp_narrs h) [])
           (hp_nvars h + 1) (hp_narrs h + 1).

  (* `*s = append( *s, xs...)` *)
  Definition append (h : heap) (v : var) (xs : list item) : heap :=
    match nget (hp_vars h) v with
    | None => h
    | Some hd =>
      match nget (hp_arrs h) (h_arr hd) with
      | None => h
      | Some a =>
        let n := (h_len hd + length xs)%nat in
        if (n <=? h_cap hd)%nat then
          mkheap (nset (hp_vars h) v (mkhdr (h_arr hd) n (h_cap hd)))
                 (nset (hp_arrs h) (h_arr hd) (write_at a (h_len hd) xs))
                 (hp_nvars h) (hp_narrs h)
        else
          let c := grow (h_cap hd) n in
          mkheap (nset (hp_vars h) v (mkhdr (hp_narrs h) n c))
                 (nset (hp_arrs h) (hp_narrs h)
                       (firstn (h_len hd) a ++ xs ++ repeat zero_item (c - n)))
                 (hp_nvars h) (hp_narrs h + 1)
      end
    end.

  (* Clone as written: `return &Statement{s}` - a fresh variable over a fresh one-element
     array holding the pointer to the original *)
  Definition clone_wrap (h : heap) (v : var) : heap :=
    if bound h v then
      mkheap (nset (hp_vars h) (hp_nvars h) (mkhdr (hp_narrs h) 1 1))
             (nset (hp_arrs h) (hp_narrs h) [IRef v])
             (hp_nvars h + 1) (hp_narrs h + 1)
    else h.

  (* the mutant: `c := *s; return &c` - a fresh variable with a COPY of the slice header *)
  Definition clone_header (h : heap) (v : var) : heap :=
    match nget (hp_vars h) v with
    | Some hd => mkheap (nset (hp_vars h) (hp_nvars h) hd) (hp_arrs h) (hp_nvars h + 1) (hp_narrs h)
    | None => h
    end.

  Section Run.
    Variable clone : heap -> var -> heap.

    Definition step (h : heap) (o : op) : heap :=
      match o with
      | ONew => new_stmt h
      | OAppend v cs => append h v (map ICode cs)
      | OClone v => clone h v
      end.

    Definition run_from (h : heap) (ops : list op) : heap := fold_left step ops h.
    Definition run (ops : list op) : heap := run_from empty_heap ops.
  End Run.
End Slices.

(* ---- a Go-like growth policy: runtime.growslice + roundupsize of go1.22/1.23 for 16-byte
        pointer-containing elements (interfaces), up to 1024 elements; beyond that no rounding.
        Used for execution and for the witness of the refuted mutant only. ---- *)
(* capacities (in elements) of the malloc size classes that are multiples of 16 bytes *)
Definition size_classes : list nat :=
  [1; 2; 3; 4; 5; 6; 7; 8; 9; 10; 11; 12; 13; 14; 15; 16; 18; 20; 22; 24; 26; 28; 30; 32;
   36; 40; 44; 48; 56; 64; 72; 80; 88; 96; 112; 128; 144; 168; 192; 200; 216; 256; 304; 336;
   384; 408; 424; 432; 512; 592; 608; 640; 680; 768; 848; 896; 1024]%nat.

Fixpoint round_up (classes : list nat) (n : nat) : nat :=
  match classes with
  | [] => n
  | c :: r => if (n <=? c)%nat then c else round_up r n
  end.

(* objects with pointers above 512 bytes carry an 8-byte malloc header: n elements need
   16n + 8 bytes, and the usable part of a class of e elements is e - 1 elements *)
Definition go_round (n : nat) : nat :=
  if (n <=? 32)%nat then round_up size_classes n
  else (round_up size_classes (Datatypes.S n) - 1)%nat.

Fixpoint grow_loop (fuel newcap newlen : nat) : nat :=
  match fuel with
  | O => Nat.max newcap newlen
  | Datatypes.S f =>
    let nc := (newcap + (newcap + 768) / 4)%nat in
    if (newlen <=? nc)%nat then nc else grow_loop f nc newlen
  end.

Definition go_grow (oldcap newlen : nat) : nat :=
  go_round
    (if (oldcap + oldcap <? newlen)%nat then newlen
     else if (oldcap <? 256)%nat then (oldcap + oldcap)%nat
     else grow_loop newlen oldcap newlen).

(* ---- the abstract list model ---- *)
(* a statement is: an optional reference to its parent (set by Clone, never changed), and the
   items appended to it since, in order *)
Record astmt := mkastmt { a_parent : option var; a_own : list code }.

Record astate := mkastate { a_vars : list (var * astmt); a_n : N }.

Definition alist (s : astmt) : list item :=
  (match a_parent s with Some p => [IRef p] | None => [] end) ++ map ICode (a_own s).

Definition empty_astate : astate := mkastate [] 0.

Definition aview (a : astate) (v : var) : option (list item) :=
  match nget (a_vars a) v with Some s => Some (alist s) | None => None end.

Definition astep (a : astate) (o : op) : astate :=
  match o with
  | ONew => mkastate (nset (a_vars a) (a_n a) (mkastmt None [])) (a_n a + 1)
  | OAppend v cs =>
    match nget (a_vars a) v with
    | Some s => mkastate (nset (a_vars a) v (mkastmt (a_parent s) (a_own s ++ cs))) (a_n a)
    | None => a
    end
  | OClone v =>
    match nget (a_vars a) v with
    | Some _ => mkastate (nset (a_vars a) (a_n a) (mkastmt (Some v) [])) (a_n a + 1)
    | None => a
    end
  end.

Definition arun_from (a : astate) (ops : list op) : astate := fold_left astep ops a.
Definition arun (ops : list op) : astate := arun_from empty_astate ops.

(* the value of a variable in the list model: [value of the parent] ++ own items *)
Definition asnapshot (a : astate) (v : var) : code := resolve (aview a) (var_fuel v) v.

(* the codes appended to [v] by a history *)
Definition appended_to (v : var) (ops : list op) : list code :=
  flat_map (fun o => match o with OAppend w cs => if w =? v then cs else [] | _ => [] end) ops.
