(* Cases of kind (lit ...): the literal micro-evaluator and the literal scanners of
   GoStd/LitEval.v, GoStd/Quote.v run on texts (the texts jennifer renders for literals),
   so that the harness can compare them with go/types, go/constant, go/scanner, strconv.

   A case line is   (lit) q1 q2 ...   and yields one observation per query:

     (e x<hex of text>)    eval_lit on the text
         -> (v bool 0|1)
          | (v <integer type name> <value, decimal, with - sign>)
          | (v float32|float64 <mantissa> <exp10>)          value = mantissa * 10^exp10
          | (v complex64|complex128 <re mant> <re exp10> <im mant> <im exp10>)
          | (bad)                                           rejected by the evaluator
       integers and booleans are exact; mantissa and exp10 are decimal integers (not
       normalised: 100.0 prints as 1000 -1)
     (g x<hex of text>)    the formatter grammar of a finite float (%#v of float32/64)
         -> (g 1 <0|1 canonical integer part> <mantissa> <exp10>) | (g 0)
     (cg x<hex of text>)   the formatter grammar of a finite complex number
         -> (cg 1 <re mant> <re exp10> <im mant> <im exp10>) | (cg 0)
     (s x<hex of text>)    scan one Go string literal at the head of the text
         -> (s x<hex of value> x<hex of remaining text>) | (bad)
     (r x<hex of text>)    scan one Go rune literal at the head of the text
         -> (r <code point, decimal> x<hex of remaining text>) | (bad)

   A query of any other shape makes the whole case a (badcase). *)
From Jen Require Export Model.Exec.
From Jen Require Import Base.Num GoStd.Quote GoStd.LitEval.

Definition s_bad : str := S "(bad)".

Definition print_dec (q : dec) : list str := [Z_to_dec (fst q); Z_to_dec (snd q)].

Definition print_value (tv : gotype * value) : str :=
  let (ty, v) := tv in
  paren (S "v" :: type_name ty ::
         match v with
         | VBool b => [bool_atom b]
         | VInt z => [Z_to_dec z]
         | VFloat q => print_dec q
         | VComplex re im => print_dec re ++ print_dec im
         end).

Definition lit_query (q : sexp) : option str :=
  match q with
  | SList [Atom h; a] =>
    match atom_str a with
    | Some t =>
      if str_eqb h (S "e") then
        Some (match eval_lit t with Some tv => print_value tv | None => s_bad end)
      else if str_eqb h (S "g") then
        Some (match parse_ff t with
              | Some f => paren ([S "g"; S "1"; bool_atom (ff_canon f)] ++ print_dec (ff_value f))
              | None => paren [S "g"; S "0"]
              end)
      else if str_eqb h (S "cg") then
        Some (match parse_cplx t with
              | Some (fr, fi) => paren ([S "cg"; S "1"] ++ print_dec (ff_value fr) ++ print_dec (ff_value fi))
              | None => paren [S "cg"; S "0"]
              end)
      else if str_eqb h (S "s") then
        Some (match scan_string_lit t with
              | Some (v, rest) => paren [S "s"; hex_of_str v; hex_of_str rest]
              | None => s_bad
              end)
      else if str_eqb h (S "r") then
        Some (match scan_rune_lit t with
              | Some (r, rest) => paren [S "r"; N_to_dec r; hex_of_str rest]
              | None => s_bad
              end)
      else None
    | None => None
    end
  | _ => None
  end.

Definition run_lit_case (ops : list sexp) : option (list str) := all_some (map lit_query ops).
