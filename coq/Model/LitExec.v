(* Cases of kind (lit ...): the literal micro-evaluator run on a rendered literal text.
   Stub until that model exists. *)
From Jen Require Export Model.Exec.

Definition run_lit_case (ops : list sexp) : option (list str) := None.
