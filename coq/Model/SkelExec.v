(* Cases of kind (skel): the skeleton lexer of GoStd/Skeleton.v run on source texts.
   A line `(skel) (t x<hex source>) ...` prints, for each text, one observation
     (skel <k><n> <k><n> ...)
   listing the regions in order: <k> = kind (c code, l line comment, b block comment,
   s interpreted string, r raw string, q rune literal, e unterminated string/rune/comment),
   <n> = length in bytes (decimal).  The regions partition the text (Props/C15.v
   C15_skel_partition), so kinds and lengths determine them.  The Go harness prints the same
   from go/scanner's token positions and compares. *)
From Jen Require Export Model.Exec.
From Jen Require Import Base.Num GoStd.Skeleton.

Definition kind_letter (k : kind) : byte :=
  match k with
  | KCode => x63 | KLine => x6c | KBlock => x62 | KStr => x73 | KRaw => x72 | KRune => x71 | KErr => x65
  end.

Definition len_N (s : str) : N := fold_left (fun n _ => N.succ n) s 0%N.

Definition print_region (r : region) : str := kind_letter (fst r) :: N_to_dec (len_N (snd r)).

Definition skel_obs (src : str) : str := paren (S "skel" :: map print_region (skel src)).

Definition run_skel_case (ops : list sexp) : option (list str) :=
  all_some (map (fun e =>
                   match e with
                   | SList [Atom a; x] => if str_eqb a (S "t") then omap skel_obs (atom_str x) else None
                   | _ => None
                   end) ops).
