(* Cases of kind (skel ...): the skeleton lexer of GoStd/Skeleton.v run on a source text.
   Stub until that model exists. *)
From Jen Require Export Model.Exec.

Definition run_skel_case (ops : list sexp) : option (list str) := None.
