(* The gennames tool (/repo/gennames/main.go, hints.go) as a function of what `go list`
   prints.  Everything the tool does AFTER `cmd.Output()` returned is modelled, statement
   by statement:

     all := strings.Split(strings.TrimSpace(string(b)), "\n")          gn_lines
     for each line:  parts := strings.Split(j, " ")                     gn_step
        (parts[0] == "true") != standard      -> skip (before parts[1] is touched)
        path := parts[1]; name := parts[2]    -> index-out-of-range panic on a short line
        novendor && hasVendor(path)           -> skip
        name == "main"                        -> skip
        !filter.MatchString(path)             -> skip   (the filter sees the vendored path)
        path = unvendorPath(path)
        packages[path] != ""                  -> skip   (an entry with an EMPTY name does not block)
        packages[path] = name
     the table is handed to jennifer: a file with a header comment, a blank line, a
     comment and  var <name> = map[string]string{ <Dict of Lit(path): Lit(name)> }      gn_file
     rendered by File.Render (Model/FileRender.v; the Dict is printed sorted by the
     QUOTED key text, whatever order the Go map is iterated in).

   What is not modelled: running `go list` itself (the listing is the input; a failing
   command is the input None), flag parsing, os.WriteFile, and go/format (applied by the
   harness to the text printed here, as for every other render, DESIGN.md 2.1).  The
   -filter regular expression is a parameter (a predicate on paths). *)
From Jen Require Export Model.FileRender.
From Jen Require Import Base.Num Base.Sort Base.Utf8 GoStd.Quote Gen.Tables.
Local Open Scope N_scope.

(* ---- strings.Split(s, sep) for a one-byte separator: n separators give n+1 fields ---- *)
Fixpoint split_on (c : byte) (s : str) : list str :=
  match s with
  | [] => [[]]
  | x :: s' =>
    if beq x c then [] :: split_on c s'
    else match split_on c s' with
         | f :: r => (x :: f) :: r
         | [] => [[x]]
         end
  end.

(* ---- strings.TrimSpace = TrimRightFunc(TrimLeftFunc(s, unicode.IsSpace), unicode.IsSpace) ---- *)
(* unicode.IsSpace: the Latin-1 spaces and the White_Space property *)
Definition is_space_rune (r : N) : bool :=
  ((9 <=? r) && (r <=? 13)) || (r =? 32) || (r =? 0x85) || (r =? 0xA0) || (r =? 0x1680) ||
  ((0x2000 <=? r) && (r <=? 0x200A)) || (r =? 0x2028) || (r =? 0x2029) || (r =? 0x202F) ||
  (r =? 0x205F) || (r =? 0x3000).

(* TrimLeftFunc: drop whole runes (utf8.DecodeRuneInString) while they are spaces; an invalid
   byte decodes to U+FFFD, which is not a space *)
Fixpoint trim_left (fuel : nat) (s : str) : str :=
  match fuel with
  | O => s
  | Datatypes.S fuel' =>
    match s with
    | [] => []
    | _ => let rw := decodeN (map b2n s) in
           if is_space_rune (fst rw) then trim_left fuel' (skipn (snd rw) s) else s
    end
  end.

(* utf8.RuneStart: not a continuation byte *)
Definition rune_start (b : N) : bool := negb ((0x80 <=? b) && (b <? 0xC0)).

(* utf8.DecodeLastRuneInString on the REVERSED string (last byte first): look back over at
   most three more bytes for a start byte, decode from there, and accept only if the rune
   ends exactly at the end of the string *)
Definition decode_last_rev (rs : list N) : N * nat :=
  let try (seg : list N) (k : nat) :=
      let rw := decodeN seg in if Nat.eqb (snd rw) k then rw else (rune_error, 1%nat) in
  match rs with
  | [] => (rune_error, 0%nat)
  | b0 :: t =>
    if b0 <? 0x80 then (b0, 1%nat)
    else match t with
         | [] => (rune_error, 1%nat)
         | b1 :: t1 =>
           if rune_start b1 then try [b1; b0] 2%nat
           else match t1 with
                | [] => (rune_error, 1%nat)
                | b2 :: t2 =>
                  if rune_start b2 then try [b2; b1; b0] 3%nat
                  else match t2 with
                       | [] => (rune_error, 1%nat)
                       | b3 :: _ => if rune_start b3 then try [b3; b2; b1; b0] 4%nat else (rune_error, 1%nat)
                       end
                end
         end
  end.

Fixpoint trim_right_rev (fuel : nat) (rs : str) : str :=
  match fuel with
  | O => rs
  | Datatypes.S fuel' =>
    match rs with
    | [] => []
    | _ => let rw := decode_last_rev (map b2n rs) in
           if is_space_rune (fst rw) then trim_right_rev fuel' (skipn (snd rw) rs) else rs
    end
  end.

Definition trim_space (s : str) : str :=
  let l := trim_left (length s) s in
  rev_append (trim_right_rev (length l) (rev_append l [])) [].

(* ---- findVendor / hasVendor / unvendorPath (copied by the tool from cmd/go) ---- *)
Definition s_slash_vendor : str := S "/vendor/".
Definition s_vendor : str := S "vendor/".

(* strings.LastIndex *)
Fixpoint last_index (sub s : str) : option nat :=
  match s with
  | [] => if has_prefix sub [] then Some O else None
  | _ :: s' =>
    match last_index sub s' with
    | Some i => Some (Datatypes.S i)
    | None => if has_prefix sub s then Some O else None
    end
  end.

Definition find_vendor (path : str) : option nat :=
  match last_index s_slash_vendor path with
  | Some i => Some (i + 1)%nat
  | None => if has_prefix s_vendor path then Some O else None
  end.

Definition has_vendor (path : str) : bool :=
  match find_vendor path with Some _ => true | None => false end.

(* path[i+len("vendor/"):] *)
Definition unvendor (path : str) : str :=
  match find_vendor path with
  | Some i => skipn (i + 7)%nat path
  | None => path
  end.

(* ---- getPackages' loop ---- *)
Record gn_opts := mkopts {
  o_standard : bool;           (* -standard *)
  o_novendor : bool;           (* -novendor *)
  o_filter : str -> bool       (* -filter, as the predicate regexp.MatchString *)
}.

Definition s_true : str := S "true".
Definition s_main : str := S "main".
Definition s_index_1_1 : str := S "runtime error: index out of range [1] with length 1".
Definition s_index_2_2 : str := S "runtime error: index out of range [2] with length 2".
Definition s_index_0_0 : str := S "runtime error: index out of range [0] with length 0".

Definition gn_table := list (str * str).    (* the Go map packages: path -> name *)

(* packages[path] of a map[string]string: "" when absent *)
Definition gn_get (tbl : gn_table) (path : str) : str :=
  match alookup path tbl with Some n => n | None => [] end.

Definition gn_step (o : gn_opts) (tbl : gn_table) (line : str) : result gn_table :=
  match split_on x20 line with
  | [] => Panic s_index_0_0
  | p0 :: rest =>
    if negb (Bool.eqb (str_eqb p0 s_true) (o_standard o)) then Ok tbl
    else match rest with
         | [] => Panic s_index_1_1
         | [_] => Panic s_index_2_2
         | path :: name :: _ =>
           if o_novendor o && has_vendor path then Ok tbl
           else if str_eqb name s_main then Ok tbl
           else if negb (o_filter o path) then Ok tbl
           else let path' := unvendor path in
                if nonempty (gn_get tbl path') then Ok tbl
                else Ok (aset path' name tbl)
         end
  end.

Fixpoint gn_fold (o : gn_opts) (tbl : gn_table) (lines : list str) : result gn_table :=
  match lines with
  | [] => Ok tbl
  | l :: r => bind (gn_step o tbl l) (fun t => gn_fold o t r)
  end.

Definition gn_lines (out : str) : list str := split_on x0a (trim_space out).

Definition gn_packages (o : gn_opts) (out : str) : result gn_table := gn_fold o [] (gn_lines out).

(* ---- hints(): the jennifer File ---- *)
Definition gn_tok (m : str) : code :=
  match find (fun r => str_eqb (tr_method r) m) token_table with
  | Some r => CTok (if str_eqb (tr_type r) (S "identifierToken") then TkId (tr_text r) else TkText (tr_text r))
  | None => CNil
  end.

Definition gn_group (m : str) (gid : N) (items : list code) : code :=
  match find (fun r => str_eqb (gr_method r) m) group_table with
  | Some r => CGroup gid (gr_name r) (gr_open r) (gr_close r) (gr_sep r) (gr_multi r) items
  | None => CNil
  end.

(* DictFunc(func(d Dict){ for path, name := range packages { d[Lit(path)] = Lit(name) } }):
   the list order stands for the (arbitrary) iteration order of the Go map *)
Definition gn_dict (tbl : gn_table) : code :=
  CDict (map (fun kv => (CTok (TkLit (LStr (fst kv))), CTok (TkLit (LStr (snd kv))))) tbl).

Definition s_header : str := S "This file is generated - do not edit.".
Definition s_contains : str := S " contains package name hints".

Definition gn_file (pkg name : str) (tbl : gn_table) : file :=
  let f0 := add_header (new_file pkg) s_header in                          (* NewFile, HeaderComment *)
  let f1 := add_item f0 (CStmt [CTok (TkText [x0a])]) in                   (* file.Line() *)
  let f2 := add_item f1 (CStmt [CComment (name ++ s_contains)]) in         (* file.Commentf *)
  add_item f2 (CStmt [gn_tok (S "Var"); CTok (TkId name); CTok (TkText (S "="));
                      gn_group (S "Map") 1 [CStmt [gn_tok (S "String")]]; gn_tok (S "String");
                      gn_group (S "Values") 2 [gn_dict tbl]]).

(* the pairs in the order the Dict prints them: sorted by the quoted key *)
Definition gn_quoted (tbl : gn_table) : list (str * str) :=
  map (fun kv => (GoQuote (fst kv), GoQuote (snd kv))) tbl.
Definition gn_printed (tbl : gn_table) : gn_table :=
  isort_by (fun kv => GoQuote (fst kv)) tbl.
(* the lines of the map literal as handed to the formatter (two or more entries) *)
Definition gn_printed_lines (tbl : gn_table) : list str :=
  map (fun kv => GoQuote (fst kv) ++ S ":" ++ GoQuote (snd kv) ++ S ",") (gn_printed tbl).

(* ---- the whole run ---- *)
Inductive gn_outcome :=
| GnGoListFailed                               (* log.Fatal, exit status 1, nothing written *)
| GnPanic (msg : str)                          (* exit status 2, nothing written *)
| GnWritten (tbl : gn_table) (raw : str).      (* raw: the text handed to go/format; its result is written *)

Definition gn_run (o : gn_opts) (pkg name : str) (golist : option str) : gn_outcome :=
  match golist with
  | None => GnGoListFailed
  | Some out =>
    match gn_packages o out with
    | Panic m => GnPanic m
    | Ok tbl =>
      match file_raw (gn_file pkg name tbl) with
      | Panic m => GnPanic m
      | Ok r => GnWritten tbl (snd r)
      end
    end
  end.
