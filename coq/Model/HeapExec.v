(* Cases of kind (heap ...): histories over statement variables (build / append / clone /
   render) executed on the slice-level model of Model/Heap.v.  Stub until that model exists. *)
From Jen Require Export Model.Exec.

Definition run_heap_case (ops : list sexp) : option (list str) := None.
