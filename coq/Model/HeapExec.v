(* Cases of kind (heap): histories over statement variables executed on the slice-level model
   of Model/Heap.v.

     (heap) (snew V) (sappend V <code> ...) (sclone V' V) (srender V) ...

   Variables are numbered 0, 1, 2, ... in creation order: (snew V) and (sclone V' V) must
   name the next free number, every other variable mentioned must exist; otherwise the
   line is a bad case.  (sappend V c1 .. ck) is ONE append of k items (k >= 0); the items
   are read with [dcode] of Model/Exec.v.  (srender V) prints what Statement.Render
   writes for the variable's snapshot, in the observation syntax of rplain.  Clone is the
   code as written ([clone_wrap]); the growth policy is the Go-like [go_grow] (by
   C20_refines_lists every policy gives the same snapshots). *)
From Jen Require Export Model.Exec.
From Jen Require Import Model.Heap.
Local Open Scope N_scope.

Definition heap_step (h : heap) (op : sexp) : option (heap * list str) :=
  match op with
  | SList (Atom k :: args) =>
    if str_eqb k (S "snew") then
      match args with
      | [ve] => obind (atom_N ve) (fun v => if v =? hp_nvars h then Some (new_stmt h, []) else None)
      | _ => None
      end
    else if str_eqb k (S "sappend") then
      match args with
      | ve :: items =>
        obind (atom_N ve) (fun v =>
        if bound h v then
          obind (all_some (map dcode items)) (fun cs => Some (append go_grow h v (map ICode cs), []))
        else None)
      | _ => None
      end
    else if str_eqb k (S "sclone") then
      match args with
      | [ce; ve] =>
        obind (atom_N ce) (fun c => obind (atom_N ve) (fun v =>
        if (c =? hp_nvars h) && bound h v then Some (clone_wrap h v, []) else None))
      | _ => None
      end
    else if str_eqb k (S "srender") then
      match args with
      | [ve] =>
        obind (atom_N ve) (fun v =>
        if bound h v then
          Some (h, [print_outcome false (code_render id_fmt (fun _ => false) (snapshot h v))])
        else None)
      | _ => None
      end
    else None
  | _ => None
  end.

Fixpoint run_heap_ops (h : heap) (ops : list sexp) : option (list str) :=
  match ops with
  | [] => Some []
  | op :: ops' =>
    match heap_step h op with
    | Some (h', obs) => omap (app obs) (run_heap_ops h' ops')
    | None => None
    end
  end.

Definition run_heap_case (ops : list sexp) : option (list str) := run_heap_ops empty_heap ops.
