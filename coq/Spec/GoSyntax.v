(* REFERENCE TABLE of the concrete syntax of Go's delimited constructs, written BY HAND from
   The Go Programming Language Specification (go1.21 and later: min, max, clear) - the
   productions are quoted next to each row - and from jennifer's README, which says which DSL
   method stands for which construct.  It is NOT derived from jennifer's code: the tables
   extracted from the code (Gen/Tables.v) are COMPARED with this one in Props/C01.v.

   A row: the DSL method; what is written before the first item; what is written between
   two items; what is written after the last item; whether every item goes on a line of its
   own (Go's grammar then needs no separator token: the scanner inserts `;` at a newline after
   an operand, `)`, `]`, `}`, `return`, `break`, `continue`, `fallthrough`, `++`, `--` - and a
   newline is written before the closer, too).

   A keyword opener carries the blank that separates it from the first item (`if x`, not
   `ifx`); openers made of a keyword and a bracket need none (`map[`, `struct{`). *)
From Jen Require Import Base.Bytes.
Local Open Scope N_scope.

Record syntax_row := mkrow {
  sy_method : str;     (* DSL method *)
  sy_open : str;
  sy_sep : str;
  sy_close : str;
  sy_multi : bool
}.

(* a call of a predeclared function:  Arguments = "(" [ ExpressionList [ "..." ] [ "," ] ] ")" ,
   the function being the predeclared identifier [fn] of the universe block *)
Definition builtin_call (method fn : str) : syntax_row :=
  mkrow method (fn ++ S "(") (S ",") (S ")") false.

Definition go_syntax : list syntax_row := [
  (* Arguments      = "(" [ ( ExpressionList | Type [ "," ExpressionList ] ) [ "..." ] [ "," ] ] ")" *)
  mkrow (S "Call")      (S "(")  (S ",")  (S ")")  false;
  (* Parameters     = "(" [ ParameterList [ "," ] ] ")" ;  Receiver = Parameters ;
     ParameterList  = ParameterDecl { "," ParameterDecl } *)
  mkrow (S "Params")    (S "(")  (S ",")  (S ")")  false;
  (* Index          = "[" Expression [ "," ] "]" ;
     Slice          = "[" [ Expression ] ":" [ Expression ] "]" |
                      "[" [ Expression ] ":" Expression ":" Expression "]" ;
     ArrayType      = "[" ArrayLength "]" ElementType ;  SliceType = "[" "]" ElementType *)
  mkrow (S "Index")     (S "[")  (S ":")  (S "]")  false;
  (* LiteralValue   = "{" [ ElementList [ "," ] ] "}" ;  ElementList = KeyedElement { "," KeyedElement } *)
  mkrow (S "Values")    (S "{")  (S ",")  (S "}")  false;
  (* Block          = "{" StatementList "}" ;  StatementList = { Statement ";" } *)
  mkrow (S "Block")     (S "{")  []       (S "}")  true;
  (* ConstDecl      = "const" ( ConstSpec | "(" { ConstSpec ";" } ")" ) ; same for var, type, import *)
  mkrow (S "Defs")      (S "(")  []       (S ")")  true;
  (* Operand        = ... | "(" Expression ")" ;  Conversion = Type "(" Expression [ "," ] ")" ;
     Type           = ... | "(" Type ")" *)
  mkrow (S "Parens")    (S "(")  []       (S ")")  false;
  (* ExpressionList = Expression { "," Expression } ;  IdentifierList = identifier { "," identifier } *)
  mkrow (S "List")      []       (S ",")  []       false;
  (* IfStmt         = "if" [ SimpleStmt ";" ] Expression Block [ "else" ( IfStmt | Block ) ] *)
  mkrow (S "If")        (S "if ")      (S ";")  []  false;
  (* ForStmt        = "for" [ Condition | ForClause | RangeClause ] Block ;
     ForClause      = [ InitStmt ] ";" [ Condition ] ";" [ PostStmt ] *)
  mkrow (S "For")       (S "for ")     (S ";")  []  false;
  (* ExprSwitchStmt = "switch" [ SimpleStmt ";" ] [ Expression ] "{" { ExprCaseClause } "}" ;
     TypeSwitchStmt = "switch" [ SimpleStmt ";" ] TypeSwitchGuard "{" { TypeCaseClause } "}" *)
  mkrow (S "Switch")    (S "switch ")  (S ";")  []  false;
  (* ReturnStmt     = "return" [ ExpressionList ] *)
  mkrow (S "Return")    (S "return ")  (S ",")  []  false;
  (* ExprCaseClause = ExprSwitchCase ":" StatementList ;  ExprSwitchCase = "case" ExpressionList | "default" ;
     TypeSwitchCase = "case" TypeList | "default" ;  CommCase = "case" ( SendStmt | RecvStmt ) | "default" *)
  mkrow (S "Case")      (S "case ")    (S ",")  (S ":")  false;
  (* StructType     = "struct" "{" { FieldDecl ";" } "}" *)
  mkrow (S "Struct")    (S "struct{")     []  (S "}")  true;
  (* InterfaceType  = "interface" "{" { InterfaceElem ";" } "}" *)
  mkrow (S "Interface") (S "interface{")  []  (S "}")  true;
  (* MapType        = "map" "[" KeyType "]" ElementType *)
  mkrow (S "Map")       (S "map[")  []       (S "]")  false;
  (* TypeAssertion  = "." "(" Type ")" ;  TypeSwitchGuard = [ identifier ":=" ] PrimaryExpr "." "(" "type" ")" *)
  mkrow (S "Assert")    (S ".(")    []       (S ")")  false;
  (* TypeParameters = "[" TypeParamList [ "," ] "]" ;  TypeArgs = "[" TypeList [ "," ] "]" *)
  mkrow (S "Types")     (S "[")     (S ",")  (S "]")  false;
  (* TypeElem       = TypeTerm { "|" TypeTerm } *)
  mkrow (S "Union")     []          (S "|")  []       false;
  (* Built-in functions (universe block) *)
  builtin_call (S "Append")  (S "append");
  builtin_call (S "Cap")     (S "cap");
  builtin_call (S "Clear")   (S "clear");
  builtin_call (S "Close")   (S "close");
  builtin_call (S "Complex") (S "complex");
  builtin_call (S "Copy")    (S "copy");
  builtin_call (S "Delete")  (S "delete");
  builtin_call (S "Imag")    (S "imag");
  builtin_call (S "Len")     (S "len");
  builtin_call (S "Make")    (S "make");
  builtin_call (S "Max")     (S "max");
  builtin_call (S "Min")     (S "min");
  builtin_call (S "New")     (S "new");
  builtin_call (S "Panic")   (S "panic");
  builtin_call (S "Print")   (S "print");
  builtin_call (S "Println") (S "println");
  builtin_call (S "Real")    (S "real");
  builtin_call (S "Recover") (S "recover")
].

(* Go spec, "Keywords" - the 25 reserved words (Gen/Goroot.v go_keywords is the same list
   taken from the installed go/token; Props/C01.v compares) *)
Definition spec_keywords : list str := [
  S "break"; S "default"; S "func"; S "interface"; S "select";
  S "case"; S "defer"; S "go"; S "map"; S "struct";
  S "chan"; S "else"; S "goto"; S "package"; S "switch";
  S "const"; S "fallthrough"; S "if"; S "range"; S "type";
  S "continue"; S "for"; S "import"; S "return"; S "var"
].

(* The one name among jennifer's one-token constructs that Go does not predeclare: README,
   "Helpers: Err" - the conventional name of an error variable. *)
Definition conventional_identifiers : list str := [S "err"].

(* the two keywords only a File writes (package clause, import declarations) *)
Definition file_keywords : list str := [S "package"; S "import"].

(* ASCII lower case: a DSL method is named after the Go token it writes (Break -> break) *)
Definition lower_byte (b : byte) : byte :=
  let c := b2n b in if (65 <=? c) && (c <=? 90) then n2b (c + 32) else b.
Definition to_lower (s : str) : str := map lower_byte s.

(* balanced pairs of the three bracket kinds, by count: `(`=`)`, `[`=`]`, `{`=`}` *)
Definition count_byte (b : byte) (s : str) : nat := length (filter (beq b) s).
Definition brackets_match (s : str) : bool :=
  Nat.eqb (count_byte x28 s) (count_byte x29 s) &&
  Nat.eqb (count_byte x5b s) (count_byte x5d s) &&
  Nat.eqb (count_byte x7b s) (count_byte x7d s).
