(* The IO shape of jennifer's render entry points (C10 at buffer level).

   tools/cmd/io2coq translates the body of every exported function of package jen that
   receives a writer of the caller - a parameter whose type implements io.Writer -
   (File.Render, Statement/Group.RenderWithFile, and the delegating Render methods) and of
   every exported function that calls package os
   (File.Save) into the tiny statement language below (Gen/IO.v, regenerated from /repo on
   every run).  This file gives
     - the language ([ev], [stmt]),
     - a semantics [run] over a state made of the LOCAL buffers and variables, the caller's
       writer as a LOG of the Write calls it received, and the log of os.* calls; every
       fallible event may fail (oracle [orc], formatter [fmt], fault schedules [wfail],
       [fsfail]) and a failure takes the exit its handler describes,
     - the decidable checkers [io_wf] / [save_wf] / [delegate_wf].
   The theorems are in Proofs/IOProofs.v; nothing here mentions Model/. *)
From Jen Require Export Base.Bytes.
Open Scope bool_scope.

(* how the caller's writer is used *)
Inductive wkind :=
| KWrite         (* w.Write(x) with x a local []byte variable: ONE Write call on the writer *)
| KFprint        (* fmt.Fprint/Fprintf/Fprintln(w, ..) *)
| KWriteString   (* io.WriteString(w, ..) / io.Copy(w, ..) *)
| KPass          (* w passed to some other function or method (x.render(f, w, ..), g(w)) *)
| KDelegate      (* w passed, as the writer argument, to another ENTRY POINT of this table *)
| KStore         (* w assigned, captured by a closure, put in a composite literal ... *)
| KOtherUse.     (* any other statement that mentions w *)

Inductive ev :=
| EvNewBuf (b : str)                  (* b := &bytes.Buffer{} / bytes.Buffer{} / new(bytes.Buffer) / var b bytes.Buffer.
                                         Names stand for go/types objects: a second object of the same
                                         name is printed name#2 by the translator *)
| EvDecl (x : str)                    (* var x T  (no initialiser) *)
| EvRender (target buf : str)         (* target(.., buf, ..): a function of package jen receiving
                                         the LOCAL buffer buf as its io.Writer: x.render(f, buf, nil),
                                         f.renderImports(buf) *)
| EvWriteLocal (buf : str)            (* fmt.Fprint*(buf, ..), buf.Write*(..), io.WriteString(buf, ..) *)
| EvBytes (dst src : str)             (* dst = src.Bytes() *)
| EvFormat (dst src : str)            (* dst, err = format.Source(src.Bytes()) *)
| EvWriteCaller (k : wkind) (what arg : str)   (* ANY use of the caller's writer; for KWrite arg is the
                                         variable written, what the printed call *)
| EvRenderToBuffer (entry buf : str)  (* recv.entry(buf): an entry point of the table called with a local buffer *)
| EvWriteFile (fn path data : str)    (* any call into package os or io/ioutil: fn the function
                                         ("os.WriteFile"), path its first argument when that is an
                                         identifier, data the buffer b when the second argument is b.Bytes() *)
| EvOther (text : str).               (* anything else, printed *)

(* what happens to the error of a fallible event *)
Inductive onerr :=
| EvReturnErr        (* if err != nil { return err } *)
| EvReturnWrapped    (* if err != nil { return fmt.Errorf(.., err, ..) } *)
| EvSwallowErr.      (* if err != nil { return nil } *)

Inductive stmt :=
| Nop
| Block (a b : stmt)                  (* a; b *)
| Do (e : ev)                         (* e with no error check (infallible, or its error is dropped) *)
| Try (e : ev) (h : onerr)            (* e; if err != nil { h } *)
| EvReturnNil                         (* return nil *)
| EvCondNoFormat (a b : stmt)         (* if f.NoFormat { a } else { b }; also if !f.NoFormat { b } else { a };
                                         a missing else is Nop; f is the receiver *)
| If (cond : str) (a : stmt)          (* if cond { a }: cond printed, no call in it but len *)
| For (over : str) (a : stmt).        (* for .. := range over { a }, or a for loop whose header only counts:
                                         the body runs any number of times *)

Definition block (l : list stmt) : stmt := fold_right Block Nop l.

Inductive ekind := EWriter | EFileSys | EDelegate.
Record entry := mkentry {
  e_name : str;            (* "(*File).Render" *)
  e_kind : ekind;
  e_writer : str;          (* names of the writer parameters, comma-separated ([] for EFileSys) *)
  e_path : str;            (* name of the first string parameter ([] when none) *)
  e_body : list stmt
}.

(* ------------------------------------------------------------------ semantics *)
Inductive error :=
| EPanic (msg : str)       (* a panic: unwinds whatever the handler *)
| EErr (msg : str)         (* an error value returned by a render / a buffer write / unknown code *)
| EFormat (raw : str)      (* format.Source rejected raw *)
| EWriteErr (n : nat)      (* the n-th Write call on the caller's writer failed *)
| EFs (path : str)         (* an os.* call failed *)
| EWrap (e : error).       (* fmt.Errorf(.., e, ..) *)

Definition is_panic (e : error) : bool := match e with EPanic _ => true | _ => false end.

Record state := mkstate {
  bufs : list (str * str);                 (* local bytes.Buffers *)
  vars : list (str * str);                 (* local []byte variables *)
  wlog : list (str * bool);                (* Write calls received by the caller's writer: bytes, failed *)
  fslog : list (str * str * str * bool)    (* os.* calls: function, path, data, failed *)
}.
Definition st0 : state := mkstate [] [] [] [].

Definition getb (b : str) (st : state) : str :=
  match alookup b (bufs st) with Some s => s | None => [] end.
Definition getv (x : str) (st : state) : str :=
  match alookup x (vars st) with Some s => s | None => [] end.
Definition setb (b v : str) (st : state) : state :=
  mkstate (aset b v (bufs st)) (vars st) (wlog st) (fslog st).
Definition setv (x v : str) (st : state) : state :=
  mkstate (bufs st) (aset x v (vars st)) (wlog st) (fslog st).
Definition logw (v : str) (failed : bool) (st : state) : state :=
  mkstate (bufs st) (vars st) (wlog st ++ [(v, failed)]) (fslog st).
Definition logfs (fn p d : str) (failed : bool) (st : state) : state :=
  mkstate (bufs st) (vars st) (wlog st) (fslog st ++ [(fn, p, d, failed)]).

(* what the world answers to the k-th executed step *)
Record oans := mkoans {
  o_fail : option error;   (* does this (fallible) event fail, and how *)
  o_text : str;            (* the bytes it produces (a failing render may have produced some) *)
  o_count : nat;           (* number of iterations of a range loop *)
  o_cond : bool            (* value of an if condition *)
}.

Section Run.
  Variable orc : nat -> oans.
  Variable noformat : bool.                 (* f.NoFormat *)
  Variable fmt : str -> option str.         (* go/format.Source *)
  Variable wfail : nat -> bool.             (* does the n-th Write on the caller's writer fail (from 1) *)
  Variable fsfail : str -> bool.            (* does an os call on this path fail *)
  Variable strval : str -> str.             (* value of a string parameter (filename) *)
  (* what a called entry point does to the writer it is given, and what it returns *)
  Variable sub : nat -> list (str * bool) * option error.

  Definition run_ev (e : ev) (st : state) (k : nat) : state * option error :=
    match e with
    | EvNewBuf b => (setb b [] st, None)
    | EvDecl _ => (st, None)
    | EvRender _ b | EvWriteLocal b => (setb b (getb b st ++ o_text (orc k)) st, o_fail (orc k))
    | EvBytes x src => (setv x (getb src st) st, None)
    | EvFormat x src =>
      match fmt (getb src st) with
      | Some o => (setv x o st, None)
      | None => (st, Some (EFormat (getb src st)))
      end
    | EvWriteCaller kd _ x =>
      let n := Datatypes.S (length (wlog st)) in
      let data := match kd with KWrite => getv x st | _ => o_text (orc k) end in
      (logw data (wfail n) st, if wfail n then Some (EWriteErr n) else None)
    | EvRenderToBuffer _ b =>
      (setb b (getb b st ++ concat_str (map fst (fst (sub k)))) st, snd (sub k))
    | EvWriteFile fn p d =>
      (logfs fn (strval p) (getb d st) (fsfail (strval p)) st,
       if fsfail (strval p) then Some (EFs (strval p)) else None)
    | EvOther _ => (st, o_fail (orc k))
    end.

  Inductive res :=
  | Normal (st : state) (k : nat)
  | Returned (e : option error) (st : state).

  Fixpoint iter (n : nat) (f : state -> nat -> res) (st : state) (k : nat) : res :=
    match n with
    | O => Normal st k
    | Datatypes.S n' => match f st k with Normal st' k' => iter n' f st' k' | r => r end
    end.

  Fixpoint run (s : stmt) (st : state) (k : nat) : res :=
    match s with
    | Nop => Normal st k
    | Block a b => match run a st k with Normal st' k' => run b st' k' | r => r end
    | Do e =>
      let (st', f) := run_ev e st k in
      match f with
      | Some x => if is_panic x then Returned (Some x) st' else Normal st' (Datatypes.S k)
      | None => Normal st' (Datatypes.S k)
      end
    | Try e h =>
      let (st', f) := run_ev e st k in
      match f with
      | None => Normal st' (Datatypes.S k)
      | Some x =>
        if is_panic x then Returned (Some x) st'
        else match h with
             | EvReturnErr => Returned (Some x) st'
             | EvReturnWrapped => Returned (Some (EWrap x)) st'
             | EvSwallowErr => Returned None st'
             end
      end
    | EvReturnNil => Returned None st
    | EvCondNoFormat a b => if noformat then run a st k else run b st k
    | If _ a => if o_cond (orc k) then run a st (Datatypes.S k) else Normal st (Datatypes.S k)
    | For _ a => iter (o_count (orc k)) (run a) st (Datatypes.S k)
    end.

  (* the call: final state and result (falling off the end returns nil) *)
  Definition call (body : list stmt) : state * option error :=
    match run (block body) st0 0 with
    | Normal st _ => (st, None)
    | Returned e st => (st, e)
    end.
End Run.

(* ------------------------------------------------------------------ the checkers *)

(* statements that touch only local buffers and variables, with every fallible event's error
   (or panic) leaving the function, and no early `return nil` *)
Fixpoint local_ok (s : stmt) : bool :=
  match s with
  | Nop => true
  | Block a b => local_ok a && local_ok b
  | Do (EvNewBuf _) | Do (EvDecl _) | Do (EvBytes _ _) => true
  | Do _ => false
  | Try (EvRender _ _) h | Try (EvWriteLocal _) h | Try (EvFormat _ _) h =>
    match h with EvReturnErr | EvReturnWrapped => true | EvSwallowErr => false end
  | Try _ _ => false
  | EvReturnNil => false
  | EvCondNoFormat a b => local_ok a && local_ok b
  | If _ a | For _ a => local_ok a
  end.

Definition returns_err (h : onerr) : bool :=
  match h with EvReturnErr | EvReturnWrapped => true | EvSwallowErr => false end.

(* ---- the formatting phase ----
   The statements between the last local statement and the write decide WHAT is written: the
   raw contents of a buffer, its formatted contents, or - under `if f.NoFormat` - one or the
   other.  They are analysed by a small symbolic execution, so that the code may say it in
   any of the equivalent ways:
       var output []byte; if f.NoFormat { output = source.Bytes() } else { output, err = format.Source(source.Bytes()); check }
       output := source.Bytes(); if !f.NoFormat { output, err = format.Source(source.Bytes()); check }
       if !f.NoFormat { format; check } else { output = source.Bytes() }
       b, err := format.Source(buf.Bytes()); check
   [binding]: what is known about the output variable: (x, src, k) - x holds the contents of
   buffer src, raw (ORaw), formatted (OFmt), or raw under NoFormat and formatted otherwise
   (OSel).  go/format.Source has been called exactly when the value is a formatted one, and
   its error left the function. *)
Inductive oval := ORaw | OFmt | OSel.
Definition binding := option (str * str * oval).

Definition oval_eqb (a b : oval) : bool :=
  match a, b with ORaw, ORaw | OFmt, OFmt | OSel, OSel => true | _, _ => false end.
Definition binding_eqb (a b : binding) : bool :=
  match a, b with
  | None, None => true
  | Some (x, s, k), Some (x', s', k') => str_eqb x x' && str_eqb s s' && oval_eqb k k'
  | _, _ => false
  end.

(* a raw copy may be overwritten (nothing fallible has happened); a formatted value may not *)
Definition can_rebind (cur : binding) : bool :=
  match cur with None | Some (_, _, ORaw) => true | Some _ => false end.

(* the two arms of `if f.NoFormat { a } else { b }`: raw in a and formatted in b is OSel;
   otherwise both arms must agree *)
Definition join_arms (ra rb : binding) : option binding :=
  match ra, rb with
  | Some (x, s, ORaw), Some (x', s', OFmt) =>
    if str_eqb x x' && str_eqb s s' then Some (Some (x, s, OSel)) else None
  | _, _ => if binding_eqb ra rb then Some ra else None
  end.

Fixpoint fmt_sym (s : stmt) (cur : binding) : option binding :=
  match s with
  | Nop => Some cur
  | Block a b => match fmt_sym a cur with Some c => fmt_sym b c | None => None end
  | Do (EvDecl _) => Some cur
  | Do (EvBytes x src) => if can_rebind cur then Some (Some (x, src, ORaw)) else None
  | Try (EvFormat x src) h =>
    if can_rebind cur && returns_err h then Some (Some (x, src, OFmt)) else None
  | EvCondNoFormat a b =>
    match fmt_sym a cur, fmt_sym b cur with
    | Some ra, Some rb => join_arms ra rb
    | _, _ => None
    end
  | _ => None
  end.

(* the statements the formatting phase may be made of (used only to find where it starts:
   it is the longest run of such statements before the write) *)
Fixpoint is_fmt_stmt (s : stmt) : bool :=
  match s with
  | Nop | Do (EvDecl _) | Do (EvBytes _ _) | Try (EvFormat _ _) _ => true
  | Block a b | EvCondNoFormat a b => is_fmt_stmt a && is_fmt_stmt b
  | _ => false
  end.
Fixpoint span_fmt (r : list stmt) : list stmt * list stmt :=
  match r with
  | s :: r' => if is_fmt_stmt s then let (a, b) := span_fmt r' in (s :: a, b) else ([], r)
  | [] => ([], [])
  end.

(* body = pre ++ fp ++ [w.Write(x) with its error returned; return nil], fp the formatting
   phase, which leaves in x the formatted contents of src (nf = false) or, honouring NoFormat,
   the raw or the formatted contents (nf = true) *)
Definition io_parts (body : list stmt) : option (list stmt * str * str * bool) :=
  match rev body with
  | EvReturnNil :: Try (EvWriteCaller KWrite _ x) EvReturnErr :: rest =>
    let (rfp, rpre) := span_fmt rest in
    match fmt_sym (block (rev rfp)) None with
    | Some (Some (x', src, k)) =>
      if str_eqb x x' then
        match k with
        | OFmt => Some (rev rpre, x, src, false)
        | OSel => Some (rev rpre, x, src, true)
        | ORaw => None
        end
      else None
    | _ => None
    end
  | _ => None
  end.

(* names of the buffers used / declared (a sanity check: every buffer an event writes
   into was introduced by EvNewBuf in the same function) *)
Definition ev_bufs (e : ev) : list str :=
  match e with
  | EvRender _ b | EvWriteLocal b | EvRenderToBuffer _ b => [b]
  | EvBytes _ s | EvFormat _ s => [s]
  | EvWriteFile _ _ d => [d]
  | _ => []
  end.
Fixpoint used_bufs (s : stmt) : list str :=
  match s with
  | Nop | EvReturnNil => []
  | Block a b | EvCondNoFormat a b => used_bufs a ++ used_bufs b
  | Do e | Try e _ => ev_bufs e
  | If _ a | For _ a => used_bufs a
  end.
Definition declared_bufs (body : list stmt) : list str :=
  flat_map (fun s => match s with Do (EvNewBuf b) => [b] | _ => [] end) body.
Definition bufs_declared (body : list stmt) : bool :=
  forallb (fun b => existsb (str_eqb b) (declared_bufs body)) (flat_map used_bufs body).

(* an entry point that receives the caller's writer *)
Definition io_wf (body : list stmt) : bool :=
  match io_parts body with
  | Some (pre, _, _, _) => forallb local_ok pre && bufs_declared body
  | None => false
  end.

(* File.Save: fresh buffer; render into it (error returned); ONE os call, os.WriteFile(path
   parameter, buffer), error returned; return nil *)
Definition is_write_file (fn : str) : bool :=
  str_eqb fn (S "os.WriteFile") || str_eqb fn (S "ioutil.WriteFile").
Definition save_parts (path : str) (body : list stmt) : option (str * str) :=
  match body with
  | [Do (EvNewBuf b); Try (EvRenderToBuffer en b1) EvReturnErr; Try (EvWriteFile fn p b2) EvReturnErr; EvReturnNil] =>
    if str_eqb b b1 && str_eqb b b2 && str_eqb p path && negb (str_eqb path []) && is_write_file fn
    then Some (en, b) else None
  | _ => None
  end.
Definition save_wf (path : str) (body : list stmt) : bool :=
  match save_parts path body with Some _ => true | None => false end.

(* a delegating entry point: `return recv.Target(w, ..)` and nothing else *)
Definition delegate_target (body : list stmt) : option str :=
  match body with
  | [Try (EvWriteCaller KDelegate target _) EvReturnErr; EvReturnNil] => Some target
  | _ => None
  end.

Definition find_entry (tbl : list entry) (name : str) : option entry :=
  find (fun e => str_eqb (e_name e) name) tbl.

(* follow the delegations from [name] to the entry that does the work (Render ->
   RenderWithFile -> an unexported helper that was handed the writer ..) *)
Fixpoint resolve (tbl : list entry) (fuel : nat) (name : str) {struct fuel} : option entry :=
  match find_entry tbl name with
  | None => None
  | Some e =>
    match e_kind e with
    | EDelegate =>
      match fuel with
      | O => None
      | Datatypes.S fuel' =>
        match delegate_target (e_body e) with
        | Some t => resolve tbl fuel' t
        | None => None
        end
      end
    | _ => Some e
    end
  end.

(* [name] is, or delegates (in any number of steps) to, an EWriter entry whose body passes [io_wf] *)
Definition writer_entry_ok (tbl : list entry) (name : str) : bool :=
  match resolve tbl (length tbl) name with
  | Some e' => match e_kind e' with EWriter => io_wf (e_body e') | _ => false end
  | None => false
  end.

Definition entry_wf (tbl : list entry) (e : entry) : bool :=
  match e_kind e with
  | EWriter => io_wf (e_body e)
  | EDelegate =>
    match delegate_target (e_body e) with
    | Some t => writer_entry_ok tbl t
    | None => false
    end
  | EFileSys =>
    match save_parts (e_path e) (e_body e) with
    | Some (en, _) => writer_entry_ok tbl en
    | None => false
    end
  end.

Definition table_wf (tbl : list entry) : bool :=
  negb (match tbl with [] => true | _ => false end) && forallb (entry_wf tbl) tbl.
