(* C14, definitions only (no proofs here):
   1. [api_wf]: the boolean well-formedness check that Props/C14.v evaluates on the table
      generated from the CURRENT source (Gen/Api.v) and on the struct types of the package
      ([api_structs], same file);
   2. a small big-step semantics of the builder IR of Spec/ApiShape.v.

   What the semantics models: a store of *Statement cells (each a list of items), *Group
   cells (five fields and a list of items) and Dict cells, addressed by allocation index, so
   that "the same pointer" is meaningful; straight-line bodies; calls between API functions
   resolved in the table (with fuel: the call depth of the pinned tree is 3); user callbacks
   as an arbitrary function [cb_run] on the store (a Section variable: every theorem holds for
   every behaviour of the callbacks) whose invocations BY THE BODY BEING RUN are recorded in a
   log (what the callback itself does, including calling the API again, is inside [cb_run]).

   What it abstracts: Go slices are lists (no capacity / aliasing of backing arrays: that is
   C20's subject; `f(xs...)` and `f(x1, .., xn)` pass equal lists); argument values the
   builders only store (strings, interface{} values, maps, Options, user Code values) are opaque
   ([VOpaque], field selection [VField], fmt.Sprintf as the uninterpreted [VApp]); panics are
   the result [None] (unbound variable, append through a dangling pointer, ill-typed call,
   fuel exhausted); a callback always returns (a panicking callback unwinds the
   constructing call in Go; nothing is built then). *)
From Jen Require Export Spec.ApiShape.

(* ------------------------------------------------------------------ generic helpers *)
Fixpoint list_eqb {A} (eqb : A -> A -> bool) (l1 l2 : list A) : bool :=
  match l1, l2 with
  | [], [] => true
  | x :: l1', y :: l2' => eqb x y && list_eqb eqb l1' l2'
  | _, _ => false
  end.

Definition mem (x : str) (l : list str) : bool := existsb (str_eqb x) l.

Fixpoint nodup_b (l : list str) : bool :=
  match l with
  | [] => true
  | x :: l' => negb (mem x l') && nodup_b l'
  end.

Definition pkind_eqb (a b : pkind) : bool :=
  match a, b with
  | PPlain, PPlain | PVariadic, PVariadic | PFunc, PFunc => true
  | _, _ => false
  end.

Definition param_eqb (a b : param) : bool :=
  str_eqb (p_name a) (p_name b) && str_eqb (p_type a) (p_type b) && pkind_eqb (p_kind a) (p_kind b).

Definition is_func (p : param) : bool := pkind_eqb (p_kind p) PFunc.
Definition is_variadic (p : param) : bool := pkind_eqb (p_kind p) PVariadic.
Definition is_plain (p : param) : bool := pkind_eqb (p_kind p) PPlain.

Definition names (ps : list param) : list str := map p_name ps.

(* [strip_suffix suf s]: [Some p] iff [s = p ++ suf] *)
Fixpoint strip_suffix (suf s : str) : option str :=
  if str_eqb s suf then Some []
  else match s with
       | [] => None
       | c :: s' => match strip_suffix suf s' with Some p => Some (c :: p) | None => None end
       end.

Definition row_is (recv name : str) (r : api_row) : bool :=
  str_eqb (r_recv r) recv && str_eqb (r_name r) name.

Definition find_row (tbl : list api_row) (recv name : str) : option api_row :=
  find (row_is recv name) tbl.

Definition s_Statement : str := S "Statement".
Definition s_Group : str := S "Group".
Definition s_pStatement : str := S "*Statement".
Definition s_Func : str := S "Func".
Definition s_File : str := S "File".
Definition s_Render : str := S "Render".
Definition s_GoString : str := S "GoString".

(* ------------------------------------------------------------------ syntactic measures *)
(* [count p e]: sum of [p] over all nodes of [e] *)
Fixpoint count (p : expr -> nat) (e : expr) {struct e} : nat :=
  p e +
  match e with
  | ECallFn _ args | ECallParam _ args | EPure _ args | ECodeList args | EStmtLit args =>
      list_sum (map (count p) args)
  | ECallMeth r _ args => count p r + list_sum (map (count p) args)
  | EGroupLit a b c d e' f => count p a + count p b + count p c + count p d + count p e' + count p f
  | EToken a b => count p a + count p b
  | EComment a | ETag a => count p a
  | _ => 0
  end.

Definition counts (p : expr -> nat) (l : list expr) : nat := list_sum (map (count p) l).

Definition b2nat (b : bool) : nat := if b then 1 else 0.

Definition n_cb_site (e : expr) : nat := match e with ECallParam _ _ => 1 | _ => 0 end.
Definition n_call_of (f : str) (e : expr) : nat :=
  match e with ECallParam g _ => b2nat (str_eqb f g) | _ => 0 end.
Definition n_use_of (x : str) (e : expr) : nat :=
  match e with EVar y | ESpread y | ESel y _ => b2nat (str_eqb x y) | _ => 0 end.
Definition n_api_call (e : expr) : nat :=
  match e with ECallFn _ _ | ECallMeth _ _ _ => 1 | _ => 0 end.

(* the same measures on statements: [ps] is the statement's own contribution *)
Definition count_stmt (p : expr -> nat) (ps : stmt -> nat) (s : stmt) : nat :=
  ps s +
  match s with
  | SDefine _ e | SAppendItems _ e | SReturn e => count p e
  | SAppendSelf _ args | SCallParam _ args => counts p args
  end.

Definition count_body (p : expr -> nat) (ps : stmt -> nat) (l : list stmt) : nat :=
  list_sum (map (count_stmt p ps) l).

Definition s_cb_site (s : stmt) : nat := match s with SCallParam _ _ => 1 | _ => 0 end.
Definition s_call_of (f : str) (s : stmt) : nat :=
  match s with SCallParam g _ => b2nat (str_eqb f g) | _ => 0 end.
Definition s_use_of (x : str) (s : stmt) : nat :=
  match s with SAppendSelf y _ | SAppendItems y _ => b2nat (str_eqb x y) | _ => 0 end.
Definition s_zero (s : stmt) : nat := 0.

Definition cb_sites (l : list stmt) : nat := count_body n_cb_site s_cb_site l.
Definition calls_of (f : str) (l : list stmt) : nat := count_body (n_call_of f) (s_call_of f) l.
Definition uses_of (x : str) (l : list stmt) : nat := count_body (n_use_of x) (s_use_of x) l.
Definition api_calls (l : list stmt) : nat := count_body n_api_call s_zero l.

(* ------------------------------------------------------------------ the shapes *)
(* a parameter passed on unchanged *)
Definition own_arg (p : param) : expr :=
  match p_kind p with PVariadic => ESpread (p_name p) | _ => EVar (p_name p) end.
Definition own_args (ps : list param) : list expr := map own_arg ps.

(* equality on the expressions that occur as arguments and Group fields *)
Definition simple_eqb (a b : expr) : bool :=
  match a, b with
  | ENil, ENil => true
  | EVar x, EVar y => str_eqb x y
  | ESpread x, ESpread y => str_eqb x y
  | EStr x, EStr y => str_eqb x y
  | EBool x, EBool y => Bool.eqb x y
  | EConst x, EConst y => str_eqb x y
  | ESel x f, ESel y g => str_eqb x y && str_eqb f g
  | _, _ => false
  end.

Definition locals_ok (r : api_row) : bool := nodup_b (r_self r :: names (r_params r)).

(* func F(ps) *Statement { return newStatement().F(ps) } *)
Definition is_func_form (r : api_row) : bool :=
  match r_body r with
  | Body [SReturn (ECallMeth ENewStatement m args)] =>
      str_eqb m (r_name r) && list_eqb simple_eqb args (own_args (r_params r))
  | _ => false
  end.

(* func (g *Group) F(ps) *Statement { s := F(ps); g.items = append(g.items, s); return s } *)
Definition is_group_form (r : api_row) : bool :=
  match r_body r with
  | Body [SDefine x (ECallFn f args); SAppendItems g (EVar x1); SReturn (EVar x2)] =>
      str_eqb f (r_name r) && list_eqb simple_eqb args (own_args (r_params r)) &&
      str_eqb g (r_self r) && str_eqb x1 x && str_eqb x2 x &&
      negb (mem x (r_self r :: names (r_params r)))
  | _ => false
  end.

Definition returns_stmt (r : api_row) : bool := str_eqb (r_ret r) s_pStatement.
Definition has_cb (r : api_row) : bool := existsb is_func (r_params r).

Definition body_stmts (r : api_row) : list stmt :=
  match r_body r with Body l => l | _ => [] end.

Definition has_body (r : api_row) : bool :=
  match r_body r with Body _ => true | _ => false end.

(* [return] occurs at most as the last statement *)
Fixpoint returns_last (l : list stmt) : bool :=
  match l with
  | [] => true
  | s :: l' =>
    match l' with
    | [] => true
    | _ => match s with SReturn _ => false | _ => returns_last l' end
    end
  end.

(* a construct: a *Statement method that returns its receiver (so that calls chain) *)
Definition is_construct (r : api_row) : bool :=
  str_eqb (r_recv r) s_Statement && returns_stmt r && has_body r &&
  match last (body_stmts r) (SReturn ENil) with
  | SReturn (EVar x) => str_eqb x (r_self r)
  | _ => false
  end.

(* a Group field: a literal or something read from one of the parameters [pre] *)
Definition field_ok (pre : list str) (e : expr) : bool :=
  match e with
  | EStr _ | EBool _ | EConst _ => true
  | EVar x | ESel x _ => mem x pre
  | _ => false
  end.

(* g := &Group{fields, items: p}; *s = append( *s, g); return s   with p the variadic parameter *)
Definition plain_group_shape (r : api_row) : option (list expr) :=
  match r_body r with
  | Body [SDefine g (EGroupLit a b c d e (EVar p)); SAppendSelf s [EVar g1]; SReturn (EVar s1)] =>
      let ps := r_params r in
      let pre := names (removelast ps) in
      if str_eqb g1 g && str_eqb s (r_self r) && str_eqb s1 s &&
         negb (mem g (r_self r :: names ps)) &&
         match ps with [] => false | _ => is_variadic (last ps (mkparam [] [] PPlain)) && str_eqb (p_name (last ps (mkparam [] [] PPlain))) p end &&
         forallb is_plain (removelast ps) &&
         forallb (field_ok pre) [a; b; c; d; e]
      then Some [a; b; c; d; e] else None
  | _ => None
  end.

(* g := &Group{fields}; f(g); *s = append( *s, g); return s   with f the callback parameter *)
Definition func_group_shape (r : api_row) : option (list expr) :=
  match r_body r with
  | Body [SDefine g (EGroupLit a b c d e ENil); SCallParam f [EVar g0]; SAppendSelf s [EVar g1]; SReturn (EVar s1)] =>
      let ps := r_params r in
      let pre := names (removelast ps) in
      if str_eqb g0 g && str_eqb g1 g && str_eqb s (r_self r) && str_eqb s1 s &&
         negb (mem g (r_self r :: names ps)) &&
         match ps with [] => false | _ => is_func (last ps (mkparam [] [] PPlain)) && str_eqb (p_name (last ps (mkparam [] [] PPlain))) f end &&
         forallb is_plain (removelast ps) &&
         forallb (field_ok pre) [a; b; c; d; e]
      then Some [a; b; c; d; e] else None
  | _ => None
  end.

(* does the body allocate a Group / a token at all (whatever else it does)? *)
Definition n_group_lit (e : expr) : nat := match e with EGroupLit _ _ _ _ _ _ => 1 | _ => 0 end.
Definition n_token_lit (e : expr) : nat := match e with EToken _ _ => 1 | _ => 0 end.
Definition builds_group (r : api_row) : bool := negb (Nat.eqb (count_body n_group_lit s_zero (body_stmts r)) 0).
Definition builds_token (r : api_row) : bool := negb (Nat.eqb (count_body n_token_lit s_zero (body_stmts r)) 0).

(* t := token{typ: T, content: <c>}; *s = append( *s, t); return s *)
Definition token_shape (r : api_row) : option (expr * expr) :=
  match r_body r with
  | Body [SDefine t (EToken ty c); SAppendSelf s [EVar t1]; SReturn (EVar s1)] =>
      if str_eqb t1 t && str_eqb s (r_self r) && str_eqb s1 s && negb (mem t (r_self r :: names (r_params r)))
      then Some (ty, c) else None
  | _ => None
  end.

(* the ...Func variant of a construct: same Group fields (resp. token type) as the plain one *)
Definition func_variant_ok (tbl : list api_row) (r : api_row) : bool :=
  match strip_suffix s_Func (r_name r) with
  | None => true
  | Some y =>
    if negb (has_cb r) then true else
    match find_row tbl s_Statement y with
    | None => false
    | Some yr =>
      if builds_group yr || builds_group r then
        match plain_group_shape yr, func_group_shape r with
        | Some fy, Some fr =>
            list_eqb simple_eqb fy fr &&
            list_eqb param_eqb (removelast (r_params yr)) (removelast (r_params r))
        | _, _ => false
        end
      else if builds_token yr || builds_token r then
        match token_shape yr, token_shape r, r_params yr, r_params r with
        | Some (EConst c1, EVar v), Some (EConst c2, ECallParam f []), [pv], [pf] =>
            str_eqb c1 c2 && str_eqb (p_name pv) v && str_eqb (p_name pf) f && is_plain pv && is_func pf
        | _, _, _, _ => false
        end
      else false
    end
  end.

(* constructs that take a variadic list and by design have no ...Func variant
   (genjen/data.go, preventFunc: "the underlying function is not variadic") *)
Definition no_func_variant : list str := [S "Make"].

Definition has_func_variant (tbl : list api_row) (r : api_row) : bool :=
  if builds_group r && existsb is_variadic (r_params r) && negb (mem (r_name r) no_func_variant)
  then match find_row tbl s_Statement (r_name r ++ s_Func) with
       | Some fr => has_cb fr
       | None => false
       end
  else true.

Definition same_params (a b : api_row) : bool := list_eqb param_eqb (r_params a) (r_params b).

(* does the body (re)define the local [x]? *)
Definition defines_b (x : str) (l : list stmt) : bool :=
  existsb (fun s => match s with SDefine y _ => str_eqb x y | _ => false end) l.

Definition construct_ok (tbl : list api_row) (r : api_row) : bool :=
  let l := body_stmts r in
  Nat.eqb (api_calls l) 0 &&
  returns_last l &&
  negb (defines_b (r_self r) l) &&
  Nat.eqb (cb_sites l) (length (filter is_func (r_params r))) &&
  forallb (fun p => if is_func p then Nat.eqb (calls_of (p_name p) l) 1 && Nat.eqb (uses_of (p_name p) l) 0 else true) (r_params r) &&
  match find_row tbl [] (r_name r) with
  | Some fr => same_params fr r && returns_stmt fr && is_func_form fr
  | None => false
  end &&
  match find_row tbl s_Group (r_name r) with
  | Some gr => same_params gr r && returns_stmt gr && is_group_form gr
  | None => false
  end &&
  func_variant_ok tbl r &&
  has_func_variant tbl r.

Definition is_construct_name (tbl : list api_row) (n : str) : bool :=
  match find_row tbl s_Statement n with Some m => is_construct m | None => false end.

(* Render(w) is RenderWithFile(w, NewFile("")) *)
Definition render_delegates (r : api_row) : bool :=
  match r_params r, r_body r with
  | [w], Body [SReturn (ECallMeth (EVar s) m [EVar w1; ECallFn nf [EStr []]])] =>
      str_eqb s (r_self r) && str_eqb m (S "RenderWithFile") && str_eqb w1 (p_name w) && str_eqb nf (S "NewFile")
  | _, _ => false
  end.

(* the receivers whose functions may return *Statement: "" (package functions), Statement, Group *)
Definition builder_recvs : list str := [[]; s_Statement; s_Group].

(* GoString() is: render into a new buffer with the receiver's own Render, panic on error,
   return the text - `buf := bytes.Buffer{}; if err := x.Render(&buf); err != nil { panic(err) };
   return buf.String()` (the body kind [BufString]) *)
Definition gostring_recvs : list str := [s_Statement; s_Group; s_File].

Definition gostring_delegates (r : api_row) : bool :=
  match r_params r, r_body r with
  | [], BufString b (ECallMeth (EVar x) m [EVar b1]) =>
      str_eqb x (r_self r) && str_eqb m s_Render && str_eqb b1 b && negb (str_eqb b (r_self r)) &&
      str_eqb (r_ret r) (S "string")
  | _, _ => false
  end.

Definition row_ok (tbl : list api_row) (r : api_row) : bool :=
  match r_body r with Untranslatable _ => false | _ => true end &&
  (if returns_stmt r || has_cb r then has_body r else true) &&
  locals_ok r &&
  (* every *Statement method returning *Statement: a construct (with all its forms) or a
     callback-free body that builds a new statement (Clone) *)
  (if str_eqb (r_recv r) s_Statement && returns_stmt r
   then if is_construct r then construct_ok tbl r else negb (has_cb r)
   else true) &&
  (* every package function returning *Statement is the function form of a construct *)
  (if str_eqb (r_recv r) [] && returns_stmt r
   then is_func_form r && is_construct_name tbl (r_name r) else true) &&
  (* every *Group method returning *Statement is the Group form of a construct *)
  (if str_eqb (r_recv r) s_Group && returns_stmt r
   then is_group_form r && is_construct_name tbl (r_name r) else true) &&
  (* anything else taking a callback (DictFunc): straight-line, called exactly once, not kept *)
  (if has_cb r && negb (returns_stmt r)
   then Nat.eqb (api_calls (body_stmts r)) 0 &&
        returns_last (body_stmts r) &&
        Nat.eqb (cb_sites (body_stmts r)) (length (filter is_func (r_params r))) &&
        forallb (fun p => if is_func p then Nat.eqb (calls_of (p_name p) (body_stmts r)) 1 else true) (r_params r)
   else true) &&
  (if str_eqb (r_name r) (S "Render") && (str_eqb (r_recv r) s_Statement || str_eqb (r_recv r) s_Group)
   then render_delegates r else true) &&
  (* only package functions and the methods of *Statement and *Group return *Statement: a method
     of File (or of any other type) that does is a form of nothing *)
  (if returns_stmt r then mem (r_recv r) builder_recvs else true).

(* names the property statement lists; each must be present with a callback *)
Definition named_callback_apis : list (str * str) :=
  [(s_Statement, S "Do"); ([], S "DictFunc"); (s_Statement, S "LitFunc"); (s_Statement, S "LitRuneFunc");
   (s_Statement, S "LitByteFunc"); (s_Statement, S "CustomFunc")].

Definition rows_wf (tbl : list api_row) : bool := forallb (row_ok tbl) tbl.

Definition is_nil {A} (l : list A) : bool := match l with [] => true | _ => false end.

(* ---- promotion through embedded fields (File embeds *Group, so f.Type() is the Type method of *Group)
   [cone sts n T]: T and every type reached from T through at most n embedded fields *)
Definition struct_of (sts : list struct_info) (T : str) : option struct_info :=
  find (fun s => str_eqb (t_name s) T) sts.
Definition embeds_of (sts : list struct_info) (T : str) : list str :=
  match struct_of sts T with Some s => t_embeds s | None => [] end.
Definition fields_of (sts : list struct_info) (T : str) : list str :=
  match struct_of sts T with Some s => t_fields s | None => [] end.

Fixpoint cone (sts : list struct_info) (fuel : nat) (T : str) : list str :=
  T :: match fuel with
       | O => []
       | Datatypes.S n => flat_map (cone sts n) (embeds_of sts T)
       end.

(* a shortest chain of embedded fields passes through each struct type at most once *)
Definition cone_of (sts : list struct_info) (T : str) : list str := cone sts (length sts) T.

(* T is another type than B and gets B's methods by promotion (unless something is in the way) *)
Definition reaches (sts : list struct_info) (B T : str) : bool :=
  negb (str_eqb T B) && mem B (cone_of sts T).

(* the names of the forms of B: its methods that return *Statement *)
Definition form_names (tbl : list api_row) (B : str) : list str :=
  map r_name (filter (fun r => str_eqb (r_recv r) B && returns_stmt r) tbl).

(* U has a method (with an exported name) or a field called M *)
Definition declares (tbl : list api_row) (sts : list struct_info) (U M : str) : bool :=
  match find_row tbl U M with Some _ => true | None => false end || mem M (fields_of sts U).

(* a type the table knows all the methods and fields of: Statement (a slice type: no fields),
   or a struct type of the package; a type of another package is not *)
Definition known_type (sts : list struct_info) (U : str) : bool :=
  str_eqb U s_Statement || match struct_of sts U with Some _ => true | None => false end.

(* T gets the forms of B by promotion: no type on the way or beside it - T itself, or anything
   else T embeds, at any depth - may have a method or a field with the name of a form of B (at a
   smaller depth it would be selected instead of B's: shadowing; at the same depth the selector
   would be ambiguous; the check does not bother about greater depths), and each such type must be
   a known one *)
Definition promotes_ok (tbl : list api_row) (sts : list struct_info) (B T : str) : bool :=
  forallb (fun U => str_eqb U B ||
                    (known_type sts U && forallb (fun M => negb (declares tbl sts U M)) (form_names tbl B)))
          (cone_of sts T).

Definition no_shadow (tbl : list api_row) (sts : list struct_info) : bool :=
  forallb (fun B => forallb (fun st => if reaches sts B (t_name st) then promotes_ok tbl sts B (t_name st) else true) sts)
          [s_Group; s_Statement].

Definition has_row (tbl : list api_row) (recv name : str) : bool :=
  match find_row tbl recv name with Some _ => true | None => false end.

(* Statement, Group and File each have their own Render and a GoString of the delegating shape
   (it calls the receiver's Render: with a row of its own, that is the method selected) *)
Definition gostring_ok (tbl : list api_row) : bool :=
  forallb (fun recv => has_row tbl recv s_Render &&
                       match find_row tbl recv s_GoString with Some r => gostring_delegates r | None => false end)
          gostring_recvs.

Definition api_wf (tbl : list api_row) (sts : list struct_info) (ff gs : list (str * str)) : bool :=
  rows_wf tbl &&
  forallb (fun rn => match find_row tbl (fst rn) (snd rn) with Some r => has_cb r | None => false end) named_callback_apis &&
  match find_row tbl s_Statement (S "Render"), find_row tbl s_Group (S "Render") with
  | Some _, Some _ => true | _, _ => false end &&
  is_nil ff && is_nil gs &&
  gostring_ok tbl &&
  no_shadow tbl sts.

(* ------------------------------------------------------------------ semantics *)
Inductive value :=
| VNil
| VStmt (p : nat)                      (* *Statement: index into st_stmts *)
| VGroup (p : nat)                     (* *Group *)
| VDict (p : nat)                      (* Dict (a map: reference semantics) *)
| VSlice (l : list value)              (* []Code, []interface{} *)
| VTok (typ content : value)
| VComment (v : value)
| VTag (v : value)
| VStr (s : str)
| VBool (b : bool)
| VConst (c : str)
| VField (v : value) (f : str)         (* v.f, uninterpreted *)
| VApp (sym : str) (args : list value) (* uninterpreted pure function *)
| VCb (id : N)                         (* a user callback *)
| VOpaque (n : N).                     (* any other argument *)

Record grec := mkgrec { g_fields : list value (* name open close separator multi *); g_items : list value }.

Record store := mkstore {
  st_stmts : list (list value);
  st_groups : list grec;
  st_dicts : list (list (value * value))
}.

Definition empty_store : store := mkstore [] [] [].

Fixpoint upd {A} (l : list A) (i : nat) (f : A -> A) : option (list A) :=
  match l, i with
  | [], _ => None
  | x :: l', O => Some (f x :: l')
  | x :: l', Datatypes.S i' => match upd l' i' f with Some r => Some (x :: r) | None => None end
  end.

Definition alloc_stmt (h : store) (items : list value) : store :=
  mkstore (st_stmts h ++ [items]) (st_groups h) (st_dicts h).
Definition alloc_group (h : store) (g : grec) : store :=
  mkstore (st_stmts h) (st_groups h ++ [g]) (st_dicts h).
Definition alloc_dict (h : store) : store :=
  mkstore (st_stmts h) (st_groups h) (st_dicts h ++ [[]]).

(* *s = append( *s, vs...) *)
Definition append_stmt (h : store) (p : nat) (vs : list value) : option store :=
  match upd (st_stmts h) p (fun its => its ++ vs) with
  | Some l => Some (mkstore l (st_groups h) (st_dicts h))
  | None => None
  end.
(* g.items = append(g.items, v) *)
Definition append_group (h : store) (p : nat) (v : value) : option store :=
  match upd (st_groups h) p (fun g => mkgrec (g_fields g) (g_items g ++ [v])) with
  | Some l => Some (mkstore (st_stmts h) l (st_dicts h))
  | None => None
  end.

Definition env := list (str * value).
Fixpoint lookup (x : str) (e : env) : option value :=
  match e with
  | [] => None
  | (y, v) :: e' => if str_eqb x y then Some v else lookup x e'
  end.

(* parameters: fixed ones one value each, a final variadic one takes the rest as a slice *)
Fixpoint bind_params (ps : list param) (args : list value) : option env :=
  match ps with
  | [] => match args with [] => Some [] | _ => None end
  | p :: ps' =>
    if is_variadic p then
      match ps' with [] => Some [(p_name p, VSlice args)] | _ => None end
    else
      match args with
      | a :: args' =>
        match bind_params ps' args' with
        | Some e => Some ((p_name p, a) :: e)
        | None => None
        end
      | [] => None
      end
  end.

Definition recv_type (v : value) : option str :=
  match v with VStmt _ => Some s_Statement | VGroup _ => Some s_Group | _ => None end.

(* the value of a Group field expression ([field_ok]): a literal or read from a parameter *)
Definition field_val (en : env) (e : expr) : option value :=
  match e with
  | EStr s => Some (VStr s)
  | EBool b => Some (VBool b)
  | EConst c => Some (VConst c)
  | EVar x => lookup x en
  | ESel x f => match lookup x en with Some v => Some (VField v f) | None => None end
  | _ => None
  end.

Fixpoint fields_val (en : env) (l : list expr) : option (list value) :=
  match l with
  | [] => Some []
  | e :: l' =>
    match field_val en e, fields_val en l' with
    | Some v, Some vs => Some (v :: vs)
    | _, _ => None
    end
  end.

Definition cresult := option (value * store * list N).   (* result, store, callbacks invoked *)
Definition callfn := str -> str -> option value -> list value -> store -> cresult.

Definition as_items (v : value) : option (list value) :=
  match v with VSlice l => Some l | VNil => Some [] | _ => None end.

Section Sem.
  (* what a user callback does when invoked: any function of its arguments and the store *)
  Variable cb_run : N -> list value -> store -> store * value.

  Section Eval.
    Variable callf : callfn.

    (* arguments left to right; [x...] only last *)
    Definition eval_args (ev : store -> expr -> cresult) (en : env) :=
      fix go (h : store) (l : list expr) : option (list value * store * list N) :=
        match l with
        | [] => Some ([], h, [])
        | a :: l' =>
          match a with
          | ESpread x =>
            match l', lookup x en with
            | [], Some (VSlice vs) => Some (vs, h, [])
            | _, _ => None
            end
          | _ =>
            match ev h a with
            | Some (v, h1, lg1) =>
              match go h1 l' with
              | Some (vs, h2, lg2) => Some (v :: vs, h2, lg1 ++ lg2)
              | None => None
              end
            | None => None
            end
          end
        end.

    Fixpoint eval (en : env) (h : store) (e : expr) {struct e} : cresult :=
      match e with
      | ENil => Some (VNil, h, [])
      | EVar x => match lookup x en with Some v => Some (v, h, []) | None => None end
      | ESpread _ => None
      | EStr s => Some (VStr s, h, [])
      | EBool b => Some (VBool b, h, [])
      | EConst c => Some (VConst c, h, [])
      | ESel x f => match lookup x en with Some v => Some (VField v f, h, []) | None => None end
      | ENewStatement => Some (VStmt (length (st_stmts h)), alloc_stmt h [], [])
      | ECallFn f args =>
        match eval_args (eval en) en h args with
        | Some (vs, h1, lg1) =>
          match callf [] f None vs h1 with
          | Some (v, h2, lg2) => Some (v, h2, lg1 ++ lg2)
          | None => None
          end
        | None => None
        end
      | ECallMeth r m args =>
        match eval en h r with
        | Some (rv, h0, lg0) =>
          match recv_type rv with
          | Some ty =>
            match eval_args (eval en) en h0 args with
            | Some (vs, h1, lg1) =>
              match callf ty m (Some rv) vs h1 with
              | Some (v, h2, lg2) => Some (v, h2, lg0 ++ lg1 ++ lg2)
              | None => None
              end
            | None => None
            end
          | None => None
          end
        | None => None
        end
      | ECallParam f args =>
        match lookup f en with
        | Some (VCb id) =>
          match eval_args (eval en) en h args with
          | Some (vs, h1, lg1) =>
            let r := cb_run id vs h1 in Some (snd r, fst r, lg1 ++ [id])
          | None => None
          end
        | _ => None
        end
      | EPure sym args =>
        match eval_args (eval en) en h args with
        | Some (vs, h1, lg1) => Some (VApp sym vs, h1, lg1)
        | None => None
        end
      | EGroupLit a b c d e' f =>
        match eval en h a with Some (va, h1, l1) =>
        match eval en h1 b with Some (vb, h2, l2) =>
        match eval en h2 c with Some (vc, h3, l3) =>
        match eval en h3 d with Some (vd, h4, l4) =>
        match eval en h4 e' with Some (ve, h5, l5) =>
        match eval en h5 f with Some (vf, h6, l6) =>
          match as_items vf with
          | Some its =>
            Some (VGroup (length (st_groups h6)), alloc_group h6 (mkgrec [va; vb; vc; vd; ve] its),
                  l1 ++ l2 ++ l3 ++ l4 ++ l5 ++ l6)
          | None => None
          end
        | None => None end | None => None end | None => None end
        | None => None end | None => None end | None => None end
      | EToken a b =>
        match eval en h a with Some (va, h1, l1) =>
        match eval en h1 b with Some (vb, h2, l2) => Some (VTok va vb, h2, l1 ++ l2)
        | None => None end | None => None end
      | EComment a =>
        match eval en h a with Some (va, h1, l1) => Some (VComment va, h1, l1) | None => None end
      | ETag a =>
        match eval en h a with Some (va, h1, l1) => Some (VTag va, h1, l1) | None => None end
      | ECodeList es =>
        match eval_args (eval en) en h es with
        | Some (vs, h1, lg1) => Some (VSlice vs, h1, lg1)
        | None => None
        end
      | EDictLit => Some (VDict (length (st_dicts h)), alloc_dict h, [])
      | EStmtLit es =>
        match eval_args (eval en) en h es with
        | Some (vs, h1, lg1) => Some (VStmt (length (st_stmts h1)), alloc_stmt h1 vs, lg1)
        | None => None
        end
      end.

    (* a body; [return] ends it (the translator only accepts it as the last statement);
       a body without return yields nil *)
    Fixpoint exec (en : env) (h : store) (l : list stmt) {struct l} : cresult :=
      match l with
      | [] => Some (VNil, h, [])
      | s :: l' =>
        match s with
        | SDefine x e =>
          match eval en h e with
          | Some (v, h1, lg1) =>
            match exec ((x, v) :: en) h1 l' with
            | Some (r, h2, lg2) => Some (r, h2, lg1 ++ lg2)
            | None => None
            end
          | None => None
          end
        | SAppendSelf sv args =>
          match lookup sv en with
          | Some (VStmt p) =>
            match eval_args (eval en) en h args with
            | Some (vs, h1, lg1) =>
              match append_stmt h1 p vs with
              | Some h2 =>
                match exec en h2 l' with
                | Some (r, h3, lg2) => Some (r, h3, lg1 ++ lg2)
                | None => None
                end
              | None => None
              end
            | None => None
            end
          | _ => None
          end
        | SAppendItems g e =>
          match lookup g en with
          | Some (VGroup p) =>
            match eval en h e with
            | Some (v, h1, lg1) =>
              match append_group h1 p v with
              | Some h2 =>
                match exec en h2 l' with
                | Some (r, h3, lg2) => Some (r, h3, lg1 ++ lg2)
                | None => None
                end
              | None => None
              end
            | None => None
            end
          | _ => None
          end
        | SCallParam f args =>
          match lookup f en with
          | Some (VCb id) =>
            match eval_args (eval en) en h args with
            | Some (vs, h1, lg1) =>
              match exec en (fst (cb_run id vs h1)) l' with
              | Some (r, h3, lg2) => Some (r, h3, lg1 ++ [id] ++ lg2)
              | None => None
              end
            | None => None
            end
          | _ => None
          end
        | SReturn e => eval en h e
        end
      end.
  End Eval.

  (* F(args) / recv.F(args), resolved in the table *)
  Fixpoint call (fuel : nat) (tbl : list api_row) (recv name : str) (self : option value)
           (args : list value) (h : store) {struct fuel} : cresult :=
    match fuel with
    | O => None
    | Datatypes.S n =>
      match find_row tbl recv name with
      | Some r =>
        match r_body r with
        | Body l =>
          match bind_params (r_params r) args with
          | Some en0 =>
            exec (call n tbl) (match self with Some v => (r_self r, v) :: en0 | None => en0 end) h l
          | None => None
          end
        | _ => None
        end
      | None => None
      end
    end.
End Sem.

(* the frozen tree a value denotes in a store (fuel bounds the depth; a cut is [TCut]) *)
Inductive tree :=
| TCut
| TLeaf (v : value)
| TStmt (items : list tree)
| TGroup (fields : list value) (items : list tree).

Fixpoint snap (fuel : nat) (h : store) (v : value) : tree :=
  match fuel with
  | O => TCut
  | Datatypes.S n =>
    match v with
    | VStmt p => match nth_error (st_stmts h) p with Some its => TStmt (map (snap n h) its) | None => TLeaf v end
    | VGroup p => match nth_error (st_groups h) p with Some g => TGroup (g_fields g) (map (snap n h) (g_items g)) | None => TLeaf v end
    | _ => TLeaf v
    end
  end.

(* [avoids n h g v]: no *Group cell [g] within depth [n] of [v] *)
Fixpoint avoids (fuel : nat) (h : store) (g : nat) (v : value) : bool :=
  match fuel with
  | O => true
  | Datatypes.S n =>
    match v with
    | VStmt p => match nth_error (st_stmts h) p with Some its => forallb (avoids n h g) its | None => true end
    | VGroup p => negb (Nat.eqb p g) &&
                  match nth_error (st_groups h) p with Some gr => forallb (avoids n h g) (g_items gr) | None => true end
    | _ => true
    end
  end.
