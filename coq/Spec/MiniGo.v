(* C01, stretch goal (DESIGN.md section 5, C01): A GRAMMAR OF GO PROGRAMS, THE DSL TREE THE
   DOCUMENTED ELEMENTS BUILD FOR EACH PROGRAM, AND THE TEXT A READER EXPECTS FOR IT.

   Three things are defined here, nothing is proved (Proofs/CanonProofs.v, Props/C01_canon.v):

   1. abstract syntax: types [ty], expressions [expr], statements [stmt], switch clauses
      [clause], declarations [decl] - a subset of Go's grammar, each constructor with the
      production of the Go specification it stands for;
   2. [bexpr / bstmt / bdecl ...] ("build"): the tree of Code values that the DSL elements of
      DESIGN.md Appendix D (the README's vocabulary; the same choices harness/rebuild/rebuild.go
      makes on real Go files) produce for a program.  Groups are taken from the GENERATED table
      of constructs (Gen/Tables.v, extracted from jen/generated.go on every run) through
      [find_group], one-token constructs through [find_token];
   3. [cexpr / cstmt / cdecl ...] ("canon"): a direct recursive printer - the text jennifer
      writes for the program BEFORE gofmt: the items of a statement separated by single blanks
      (so `f (x)`, `a [i]`, `x . sel`), list separators without blanks, every statement of a
      block on its own line between `{` and `}`.  It does not mention the renderer.

   WHAT THE TREES ARE.  A jennifer *Statement is a list of items; a chain x.Op("+").Add(y)
   appends to the items of x: [bexpr e] is that list of items, [CStmt (bexpr e)] the
   statement.  An operand attached with Add(..) and every item of a group is a statement of
   its own (rebuild.go: t.item).

   GROUP IDENTITIES.  In Go every Group is a pointer; the model carries a number [gid] in its
   place.  The renderer looks at identities in exactly one place: a Block asks its own
   statement for "the item before me" (Statement.previous -> Render.prev_of: the item before
   the FIRST top-level item of that statement that is a group with my gid) and drops its
   braces if that item is a Case group or the `default` token.  So what matters is that a
   Block's gid differs from the gid of every other group among the top-level items of the
   SAME statement.  [build] gives gid 1 to every Block and gid 0 to every other group, and no
   statement built here has two Blocks among its top-level items: the only constructs that
   put a Block into a statement are a func literal, if, for, switch, a block statement, a
   clause and a func declaration - one Block each - and an expression is spliced into a
   statement only as the HEAD of a chain (x.Call(..), x.Index(..), x.Dot(..), x.Op(..)), every
   other operand being a nested statement of its own.  Hence each Block has its own gid within
   its statement, as with pointers.  (A counter threaded through [build] would give globally
   distinct numbers; the renderer never compares gids across statements.)

   SUPERSET.  Some trees of these types are not Go (an `else` followed by a `return`, an
   `if` whose init statement is a `for`, the identifier ""): the theorems do not need to
   exclude them - they state what is written for every tree. *)
From Jen Require Import Base.Bytes Base.Num Model.Code Model.Naming Model.Render Model.FileRender Model.Exec.
From Jen Require Import Gen.Tables.
Local Open Scope N_scope.

(* ================================================================== abstract syntax *)

(* unary_op = "+" | "-" | "!" | "^" | "*" | "&" | "<-" *)
Inductive unop := UPlus | UMinus | UNot | UXor | UStar | UAmp | UArrow.
Definition unop_text (o : unop) : str :=
  match o with
  | UPlus => S "+" | UMinus => S "-" | UNot => S "!" | UXor => S "^"
  | UStar => S "*" | UAmp => S "&" | UArrow => S "<-"
  end.

(* binary_op = "||" | "&&" | rel_op | add_op | mul_op *)
Inductive binop :=
| BLor | BLand | BEq | BNe | BLt | BLe | BGt | BGe
| BAdd | BSub | BOr | BXor | BMul | BDiv | BRem | BShl | BShr | BAnd | BAndNot.
Definition binop_text (o : binop) : str :=
  match o with
  | BLor => S "||" | BLand => S "&&" | BEq => S "==" | BNe => S "!=" | BLt => S "<" | BLe => S "<="
  | BGt => S ">" | BGe => S ">=" | BAdd => S "+" | BSub => S "-" | BOr => S "|" | BXor => S "^"
  | BMul => S "*" | BDiv => S "/" | BRem => S "%" | BShl => S "<<" | BShr => S ">>" | BAnd => S "&"
  | BAndNot => S "&^"
  end.

(* assign_op = [ add_op | mul_op ] "=" ; ShortVarDecl uses ":=" *)
Inductive asgop :=
| AAssign | ADefine | AAdd | ASub | AMul | ADiv | ARem | AAnd | AOr | AXor | AShl | AShr | AAndNot.
Definition asgop_text (o : asgop) : str :=
  match o with
  | AAssign => S "=" | ADefine => S ":=" | AAdd => S "+=" | ASub => S "-=" | AMul => S "*=" | ADiv => S "/="
  | ARem => S "%=" | AAnd => S "&=" | AOr => S "|=" | AXor => S "^=" | AShl => S "<<=" | AShr => S ">>="
  | AAndNot => S "&^="
  end.

(* Type = TypeName | PointerType | SliceType | MapType *)
Inductive ty :=
| TName (n : str)                    (* identifier *)
| TPtr (t : ty)                      (* "*" BaseType *)
| TSlice (t : ty)                    (* "[" "]" ElementType *)
| TMap (k v : ty).                   (* "map" "[" KeyType "]" ElementType *)

(* ParameterDecl = identifier Type *)
Definition param := (str * ty)%type.

Inductive expr :=
| EId (n : str)                                   (* identifier *)
| EInt (z : Z)                                    (* int_lit, value of type int: Lit(z) *)
| EStr (s : str)                                  (* string_lit with value s: Lit(s) *)
| EBool (b : bool)                                (* true | false *)
| ENil                                            (* nil *)
| EUn (op : unop) (x : expr)                      (* unary_op UnaryExpr *)
| EBin (x : expr) (op : binop) (y : expr)         (* Expression binary_op Expression *)
| ECall (f : expr) (args : list expr) (ddd : bool)(* PrimaryExpr "(" [ ExpressionList [ "..." ] ] ")" *)
| EIndex (x i : expr)                             (* PrimaryExpr "[" Expression "]" *)
| ESlice (x : expr) (lo hi : option expr)         (* PrimaryExpr "[" [Expression] ":" [Expression] "]" *)
| ESlice3 (x : expr) (lo hi mx : option expr)     (* PrimaryExpr "[" [E] ":" E ":" E "]" (bounds left optional) *)
| ESel (x : expr) (sel : str)                     (* PrimaryExpr "." identifier *)
| EParen (x : expr)                               (* "(" Expression ")" *)
| EComp (t : ty) (elts : list expr)               (* LiteralType "{" [ ElementList ] "}" *)
| EFunc (ps : list param) (res : option ty) (body : list stmt)   (* "func" Signature FunctionBody *)
with stmt :=
| SExpr (e : expr)                                (* ExpressionStmt *)
| SAssign (l : expr) (ls : list expr) (op : asgop) (r : expr) (rs : list expr)
                                                  (* ExpressionList assign_op ExpressionList ; ShortVarDecl *)
| SIncDec (x : expr) (inc : bool)                 (* Expression ( "++" | "--" ) *)
| SReturn (es : list expr)                        (* "return" [ ExpressionList ] *)
| SIf (init : option stmt) (cond : expr) (body : list stmt) (els : option stmt)
                                                  (* "if" [ SimpleStmt ";" ] Expression Block [ "else" ( IfStmt | Block ) ] *)
| SFor (init : option stmt) (cond : option expr) (post : option stmt) (body : list stmt)
                                                  (* "for" [ InitStmt ] ";" [ Condition ] ";" [ PostStmt ] Block *)
| SWhile (cond : expr) (body : list stmt)         (* "for" Condition Block *)
| SLoop (body : list stmt)                        (* "for" Block *)
| SRange (k : expr) (v : option expr) (def : bool) (x : expr) (body : list stmt)
                                                  (* "for" ExpressionList ( "=" | ":=" ) "range" Expression Block *)
| SSwitch (init : option stmt) (tag : option expr) (cls : list clause)
                                                  (* "switch" [ SimpleStmt ";" ] [ Expression ] "{" { ExprCaseClause } "}" *)
| SBlock (body : list stmt)                       (* Block *)
| SBreak (label : option str)                     (* "break" [ Label ] *)
| SContinue (label : option str)                  (* "continue" [ Label ] *)
| SGo (f : expr) (args : list expr) (ddd : bool)  (* "go" Expression, the expression being a call *)
| SDefer (f : expr) (args : list expr) (ddd : bool)  (* "defer" Expression, the expression being a call *)
| SVar (x : str) (t : option ty) (e : option expr)   (* "var" identifier [ Type ] [ "=" Expression ] *)
with clause :=
| CCase (e : expr) (es : list expr) (body : list stmt)   (* "case" ExpressionList ":" StatementList *)
| CDefault (body : list stmt).                           (* "default" ":" StatementList *)

(* ValueSpec / ConstSpec = identifier [ Type ] [ "=" Expression ] *)
Definition spec := (str * option ty * option expr)%type.

Inductive decl :=
| DFunc (name : str) (ps : list param) (res : option ty) (body : list stmt)
                                                  (* "func" FunctionName Signature FunctionBody *)
| DVars (specs : list spec)                       (* "var" "(" { VarSpec ";" } ")" *)
| DConsts (specs : list spec)                     (* "const" "(" { ConstSpec ";" } ")" *)
| DType (name : str) (t : ty).                    (* "type" identifier Type *)

(* ---- induction over the three mutually defined types, with the nested lists and options exposed *)
Definition OptP {A} (P : A -> Prop) (o : option A) : Prop :=
  match o with Some a => P a | None => True end.

Definition all_list {A} (P : A -> Prop) (f : forall a, P a) : forall l, Forall P l :=
  fix go (l : list A) : Forall P l :=
    match l with
    | [] => Forall_nil P
    | x :: r => Forall_cons x (f x) (go r)
    end.

Definition all_opt {A} (P : A -> Prop) (f : forall a, P a) (o : option A) : OptP P o :=
  match o with Some a => f a | None => I end.

Section MiniInd.
  Variable Pe : expr -> Prop.
  Variable Ps : stmt -> Prop.
  Variable Pc : clause -> Prop.
  Hypothesis HId : forall n, Pe (EId n).
  Hypothesis HInt : forall z, Pe (EInt z).
  Hypothesis HStr : forall s, Pe (EStr s).
  Hypothesis HBool : forall b, Pe (EBool b).
  Hypothesis HNil : Pe ENil.
  Hypothesis HUn : forall op x, Pe x -> Pe (EUn op x).
  Hypothesis HBin : forall x op y, Pe x -> Pe y -> Pe (EBin x op y).
  Hypothesis HCall : forall f args ddd, Pe f -> Forall Pe args -> Pe (ECall f args ddd).
  Hypothesis HIndex : forall x i, Pe x -> Pe i -> Pe (EIndex x i).
  Hypothesis HSlice : forall x lo hi, Pe x -> OptP Pe lo -> OptP Pe hi -> Pe (ESlice x lo hi).
  Hypothesis HSlice3 : forall x lo hi mx, Pe x -> OptP Pe lo -> OptP Pe hi -> OptP Pe mx -> Pe (ESlice3 x lo hi mx).
  Hypothesis HSel : forall x sel, Pe x -> Pe (ESel x sel).
  Hypothesis HParen : forall x, Pe x -> Pe (EParen x).
  Hypothesis HComp : forall t elts, Forall Pe elts -> Pe (EComp t elts).
  Hypothesis HFunc : forall ps res body, Forall Ps body -> Pe (EFunc ps res body).
  Hypothesis HSExpr : forall e, Pe e -> Ps (SExpr e).
  Hypothesis HSAssign : forall l ls op r rs, Pe l -> Forall Pe ls -> Pe r -> Forall Pe rs -> Ps (SAssign l ls op r rs).
  Hypothesis HSIncDec : forall x inc, Pe x -> Ps (SIncDec x inc).
  Hypothesis HSReturn : forall es, Forall Pe es -> Ps (SReturn es).
  Hypothesis HSIf : forall init cond body els,
      OptP Ps init -> Pe cond -> Forall Ps body -> OptP Ps els -> Ps (SIf init cond body els).
  Hypothesis HSFor : forall init cond post body,
      OptP Ps init -> OptP Pe cond -> OptP Ps post -> Forall Ps body -> Ps (SFor init cond post body).
  Hypothesis HSWhile : forall cond body, Pe cond -> Forall Ps body -> Ps (SWhile cond body).
  Hypothesis HSLoop : forall body, Forall Ps body -> Ps (SLoop body).
  Hypothesis HSRange : forall k v def x body,
      Pe k -> OptP Pe v -> Pe x -> Forall Ps body -> Ps (SRange k v def x body).
  Hypothesis HSSwitch : forall init tag cls, OptP Ps init -> OptP Pe tag -> Forall Pc cls -> Ps (SSwitch init tag cls).
  Hypothesis HSBlock : forall body, Forall Ps body -> Ps (SBlock body).
  Hypothesis HSBreak : forall l, Ps (SBreak l).
  Hypothesis HSContinue : forall l, Ps (SContinue l).
  Hypothesis HSGo : forall f args ddd, Pe f -> Forall Pe args -> Ps (SGo f args ddd).
  Hypothesis HSDefer : forall f args ddd, Pe f -> Forall Pe args -> Ps (SDefer f args ddd).
  Hypothesis HSVar : forall x t e, OptP Pe e -> Ps (SVar x t e).
  Hypothesis HCCase : forall e es body, Pe e -> Forall Pe es -> Forall Ps body -> Pc (CCase e es body).
  Hypothesis HCDefault : forall body, Forall Ps body -> Pc (CDefault body).

  Fixpoint expr_ind' (e : expr) : Pe e :=
    match e with
    | EId n => HId n
    | EInt z => HInt z
    | EStr s => HStr s
    | EBool b => HBool b
    | ENil => HNil
    | EUn op x => HUn op x (expr_ind' x)
    | EBin x op y => HBin x op y (expr_ind' x) (expr_ind' y)
    | ECall f args ddd => HCall f args ddd (expr_ind' f) (all_list Pe expr_ind' args)
    | EIndex x i => HIndex x i (expr_ind' x) (expr_ind' i)
    | ESlice x lo hi => HSlice x lo hi (expr_ind' x) (all_opt Pe expr_ind' lo) (all_opt Pe expr_ind' hi)
    | ESlice3 x lo hi mx =>
        HSlice3 x lo hi mx (expr_ind' x) (all_opt Pe expr_ind' lo) (all_opt Pe expr_ind' hi) (all_opt Pe expr_ind' mx)
    | ESel x sel => HSel x sel (expr_ind' x)
    | EParen x => HParen x (expr_ind' x)
    | EComp t elts => HComp t elts (all_list Pe expr_ind' elts)
    | EFunc ps res body => HFunc ps res body (all_list Ps stmt_ind' body)
    end
  with stmt_ind' (s : stmt) : Ps s :=
    match s with
    | SExpr e => HSExpr e (expr_ind' e)
    | SAssign l ls op r rs =>
        HSAssign l ls op r rs (expr_ind' l) (all_list Pe expr_ind' ls) (expr_ind' r) (all_list Pe expr_ind' rs)
    | SIncDec x inc => HSIncDec x inc (expr_ind' x)
    | SReturn es => HSReturn es (all_list Pe expr_ind' es)
    | SIf init cond body els =>
        HSIf init cond body els (all_opt Ps stmt_ind' init) (expr_ind' cond) (all_list Ps stmt_ind' body)
             (all_opt Ps stmt_ind' els)
    | SFor init cond post body =>
        HSFor init cond post body (all_opt Ps stmt_ind' init) (all_opt Pe expr_ind' cond)
              (all_opt Ps stmt_ind' post) (all_list Ps stmt_ind' body)
    | SWhile cond body => HSWhile cond body (expr_ind' cond) (all_list Ps stmt_ind' body)
    | SLoop body => HSLoop body (all_list Ps stmt_ind' body)
    | SRange k v def x body =>
        HSRange k v def x body (expr_ind' k) (all_opt Pe expr_ind' v) (expr_ind' x) (all_list Ps stmt_ind' body)
    | SSwitch init tag cls =>
        HSSwitch init tag cls (all_opt Ps stmt_ind' init) (all_opt Pe expr_ind' tag) (all_list Pc clause_ind' cls)
    | SBlock body => HSBlock body (all_list Ps stmt_ind' body)
    | SBreak l => HSBreak l
    | SContinue l => HSContinue l
    | SGo f args ddd => HSGo f args ddd (expr_ind' f) (all_list Pe expr_ind' args)
    | SDefer f args ddd => HSDefer f args ddd (expr_ind' f) (all_list Pe expr_ind' args)
    | SVar x t e => HSVar x t e (all_opt Pe expr_ind' e)
    end
  with clause_ind' (c : clause) : Pc c :=
    match c with
    | CCase e es body => HCCase e es body (expr_ind' e) (all_list Pe expr_ind' es) (all_list Ps stmt_ind' body)
    | CDefault body => HCDefault body (all_list Ps stmt_ind' body)
    end.

  Lemma mini_ind : (forall e, Pe e) /\ (forall s, Ps s) /\ (forall c, Pc c).
  Proof. exact (conj expr_ind' (conj stmt_ind' clause_ind')). Qed.
End MiniInd.

(* ================================================================== the constructs of the table *)
(* a Group / a one-token construct as the DSL method [m] makes it: the row of the generated
   table; CNil (on which rendering panics) if there is no such row - excluded by [tables_ok] *)
Definition group_of (m : str) (gid : N) (items : list code) : code :=
  match find_group m with
  | Some r => CGroup gid (gr_name r) (gr_open r) (gr_close r) (gr_sep r) (gr_multi r) items
  | None => CNil
  end.

Definition kw (m : str) : code :=
  match find_token m with
  | Some r => CTok (token_of_row r)
  | None => CNil
  end.

(* what [canon] takes each row used by [build] to be:
   method, (internal name, opener, closer, separator, multi-line) *)
Definition expected_groups : list (str * (str * str * str * str * bool)) := [
  (S "Call",   (S "call",   S "(",       S ")", S ",", false));
  (S "Index",  (S "index",  S "[",       S "]", S ":", false));
  (S "Parens", (S "parens", S "(",       S ")", S "",  false));
  (S "Values", (S "values", S "{",       S "}", S ",", false));
  (S "Params", (S "params", S "(",       S ")", S ",", false));
  (S "List",   (S "list",   S "",        S "",  S ",", false));
  (S "Map",    (S "map",    S "map[",    S "]", S "",  false));
  (S "Return", (S "return", S "return ", S "",  S ",", false));
  (S "If",     (S "if",     S "if ",     S "",  S ";", false));
  (S "For",    (S "for",    S "for ",    S "",  S ";", false));
  (S "Switch", (S "switch", S "switch ", S "",  S ";", false));
  (S "Case",   (S "case",   S "case ",   S ":", S ",", false));
  (S "Block",  (S "block",  S "{",       S "}", S "",  true));
  (S "Defs",   (S "defs",   S "(",       S ")", S "",  true))
].

(* method, token *)
Definition expected_tokens : list (str * token) := [
  (S "True", TkId (S "true")); (S "False", TkId (S "false")); (S "Nil", TkId (S "nil"));
  (S "Func", TkText (S "func")); (S "Else", TkText (S "else")); (S "Default", TkText (S "default"));
  (S "Break", TkText (S "break")); (S "Continue", TkText (S "continue")); (S "Go", TkText (S "go"));
  (S "Defer", TkText (S "defer")); (S "Var", TkText (S "var")); (S "Const", TkText (S "const"));
  (S "Type", TkText (S "type")); (S "Range", TkText (S "range"))
].

Definition group_row_ok (e : str * (str * str * str * str * bool)) : bool :=
  match e with
  | (m, (n, o, c, s, mu)) =>
    match find_group m with
    | Some r => str_eqb (gr_name r) n && str_eqb (gr_open r) o && str_eqb (gr_close r) c &&
                str_eqb (gr_sep r) s && Bool.eqb (gr_multi r) mu
    | None => false
    end
  end.

Definition token_eqb (a b : token) : bool :=
  match a, b with
  | TkId x, TkId y => str_eqb x y
  | TkText x, TkText y => str_eqb x y
  | _, _ => false
  end.

Definition token_row_ok (e : str * token) : bool :=
  match find_token (fst e) with
  | Some r => token_eqb (token_of_row r) (snd e)
  | None => false
  end.

(* every row [build] uses exists in the generated table and is what [canon] assumes *)
Definition tables_ok : bool := forallb group_row_ok expected_groups && forallb token_row_ok expected_tokens.

(* ================================================================== build *)
Definition gCall := group_of (S "Call").
Definition gIndex := group_of (S "Index").
Definition gParens := group_of (S "Parens").
Definition gValues := group_of (S "Values").
Definition gParams := group_of (S "Params").
Definition gList := group_of (S "List").
Definition gMap := group_of (S "Map").
Definition gReturn := group_of (S "Return").
Definition gIf := group_of (S "If").
Definition gFor := group_of (S "For").
Definition gSwitch := group_of (S "Switch").
Definition gCase := group_of (S "Case").
Definition gBlock := group_of (S "Block").
Definition gDefs := group_of (S "Defs").

Definition id (n : str) : code := CTok (TkId n).          (* Id(n) *)
Definition op (s : str) : code := CTok (TkText s).        (* Op(s) *)
Definition empty : code := CStmt [op []].                 (* Empty() *)

(* an optional item of a group: Empty() when absent *)
Definition opt_item {A} (f : A -> list code) (o : option A) : code :=
  match o with Some a => CStmt (f a) | None => empty end.
(* optional trailing items of a statement *)
Definition opt_items {A} (f : A -> list code) (o : option A) : list code :=
  match o with Some a => f a | None => [] end.

(* f applied to the last element *)
Fixpoint on_last {A} (f : A -> A) (l : list A) : list A :=
  match l with
  | [] => []
  | [x] => [f x]
  | x :: r => x :: on_last f r
  end.

(* the items of Call(args..): each argument a statement, the last one followed by Op("...")
   in a variadic call *)
Definition call_args (ddd : bool) (args : list (list code)) : list code :=
  map CStmt (if ddd then on_last (fun l => l ++ [op (S "...")]) args else args).

Fixpoint bty (t : ty) : list code :=
  match t with
  | TName n => [id n]                                      (* Id(n) *)
  | TPtr t => [op (S "*"); CStmt (bty t)]                  (* Op("*").Add(T) *)
  | TSlice t => [gIndex 0 []; CStmt (bty t)]               (* Index().Add(T) *)
  | TMap k v => [gMap 0 [CStmt (bty k)]; CStmt (bty v)]    (* Map(K).Add(V) *)
  end.

Definition bparam (p : param) : code := CStmt [id (fst p); CStmt (bty (snd p))].   (* Id(n).Add(T) *)
Definition bparams (ps : list param) : code := gParams 0 (map bparam ps).          (* Params(ps..) *)
Definition bresult (res : option ty) : list code := opt_items (fun t => [CStmt (bty t)]) res.

Fixpoint bexpr (e : expr) : list code :=
  match e with
  | EId n => [id n]                                                       (* Id(n) *)
  | EInt z => [CTok (TkLit (LInt z))]                                     (* Lit(z) *)
  | EStr s => [CTok (TkLit (LStr s))]                                     (* Lit(s) *)
  | EBool b => [kw (if b then S "True" else S "False")]                   (* True() / False() *)
  | ENil => [kw (S "Nil")]                                                (* Nil() *)
  | EUn o x => [op (unop_text o); CStmt (bexpr x)]                        (* Op(o).Add(x) *)
  | EBin x o y => bexpr x ++ [op (binop_text o); CStmt (bexpr y)]         (* x.Op(o).Add(y) *)
  | ECall f args ddd => bexpr f ++ [gCall 0 (call_args ddd (map bexpr args))]     (* f.Call(args..) *)
  | EIndex x i => bexpr x ++ [gIndex 0 [CStmt (bexpr i)]]                 (* x.Index(i) *)
  | ESlice x lo hi => bexpr x ++ [gIndex 0 [opt_item bexpr lo; opt_item bexpr hi]]     (* x.Index(lo, hi) *)
  | ESlice3 x lo hi mx =>
      bexpr x ++ [gIndex 0 [opt_item bexpr lo; opt_item bexpr hi; opt_item bexpr mx]]  (* x.Index(lo, hi, max) *)
  | ESel x sel => bexpr x ++ [op (S "."); id sel]                         (* x.Dot(sel) *)
  | EParen x => [gParens 0 [CStmt (bexpr x)]]                             (* Parens(x) *)
  | EComp t elts => bty t ++ [gValues 0 (map (fun a => CStmt (bexpr a)) elts)]    (* T.Values(elts..) *)
  | EFunc ps res body =>                                                  (* Func().Params(ps..).Add(res).Block(body..) *)
      [kw (S "Func"); bparams ps] ++ bresult res ++ [gBlock 1 (map (fun s => CStmt (bstmt s)) body)]
  end
with bstmt (s : stmt) : list code :=
  match s with
  | SExpr e => bexpr e
  | SAssign l ls o r rs =>                                                (* List(lhs..).Op(o).List(rhs..) *)
      [gList 0 (map (fun a => CStmt (bexpr a)) (l :: ls)); op (asgop_text o);
       gList 0 (map (fun a => CStmt (bexpr a)) (r :: rs))]
  | SIncDec x inc => bexpr x ++ [op (if inc then S "++" else S "--")]     (* x.Op("++") *)
  | SReturn es => [gReturn 0 (map (fun a => CStmt (bexpr a)) es)]         (* Return(es..) *)
  | SIf init cond body els =>                                             (* If(init, cond).Block(..).Else().Add(s) *)
      [gIf 0 (opt_items (fun s => [CStmt (bstmt s)]) init ++ [CStmt (bexpr cond)]);
       gBlock 1 (map (fun s => CStmt (bstmt s)) body)] ++
      opt_items (fun s => [kw (S "Else"); CStmt (bstmt s)]) els
  | SFor init cond post body =>                                           (* For(init, cond, post).Block(..) *)
      [gFor 0 [opt_item bstmt init; opt_item bexpr cond; opt_item bstmt post];
       gBlock 1 (map (fun s => CStmt (bstmt s)) body)]
  | SWhile cond body =>                                                   (* For(cond).Block(..) *)
      [gFor 0 [CStmt (bexpr cond)]; gBlock 1 (map (fun s => CStmt (bstmt s)) body)]
  | SLoop body => [gFor 0 []; gBlock 1 (map (fun s => CStmt (bstmt s)) body)]    (* For().Block(..) *)
  | SRange k v def x body =>                                              (* For(List(k, v).Op(":=").Range().Add(x)).Block(..) *)
      [gFor 0 [CStmt [gList 0 (CStmt (bexpr k) :: opt_items (fun e => [CStmt (bexpr e)]) v);
                      op (if def then S ":=" else S "="); kw (S "Range"); CStmt (bexpr x)]];
       gBlock 1 (map (fun s => CStmt (bstmt s)) body)]
  | SSwitch init tag cls =>                                               (* Switch(init, tag).Block(clauses..) *)
      [gSwitch 0 (match init, tag with
                  | Some s, Some e => [CStmt (bstmt s); CStmt (bexpr e)]
                  | Some s, None => [CStmt (bstmt s); empty]
                  | None, Some e => [CStmt (bexpr e)]
                  | None, None => []
                  end);
       gBlock 1 (map bclause cls)]
  | SBlock body => [gBlock 1 (map (fun s => CStmt (bstmt s)) body)]       (* Block(..) *)
  | SBreak l => kw (S "Break") :: opt_items (fun x => [id x]) l           (* Break().Id(l) *)
  | SContinue l => kw (S "Continue") :: opt_items (fun x => [id x]) l     (* Continue().Id(l) *)
  | SGo f args ddd =>                                                     (* Go().Add(f.Call(args..)) *)
      [kw (S "Go"); CStmt (bexpr f ++ [gCall 0 (call_args ddd (map bexpr args))])]
  | SDefer f args ddd =>                                                  (* Defer().Add(f.Call(args..)) *)
      [kw (S "Defer"); CStmt (bexpr f ++ [gCall 0 (call_args ddd (map bexpr args))])]
  | SVar x t e =>                                                         (* Var().Id(x).Add(T).Op("=").Add(e) *)
      [kw (S "Var"); id x] ++ opt_items (fun t => [CStmt (bty t)]) t ++
      opt_items (fun e => [op (S "="); CStmt (bexpr e)]) e
  end
with bclause (c : clause) : code :=
  match c with
  | CCase e es body =>                                                    (* Case(es..).Block(body..) *)
      CStmt [gCase 0 (map (fun a => CStmt (bexpr a)) (e :: es)); gBlock 1 (map (fun s => CStmt (bstmt s)) body)]
  | CDefault body =>                                                      (* Default().Block(body..) *)
      CStmt [kw (S "Default"); gBlock 1 (map (fun s => CStmt (bstmt s)) body)]
  end.

(* Id(n).Add(T).Op("=").Add(e) *)
Definition bspec (sp : spec) : code :=
  match sp with
  | (n, t, e) => CStmt (id n :: opt_items (fun t => [CStmt (bty t)]) t ++
                        opt_items (fun e => [op (S "="); CStmt (bexpr e)]) e)
  end.

Definition bdecl (d : decl) : list code :=
  match d with
  | DFunc name ps res body =>                      (* Func().Id(name).Params(ps..).Add(res).Block(body..) *)
      [kw (S "Func"); id name; bparams ps] ++ bresult res ++ [gBlock 1 (map (fun s => CStmt (bstmt s)) body)]
  | DVars specs => [kw (S "Var"); gDefs 0 (map bspec specs)]          (* Var().Defs(specs..) *)
  | DConsts specs => [kw (S "Const"); gDefs 0 (map bspec specs)]      (* Const().Defs(specs..) *)
  | DType name t => [kw (S "Type"); id name; CStmt (bty t)]           (* Type().Id(name).Add(T) *)
  end.

(* the statements handed to the renderer *)
Definition build_type (t : ty) : code := CStmt (bty t).
Definition build_expr (e : expr) : code := CStmt (bexpr e).
Definition build_stmt (s : stmt) : code := CStmt (bstmt s).
Definition build_decl (d : decl) : code := CStmt (bdecl d).
(* NewFile(name) with one Add per declaration *)
Definition build_file (name : str) (ds : list decl) : file :=
  fold_left add_item (map build_decl ds) (new_file name).

(* ================================================================== canon *)
(* The text, written by a direct recursive printer.  Layout rules (what jennifer writes before
   gofmt): the parts of a statement are separated by ONE blank - also a callee from its
   argument list, an operand from its index, the two sides of a selector dot; the elements of
   a list are separated by the bare separator; a block is `{`, a newline before every
   statement, a newline before `}` unless the block is empty; the body of a clause follows
   `case ..:` and a blank, a newline before every statement. *)
Definition sp : str := S " ".
Definition comma : str := S ",".
Definition nl : str := [x0a].

(* every text preceded by a newline *)
Definition lines (xs : list str) : str := concat_str (map (fun x => nl ++ x) xs).
(* { statements } *)
Definition braces (xs : list str) : str :=
  S "{" ++ lines xs ++ (match xs with [] => [] | _ => nl end) ++ S "}".
(* ( specs ) *)
Definition parens_lines (xs : list str) : str :=
  S "(" ++ lines xs ++ (match xs with [] => [] | _ => nl end) ++ S ")".
(* the text of an optional part; nothing when absent *)
Definition opt_text {A} (f : A -> str) (o : option A) : str :=
  match o with Some a => f a | None => [] end.
(* a,b,c ... with ` ...` after the last element of a variadic call *)
Definition arg_list (ddd : bool) (xs : list str) : str :=
  join comma (if ddd then on_last (fun x => x ++ S " ...") xs else xs).

Fixpoint cty (t : ty) : str :=
  match t with
  | TName n => n
  | TPtr t => S "* " ++ cty t
  | TSlice t => S "[] " ++ cty t
  | TMap k v => S "map[" ++ cty k ++ S "] " ++ cty v
  end.

Definition cparam (p : param) : str := fst p ++ sp ++ cty (snd p).
Definition cparams (ps : list param) : str := S "(" ++ join comma (map cparam ps) ++ S ")".
Definition cresult (res : option ty) : str := opt_text (fun t => sp ++ cty t) res.

Fixpoint cexpr (e : expr) : str :=
  match e with
  | EId n => n
  | EInt z => Z_to_dec z
  | EStr s => GoQuote s
  | EBool b => if b then S "true" else S "false"
  | ENil => S "nil"
  | EUn o x => unop_text o ++ sp ++ cexpr x
  | EBin x o y => cexpr x ++ sp ++ binop_text o ++ sp ++ cexpr y
  | ECall f args ddd => cexpr f ++ S " (" ++ arg_list ddd (map cexpr args) ++ S ")"
  | EIndex x i => cexpr x ++ S " [" ++ cexpr i ++ S "]"
  | ESlice x lo hi => cexpr x ++ S " [" ++ opt_text cexpr lo ++ S ":" ++ opt_text cexpr hi ++ S "]"
  | ESlice3 x lo hi mx =>
      cexpr x ++ S " [" ++ opt_text cexpr lo ++ S ":" ++ opt_text cexpr hi ++ S ":" ++ opt_text cexpr mx ++ S "]"
  | ESel x sel => cexpr x ++ S " . " ++ sel
  | EParen x => S "(" ++ cexpr x ++ S ")"
  | EComp t elts => cty t ++ S " {" ++ join comma (map cexpr elts) ++ S "}"
  | EFunc ps res body => S "func " ++ cparams ps ++ cresult res ++ sp ++ braces (map cstmt body)
  end
with cstmt (s : stmt) : str :=
  match s with
  | SExpr e => cexpr e
  | SAssign l ls o r rs =>
      join comma (map cexpr (l :: ls)) ++ sp ++ asgop_text o ++ sp ++ join comma (map cexpr (r :: rs))
  | SIncDec x inc => cexpr x ++ (if inc then S " ++" else S " --")
  | SReturn es => S "return " ++ join comma (map cexpr es)
  | SIf init cond body els =>
      S "if " ++ opt_text (fun s => cstmt s ++ S ";") init ++ cexpr cond ++ sp ++ braces (map cstmt body) ++
      opt_text (fun s => S " else " ++ cstmt s) els
  | SFor init cond post body =>
      S "for " ++ opt_text cstmt init ++ S ";" ++ opt_text cexpr cond ++ S ";" ++ opt_text cstmt post ++ sp ++
      braces (map cstmt body)
  | SWhile cond body => S "for " ++ cexpr cond ++ sp ++ braces (map cstmt body)
  | SLoop body => S "for " ++ sp ++ braces (map cstmt body)
  | SRange k v def x body =>
      S "for " ++ cexpr k ++ opt_text (fun e => comma ++ cexpr e) v ++ (if def then S " := " else S " = ") ++
      S "range " ++ cexpr x ++ sp ++ braces (map cstmt body)
  | SSwitch init tag cls =>
      S "switch " ++
      (match init, tag with
       | Some s, Some e => cstmt s ++ S ";" ++ cexpr e
       | Some s, None => cstmt s ++ S ";"
       | None, Some e => cexpr e
       | None, None => []
       end) ++ sp ++ braces (map cclause cls)
  | SBlock body => braces (map cstmt body)
  | SBreak l => S "break" ++ opt_text (fun x => sp ++ x) l
  | SContinue l => S "continue" ++ opt_text (fun x => sp ++ x) l
  | SGo f args ddd => S "go " ++ cexpr f ++ S " (" ++ arg_list ddd (map cexpr args) ++ S ")"
  | SDefer f args ddd => S "defer " ++ cexpr f ++ S " (" ++ arg_list ddd (map cexpr args) ++ S ")"
  | SVar x t e => S "var " ++ x ++ opt_text (fun t => sp ++ cty t) t ++ opt_text (fun e => S " = " ++ cexpr e) e
  end
with cclause (c : clause) : str :=
  match c with
  | CCase e es body => S "case " ++ join comma (map cexpr (e :: es)) ++ S ": " ++ lines (map cstmt body)
  | CDefault body => S "default: " ++ lines (map cstmt body)
  end.

Definition cspec (s : spec) : str :=
  match s with
  | (n, t, e) => n ++ opt_text (fun t => sp ++ cty t) t ++ opt_text (fun e => S " = " ++ cexpr e) e
  end.

Definition cdecl (d : decl) : str :=
  match d with
  | DFunc name ps res body => S "func " ++ name ++ sp ++ cparams ps ++ cresult res ++ sp ++ braces (map cstmt body)
  | DVars specs => S "var " ++ parens_lines (map cspec specs)
  | DConsts specs => S "const " ++ parens_lines (map cspec specs)
  | DType name t => S "type " ++ name ++ sp ++ cty t
  end.

(* package clause, an empty line, then a newline before every declaration; no imports *)
Definition cfile (name : str) (ds : list decl) : str :=
  S "package " ++ name ++ nl ++ nl ++ lines (map cdecl ds).
