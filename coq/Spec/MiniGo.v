(* C01, stretch goal (DESIGN.md section 5, C01): A GRAMMAR OF GO PROGRAMS, THE DSL TREE THE
   DOCUMENTED ELEMENTS BUILD FOR EACH PROGRAM, AND THE TEXT A READER EXPECTS FOR IT.

   Three things are defined here, nothing is proved (Proofs/CanonProofs.v, Props/C01_canon.v):

   1. abstract syntax: types [ty], expressions [expr], statements [stmt], switch clauses
      [clause], declarations [decl] - a subset of Go's grammar, each constructor with the
      production of the Go specification it stands for;
   2. [bexpr / bstmt / bdecl ...] ("build"): the tree of Code values that the DSL elements of
      DESIGN.md Appendix D (the README's vocabulary; the same choices harness/rebuild/rebuild.go
      makes on real Go files) produce for a program.  Groups are taken from the GENERATED table
      of constructs (Gen/Tables.v, extracted from jen/generated.go on every run) through
      [find_group], one-token constructs through [find_token];
   3. [cexpr / cstmt / cdecl ...] ("canon"): a direct recursive printer - the text jennifer
      writes for the program BEFORE gofmt: the items of a statement separated by single blanks
      (so `f (x)`, `a [i]`, `x . sel`), list separators without blanks, every statement of a
      block on its own line between `{` and `}`.  It does not mention the renderer.

   WHAT THE TREES ARE.  A jennifer *Statement is a list of items; a chain x.Op("+").Add(y)
   appends to the items of x: [bexpr e] is that list of items, [CStmt (bexpr e)] the
   statement.  An operand attached with Add(..) and every item of a group is a statement of
   its own (rebuild.go: t.item).

   GROUP IDENTITIES.  In Go every Group is a pointer; the model carries a number [gid] in its
   place.  The renderer looks at identities in exactly one place: a Block asks its own
   statement for "the item before me" (Statement.previous -> Render.prev_of: the item before
   the FIRST top-level item of that statement that is a group with my gid) and drops its
   braces if that item is a Case group or the `default` token.  So what matters is that a
   Block's gid differs from the gid of every other group among the top-level items of the
   SAME statement.  [build] gives gid 1 to every Block and gid 0 to every other group, and no
   statement built here has two Blocks among its top-level items: the only constructs that
   put a Block into a statement are a func literal, if, for, switch, type switch, select, a block
   statement, a clause and a func or method declaration - one Block each - and an expression is spliced into a
   statement only as the HEAD of a chain (x.Call(..), x.Index(..), x.Dot(..), x.Op(..)), every
   other operand being a nested statement of its own.  Hence each Block has its own gid within
   its statement, as with pointers.  The same holds of the constructs added later (a method
   declaration, a labeled statement, a send statement, a type assertion: the labeled statement
   is a nested statement, the receiver a Params group with gid 0).  (A counter threaded through [build] would give globally
   distinct numbers; the renderer never compares gids across statements.)

   KEYED COMPOSITE LITERALS AND THE DICT.  EKeyed t pairs (`T{k1: v1, k2: v2}`) is built as
   T.Values(Dict{k1: v1, ..}).  A Dict is a Go map; jennifer writes its pairs sorted by the text
   the keys render to.  In the model a Dict is the list of its pairs in iteration order; [build]
   lists them in source order, and [cexpr] prints them sorted by the canonical text of the key
   ([sort_keyed], stable), in the Dict layout ([keyed_body]).  So canon (EKeyed t pairs) is the
   source program up to the order of the keyed elements.

   TYPES.  [ty] is a nested inductive (lists of fields / parameters / results / methods):
   induction over it is [ty_ind'].  Struct(..) and Interface(..) are multi-line groups (one
   field / method per line).  The builders and printers of signatures take the function on
   types as a parameter ([bsig_with], [csig_with]) so that [bty] / [cty] can recurse through them.

   SUPERSET.  Some trees of these types are not Go (an `else` followed by a `return`, an
   `if` whose init statement is a `for`, the identifier ""): the theorems do not need to
   exclude them - they state what is written for every tree. *)
From Jen Require Import Base.Bytes Base.Num Base.Sort Model.Code Model.Naming Model.Render Model.FileRender Model.Exec.
From Jen Require Import Gen.Tables.
Local Open Scope N_scope.

(* ================================================================== abstract syntax *)

(* unary_op = "+" | "-" | "!" | "^" | "*" | "&" | "<-" *)
Inductive unop := UPlus | UMinus | UNot | UXor | UStar | UAmp | UArrow.
Definition unop_text (o : unop) : str :=
  match o with
  | UPlus => S "+" | UMinus => S "-" | UNot => S "!" | UXor => S "^"
  | UStar => S "*" | UAmp => S "&" | UArrow => S "<-"
  end.

(* binary_op = "||" | "&&" | rel_op | add_op | mul_op *)
Inductive binop :=
| BLor | BLand | BEq | BNe | BLt | BLe | BGt | BGe
| BAdd | BSub | BOr | BXor | BMul | BDiv | BRem | BShl | BShr | BAnd | BAndNot.
Definition binop_text (o : binop) : str :=
  match o with
  | BLor => S "||" | BLand => S "&&" | BEq => S "==" | BNe => S "!=" | BLt => S "<" | BLe => S "<="
  | BGt => S ">" | BGe => S ">=" | BAdd => S "+" | BSub => S "-" | BOr => S "|" | BXor => S "^"
  | BMul => S "*" | BDiv => S "/" | BRem => S "%" | BShl => S "<<" | BShr => S ">>" | BAnd => S "&"
  | BAndNot => S "&^"
  end.

(* assign_op = [ add_op | mul_op ] "=" ; ShortVarDecl uses ":=" *)
Inductive asgop :=
| AAssign | ADefine | AAdd | ASub | AMul | ADiv | ARem | AAnd | AOr | AXor | AShl | AShr | AAndNot.
Definition asgop_text (o : asgop) : str :=
  match o with
  | AAssign => S "=" | ADefine => S ":=" | AAdd => S "+=" | ASub => S "-=" | AMul => S "*=" | ADiv => S "/="
  | ARem => S "%=" | AAnd => S "&=" | AOr => S "|=" | AXor => S "^=" | AShl => S "<<=" | AShr => S ">>="
  | AAndNot => S "&^="
  end.

(* channel direction: chan T | <-chan T | chan<- T *)
Inductive chandir := CBoth | CRecv | CSend.

(* Type = TypeName | PointerType | SliceType | MapType | ArrayType | ChannelType | FunctionType |
          StructType | InterfaceType; and, as in go/ast, the `...T` of a variadic final parameter
   is a type node of its own (TEllipsis; Go accepts it only there) *)
Inductive ty :=
| TName (n : str)                    (* identifier *)
| TPtr (t : ty)                      (* "*" BaseType *)
| TSlice (t : ty)                    (* "[" "]" ElementType *)
| TMap (k v : ty)                    (* "map" "[" KeyType "]" ElementType *)
| TArray (n : Z) (t : ty)            (* "[" ArrayLength "]" ElementType, the length an int_lit *)
| TChan (d : chandir) (t : ty)       (* ( "chan" | "chan" "<-" | "<-" "chan" ) ElementType *)
| TEllipsis (t : ty)                 (* "..." Type *)
| TFunc (ps : list (str * ty)) (res : list ty)       (* "func" Parameters [ Result ] *)
| TStruct (fs : list (str * ty * list (str * str)))   (* "struct" "{" { identifier Type [ Tag ] ";" } "}"; the tag a
                                                        conventional one: key:"value" pairs ([] = no tag) *)
| TIface (ms : list (str * (list (str * ty) * list ty))).   (* "interface" "{" { MethodName Signature ";" } "}" *)

(* ParameterDecl = identifier Type *)
Definition param := (str * ty)%type.
(* FieldDecl = identifier Type [ Tag ], the tag given as the map handed to Tag(..); [] = no tag *)
Definition field := (str * ty * list (str * str))%type.
Definition fd_name (f : field) : str := fst (fst f).
Definition fd_ty (f : field) : ty := snd (fst f).
Definition fd_tag (f : field) : list (str * str) := snd f.
(* Signature = Parameters [ Result ], Result = Type | "(" Type { "," Type } ")" *)
Definition sig := (list param * list ty)%type.

Inductive expr :=
| EId (n : str)                                   (* identifier *)
| EInt (z : Z)                                    (* int_lit, value of type int: Lit(z) *)
| EStr (s : str)                                  (* string_lit with value s: Lit(s) *)
| EBool (b : bool)                                (* true | false *)
| ENil                                            (* nil *)
| EUn (op : unop) (x : expr)                      (* unary_op UnaryExpr *)
| EBin (x : expr) (op : binop) (y : expr)         (* Expression binary_op Expression *)
| ECall (f : expr) (args : list expr) (ddd : bool)(* PrimaryExpr "(" [ ExpressionList [ "..." ] ] ")" *)
| EIndex (x i : expr)                             (* PrimaryExpr "[" Expression "]" *)
| ESlice (x : expr) (lo hi : option expr)         (* PrimaryExpr "[" [Expression] ":" [Expression] "]" *)
| ESlice3 (x : expr) (lo hi mx : option expr)     (* PrimaryExpr "[" [E] ":" E ":" E "]" (bounds left optional) *)
| ESel (x : expr) (sel : str)                     (* PrimaryExpr "." identifier *)
| EParen (x : expr)                               (* "(" Expression ")" *)
| EComp (t : ty) (elts : list expr)               (* LiteralType "{" [ ElementList ] "}" *)
| EKeyed (t : ty) (pairs : list (expr * expr))    (* LiteralType "{" [ Key ":" Element { "," Key ":" Element } [ "," ] ] "}" *)
| EFunc (ps : list param) (res : list ty) (body : list stmt)     (* "func" Signature FunctionBody *)
| EAssert (x : expr) (t : ty)                     (* PrimaryExpr "." "(" Type ")" *)
with stmt :=
| SExpr (e : expr)                                (* ExpressionStmt *)
| SAssign (l : expr) (ls : list expr) (op : asgop) (r : expr) (rs : list expr)
                                                  (* ExpressionList assign_op ExpressionList ; ShortVarDecl *)
| SIncDec (x : expr) (inc : bool)                 (* Expression ( "++" | "--" ) *)
| SReturn (es : list expr)                        (* "return" [ ExpressionList ] *)
| SIf (init : option stmt) (cond : expr) (body : list stmt) (els : option stmt)
                                                  (* "if" [ SimpleStmt ";" ] Expression Block [ "else" ( IfStmt | Block ) ] *)
| SFor (init : option stmt) (cond : option expr) (post : option stmt) (body : list stmt)
                                                  (* "for" [ InitStmt ] ";" [ Condition ] ";" [ PostStmt ] Block *)
| SWhile (cond : expr) (body : list stmt)         (* "for" Condition Block *)
| SLoop (body : list stmt)                        (* "for" Block *)
| SRange (k : expr) (v : option expr) (def : bool) (x : expr) (body : list stmt)
                                                  (* "for" ExpressionList ( "=" | ":=" ) "range" Expression Block *)
| SSwitch (init : option stmt) (tag : option expr) (cls : list clause)
                                                  (* "switch" [ SimpleStmt ";" ] [ Expression ] "{" { ExprCaseClause } "}" *)
| SBlock (body : list stmt)                       (* Block *)
| SBreak (label : option str)                     (* "break" [ Label ] *)
| SContinue (label : option str)                  (* "continue" [ Label ] *)
| SGo (f : expr) (args : list expr) (ddd : bool)  (* "go" Expression, the expression being a call *)
| SDefer (f : expr) (args : list expr) (ddd : bool)  (* "defer" Expression, the expression being a call *)
| SVar (x : str) (t : option ty) (e : option expr)   (* "var" identifier [ Type ] [ "=" Expression ] *)
| SLabeled (l : str) (s : stmt)                   (* Label ":" Statement *)
| SGoto (l : str)                                 (* "goto" Label *)
| SFallthrough                                    (* "fallthrough" *)
| SSend (c v : expr)                              (* Channel "<-" Expression *)
| SSelect (cls : list clause)                     (* "select" "{" { CommClause } "}" *)
| STypeSwitch (init : option stmt) (bind : option str) (x : expr) (cls : list clause)
                                                  (* "switch" [ SimpleStmt ";" ] [ identifier ":=" ] PrimaryExpr "." "(" "type" ")"
                                                     "{" { TypeCaseClause } "}" *)
with clause :=
| CCase (e : expr) (es : list expr) (body : list stmt)   (* "case" ExpressionList ":" StatementList *)
| CDefault (body : list stmt)                            (* "default" ":" StatementList *)
| CComm (s : stmt) (body : list stmt)                    (* "case" ( SendStmt | RecvStmt ) ":" StatementList *)
| CType (t : ty) (ts : list ty) (body : list stmt).      (* "case" Type { "," Type } ":" StatementList *)

(* ValueSpec / ConstSpec = identifier [ Type ] [ "=" Expression ] *)
Definition spec := (str * option ty * option expr)%type.

Inductive decl :=
| DFunc (name : str) (ps : list param) (res : list ty) (body : list stmt)
                                                  (* "func" FunctionName Signature FunctionBody *)
| DMethod (recv : param) (name : str) (ps : list param) (res : list ty) (body : list stmt)
                                                  (* "func" "(" identifier Type ")" MethodName Signature FunctionBody *)
| DVars (specs : list spec)                       (* "var" "(" { VarSpec ";" } ")" *)
| DConsts (specs : list spec)                     (* "const" "(" { ConstSpec ";" } ")" *)
| DType (name : str) (t : ty).                    (* "type" identifier Type *)

(* ---- induction over the three mutually defined types, with the nested lists and options exposed *)
Definition OptP {A} (P : A -> Prop) (o : option A) : Prop :=
  match o with Some a => P a | None => True end.

Definition all_list {A} (P : A -> Prop) (f : forall a, P a) : forall l, Forall P l :=
  fix go (l : list A) : Forall P l :=
    match l with
    | [] => Forall_nil P
    | x :: r => Forall_cons x (f x) (go r)
    end.

Definition all_opt {A} (P : A -> Prop) (f : forall a, P a) (o : option A) : OptP P o :=
  match o with Some a => f a | None => I end.

(* both components of every pair *)
Definition PairP {A} (P : A -> Prop) (kv : A * A) : Prop := P (fst kv) /\ P (snd kv).

Definition all_pairs {A} (P : A -> Prop) (f : forall a, P a) : forall l, Forall (PairP P) l :=
  fix go (l : list (A * A)) : Forall (PairP P) l :=
    match l with
    | [] => Forall_nil (PairP P)
    | kv :: r =>
        Forall_cons kv (match kv as p return PairP P p with (k, v) => conj (f k) (f v) end) (go r)
    end.

Definition all_snd {A B} (P : B -> Prop) (f : forall b, P b) : forall l, Forall (fun x : A * B => P (snd x)) l :=
  fix go (l : list (A * B)) : Forall (fun x => P (snd x)) l :=
    match l with
    | [] => Forall_nil _
    | x :: r => Forall_cons x (f (snd x)) (go r)
    end.

(* induction over types, with the nested lists exposed *)
Definition ParamsP (P : ty -> Prop) (ps : list (str * ty)) : Prop := Forall (fun p => P (snd p)) ps.
Definition SigP (P : ty -> Prop) (sg : sig) : Prop := ParamsP P (fst sg) /\ Forall P (snd sg).
Definition FieldsP (P : ty -> Prop) (fs : list field) : Prop := Forall (fun f => P (fd_ty f)) fs.

Definition all_fields (P : ty -> Prop) (f : forall b, P b) : forall l, FieldsP P l :=
  fix go (l : list field) : Forall (fun x => P (fd_ty x)) l :=
    match l with
    | [] => Forall_nil _
    | x :: r => Forall_cons x (f (snd (fst x))) (go r)
    end.

Section TyInd.
  Variable P : ty -> Prop.
  Hypothesis HName : forall n, P (TName n).
  Hypothesis HPtr : forall t, P t -> P (TPtr t).
  Hypothesis HSlice : forall t, P t -> P (TSlice t).
  Hypothesis HMap : forall k v, P k -> P v -> P (TMap k v).
  Hypothesis HArray : forall n t, P t -> P (TArray n t).
  Hypothesis HChan : forall d t, P t -> P (TChan d t).
  Hypothesis HEllipsis : forall t, P t -> P (TEllipsis t).
  Hypothesis HFunc : forall ps res, ParamsP P ps -> Forall P res -> P (TFunc ps res).
  Hypothesis HStruct : forall fs, FieldsP P fs -> P (TStruct fs).
  Hypothesis HIface : forall ms, Forall (fun m => SigP P (snd m)) ms -> P (TIface ms).

  Fixpoint ty_ind' (t : ty) : P t :=
    match t with
    | TName n => HName n
    | TPtr t => HPtr t (ty_ind' t)
    | TSlice t => HSlice t (ty_ind' t)
    | TMap k v => HMap k v (ty_ind' k) (ty_ind' v)
    | TArray n t => HArray n t (ty_ind' t)
    | TChan d t => HChan d t (ty_ind' t)
    | TEllipsis t => HEllipsis t (ty_ind' t)
    | TFunc ps res => HFunc ps res (all_snd P ty_ind' ps) (all_list P ty_ind' res)
    | TStruct fs => HStruct fs (all_fields P ty_ind' fs)
    | TIface ms =>
        HIface ms
          ((fix go (l : list (str * sig)) : Forall (fun m => SigP P (snd m)) l :=
              match l with
              | [] => Forall_nil _
              | m :: r =>
                  Forall_cons m (conj (all_snd P ty_ind' (fst (snd m))) (all_list P ty_ind' (snd (snd m)))) (go r)
              end) ms)
    end.
End TyInd.

Section MiniInd.
  Variable Pe : expr -> Prop.
  Variable Ps : stmt -> Prop.
  Variable Pc : clause -> Prop.
  Hypothesis HId : forall n, Pe (EId n).
  Hypothesis HInt : forall z, Pe (EInt z).
  Hypothesis HStr : forall s, Pe (EStr s).
  Hypothesis HBool : forall b, Pe (EBool b).
  Hypothesis HNil : Pe ENil.
  Hypothesis HUn : forall op x, Pe x -> Pe (EUn op x).
  Hypothesis HBin : forall x op y, Pe x -> Pe y -> Pe (EBin x op y).
  Hypothesis HCall : forall f args ddd, Pe f -> Forall Pe args -> Pe (ECall f args ddd).
  Hypothesis HIndex : forall x i, Pe x -> Pe i -> Pe (EIndex x i).
  Hypothesis HSlice : forall x lo hi, Pe x -> OptP Pe lo -> OptP Pe hi -> Pe (ESlice x lo hi).
  Hypothesis HSlice3 : forall x lo hi mx, Pe x -> OptP Pe lo -> OptP Pe hi -> OptP Pe mx -> Pe (ESlice3 x lo hi mx).
  Hypothesis HSel : forall x sel, Pe x -> Pe (ESel x sel).
  Hypothesis HParen : forall x, Pe x -> Pe (EParen x).
  Hypothesis HComp : forall t elts, Forall Pe elts -> Pe (EComp t elts).
  Hypothesis HKeyed : forall t pairs, Forall (PairP Pe) pairs -> Pe (EKeyed t pairs).
  Hypothesis HFunc : forall ps res body, Forall Ps body -> Pe (EFunc ps res body).
  Hypothesis HAssert : forall x t, Pe x -> Pe (EAssert x t).
  Hypothesis HSExpr : forall e, Pe e -> Ps (SExpr e).
  Hypothesis HSAssign : forall l ls op r rs, Pe l -> Forall Pe ls -> Pe r -> Forall Pe rs -> Ps (SAssign l ls op r rs).
  Hypothesis HSIncDec : forall x inc, Pe x -> Ps (SIncDec x inc).
  Hypothesis HSReturn : forall es, Forall Pe es -> Ps (SReturn es).
  Hypothesis HSIf : forall init cond body els,
      OptP Ps init -> Pe cond -> Forall Ps body -> OptP Ps els -> Ps (SIf init cond body els).
  Hypothesis HSFor : forall init cond post body,
      OptP Ps init -> OptP Pe cond -> OptP Ps post -> Forall Ps body -> Ps (SFor init cond post body).
  Hypothesis HSWhile : forall cond body, Pe cond -> Forall Ps body -> Ps (SWhile cond body).
  Hypothesis HSLoop : forall body, Forall Ps body -> Ps (SLoop body).
  Hypothesis HSRange : forall k v def x body,
      Pe k -> OptP Pe v -> Pe x -> Forall Ps body -> Ps (SRange k v def x body).
  Hypothesis HSSwitch : forall init tag cls, OptP Ps init -> OptP Pe tag -> Forall Pc cls -> Ps (SSwitch init tag cls).
  Hypothesis HSBlock : forall body, Forall Ps body -> Ps (SBlock body).
  Hypothesis HSBreak : forall l, Ps (SBreak l).
  Hypothesis HSContinue : forall l, Ps (SContinue l).
  Hypothesis HSGo : forall f args ddd, Pe f -> Forall Pe args -> Ps (SGo f args ddd).
  Hypothesis HSDefer : forall f args ddd, Pe f -> Forall Pe args -> Ps (SDefer f args ddd).
  Hypothesis HSVar : forall x t e, OptP Pe e -> Ps (SVar x t e).
  Hypothesis HSLabeled : forall l s, Ps s -> Ps (SLabeled l s).
  Hypothesis HSGoto : forall l, Ps (SGoto l).
  Hypothesis HSFallthrough : Ps SFallthrough.
  Hypothesis HSSend : forall c v, Pe c -> Pe v -> Ps (SSend c v).
  Hypothesis HSSelect : forall cls, Forall Pc cls -> Ps (SSelect cls).
  Hypothesis HSTypeSwitch : forall init bind x cls, OptP Ps init -> Pe x -> Forall Pc cls -> Ps (STypeSwitch init bind x cls).
  Hypothesis HCCase : forall e es body, Pe e -> Forall Pe es -> Forall Ps body -> Pc (CCase e es body).
  Hypothesis HCDefault : forall body, Forall Ps body -> Pc (CDefault body).
  Hypothesis HCComm : forall s body, Ps s -> Forall Ps body -> Pc (CComm s body).
  Hypothesis HCType : forall t ts body, Forall Ps body -> Pc (CType t ts body).

  Fixpoint expr_ind' (e : expr) : Pe e :=
    match e with
    | EId n => HId n
    | EInt z => HInt z
    | EStr s => HStr s
    | EBool b => HBool b
    | ENil => HNil
    | EUn op x => HUn op x (expr_ind' x)
    | EBin x op y => HBin x op y (expr_ind' x) (expr_ind' y)
    | ECall f args ddd => HCall f args ddd (expr_ind' f) (all_list Pe expr_ind' args)
    | EIndex x i => HIndex x i (expr_ind' x) (expr_ind' i)
    | ESlice x lo hi => HSlice x lo hi (expr_ind' x) (all_opt Pe expr_ind' lo) (all_opt Pe expr_ind' hi)
    | ESlice3 x lo hi mx =>
        HSlice3 x lo hi mx (expr_ind' x) (all_opt Pe expr_ind' lo) (all_opt Pe expr_ind' hi) (all_opt Pe expr_ind' mx)
    | ESel x sel => HSel x sel (expr_ind' x)
    | EParen x => HParen x (expr_ind' x)
    | EComp t elts => HComp t elts (all_list Pe expr_ind' elts)
    | EKeyed t pairs => HKeyed t pairs (all_pairs Pe expr_ind' pairs)
    | EFunc ps res body => HFunc ps res body (all_list Ps stmt_ind' body)
    | EAssert x t => HAssert x t (expr_ind' x)
    end
  with stmt_ind' (s : stmt) : Ps s :=
    match s with
    | SExpr e => HSExpr e (expr_ind' e)
    | SAssign l ls op r rs =>
        HSAssign l ls op r rs (expr_ind' l) (all_list Pe expr_ind' ls) (expr_ind' r) (all_list Pe expr_ind' rs)
    | SIncDec x inc => HSIncDec x inc (expr_ind' x)
    | SReturn es => HSReturn es (all_list Pe expr_ind' es)
    | SIf init cond body els =>
        HSIf init cond body els (all_opt Ps stmt_ind' init) (expr_ind' cond) (all_list Ps stmt_ind' body)
             (all_opt Ps stmt_ind' els)
    | SFor init cond post body =>
        HSFor init cond post body (all_opt Ps stmt_ind' init) (all_opt Pe expr_ind' cond)
              (all_opt Ps stmt_ind' post) (all_list Ps stmt_ind' body)
    | SWhile cond body => HSWhile cond body (expr_ind' cond) (all_list Ps stmt_ind' body)
    | SLoop body => HSLoop body (all_list Ps stmt_ind' body)
    | SRange k v def x body =>
        HSRange k v def x body (expr_ind' k) (all_opt Pe expr_ind' v) (expr_ind' x) (all_list Ps stmt_ind' body)
    | SSwitch init tag cls =>
        HSSwitch init tag cls (all_opt Ps stmt_ind' init) (all_opt Pe expr_ind' tag) (all_list Pc clause_ind' cls)
    | SBlock body => HSBlock body (all_list Ps stmt_ind' body)
    | SBreak l => HSBreak l
    | SContinue l => HSContinue l
    | SGo f args ddd => HSGo f args ddd (expr_ind' f) (all_list Pe expr_ind' args)
    | SDefer f args ddd => HSDefer f args ddd (expr_ind' f) (all_list Pe expr_ind' args)
    | SVar x t e => HSVar x t e (all_opt Pe expr_ind' e)
    | SLabeled l s => HSLabeled l s (stmt_ind' s)
    | SGoto l => HSGoto l
    | SFallthrough => HSFallthrough
    | SSend c v => HSSend c v (expr_ind' c) (expr_ind' v)
    | SSelect cls => HSSelect cls (all_list Pc clause_ind' cls)
    | STypeSwitch init bind x cls =>
        HSTypeSwitch init bind x cls (all_opt Ps stmt_ind' init) (expr_ind' x) (all_list Pc clause_ind' cls)
    end
  with clause_ind' (c : clause) : Pc c :=
    match c with
    | CCase e es body => HCCase e es body (expr_ind' e) (all_list Pe expr_ind' es) (all_list Ps stmt_ind' body)
    | CDefault body => HCDefault body (all_list Ps stmt_ind' body)
    | CComm s body => HCComm s body (stmt_ind' s) (all_list Ps stmt_ind' body)
    | CType t ts body => HCType t ts body (all_list Ps stmt_ind' body)
    end.

  Lemma mini_ind : (forall e, Pe e) /\ (forall s, Ps s) /\ (forall c, Pc c).
  Proof. exact (conj expr_ind' (conj stmt_ind' clause_ind')). Qed.
End MiniInd.

(* ================================================================== the constructs of the table *)
(* a Group / a one-token construct as the DSL method [m] makes it: the row of the generated
   table; CNil (on which rendering panics) if there is no such row - excluded by [tables_ok] *)
Definition group_of (m : str) (gid : N) (items : list code) : code :=
  match find_group m with
  | Some r => CGroup gid (gr_name r) (gr_open r) (gr_close r) (gr_sep r) (gr_multi r) items
  | None => CNil
  end.

Definition kw (m : str) : code :=
  match find_token m with
  | Some r => CTok (token_of_row r)
  | None => CNil
  end.

(* what [canon] takes each row used by [build] to be:
   method, (internal name, opener, closer, separator, multi-line) *)
Definition expected_groups : list (str * (str * str * str * str * bool)) := [
  (S "Call",   (S "call",   S "(",       S ")", S ",", false));
  (S "Index",  (S "index",  S "[",       S "]", S ":", false));
  (S "Parens", (S "parens", S "(",       S ")", S "",  false));
  (S "Values", (S "values", S "{",       S "}", S ",", false));
  (S "Params", (S "params", S "(",       S ")", S ",", false));
  (S "List",   (S "list",   S "",        S "",  S ",", false));
  (S "Map",    (S "map",    S "map[",    S "]", S "",  false));
  (S "Return", (S "return", S "return ", S "",  S ",", false));
  (S "If",     (S "if",     S "if ",     S "",  S ";", false));
  (S "For",    (S "for",    S "for ",    S "",  S ";", false));
  (S "Switch", (S "switch", S "switch ", S "",  S ";", false));
  (S "Case",   (S "case",   S "case ",   S ":", S ",", false));
  (S "Block",  (S "block",  S "{",       S "}", S "",  true));
  (S "Defs",   (S "defs",   S "(",       S ")", S "",  true));
  (S "Struct", (S "struct", S "struct{", S "}", S "",  true));
  (S "Interface", (S "interface", S "interface{", S "}", S "", true));
  (S "Assert", (S "assert", S ".(",      S ")", S "",  false))
].

(* method, token *)
Definition expected_tokens : list (str * token) := [
  (S "True", TkId (S "true")); (S "False", TkId (S "false")); (S "Nil", TkId (S "nil"));
  (S "Func", TkText (S "func")); (S "Else", TkText (S "else")); (S "Default", TkText (S "default"));
  (S "Break", TkText (S "break")); (S "Continue", TkText (S "continue")); (S "Go", TkText (S "go"));
  (S "Defer", TkText (S "defer")); (S "Var", TkText (S "var")); (S "Const", TkText (S "const"));
  (S "Type", TkText (S "type")); (S "Range", TkText (S "range"));
  (S "Chan", TkText (S "chan")); (S "Goto", TkText (S "goto")); (S "Fallthrough", TkText (S "fallthrough"));
  (S "Select", TkText (S "select"))
].

Definition group_row_ok (e : str * (str * str * str * str * bool)) : bool :=
  match e with
  | (m, (n, o, c, s, mu)) =>
    match find_group m with
    | Some r => str_eqb (gr_name r) n && str_eqb (gr_open r) o && str_eqb (gr_close r) c &&
                str_eqb (gr_sep r) s && Bool.eqb (gr_multi r) mu
    | None => false
    end
  end.

Definition token_eqb (a b : token) : bool :=
  match a, b with
  | TkId x, TkId y => str_eqb x y
  | TkText x, TkText y => str_eqb x y
  | _, _ => false
  end.

Definition token_row_ok (e : str * token) : bool :=
  match find_token (fst e) with
  | Some r => token_eqb (token_of_row r) (snd e)
  | None => false
  end.

(* every row [build] uses exists in the generated table and is what [canon] assumes *)
Definition tables_ok : bool := forallb group_row_ok expected_groups && forallb token_row_ok expected_tokens.

(* ================================================================== build *)
Definition gCall := group_of (S "Call").
Definition gIndex := group_of (S "Index").
Definition gParens := group_of (S "Parens").
Definition gValues := group_of (S "Values").
Definition gParams := group_of (S "Params").
Definition gList := group_of (S "List").
Definition gMap := group_of (S "Map").
Definition gReturn := group_of (S "Return").
Definition gIf := group_of (S "If").
Definition gFor := group_of (S "For").
Definition gSwitch := group_of (S "Switch").
Definition gCase := group_of (S "Case").
Definition gBlock := group_of (S "Block").
Definition gDefs := group_of (S "Defs").
Definition gStruct := group_of (S "Struct").
Definition gInterface := group_of (S "Interface").
Definition gAssert := group_of (S "Assert").

Definition id (n : str) : code := CTok (TkId n).          (* Id(n) *)
Definition op (s : str) : code := CTok (TkText s).        (* Op(s) *)
Definition empty : code := CStmt [op []].                 (* Empty() *)

(* an optional item of a group: Empty() when absent *)
Definition opt_item {A} (f : A -> list code) (o : option A) : code :=
  match o with Some a => CStmt (f a) | None => empty end.
(* optional trailing items of a statement *)
Definition opt_items {A} (f : A -> list code) (o : option A) : list code :=
  match o with Some a => f a | None => [] end.

(* f applied to the last element *)
Fixpoint on_last {A} (f : A -> A) (l : list A) : list A :=
  match l with
  | [] => []
  | [x] => [f x]
  | x :: r => x :: on_last f r
  end.

(* the items of Call(args..): each argument a statement, the last one followed by Op("...")
   in a variadic call *)
Definition call_args (ddd : bool) (args : list (list code)) : list code :=
  map CStmt (if ddd then on_last (fun l => l ++ [op (S "...")]) args else args).

(* ---- signatures, over the builder of types (the recursion of [bty] goes through them) *)
Section BSig.
  Variable rec : ty -> list code.
  (* Id(n).Add(T): a parameter, a field *)
  Definition bparam_with (p : param) : code := CStmt [id (fst p); CStmt (rec (snd p))].
  (* Id(n).Add(T) / Id(n).Add(T).Tag(kvs): a field of a struct *)
  Definition bfield_with (f : field) : code :=
    CStmt ([id (fd_name f); CStmt (rec (fd_ty f))] ++ match fd_tag f with [] => [] | kvs => [CTag kvs] end).
  (* Params(ps..) *)
  Definition bparams_with (ps : list param) : code := gParams 0 (map bparam_with ps).
  (* the result: nothing, .Add(T), or .Params(T1, T2..) for several *)
  Definition bresults_with (res : list ty) : list code :=
    match res with
    | [] => []
    | [t] => [CStmt (rec t)]
    | _ => [gParams 0 (map (fun t => CStmt (rec t)) res)]
    end.
  (* Params(ps..) and the result *)
  Definition bsig_with (sg : sig) : list code := bparams_with (fst sg) :: bresults_with (snd sg).
End BSig.

Fixpoint bty (t : ty) : list code :=
  match t with
  | TName n => [id n]                                      (* Id(n) *)
  | TPtr t => [op (S "*"); CStmt (bty t)]                  (* Op("*").Add(T) *)
  | TSlice t => [gIndex 0 []; CStmt (bty t)]               (* Index().Add(T) *)
  | TMap k v => [gMap 0 [CStmt (bty k)]; CStmt (bty v)]    (* Map(K).Add(V) *)
  | TArray n t => [gIndex 0 [CStmt [CTok (TkLit (LInt n))]]; CStmt (bty t)]     (* Index(Lit(n)).Add(T) *)
  | TChan CBoth t => [kw (S "Chan"); CStmt (bty t)]                  (* Chan().Add(T) *)
  | TChan CRecv t => [op (S "<-"); kw (S "Chan"); CStmt (bty t)]     (* Op("<-").Chan().Add(T) *)
  | TChan CSend t => [kw (S "Chan"); op (S "<-"); CStmt (bty t)]     (* Chan().Op("<-").Add(T) *)
  | TEllipsis t => [op (S "..."); CStmt (bty t)]           (* Op("...").Add(T) *)
  | TFunc ps res => kw (S "Func") :: bsig_with bty (ps, res)          (* Func().Params(ps..) + result *)
  | TStruct fs => [gStruct 0 (map (bfield_with bty) fs)]   (* Struct(Id(n).Add(T).Tag(kvs)..) *)
  | TIface ms =>                                           (* Interface(Id(m).Params(ps..) + result ..) *)
      [gInterface 0 (map (fun m => CStmt (id (fst m) :: bsig_with bty (snd m))) ms)]
  end.

Definition bparam : param -> code := bparam_with bty.            (* Id(n).Add(T) *)
Definition bfield : field -> code := bfield_with bty.
Definition bparams : list param -> code := bparams_with bty.     (* Params(ps..) *)
Definition bresults : list ty -> list code := bresults_with bty.
Definition bsig : sig -> list code := bsig_with bty.

Fixpoint bexpr (e : expr) : list code :=
  match e with
  | EId n => [id n]                                                       (* Id(n) *)
  | EInt z => [CTok (TkLit (LInt z))]                                     (* Lit(z) *)
  | EStr s => [CTok (TkLit (LStr s))]                                     (* Lit(s) *)
  | EBool b => [kw (if b then S "True" else S "False")]                   (* True() / False() *)
  | ENil => [kw (S "Nil")]                                                (* Nil() *)
  | EUn o x => [op (unop_text o); CStmt (bexpr x)]                        (* Op(o).Add(x) *)
  | EBin x o y => bexpr x ++ [op (binop_text o); CStmt (bexpr y)]         (* x.Op(o).Add(y) *)
  | ECall f args ddd => bexpr f ++ [gCall 0 (call_args ddd (map bexpr args))]     (* f.Call(args..) *)
  | EIndex x i => bexpr x ++ [gIndex 0 [CStmt (bexpr i)]]                 (* x.Index(i) *)
  | ESlice x lo hi => bexpr x ++ [gIndex 0 [opt_item bexpr lo; opt_item bexpr hi]]     (* x.Index(lo, hi) *)
  | ESlice3 x lo hi mx =>
      bexpr x ++ [gIndex 0 [opt_item bexpr lo; opt_item bexpr hi; opt_item bexpr mx]]  (* x.Index(lo, hi, max) *)
  | ESel x sel => bexpr x ++ [op (S "."); id sel]                         (* x.Dot(sel) *)
  | EParen x => [gParens 0 [CStmt (bexpr x)]]                             (* Parens(x) *)
  | EComp t elts => bty t ++ [gValues 0 (map (fun a => CStmt (bexpr a)) elts)]    (* T.Values(elts..) *)
  | EKeyed t pairs =>                                                     (* T.Values(Dict{k: v, ..}) *)
      bty t ++ [gValues 0 [CDict (map (fun kv => (CStmt (bexpr (fst kv)), CStmt (bexpr (snd kv)))) pairs)]]
  | EFunc ps res body =>                                                  (* Func().Params(ps..).Add(res).Block(body..) *)
      [kw (S "Func"); bparams ps] ++ bresults res ++ [gBlock 1 (map (fun s => CStmt (bstmt s)) body)]
  | EAssert x t => bexpr x ++ [gAssert 0 [CStmt (bty t)]]                 (* x.Assert(T) *)
  end
with bstmt (s : stmt) : list code :=
  match s with
  | SExpr e => bexpr e
  | SAssign l ls o r rs =>                                                (* List(lhs..).Op(o).List(rhs..) *)
      [gList 0 (map (fun a => CStmt (bexpr a)) (l :: ls)); op (asgop_text o);
       gList 0 (map (fun a => CStmt (bexpr a)) (r :: rs))]
  | SIncDec x inc => bexpr x ++ [op (if inc then S "++" else S "--")]     (* x.Op("++") *)
  | SReturn es => [gReturn 0 (map (fun a => CStmt (bexpr a)) es)]         (* Return(es..) *)
  | SIf init cond body els =>                                             (* If(init, cond).Block(..).Else().Add(s) *)
      [gIf 0 (opt_items (fun s => [CStmt (bstmt s)]) init ++ [CStmt (bexpr cond)]);
       gBlock 1 (map (fun s => CStmt (bstmt s)) body)] ++
      opt_items (fun s => [kw (S "Else"); CStmt (bstmt s)]) els
  | SFor init cond post body =>                                           (* For(init, cond, post).Block(..) *)
      [gFor 0 [opt_item bstmt init; opt_item bexpr cond; opt_item bstmt post];
       gBlock 1 (map (fun s => CStmt (bstmt s)) body)]
  | SWhile cond body =>                                                   (* For(cond).Block(..) *)
      [gFor 0 [CStmt (bexpr cond)]; gBlock 1 (map (fun s => CStmt (bstmt s)) body)]
  | SLoop body => [gFor 0 []; gBlock 1 (map (fun s => CStmt (bstmt s)) body)]    (* For().Block(..) *)
  | SRange k v def x body =>                                              (* For(List(k, v).Op(":=").Range().Add(x)).Block(..) *)
      [gFor 0 [CStmt [gList 0 (CStmt (bexpr k) :: opt_items (fun e => [CStmt (bexpr e)]) v);
                      op (if def then S ":=" else S "="); kw (S "Range"); CStmt (bexpr x)]];
       gBlock 1 (map (fun s => CStmt (bstmt s)) body)]
  | SSwitch init tag cls =>                                               (* Switch(init, tag).Block(clauses..) *)
      [gSwitch 0 (match init, tag with
                  | Some s, Some e => [CStmt (bstmt s); CStmt (bexpr e)]
                  | Some s, None => [CStmt (bstmt s); empty]
                  | None, Some e => [CStmt (bexpr e)]
                  | None, None => []
                  end);
       gBlock 1 (map bclause cls)]
  | SBlock body => [gBlock 1 (map (fun s => CStmt (bstmt s)) body)]       (* Block(..) *)
  | SBreak l => kw (S "Break") :: opt_items (fun x => [id x]) l           (* Break().Id(l) *)
  | SContinue l => kw (S "Continue") :: opt_items (fun x => [id x]) l     (* Continue().Id(l) *)
  | SGo f args ddd =>                                                     (* Go().Add(f.Call(args..)) *)
      [kw (S "Go"); CStmt (bexpr f ++ [gCall 0 (call_args ddd (map bexpr args))])]
  | SDefer f args ddd =>                                                  (* Defer().Add(f.Call(args..)) *)
      [kw (S "Defer"); CStmt (bexpr f ++ [gCall 0 (call_args ddd (map bexpr args))])]
  | SVar x t e =>                                                         (* Var().Id(x).Add(T).Op("=").Add(e) *)
      [kw (S "Var"); id x] ++ opt_items (fun t => [CStmt (bty t)]) t ++
      opt_items (fun e => [op (S "="); CStmt (bexpr e)]) e
  | SLabeled l s => [id l; op (S ":"); CStmt (bstmt s)]                   (* Id(l).Op(":").Add(s) *)
  | SGoto l => [kw (S "Goto"); id l]                                      (* Goto().Id(l) *)
  | SFallthrough => [kw (S "Fallthrough")]                                (* Fallthrough() *)
  | SSend c v => bexpr c ++ [op (S "<-"); CStmt (bexpr v)]                (* c.Op("<-").Add(v) *)
  | SSelect cls => [kw (S "Select"); gBlock 1 (map bclause cls)]          (* Select().Block(clauses..) *)
  | STypeSwitch init bind x cls =>              (* Switch(init, Id(b).Op(":=").Add(x.Assert(Type()))).Block(clauses..) *)
      [gSwitch 0 (opt_items (fun s => [CStmt (bstmt s)]) init ++
                  [CStmt (match bind with
                          | Some b => [id b; op (S ":="); CStmt (bexpr x ++ [gAssert 0 [CStmt [kw (S "Type")]]])]
                          | None => bexpr x ++ [gAssert 0 [CStmt [kw (S "Type")]]]
                          end)]);
       gBlock 1 (map bclause cls)]
  end
with bclause (c : clause) : code :=
  match c with
  | CCase e es body =>                                                    (* Case(es..).Block(body..) *)
      CStmt [gCase 0 (map (fun a => CStmt (bexpr a)) (e :: es)); gBlock 1 (map (fun s => CStmt (bstmt s)) body)]
  | CDefault body =>                                                      (* Default().Block(body..) *)
      CStmt [kw (S "Default"); gBlock 1 (map (fun s => CStmt (bstmt s)) body)]
  | CComm s body =>                                                       (* Case(stmt).Block(body..) *)
      CStmt [gCase 0 [CStmt (bstmt s)]; gBlock 1 (map (fun s => CStmt (bstmt s)) body)]
  | CType t ts body =>                                                    (* Case(T..).Block(body..) *)
      CStmt [gCase 0 (map (fun a => CStmt (bty a)) (t :: ts)); gBlock 1 (map (fun s => CStmt (bstmt s)) body)]
  end.

(* Id(n).Add(T).Op("=").Add(e) *)
Definition bspec (sp : spec) : code :=
  match sp with
  | (n, t, e) => CStmt (id n :: opt_items (fun t => [CStmt (bty t)]) t ++
                        opt_items (fun e => [op (S "="); CStmt (bexpr e)]) e)
  end.

Definition bdecl (d : decl) : list code :=
  match d with
  | DFunc name ps res body =>                      (* Func().Id(name).Params(ps..).Add(res).Block(body..) *)
      [kw (S "Func"); id name; bparams ps] ++ bresults res ++ [gBlock 1 (map (fun s => CStmt (bstmt s)) body)]
  | DMethod recv name ps res body =>               (* Func().Params(Id(r).Add(T)).Id(name).Params(ps..) + result .Block(body..) *)
      [kw (S "Func"); bparams [recv]; id name; bparams ps] ++ bresults res ++
      [gBlock 1 (map (fun s => CStmt (bstmt s)) body)]
  | DVars specs => [kw (S "Var"); gDefs 0 (map bspec specs)]          (* Var().Defs(specs..) *)
  | DConsts specs => [kw (S "Const"); gDefs 0 (map bspec specs)]      (* Const().Defs(specs..) *)
  | DType name t => [kw (S "Type"); id name; CStmt (bty t)]           (* Type().Id(name).Add(T) *)
  end.

(* the statements handed to the renderer *)
Definition build_type (t : ty) : code := CStmt (bty t).
Definition build_expr (e : expr) : code := CStmt (bexpr e).
Definition build_stmt (s : stmt) : code := CStmt (bstmt s).
Definition build_decl (d : decl) : code := CStmt (bdecl d).
(* NewFile(name) with one Add per declaration *)
Definition build_file (name : str) (ds : list decl) : file :=
  fold_left add_item (map build_decl ds) (new_file name).

(* ================================================================== canon *)
(* The text, written by a direct recursive printer.  Layout rules (what jennifer writes before
   gofmt): the parts of a statement are separated by ONE blank - also a callee from its
   argument list, an operand from its index, the two sides of a selector dot; the elements of
   a list are separated by the bare separator; a block is `{`, a newline before every
   statement, a newline before `}` unless the block is empty; the body of a clause follows
   `case ..:` and a blank, a newline before every statement. *)
Definition sp : str := S " ".
Definition comma : str := S ",".
Definition nl : str := [x0a].

(* every text preceded by a newline *)
Definition lines (xs : list str) : str := concat_str (map (fun x => nl ++ x) xs).
(* { statements } *)
Definition braces (xs : list str) : str :=
  S "{" ++ lines xs ++ (match xs with [] => [] | _ => nl end) ++ S "}".
(* ( specs ) *)
Definition parens_lines (xs : list str) : str :=
  S "(" ++ lines xs ++ (match xs with [] => [] | _ => nl end) ++ S ")".
(* the text of an optional part; nothing when absent *)
Definition opt_text {A} (f : A -> str) (o : option A) : str :=
  match o with Some a => f a | None => [] end.
(* a,b,c ... with ` ...` after the last element of a variadic call *)
Definition arg_list (ddd : bool) (xs : list str) : str :=
  join comma (if ddd then on_last (fun x => x ++ S " ...") xs else xs).

(* The keyed elements of a composite literal, given as (key text, value text) IN THE ORDER IN
   WHICH THEY ARE WRITTEN: nothing for no element, `k:v` for one, and for several a newline, then
   `k:v,` and a newline for each (so the last element is followed by a comma too). *)
Definition keyed_body (kvs : list (str * str)) : str :=
  match kvs with
  | [] => []
  | [kv] => fst kv ++ S ":" ++ snd kv
  | _ => nl ++ concat_str (map (fun kv => fst kv ++ S ":" ++ snd kv ++ S "," ++ nl) kvs)
  end.

(* The order in which keyed elements are written: sorted by the TEXT of the key (bytewise,
   [str_leb]), elements with equal key texts in the order of the list ([isort_by] is a stable
   insertion sort).  A Dict is a Go map: it has no order of its own. *)
Definition sort_keyed {A} (l : list (str * A)) : list (str * A) := isort_by fst l.

(* ---- signatures, over the printer of types *)
Section CSig.
  Variable rec : ty -> str.
  Definition cparam_with (p : param) : str := fst p ++ sp ++ rec (snd p).
  (* a field: name, type and - after a blank - the tag as jennifer writes it ([tag_text]: the
     pairs key:"value" sorted by key and joined by blanks, between backquotes when
     strconv.CanBackquote allows it, else quoted) *)
  Definition cfield_with (f : field) : str :=
    fd_name f ++ sp ++ rec (fd_ty f) ++ match fd_tag f with [] => [] | kvs => sp ++ tag_text kvs end.
  Definition cparams_with (ps : list param) : str := S "(" ++ join comma (map cparam_with ps) ++ S ")".
  (* the result, with the blank before it *)
  Definition cresults_with (res : list ty) : str :=
    match res with
    | [] => []
    | [t] => sp ++ rec t
    | _ => S " (" ++ join comma (map rec res) ++ S ")"
    end.
  Definition csig_with (sg : sig) : str := cparams_with (fst sg) ++ cresults_with (snd sg).
End CSig.

(* the lines of a struct or interface type between `struct{` / `interface{` and `}` *)
Definition type_lines (opener : str) (xs : list str) : str :=
  opener ++ lines xs ++ (match xs with [] => [] | _ => nl end) ++ S "}".

Fixpoint cty (t : ty) : str :=
  match t with
  | TName n => n
  | TPtr t => S "* " ++ cty t
  | TSlice t => S "[] " ++ cty t
  | TMap k v => S "map[" ++ cty k ++ S "] " ++ cty v
  | TArray n t => S "[" ++ Z_to_dec n ++ S "] " ++ cty t
  | TChan CBoth t => S "chan " ++ cty t
  | TChan CRecv t => S "<- chan " ++ cty t
  | TChan CSend t => S "chan <- " ++ cty t
  | TEllipsis t => S "... " ++ cty t
  | TFunc ps res => S "func " ++ csig_with cty (ps, res)
  | TStruct fs => type_lines (S "struct{") (map (cfield_with cty) fs)
  | TIface ms => type_lines (S "interface{") (map (fun m => fst m ++ sp ++ csig_with cty (snd m)) ms)
  end.

Definition cparam : param -> str := cparam_with cty.
Definition cfield : field -> str := cfield_with cty.
Definition cparams : list param -> str := cparams_with cty.
Definition cresults : list ty -> str := cresults_with cty.
Definition csig : sig -> str := csig_with cty.

Fixpoint cexpr (e : expr) : str :=
  match e with
  | EId n => n
  | EInt z => Z_to_dec z
  | EStr s => GoQuote s
  | EBool b => if b then S "true" else S "false"
  | ENil => S "nil"
  | EUn o x => unop_text o ++ sp ++ cexpr x
  | EBin x o y => cexpr x ++ sp ++ binop_text o ++ sp ++ cexpr y
  | ECall f args ddd => cexpr f ++ S " (" ++ arg_list ddd (map cexpr args) ++ S ")"
  | EIndex x i => cexpr x ++ S " [" ++ cexpr i ++ S "]"
  | ESlice x lo hi => cexpr x ++ S " [" ++ opt_text cexpr lo ++ S ":" ++ opt_text cexpr hi ++ S "]"
  | ESlice3 x lo hi mx =>
      cexpr x ++ S " [" ++ opt_text cexpr lo ++ S ":" ++ opt_text cexpr hi ++ S ":" ++ opt_text cexpr mx ++ S "]"
  | ESel x sel => cexpr x ++ S " . " ++ sel
  | EParen x => S "(" ++ cexpr x ++ S ")"
  | EComp t elts => cty t ++ S " {" ++ join comma (map cexpr elts) ++ S "}"
  | EKeyed t pairs =>
      cty t ++ S " {" ++ keyed_body (sort_keyed (map (fun kv => (cexpr (fst kv), cexpr (snd kv))) pairs)) ++ S "}"
  | EFunc ps res body => S "func " ++ cparams ps ++ cresults res ++ sp ++ braces (map cstmt body)
  | EAssert x t => cexpr x ++ S " .(" ++ cty t ++ S ")"
  end
with cstmt (s : stmt) : str :=
  match s with
  | SExpr e => cexpr e
  | SAssign l ls o r rs =>
      join comma (map cexpr (l :: ls)) ++ sp ++ asgop_text o ++ sp ++ join comma (map cexpr (r :: rs))
  | SIncDec x inc => cexpr x ++ (if inc then S " ++" else S " --")
  | SReturn es => S "return " ++ join comma (map cexpr es)
  | SIf init cond body els =>
      S "if " ++ opt_text (fun s => cstmt s ++ S ";") init ++ cexpr cond ++ sp ++ braces (map cstmt body) ++
      opt_text (fun s => S " else " ++ cstmt s) els
  | SFor init cond post body =>
      S "for " ++ opt_text cstmt init ++ S ";" ++ opt_text cexpr cond ++ S ";" ++ opt_text cstmt post ++ sp ++
      braces (map cstmt body)
  | SWhile cond body => S "for " ++ cexpr cond ++ sp ++ braces (map cstmt body)
  | SLoop body => S "for " ++ sp ++ braces (map cstmt body)
  | SRange k v def x body =>
      S "for " ++ cexpr k ++ opt_text (fun e => comma ++ cexpr e) v ++ (if def then S " := " else S " = ") ++
      S "range " ++ cexpr x ++ sp ++ braces (map cstmt body)
  | SSwitch init tag cls =>
      S "switch " ++
      (match init, tag with
       | Some s, Some e => cstmt s ++ S ";" ++ cexpr e
       | Some s, None => cstmt s ++ S ";"
       | None, Some e => cexpr e
       | None, None => []
       end) ++ sp ++ braces (map cclause cls)
  | SBlock body => braces (map cstmt body)
  | SBreak l => S "break" ++ opt_text (fun x => sp ++ x) l
  | SContinue l => S "continue" ++ opt_text (fun x => sp ++ x) l
  | SGo f args ddd => S "go " ++ cexpr f ++ S " (" ++ arg_list ddd (map cexpr args) ++ S ")"
  | SDefer f args ddd => S "defer " ++ cexpr f ++ S " (" ++ arg_list ddd (map cexpr args) ++ S ")"
  | SVar x t e => S "var " ++ x ++ opt_text (fun t => sp ++ cty t) t ++ opt_text (fun e => S " = " ++ cexpr e) e
  | SLabeled l s => l ++ S " : " ++ cstmt s
  | SGoto l => S "goto " ++ l
  | SFallthrough => S "fallthrough"
  | SSend c v => cexpr c ++ S " <- " ++ cexpr v
  | SSelect cls => S "select " ++ braces (map cclause cls)
  | STypeSwitch init bind x cls =>
      S "switch " ++ opt_text (fun s => cstmt s ++ S ";") init ++ opt_text (fun b => b ++ S " := ") bind ++
      cexpr x ++ S " .(type)" ++ sp ++ braces (map cclause cls)
  end
with cclause (c : clause) : str :=
  match c with
  | CCase e es body => S "case " ++ join comma (map cexpr (e :: es)) ++ S ": " ++ lines (map cstmt body)
  | CDefault body => S "default: " ++ lines (map cstmt body)
  | CComm s body => S "case " ++ cstmt s ++ S ": " ++ lines (map cstmt body)
  | CType t ts body => S "case " ++ join comma (map cty (t :: ts)) ++ S ": " ++ lines (map cstmt body)
  end.

Definition cspec (s : spec) : str :=
  match s with
  | (n, t, e) => n ++ opt_text (fun t => sp ++ cty t) t ++ opt_text (fun e => S " = " ++ cexpr e) e
  end.

Definition cdecl (d : decl) : str :=
  match d with
  | DFunc name ps res body => S "func " ++ name ++ sp ++ cparams ps ++ cresults res ++ sp ++ braces (map cstmt body)
  | DMethod recv name ps res body =>
      S "func " ++ cparams [recv] ++ sp ++ name ++ sp ++ cparams ps ++ cresults res ++ sp ++ braces (map cstmt body)
  | DVars specs => S "var " ++ parens_lines (map cspec specs)
  | DConsts specs => S "const " ++ parens_lines (map cspec specs)
  | DType name t => S "type " ++ name ++ sp ++ cty t
  end.

(* package clause, an empty line, then a newline before every declaration; no imports *)
Definition cfile (name : str) (ds : list decl) : str :=
  S "package " ++ name ++ nl ++ nl ++ lines (map cdecl ds).

(* ================================================================== keyed elements: order *)
(* The keyed elements of a literal in the order in which they are written (Proofs/CanonProofs.v,
   keyed_canon_sorted: the text of EKeyed t pairs is that of EKeyed t (keyed_sorted pairs), and
   [keyed_sorted pairs] is a permutation of [pairs]). *)
Definition keyed_sorted (pairs : list (expr * expr)) : list (expr * expr) :=
  isort_by (fun kv => cexpr (fst kv)) pairs.

Fixpoint distinct_strs (l : list str) : bool :=
  match l with
  | a :: r => negb (existsb (str_eqb a) r) && distinct_strs r
  | [] => true
  end.

(* The key texts of the literal are pairwise distinct.  NOT a hypothesis of render = canon (the
   model lists the pairs of a Dict in iteration order and the sort is stable); it is what makes
   the text independent of that order, i.e. of Go's map iteration (keyed_canon_perm). *)
Definition keys_ok (pairs : list (expr * expr)) : bool :=
  distinct_strs (map (fun kv => cexpr (fst kv)) pairs).
