(* T1, second half: THE PURE TEXT.  [ptext cfg t ctx c] is the text of the tree [c] as a
   function of the tree and ONE import table [t] - the table is read (null-ness of dot
   imports and of the local package, the registered name of a package token) and never
   changed or threaded.  Definitions only; the theorems are in Proofs/PureProofs.v:
   a successful [render cfg ctx t0 c = Ok (t1, s)] has [ptext cfg t1 ctx c = Ok s].

   Layout functions are the ones of the emit spec: [group_text] (Proofs/CommentProofs.v),
   [closer] (Proofs/EmitProofs.v), [dict_body] (Proofs/DictProofs.v), [join] (Base/Bytes.v).

   Failure ([Panic]) is part of the function and is placed where the implementation fails:
   nil values, unsupported literal types, Values(Dict, more); in the order of the traversal
   (items left to right; in a Dict first all keys in map order, then the values in key
   order).  One failure belongs to the spec only: a package token that is written (not null,
   not local) whose path has no registration in [t] ([s_unregistered]) - the question "which
   name" has no answer in that table.  It never happens at the table a render returns. *)
From Jen Require Import Base.Bytes Base.Sort Model.Code Model.Naming Model.Render.
From Jen Require Import Proofs.CommentProofs Proofs.EmitProofs Proofs.DictProofs.
Local Open Scope bool_scope.

Definition s_unregistered : str := S "pure text: package path has no name in the import table".

Section Pure.
  Variable cfg : config.
  Variable t : table.

  (* a package token: nothing for the local package, else the name the table holds *)
  Definition pkg_text (p : str) : result str :=
    if is_local cfg p then Ok []
    else match registered_name t p with
         | Some n => Ok n
         | None => Panic s_unregistered
         end.

  Definition ptoken (tk : token) : result str :=
    match tk with
    | TkPkg p => pkg_text p
    | TkId s => Ok s
    | TkText s => Ok (s ++ (if str_eqb s s_default then S ":" else []))
    | TkLit l => lit_text l
    | TkRune r => Ok (rune_text r)
    | TkByte b => Ok (byte_text b)
    | TkNull => Ok []
    end.

  Definition prec := bool -> code -> result str.

  (* the texts of the items of a group that are not null, in order *)
  Definition pitems (rec : prec) (name : str) (nitems : nat) :=
    fix loop (l : list code) : result (list str) :=
      match l with
      | [] => Ok []
      | c :: l' =>
        if is_null cfg t c then loop l'
        else if str_eqb name s_values && is_dict c && Nat.ltb 1 nitems then Panic s_values_panic
        else bind (rec false c) (fun x => bind (loop l') (fun xs => Ok (x :: xs)))
      end.

  (* the texts of the items of a statement that are not null; a group item is told whether
     it stands directly after case/default in this statement *)
  Definition pstmt_items (rec : prec) (all : list code) :=
    fix loop (l : list code) : result (list str) :=
      match l with
      | [] => Ok []
      | c :: l' =>
        if is_null cfg t c then loop l'
        else bind (rec (case_ctx all c) c) (fun x => bind (loop l') (fun xs => Ok (x :: xs)))
      end.

  (* Dict: for every pair with both sides non-null, the key text and the (not yet inspected)
     result of the value *)
  Definition pdict_entries (rec : prec) :=
    fix loop (l : list (code * code)) : result (list (str * result str)) :=
      match l with
      | [] => Ok []
      | kv :: l' =>
        if is_null cfg t (fst kv) || is_null cfg t (snd kv) then loop l'
        else bind (rec false (fst kv)) (fun k =>
             bind (loop l') (fun es => Ok ((k, rec false (snd kv)) :: es)))
      end.

  Fixpoint pvalues (l : list (str * result str)) : result (list (str * str)) :=
    match l with
    | [] => Ok []
    | e :: l' => bind (snd e) (fun v => bind (pvalues l') (fun r => Ok ((fst e, v) :: r)))
    end.

  Fixpoint ptext (ctx : bool) (c : code) {struct c} : result str :=
    match c with
    | CNil | CNilStmt | CNilGroup => Panic s_nilptr
    | CTok tk => ptoken tk
    | CGroup gid name open close sep multi items =>
      if str_eqb name s_types && forallb (is_null cfg t) items then Ok []
      else
        let blank := str_eqb name s_block && ctx in
        let o := if blank then [] else open in
        let cl := if blank then [] else close in
        bind (pitems ptext name (length items) items) (fun xs =>
        Ok (o ++ group_text sep multi true xs ++ closer sep multi cl xs ++ cl))
    | CStmt items =>
      bind (pstmt_items ptext items items) (fun xs => Ok (join (S " ") xs))
    | CDict pairs =>
      bind (pdict_entries ptext pairs) (fun es =>
      bind (pvalues (isort_by fst es)) (fun kvs => Ok (dict_body kvs)))
    | CTag kvs => Ok (tag_text kvs)
    | CComment s => Ok (comment_text s)
    end.

  (* what Qual(p, n) is written as *)
  Definition qual_text (p n : str) : result str :=
    if is_dot cfg t p || is_local cfg p then Ok n
    else match registered_name t p with
         | Some q => Ok (q ++ S "." ++ n)
         | None => Panic s_unregistered
         end.
End Pure.

(* a pure text paired with the (unchanged) table: the shape of a render result *)
Definition with_table (t : table) (r : result str) : result (table * str) :=
  match r with Ok s => Ok (t, s) | Panic m => Panic m end.
