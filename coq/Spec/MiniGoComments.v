(* C15 at the level of tokens: PROGRAMS WITH COMMENTS.  Definitions only (proofs:
   Proofs/CommentTokensProofs.v, statements: Props/C15_tokens.v).

   The property speaks about the DSL: `Comment(text)` makes an item CComment text;
   `stmt.Comment(text)` appends that item to the statement stmt; `group.Comment(text)` /
   `group.Add(Comment(text))` adds to the group a statement that holds nothing but the comment.
   So a program with comments is the tree that Spec/MiniGo.v builds for the program, DECORATED:
   [dec c c'] says that c' is c with comments added at the positions the property names, and
   nothing else changed.

   POSITIONS.  Comments go only into MULTI-LINE groups (CGroup .. multi = true ..: the renderer
   writes every item of such a group on a line of its own and, when it has a closer, a newline
   before the closer).  With l the items of such a group and l' the decorated items ([decm l l']):
   - [decm_own]:  a statement `CStmt [CComment t]` may stand before every item and after the
                  last one (any number of them): a comment as an item of its own;
   - [decm_end]:  an item that is a statement `CStmt its` may become `CStmt (its' ++ [CComment t])`:
                  a comment at the END of an item (its' = its decorated inside);
   - [decm_item]: an item is kept, decorated inside.
   Everywhere else (the items of a statement, of a one-line group: call arguments, parameters,
   the head of an if ...) the tree is only decorated inside ([dec_stmt], [dec_flat]).

   THE MULTI-LINE GROUPS OF MiniGo (Spec/MiniGo.v: expected_groups, file_group):
   - Block: the body of a func declaration, of a func literal, of if / else / for / range, a
     block statement, the body of a switch (its items are the clauses), and the body of a clause
     (the Block after Case(..) / Default(): the renderer drops its braces);
   - Defs: the specs of `var ( .. )` and `const ( .. )`;
   - Struct / Interface: the fields of a struct type, the methods of an interface type, wherever
     the type stands;
   - the File: its items are the declarations (no closer).
   A Dict (keyed composite literal) is not a group: it is left as it is ([dec_dict]).

   ONE RESTRICTION, and it is needed (Props/C15_tokens.v: C15_tokens_needed_open_item).  The body
   of a clause has no closer of its own: the text of the clause `case x: ..body..` ENDS with the
   text of the last body item.  If that ends in a comment, a second comment appended to the
   clause statement itself would be written on the same line, INSIDE the first one when that is
   a line comment.  [decm_end] therefore asks that the item does not already end in a comment:
   [open_end false (CStmt its') = false].  [open_end] follows the renderer: the last item of a
   statement; the last item of a group that is written without closer (no closer at all, or a
   Block right after Case / Default). *)
From Jen Require Import Base.Bytes Model.Code Model.Naming Model.Render Model.FileRender Spec.MiniGo.
Local Open Scope bool_scope.

(* the domain of the property: the text does not start with a comment marker and does not
   contain the closer of a block comment; any other byte is allowed *)
Definition comment_dom (t : str) : bool :=
  negb (has_prefix (S "//") t) && negb (has_prefix (S "/*") t) && negb (contains (S "*/") t).

(* f of the last element *)
Definition last_sat {A} (f : A -> bool) : list A -> bool :=
  fix go (r : list A) : bool :=
    match r with
    | [] => false
    | x :: r' => match r' with [] => f x | _ => go r' end
    end.

(* the text written for c (c in a statement position with case-context ctx) ends in a comment *)
Fixpoint open_end (ctx : bool) (c : code) {struct c} : bool :=
  match c with
  | CComment _ => true
  | CStmt l => last_sat (fun x => open_end (case_ctx l x) x) l
  | CGroup _ name _ close _ _ items =>
      if nonempty close && negb (str_eqb name s_block && ctx) then false
      else last_sat (open_end false) items
  | _ => false
  end.

Inductive dec : code -> code -> Prop :=
| dec_nil : dec CNil CNil
| dec_nilstmt : dec CNilStmt CNilStmt
| dec_nilgroup : dec CNilGroup CNilGroup
| dec_tok t : dec (CTok t) (CTok t)
| dec_dict d : dec (CDict d) (CDict d)
| dec_tag kvs : dec (CTag kvs) (CTag kvs)
| dec_comment s : dec (CComment s) (CComment s)
| dec_stmt l l' : Forall2 dec l l' -> dec (CStmt l) (CStmt l')
| dec_flat g n o c s l l' : Forall2 dec l l' -> dec (CGroup g n o c s false l) (CGroup g n o c s false l')
| dec_multi g n o c s l l' : decm l l' -> dec (CGroup g n o c s true l) (CGroup g n o c s true l')
with decm : list code -> list code -> Prop :=
| decm_nil : decm [] []
| decm_own t l l' : comment_dom t = true -> decm l l' -> decm l (CStmt [CComment t] :: l')
| decm_item c c' l l' : dec c c' -> decm l l' -> decm (c :: l) (c' :: l')
| decm_end its its' t l l' :
    comment_dom t = true -> Forall2 dec its its' -> open_end false (CStmt its') = false -> decm l l' ->
    decm (CStmt its :: l) (CStmt (its' ++ [CComment t]) :: l').

(* a file whose items are the decorated declarations: NewFile(name), then Add / Comment calls *)
Definition dec_file (name : str) (ds : list decl) (f : file) : Prop :=
  exists items, decm (map build_decl ds) items /\ f = fold_left add_item items (new_file name).

(* the comment texts of a tree, in the order in which they are written *)
Fixpoint comments_of (c : code) : list str :=
  match c with
  | CComment t => [t]
  | CStmt l => flat_map comments_of l
  | CGroup _ _ _ _ _ _ l => flat_map comments_of l
  | _ => []
  end.

(* ---- a decoration that uses every position: for the examples.  [own] before every item
   and after the last item of every multi-line group, [endc] at the end of every item that is a
   statement not already ending in a comment. *)
Fixpoint saturate (own endc : str) (c : code) {struct c} : code :=
  match c with
  | CStmt l => CStmt (map (saturate own endc) l)
  | CGroup g n o cl s false l => CGroup g n o cl s false (map (saturate own endc) l)
  | CGroup g n o cl s true l =>
      CGroup g n o cl s true
        (flat_map (fun x =>
                     [CStmt [CComment own];
                      match saturate own endc x with
                      | CStmt its => if open_end false (CStmt its) then CStmt its else CStmt (its ++ [CComment endc])
                      | y => y
                      end]) l ++ [CStmt [CComment own]])
  | _ => c
  end.

Definition saturate_file (own endc : str) (f : file) : file :=
  match saturate own endc (file_group f) with
  | CGroup _ _ _ _ _ _ items =>
      mkfile (f_name f) (f_path f) (f_prefix f) (f_hints f) (f_imports f) (f_comments f) (f_headers f)
             (f_cgo f) (f_noformat f) (f_canonical f) items
  | _ => f
  end.
