(* The builder IR into which tools/cmd/api2ir translates the body of every exported
   function and method of package jen (Gen/Api.v is a table of [api_row]s over these types).

   The IR is deliberately tiny: straight-line bodies (no loop, branch, closure, go, defer)
   made of five kinds of statements over expressions that only build values.  A body that
   does not fit is emitted as [Other] (printed Go text, for functions that are not builders:
   render entry points, File setters) or [Untranslatable] (for anything that returns a
   *Statement or takes a callback: the checker of Spec/ApiSem.v rejects it).  One more shape is
   recognised for functions that are not builders, [BufString] (render into a new buffer, panic
   on error, return the buffer's text: the GoString methods).

   Besides the rows the translator prints what go/types says about every struct type of the
   package ([struct_info]: embedded types, field names), so that the checker can tell which
   types get the methods of *Group / *Statement by promotion and whether they shadow one.

   The receiver of a row ([r_recv]) is the name of the receiver's NAMED type as go/types resolves
   it (through type aliases and parentheses), for every method with an exported name, whether
   or not the receiver type is exported; [r_ret] is "*Statement" exactly when the function has one
   result and go/types says its type is identical to *Statement (so through aliases too), and the
   printed result type(s) otherwise.

   Normalisations done by the translator (all are Go semantics, none is a choice):
   - a field omitted from a keyed composite literal is its zero value ([EStr []], [EBool false],
     [ENil]); the six fields of [&Group{..}] and the two of [token{..}] are printed in a fixed order;
   - the receiver is named by [r_self]; unnamed parameters are called "_";
   - [x...] as the last call argument is [ESpread x];
   - a call of an UNEXPORTED function or method of package jen (a helper: the table has no row
     for it and the IR no call of it) is replaced by the helper's body, with the receiver and
     the arguments bound in order before it, if that body is itself in the IR; the bindings of
     variables, literals and constants are then substituted.  The exact rule is in the header of
     tools/cmd/api2ir/main.go; the calls it was applied to are listed in Gen/Api.v
     ([inlined_calls]).  A helper outside the IR, or a recursive one, makes the row
     [Untranslatable]. *)
From Jen Require Export Base.Bytes.

(* how a parameter is passed; computed by go/types on the UNDERLYING type, so a named
   function type is still [PFunc] *)
Inductive pkind := PPlain | PVariadic | PFunc.

Record param := mkparam { p_name : str; p_type : str (* printed Go type *); p_kind : pkind }.

Inductive expr :=
| ENil                                           (* nil / omitted field of reference type *)
| EVar (x : str)                                 (* parameter, receiver or local *)
| ESpread (x : str)                              (* x... (only as last call argument) *)
| EStr (s : str)                                 (* string literal *)
| EBool (b : bool)
| EConst (c : str)                               (* package-level constant, e.g. identifierToken *)
| ESel (x f : str)                               (* x.f, a field of a parameter (options.Close) *)
| ENewStatement                                  (* newStatement() *)
| ECallFn (f : str) (args : list expr)           (* F(args): exported package function *)
| ECallMeth (recv : expr) (m : str) (args : list expr)   (* e.M(args): exported method *)
| ECallParam (f : str) (args : list expr)        (* f(args) where f is a func-typed parameter *)
| EPure (sym : str) (args : list expr)           (* fmt.Sprintf(args): uninterpreted pure symbol *)
| EGroupLit (name open close sep multi items : expr)     (* &Group{...} *)
| EToken (typ content : expr)                    (* token{typ: .., content: ..} *)
| EComment (e : expr)                            (* comment{comment: e} *)
| ETag (e : expr)                                (* tag{items: e} *)
| ECodeList (es : list expr)                     (* []Code{e1, .., en} *)
| EDictLit                                       (* Dict{} *)
| EStmtLit (es : list expr).                     (* &Statement{e1, .., en} *)

Inductive stmt :=
| SDefine (x : str) (e : expr)                   (* x := e *)
| SAppendSelf (s : str) (args : list expr)       (* *s = append( *s, args) *)
| SAppendItems (g : str) (e : expr)              (* g.items = append(g.items, e) *)
| SCallParam (f : str) (args : list expr)        (* f(args) as a statement, f a func-typed parameter *)
| SReturn (e : expr).                            (* return e *)

Inductive body :=
| Body (l : list stmt)
| Other (printed : str)
| Untranslatable (reason : str)
(* buf := <a new bytes.Buffer>; if err := call; err != nil { panic(err) }; return buf.String()
   where [call] is a method call of package jen in which [EVar buf] stands for the pointer to
   that buffer (written &buf or buf, as the declaration of buf requires); nothing else in the
   body.  The new buffer may be written `bytes.Buffer{}`, `&bytes.Buffer{}`, `new(bytes.Buffer)`
   or `var buf bytes.Buffer`; the error may be bound in the if statement or the line before. *)
| BufString (buf : str) (call : expr).

Record api_row := mkrow {
  r_recv : str;            (* "" for a package function, else the receiver's base type name *)
  r_self : str;            (* name of the receiver variable *)
  r_name : str;
  r_params : list param;
  r_ret : str;             (* printed result type(s); "" if none *)
  r_body : body
}.

(* a struct type of package jen, as go/types sees it: [t_embeds] the names of the types of its
   embedded fields (T for both T and *T; "pkg.T" for a type of another package), [t_fields] the
   names of its other fields.  A type declared inside a function is named "T@file:line".  A
   defined type whose underlying type is a struct (type T2 T) has the same embedded fields
   (and gets their methods by promotion), so it has an entry too. *)
Record struct_info := mkstruct { t_name : str; t_embeds : list str; t_fields : list str }.

(* induction principle exposing the nested lists *)
Section ExprInd.
  Variable P : expr -> Prop.
  Hypothesis Hnil : P ENil.
  Hypothesis Hvar : forall x, P (EVar x).
  Hypothesis Hspread : forall x, P (ESpread x).
  Hypothesis Hstr : forall s, P (EStr s).
  Hypothesis Hbool : forall b, P (EBool b).
  Hypothesis Hconst : forall c, P (EConst c).
  Hypothesis Hsel : forall x f, P (ESel x f).
  Hypothesis Hnew : P ENewStatement.
  Hypothesis Hfn : forall f args, Forall P args -> P (ECallFn f args).
  Hypothesis Hmeth : forall r m args, P r -> Forall P args -> P (ECallMeth r m args).
  Hypothesis Hcp : forall f args, Forall P args -> P (ECallParam f args).
  Hypothesis Hpure : forall s args, Forall P args -> P (EPure s args).
  Hypothesis Hgrp : forall a b c d e f, P a -> P b -> P c -> P d -> P e -> P f -> P (EGroupLit a b c d e f).
  Hypothesis Htok : forall a b, P a -> P b -> P (EToken a b).
  Hypothesis Hcom : forall e, P e -> P (EComment e).
  Hypothesis Htag : forall e, P e -> P (ETag e).
  Hypothesis Hcl : forall es, Forall P es -> P (ECodeList es).
  Hypothesis Hdict : P EDictLit.
  Hypothesis Hsl : forall es, Forall P es -> P (EStmtLit es).

  Fixpoint expr_ind' (e : expr) : P e :=
    let all := fix go (l : list expr) : Forall P l :=
      match l with
      | [] => Forall_nil P
      | x :: l' => Forall_cons x (expr_ind' x) (go l')
      end in
    match e with
    | ENil => Hnil
    | EVar x => Hvar x
    | ESpread x => Hspread x
    | EStr s => Hstr s
    | EBool b => Hbool b
    | EConst c => Hconst c
    | ESel x f => Hsel x f
    | ENewStatement => Hnew
    | ECallFn f args => Hfn f args (all args)
    | ECallMeth r m args => Hmeth r m args (expr_ind' r) (all args)
    | ECallParam f args => Hcp f args (all args)
    | EPure s args => Hpure s args (all args)
    | EGroupLit a b c d e f =>
        Hgrp a b c d e f (expr_ind' a) (expr_ind' b) (expr_ind' c) (expr_ind' d) (expr_ind' e) (expr_ind' f)
    | EToken a b => Htok a b (expr_ind' a) (expr_ind' b)
    | EComment e => Hcom e (expr_ind' e)
    | ETag e => Htag e (expr_ind' e)
    | ECodeList es => Hcl es (all es)
    | EDictLit => Hdict
    | EStmtLit es => Hsl es (all es)
    end.
End ExprInd.
