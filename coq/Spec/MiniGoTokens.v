(* C01, token level: THE TOKEN SEQUENCE OF A PROGRAM of Spec/MiniGo.v, defined on the abstract
   syntax - each constructor contributes the terminals of its production in the Go
   specification, in order.  Nothing here mentions the printer ([cexpr] ...) or the renderer;
   nothing is proved here (Proofs/TokensProofs.v, Props/C01_tokens.v).

   Leaves: an identifier is the token (KIdent, name); `true` `false` `nil` are identifiers in
   Go, not keywords; an integer literal of value z >= 0 is (KInt, decimal text of z), a
   negative one is the two tokens `-` and (KInt, decimal text of |z|) - Go has no negative
   literals; a string literal of value s is (KString, strconv.Quote s): the spelling is part of
   the token, and strconv.Quote is the one jennifer's Lit uses.

   [ty_ok expr_ok stmt_ok clause_ok spec_ok decl_ok] ("lex_ok"): the leaves are lexically well
   formed - every name (identifier, selector, label, parameter, type name) is a Go identifier
   over ASCII: letter (letter | digit)*, not one of the 25 keywords.  Integers and strings are
   unconstrained.  One more condition, which is about the scanner MODEL and not about Go: the
   tag of a struct field must be one that jennifer writes as an interpreted string ([tag_ok]:
   strconv.CanBackquote refuses its text), because GoStd/Tokens.v has no raw string literals. *)
From Jen Require Import Base.Bytes Base.Num GoStd.Quote GoStd.Tokens Model.Render Spec.MiniGo.

Definition tid (n : str) : tok := (KIdent, n).
Definition tkw (w : str) : tok := (KKeyword, w).
Definition top (o : str) : tok := (KOp, o).

(* int_lit, with the sign as a separate token *)
Definition tintlit (z : Z) : list tok :=
  match z with
  | Zneg p => [top (S "-"); (KInt, N_to_dec (Npos p))]
  | _ => [(KInt, N_to_dec (Z.to_N z))]
  end.

(* x , y , z *)
Fixpoint tcommas (l : list (list tok)) : list tok :=
  match l with
  | [] => []
  | [x] => x
  | x :: r => x ++ top (S ",") :: tcommas r
  end.

Definition topt {A} (f : A -> list tok) (o : option A) : list tok :=
  match o with Some a => f a | None => [] end.

(* [ ExpressionList [ "..." ] ]: the dots only after a last argument *)
Definition targs (ddd : bool) (l : list (list tok)) : list tok :=
  tcommas l ++ (match l with [] => [] | _ => if ddd then [top (S "...")] else [] end).

(* "{" items "}" *)
Definition tbraces (l : list (list tok)) : list tok := top (S "{") :: concat l ++ [top (S "}")].
(* "(" items ")" with nothing between the items (the specs of a declaration group) *)
Definition tparens (l : list (list tok)) : list tok := top (S "(") :: concat l ++ [top (S ")")].

(* The keyed elements of a composite literal, given IN THE ORDER IN WHICH THEY ARE WRITTEN as
   (key tokens, value tokens): nothing; `k : v`; and for several elements `k : v ,` for each -
   the last element is followed by a comma as well (Go: ElementList [ "," ]). *)
Definition tkeyed (l : list (list tok * list tok)) : list tok :=
  match l with
  | [] => []
  | [kv] => fst kv ++ top (S ":") :: snd kv
  | _ => concat (map (fun kv => fst kv ++ top (S ":") :: snd kv ++ [top (S ",")]) l)
  end.

(* ---- signatures, over the token sequence of types *)
Section TSig.
  Variable rec : ty -> list tok.
  Definition tparam_with (p : param) : list tok := tid (fst p) :: rec (snd p).
  (* a field: the tag is ONE string token whose spelling is the text jennifer writes *)
  Definition tfield_with (f : field) : list tok :=
    tid (fd_name f) :: rec (fd_ty f) ++ match fd_tag f with [] => [] | kvs => [(KString, tag_text kvs)] end.
  Definition tparams_with (ps : list param) : list tok := top (S "(") :: tcommas (map tparam_with ps) ++ [top (S ")")].
  (* Result = Type | "(" Type { "," Type } ")" *)
  Definition tresults_with (res : list ty) : list tok :=
    match res with
    | [] => []
    | [t] => rec t
    | _ => top (S "(") :: tcommas (map rec res) ++ [top (S ")")]
    end.
  Definition tsig_with (sg : sig) : list tok := tparams_with (fst sg) ++ tresults_with (snd sg).
End TSig.

Fixpoint tty (t : ty) : list tok :=
  match t with
  | TName n => [tid n]
  | TPtr t => top (S "*") :: tty t
  | TSlice t => top (S "[") :: top (S "]") :: tty t
  | TMap k v => tkw (S "map") :: top (S "[") :: tty k ++ top (S "]") :: tty v
  | TArray n t => top (S "[") :: tintlit n ++ top (S "]") :: tty t
  | TChan CBoth t => tkw (S "chan") :: tty t
  | TChan CRecv t => top (S "<-") :: tkw (S "chan") :: tty t
  | TChan CSend t => tkw (S "chan") :: top (S "<-") :: tty t
  | TEllipsis t => top (S "...") :: tty t
  | TFunc ps res => tkw (S "func") :: tsig_with tty (ps, res)
  | TStruct fs => tkw (S "struct") :: tbraces (map (tfield_with tty) fs)
  | TIface ms => tkw (S "interface") :: tbraces (map (fun m => tid (fst m) :: tsig_with tty (snd m)) ms)
  end.

Definition tparam : param -> list tok := tparam_with tty.
Definition tfield : field -> list tok := tfield_with tty.
Definition tparams : list param -> list tok := tparams_with tty.
Definition tresults : list ty -> list tok := tresults_with tty.
Definition tsig : sig -> list tok := tsig_with tty.

Fixpoint texpr (e : expr) : list tok :=
  match e with
  | EId n => [tid n]
  | EInt z => tintlit z
  | EStr s => [(KString, GoQuote s)]
  | EBool b => [tid (if b then S "true" else S "false")]
  | ENil => [tid (S "nil")]
  | EUn o x => top (unop_text o) :: texpr x
  | EBin x o y => texpr x ++ top (binop_text o) :: texpr y
  | ECall f args ddd => texpr f ++ top (S "(") :: targs ddd (map texpr args) ++ [top (S ")")]
  | EIndex x i => texpr x ++ top (S "[") :: texpr i ++ [top (S "]")]
  | ESlice x lo hi => texpr x ++ top (S "[") :: topt texpr lo ++ top (S ":") :: topt texpr hi ++ [top (S "]")]
  | ESlice3 x lo hi mx =>
      texpr x ++ top (S "[") :: topt texpr lo ++ top (S ":") :: topt texpr hi ++ top (S ":") :: topt texpr mx ++
      [top (S "]")]
  | ESel x sel => texpr x ++ [top (S "."); tid sel]
  | EParen x => top (S "(") :: texpr x ++ [top (S ")")]
  | EComp t elts => tty t ++ top (S "{") :: tcommas (map texpr elts) ++ [top (S "}")]
  | EKeyed t pairs =>
      (* the elements in the order of the TEXTS of their keys: the one place where the token
         sequence refers to the printer ([cexpr] of the keys; Spec/MiniGo.v: sort_keyed) *)
      tty t ++ top (S "{") ::
      tkeyed (map snd (sort_keyed (map (fun kv => (cexpr (fst kv), (texpr (fst kv), texpr (snd kv)))) pairs))) ++
      [top (S "}")]
  | EFunc ps res body => tkw (S "func") :: tparams ps ++ tresults res ++ tbraces (map tstmt body)
  | EAssert x t => texpr x ++ top (S ".") :: top (S "(") :: tty t ++ [top (S ")")]
  end
with tstmt (s : stmt) : list tok :=
  match s with
  | SExpr e => texpr e
  | SAssign l ls o r rs => tcommas (map texpr (l :: ls)) ++ top (asgop_text o) :: tcommas (map texpr (r :: rs))
  | SIncDec x inc => texpr x ++ [top (if inc then S "++" else S "--")]
  | SReturn es => tkw (S "return") :: tcommas (map texpr es)
  | SIf init cond body els =>
      tkw (S "if") :: topt (fun s => tstmt s ++ [top (S ";")]) init ++ texpr cond ++ tbraces (map tstmt body) ++
      topt (fun s => tkw (S "else") :: tstmt s) els
  | SFor init cond post body =>
      tkw (S "for") :: topt tstmt init ++ top (S ";") :: topt texpr cond ++ top (S ";") :: topt tstmt post ++
      tbraces (map tstmt body)
  | SWhile cond body => tkw (S "for") :: texpr cond ++ tbraces (map tstmt body)
  | SLoop body => tkw (S "for") :: tbraces (map tstmt body)
  | SRange k v def x body =>
      tkw (S "for") :: texpr k ++ topt (fun e => top (S ",") :: texpr e) v ++
      top (if def then S ":=" else S "=") :: tkw (S "range") :: texpr x ++ tbraces (map tstmt body)
  | SSwitch init tag cls =>
      tkw (S "switch") :: topt (fun s => tstmt s ++ [top (S ";")]) init ++ topt texpr tag ++
      tbraces (map tclause cls)
  | SBlock body => tbraces (map tstmt body)
  | SBreak l => tkw (S "break") :: topt (fun x => [tid x]) l
  | SContinue l => tkw (S "continue") :: topt (fun x => [tid x]) l
  | SGo f args ddd => tkw (S "go") :: texpr f ++ top (S "(") :: targs ddd (map texpr args) ++ [top (S ")")]
  | SDefer f args ddd => tkw (S "defer") :: texpr f ++ top (S "(") :: targs ddd (map texpr args) ++ [top (S ")")]
  | SVar x t e => tkw (S "var") :: tid x :: topt tty t ++ topt (fun e => top (S "=") :: texpr e) e
  | SLabeled l s => tid l :: top (S ":") :: tstmt s
  | SGoto l => [tkw (S "goto"); tid l]
  | SFallthrough => [tkw (S "fallthrough")]
  | SSend c v => texpr c ++ top (S "<-") :: texpr v
  | SSelect cls => tkw (S "select") :: tbraces (map tclause cls)
  | STypeSwitch init bind x cls =>
      tkw (S "switch") :: topt (fun s => tstmt s ++ [top (S ";")]) init ++ topt (fun b => [tid b; top (S ":=")]) bind ++
      texpr x ++ top (S ".") :: top (S "(") :: tkw (S "type") :: top (S ")") :: tbraces (map tclause cls)
  end
with tclause (c : clause) : list tok :=
  match c with
  | CCase e es body => tkw (S "case") :: tcommas (map texpr (e :: es)) ++ top (S ":") :: concat (map tstmt body)
  | CDefault body => tkw (S "default") :: top (S ":") :: concat (map tstmt body)
  | CComm s body => tkw (S "case") :: tstmt s ++ top (S ":") :: concat (map tstmt body)
  | CType t ts body => tkw (S "case") :: tcommas (map tty (t :: ts)) ++ top (S ":") :: concat (map tstmt body)
  end.

Definition tspec (s : spec) : list tok :=
  match s with
  | (n, t, e) => tid n :: topt tty t ++ topt (fun e => top (S "=") :: texpr e) e
  end.

Definition tdecl (d : decl) : list tok :=
  match d with
  | DFunc name ps res body => tkw (S "func") :: tid name :: tparams ps ++ tresults res ++ tbraces (map tstmt body)
  | DMethod recv name ps res body =>
      tkw (S "func") :: tparams [recv] ++ tid name :: tparams ps ++ tresults res ++ tbraces (map tstmt body)
  | DVars specs => tkw (S "var") :: tparens (map tspec specs)
  | DConsts specs => tkw (S "const") :: tparens (map tspec specs)
  | DType name t => tkw (S "type") :: tid name :: tty t
  end.

(* "package" PackageName { TopLevelDecl } *)
Definition tfile (name : str) (ds : list decl) : list tok :=
  tkw (S "package") :: tid name :: concat (map tdecl ds).

(* ================================================================== lexical well-formedness *)
(* identifier = letter { letter | digit } over ASCII, and not a keyword *)
Definition ident_ok (n : str) : bool :=
  match n with
  | c :: r => tk_letter c && forallb tk_idchar r && negb (is_keyword n)
  | [] => false
  end.

Definition opt_ok {A} (f : A -> bool) (o : option A) : bool :=
  match o with Some a => f a | None => true end.

Section OkSig.
  Variable rec : ty -> bool.
  Definition param_ok_with (p : param) : bool := ident_ok (fst p) && rec (snd p).
  (* a tag is lexically in the scanner model when jennifer writes it as an INTERPRETED string:
     the model GoStd/Tokens.v has no raw (backquoted) string literals - see Props/C01_tokens.v *)
  Definition tag_ok (kvs : list (str * str)) : bool :=
    match kvs with [] => true | _ => negb (CanBackquote (tag_body kvs)) end.
  Definition field_ok_with (f : field) : bool := ident_ok (fd_name f) && rec (fd_ty f) && tag_ok (fd_tag f).
  Definition sig_ok_with (sg : sig) : bool := forallb param_ok_with (fst sg) && forallb rec (snd sg).
End OkSig.

Fixpoint ty_ok (t : ty) : bool :=
  match t with
  | TName n => ident_ok n
  | TPtr t => ty_ok t
  | TSlice t => ty_ok t
  | TMap k v => ty_ok k && ty_ok v
  | TArray _ t => ty_ok t
  | TChan _ t => ty_ok t
  | TEllipsis t => ty_ok t
  | TFunc ps res => sig_ok_with ty_ok (ps, res)
  | TStruct fs => forallb (field_ok_with ty_ok) fs
  | TIface ms => forallb (fun m => ident_ok (fst m) && sig_ok_with ty_ok (snd m)) ms
  end.

Definition param_ok : param -> bool := param_ok_with ty_ok.
Definition field_ok : field -> bool := field_ok_with ty_ok.
Definition sig_ok : sig -> bool := sig_ok_with ty_ok.

Fixpoint expr_ok (e : expr) : bool :=
  match e with
  | EId n => ident_ok n
  | EInt _ | EStr _ | EBool _ | ENil => true
  | EUn _ x => expr_ok x
  | EBin x _ y => expr_ok x && expr_ok y
  | ECall f args _ => expr_ok f && forallb expr_ok args
  | EIndex x i => expr_ok x && expr_ok i
  | ESlice x lo hi => expr_ok x && opt_ok expr_ok lo && opt_ok expr_ok hi
  | ESlice3 x lo hi mx => expr_ok x && opt_ok expr_ok lo && opt_ok expr_ok hi && opt_ok expr_ok mx
  | ESel x sel => expr_ok x && ident_ok sel
  | EParen x => expr_ok x
  | EComp t elts => ty_ok t && forallb expr_ok elts
  | EKeyed t pairs => ty_ok t && forallb (fun kv => expr_ok (fst kv) && expr_ok (snd kv)) pairs
  | EFunc ps res body => forallb param_ok ps && forallb ty_ok res && forallb stmt_ok body
  | EAssert x t => expr_ok x && ty_ok t
  end
with stmt_ok (s : stmt) : bool :=
  match s with
  | SExpr e => expr_ok e
  | SAssign l ls _ r rs => expr_ok l && forallb expr_ok ls && expr_ok r && forallb expr_ok rs
  | SIncDec x _ => expr_ok x
  | SReturn es => forallb expr_ok es
  | SIf init cond body els => opt_ok stmt_ok init && expr_ok cond && forallb stmt_ok body && opt_ok stmt_ok els
  | SFor init cond post body => opt_ok stmt_ok init && opt_ok expr_ok cond && opt_ok stmt_ok post && forallb stmt_ok body
  | SWhile cond body => expr_ok cond && forallb stmt_ok body
  | SLoop body => forallb stmt_ok body
  | SRange k v _ x body => expr_ok k && opt_ok expr_ok v && expr_ok x && forallb stmt_ok body
  | SSwitch init tag cls => opt_ok stmt_ok init && opt_ok expr_ok tag && forallb clause_ok cls
  | SBlock body => forallb stmt_ok body
  | SBreak l => opt_ok ident_ok l
  | SContinue l => opt_ok ident_ok l
  | SGo f args _ => expr_ok f && forallb expr_ok args
  | SDefer f args _ => expr_ok f && forallb expr_ok args
  | SVar x t e => ident_ok x && opt_ok ty_ok t && opt_ok expr_ok e
  | SLabeled l s => ident_ok l && stmt_ok s
  | SGoto l => ident_ok l
  | SFallthrough => true
  | SSend c v => expr_ok c && expr_ok v
  | SSelect cls => forallb clause_ok cls
  | STypeSwitch init bind x cls => opt_ok stmt_ok init && opt_ok ident_ok bind && expr_ok x && forallb clause_ok cls
  end
with clause_ok (c : clause) : bool :=
  match c with
  | CCase e es body => expr_ok e && forallb expr_ok es && forallb stmt_ok body
  | CDefault body => forallb stmt_ok body
  | CComm s body => stmt_ok s && forallb stmt_ok body
  | CType t ts body => ty_ok t && forallb ty_ok ts && forallb stmt_ok body
  end.

Definition spec_ok (s : spec) : bool :=
  match s with (n, t, e) => ident_ok n && opt_ok ty_ok t && opt_ok expr_ok e end.

Definition decl_ok (d : decl) : bool :=
  match d with
  | DFunc name ps res body => ident_ok name && forallb param_ok ps && forallb ty_ok res && forallb stmt_ok body
  | DMethod recv name ps res body =>
      param_ok recv && ident_ok name && forallb param_ok ps && forallb ty_ok res && forallb stmt_ok body
  | DVars specs => forallb spec_ok specs
  | DConsts specs => forallb spec_ok specs
  | DType name t => ident_ok name && ty_ok t
  end.
