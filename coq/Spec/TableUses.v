(* How package jen may USE the reserved-word list and the hint table.
   tools/cmd/tables2coq prints, besides the DATA of the tables (Gen/Tables.v reserved,
   std_hints), every occurrence of the identifiers standardLibraryHints, reserved, guessAlias
   and IsReservedWord in the non-test files of package jen together with a role (table_uses),
   the choice of an import's name as a list of (condition, name, alias) source texts
   (name_choice) and the head of isValidAlias (isvalidalias_head).  This file fixes what these
   may be; the checkers are boolean functions of ANY such table, their meaning is proved once
   (uses_within_spec, used_as_spec) and the obligations of Props/C05.v and Props/C18.v run them
   on the table of the current source.

   What this ties and what it does not: the DATA the model reads are the data of the source;
   nothing but the listed readers touches the tables (no write, no address-of, no init
   function, no further reader); IsReservedWord is the membership test on `reserved` and
   isValidAlias consults it on its argument; the name of an unhinted import is chosen by the
   three-armed chain below.  The REST of register (the numbering loop, the prefix, what is
   stored) and of isValidAlias (the scan of the registered names) is not read here: it is
   tied to the model by the differential run of the harness, as before. *)
From Jen Require Import Base.Bytes Gen.Tables.

Definition use_row := (str * str * str)%type.   (* identifier, function, role *)

Definition r_decl : str := S "decl".
Definition r_range : str := S "range-in-IsReservedWord".
Definition r_guard : str := S "guard-in-isValidAlias".
Definition r_choice : str := S "choice".
Definition r_pkgname : str := S "package-name-in-NewFilePath".

Definition u_reserved : str := S "reserved".
Definition u_isreserved : str := S "IsReservedWord".
Definition u_hints : str := S "standardLibraryHints".
Definition u_guess : str := S "guessAlias".

Fixpoint smem (x : str) (l : list str) : bool :=
  match l with [] => false | y :: l' => str_eqb x y || smem x l' end.

Lemma smem_In x l : smem x l = true <-> In x l.
Proof.
  induction l as [|y l IH]; simpl; [split; [discriminate | intros []]|].
  rewrite Bool.orb_true_iff, IH, str_eqb_eq. split; intros [H|H]; auto.
Qed.

(* every occurrence of identifier x has one of the roles *)
Definition uses_within_b (tbl : list use_row) (x : str) (roles : list str) : bool :=
  forallb (fun u => negb (str_eqb (fst (fst u)) x) || smem (snd u) roles) tbl.
(* identifier x occurs with role r *)
Definition used_as_b (tbl : list use_row) (x r : str) : bool :=
  existsb (fun u => str_eqb (fst (fst u)) x && str_eqb (snd u) r) tbl.

Definition uses_within (tbl : list use_row) (x : str) (roles : list str) : Prop :=
  forall f r, In (x, f, r) tbl -> In r roles.
Definition used_as (tbl : list use_row) (x r : str) : Prop := exists f, In (x, f, r) tbl.

Lemma uses_within_spec tbl x roles : uses_within_b tbl x roles = true -> uses_within tbl x roles.
Proof.
  unfold uses_within_b, uses_within. rewrite forallb_forall. intros H f r Hin.
  specialize (H _ Hin). simpl in H. rewrite str_eqb_refl in H. simpl in H.
  apply smem_In. exact H.
Qed.

Lemma used_as_spec tbl x r : used_as_b tbl x r = true -> used_as tbl x r.
Proof.
  unfold used_as_b, used_as. rewrite existsb_exists. intros ([[y f] r'] & Hin & H).
  simpl in H. apply Bool.andb_true_iff in H. destruct H as [H1 H2].
  apply str_eqb_eq in H1. apply str_eqb_eq in H2. subst. exists f. exact Hin.
Qed.

(* File.isValidAlias(a): `.` is always valid; a reserved word never is; then the scan of the
   registered names ($1 is the parameter) *)
Definition expected_isvalidalias_head : list str :=
  [ S "if $1 == ""."" { return true }"; S "if IsReservedWord($1) { return false }" ].

(* the name of an import without a registered name: the user's hint for the path if it has a
   name; else the entry of the standard-library table if it is not empty, never as an alias;
   else the name guessed from the path, always as an alias ($r is the File, $1 the path) *)
Definition expected_name_choice : list (str * str * str) :=
  [ (S "$r.hints[$1].name != """"", S "$r.hints[$1].name", S "$r.hints[$1].alias");
    (S "standardLibraryHints[$1] != """"", S "standardLibraryHints[$1]", S "false");
    (S "", S "guessAlias($1)", S "true") ].

(* where the chain stands: in register itself, or as the body of a helper that register calls
   once on its own path and that nothing else mentions *)
Definition link_ok (l : str) : bool := str_eqb l (S "direct") || str_eqb l (S "helper").

(* ------------------------------------------------------------------ the current source *)
Lemma reserved_tied :
  reserved_problems = [] /\ isvalidalias_head = expected_isvalidalias_head /\
  uses_within table_uses u_reserved [r_decl; r_range] /\ used_as table_uses u_reserved r_range /\
  uses_within table_uses u_isreserved [r_decl; r_guard] /\ used_as table_uses u_isreserved r_guard.
Proof.
  split; [vm_compute; reflexivity|]. split; [vm_compute; reflexivity|].
  split; [apply uses_within_spec; vm_compute; reflexivity|].
  split; [apply used_as_spec; vm_compute; reflexivity|].
  split; [apply uses_within_spec; vm_compute; reflexivity|].
  apply used_as_spec; vm_compute; reflexivity.
Qed.

Lemma hints_tied :
  hints_problems = [] /\ name_choice = expected_name_choice /\ link_ok name_choice_link = true /\
  uses_within table_uses u_hints [r_decl; r_choice] /\ used_as table_uses u_hints r_choice /\
  uses_within table_uses u_guess [r_decl; r_choice; r_pkgname] /\ used_as table_uses u_guess r_choice.
Proof.
  split; [vm_compute; reflexivity|]. split; [vm_compute; reflexivity|]. split; [vm_compute; reflexivity|].
  split; [apply uses_within_spec; vm_compute; reflexivity|].
  split; [apply used_as_spec; vm_compute; reflexivity|].
  split; [apply uses_within_spec; vm_compute; reflexivity|].
  apply used_as_spec; vm_compute; reflexivity.
Qed.
