(* Copies of a Statement's slice header (C20, code-shape obligation).

   tools/cmd/clone2coq finds every place in package jen where the slice header of a
   Statement (`*s`, type []Code) is COPIED - into a local variable (`items := *s`), into the
   parameter of a function of package jen (`allNull(f, *s)`), from such a copy into the next
   (`rest := items`, `helper(items)`) - and prints, for every copy, the category of every
   mention of it (Gen/Clone.v, [copies_readonly], regenerated from /repo on every run).  The
   categories and the syntactic positions they stand for are listed in the translator's
   header; this file says WHICH categories are harmless and checks that the table is closed:
   every variable or parameter a copy is handed on to has a row of its own, so its mentions
   were classified as well (transitively; a cycle of helpers is fine when every mention in
   the cycle is read-only).

   Why: the theorems of Props/C20.v speak about histories of newStatement,
   `*s = append( *s, ..)` and Clone over statement cells.  A second header over a
   statement's array breaks them only if something is appended to it or written through it
   (that is the refuted mutant [clone_header] of Model/Heap.v followed by OAppend), or if it
   survives the call (stored, returned, captured, address taken) where this analysis cannot
   follow it.  A copy that is only read dies with the call and changes no array.
   The lemmas are in Proofs/CloneShapeProofs.v; nothing here mentions Model/. *)
From Jen Require Export Base.Bytes.
Open Scope bool_scope.

Inductive copy_use :=
(* read-only *)
| UseRange                       (* for .. := range x *)
| UseIndexRead                   (* x[i] read *)
| UseLen                         (* len(x) *)
| UseCap                         (* cap(x) *)
| UseNilCmp                      (* x == nil, x != nil *)
| UseAppendSrc                   (* append(y, x...): the elements of x are read *)
| UseCopySrc                     (* copy(y, x) *)
| UseSelfAssign                  (* x = x[i:j]: the copy variable is replaced by a reslice of itself *)
| UseReslice (u : copy_use)      (* x[i:j], which is then used as u *)
| UseConvert (u : copy_use)      (* []Code(x) / Statement(x), which is then used as u *)
(* handed on: harmless iff the receiving variable is in the table *)
| UseCopyTo (var : str)          (* y := x / var y = x, y a new local variable of the same function *)
| UsePass (callee param : str)   (* f(.., x, ..): f declared in package jen, called directly *)
(* everything else *)
| UseAppendDst                   (* append(x, ..) *)
| UseElemWrite                   (* x[i] = .., x[i]++, x[i] as a range variable *)
| UseCopyDst                     (* copy(x, ..) *)
| UseAddr                        (* &x *)
| UseElemAddr                    (* &x[i] *)
| UseReturned                    (* return x *)
| UseClosure                     (* mentioned in a function literal that does not declare it *)
| UseStored (what : str)         (* assigned to an existing variable, field, element, global; composite
                                    literal; channel; go/defer; a function that is not a directly
                                    called function of package jen; a non-slice parameter *)
| UseOther (what : str).         (* any other position *)

(* function, "file:line name", the category of every mention *)
Definition copy_row : Type := str * str * list copy_use.
Definition row_fn (r : copy_row) : str := fst (fst r).
Definition row_var (r : copy_row) : str := snd (fst r).
Definition row_uses (r : copy_row) : list copy_use := snd r.

Definition has_row (t : list copy_row) (fn var : str) : bool :=
  existsb (fun r => str_eqb (row_fn r) fn && str_eqb (row_var r) var) t.

(* is this mention harmless, for a copy that lives in function [fn]? *)
Fixpoint use_ok (t : list copy_row) (fn : str) (u : copy_use) : bool :=
  match u with
  | UseRange | UseIndexRead | UseLen | UseCap | UseNilCmp | UseAppendSrc | UseCopySrc
  | UseSelfAssign => true
  | UseReslice u' | UseConvert u' => use_ok t fn u'
  | UseCopyTo v => has_row t fn v
  | UsePass f p => has_row t f p
  | UseAppendDst | UseElemWrite | UseCopyDst | UseAddr | UseElemAddr | UseReturned | UseClosure
  | UseStored _ | UseOther _ => false
  end.

(* the obligation: every mention of every copy is harmless *)
Definition copies_closed_readonly (t : list copy_row) : bool :=
  forallb (fun r => forallb (use_ok t (row_fn r)) (row_uses r)) t.

(* ---- the same, declaratively ---- *)
(* the mention reads only ... *)
Inductive reads_only : copy_use -> Prop :=
| RO_range : reads_only UseRange
| RO_index : reads_only UseIndexRead
| RO_len : reads_only UseLen
| RO_cap : reads_only UseCap
| RO_nil : reads_only UseNilCmp
| RO_appsrc : reads_only UseAppendSrc
| RO_copysrc : reads_only UseCopySrc
| RO_self : reads_only UseSelfAssign.

(* ... or hands the header on (possibly resliced / converted) to a variable [fn', v] *)
Inductive hands_on (fn : str) : copy_use -> str -> str -> Prop :=
| HO_copy : forall v, hands_on fn (UseCopyTo v) fn v
| HO_pass : forall f p, hands_on fn (UsePass f p) f p
| HO_reslice : forall u f v, hands_on fn u f v -> hands_on fn (UseReslice u) f v
| HO_convert : forall u f v, hands_on fn u f v -> hands_on fn (UseConvert u) f v.

(* the final position of a mention, under reslices and conversions *)
Fixpoint final_use (u : copy_use) : copy_use :=
  match u with
  | UseReslice u' | UseConvert u' => final_use u'
  | _ => u
  end.

(* a table is sound when every mention of every copy finally reads only, or hands the header
   on to a variable that has a row in the table *)
Definition table_sound (t : list copy_row) : Prop :=
  forall r u, In r t -> In u (row_uses r) ->
    reads_only (final_use u) \/
    exists f v, hands_on (row_fn r) u f v /\
                exists r', In r' t /\ row_fn r' = f /\ row_var r' = v.

(* ======== pointers to statements: who is appended to (rules 11-14 of the translator) ========

   The copies above are about second HEADERS.  The theorems of Props/C20.v also need every
   builder call `x.M(..)` of the user to be ONE [OAppend x ..] on the cell the user named,
   executed during the call, and nothing else to happen to any cell that existed before the
   call.  `*s = append( *s, ..)` on the receiver (UseAppendSelf) guarantees that only if
     - `s` still points to the cell the method was called on (the translator reports every
       assignment to, and address of, a receiver or parameter of type *Statement, and accepts
       the append only directly in the method's body: not inside a function literal, go, defer),
     - no other cell is reached through a pointer of another type (every conversion from or to
       a pointer to Statement / []Code / a type with that underlying type, package unsafe, and
       such values handed to package reflect are reported), and
     - a method of Statement that appends is only ever called, inside package jen, on the
       enclosing method's own receiver or on a statement created during the same call.
   The last point is decided here from three generated tables:

     ptr_results   : for every function or method of jen whose only result is a *Statement, what
                     each of its return statements returns;
     ptr_locals    : for every local *Statement variable used as a receiver or returned that is
                     declared with its own initialiser and never assigned again, never has its
                     address taken and is not mentioned in a function literal that does not
                     declare it: what the initialiser is;
     builder_calls : every mention of a method of Statement in the package (calls, method
                     values, method expressions, and calls of equally named interface methods),
                     with what its receiver expression is.                                   *)
Inductive ptr_kind :=
| PkSelf                               (* the identifier of the enclosing method's own receiver (of type
                                          *Statement), directly in the method's body, never assigned *)
| PkNew                                (* &Statement{..}, new(Statement) *)
| PkCall (f : str)                     (* f(..) / x.f(..): a function, or a method of another type, declared in
                                          package jen and called directly *)
| PkChain (m : str) (k : ptr_kind)     (* e.M(..), M a method of Statement called directly, e is k *)
| PkLocal (fn var : str)               (* a single-assignment local variable: see ptr_locals *)
| PkOther (what : str).                (* anything else: parameter, field, global, element, type assertion,
                                          reassigned or captured variable, interface method, method value, go/defer *)

Definition result_row : Type := str * list ptr_kind.          (* function, what each return returns *)
Definition local_row : Type := str * str * ptr_kind.          (* function, variable, its initialiser *)
Definition call_row : Type := str * str * str * ptr_kind.     (* function, where, method, receiver *)
Definition cr_fn (r : call_row) : str := fst (fst (fst r)).
Definition cr_where (r : call_row) : str := snd (fst (fst r)).
Definition cr_method (r : call_row) : str := snd (fst r).
Definition cr_kind (r : call_row) : ptr_kind := snd r.

Definition lookup_result (rs : list result_row) (f : str) : option (list ptr_kind) :=
  match find (fun r => str_eqb (fst r) f) rs with Some r => Some (snd r) | None => None end.
Definition lookup_local (lo : list local_row) (fn v : str) : option ptr_kind :=
  match find (fun r => str_eqb (fst (fst r)) fn && str_eqb (snd (fst r)) v) lo with
  | Some r => Some (snd r) | None => None end.

Section Calls.
Variable rs : list result_row.
Variable lo : list local_row.
Variable self_app : list str.
Variable calls : list call_row.

(* the expression denotes the cell the enclosing method was called on: the receiver itself, a
   local variable bound to it, or the result of a method of Statement called on it all of whose
   return statements return that method's receiver again ([n]: depth of the unfolding) *)
Fixpoint kind_self (n : nat) (k : ptr_kind) : bool :=
  match n with
  | O => false
  | Datatypes.S n =>
    match k with
    | PkSelf => true
    | PkChain m k' =>
        kind_self n k' &&
        match lookup_result rs m with Some ks => forallb (kind_self n) ks | None => false end
    | PkLocal fn v => match lookup_local lo fn v with Some k' => kind_self n k' | None => false end
    | _ => false
    end
  end.

(* the expression denotes a cell created during the current call: &Statement{..}, the result of
   a function all of whose returns are fresh, of a receiver-returning method called on a fresh
   cell, or a local variable bound to one *)
Fixpoint kind_fresh (n : nat) (k : ptr_kind) : bool :=
  match n with
  | O => false
  | Datatypes.S n =>
    match k with
    | PkNew => true
    | PkCall f => match lookup_result rs f with Some ks => forallb (kind_fresh n) ks | None => false end
    | PkChain m k' =>
        kind_fresh n k' &&
        match lookup_result rs m with Some ks => forallb (kind_self n) ks | None => false end
    | PkLocal fn v => match lookup_local lo fn v with Some k' => kind_fresh n k' | None => false end
    | _ => false
    end
  end.

(* may calling method m change the cell it is called on?  It contains the append itself, or
   calls such a method on its own cell (out of fuel: yes) *)
Fixpoint mutating (n : nat) (m : str) : bool :=
  match n with
  | O => true
  | Datatypes.S n =>
    if existsb (str_eqb m) self_app then true else
    existsb (fun r => if str_eqb (cr_fn r) m then
                        if kind_self 8 (cr_kind r) then mutating n (cr_method r) else false
                      else false) calls
  end.
(* (written with if-then-else: vm_compute evaluates both arguments of && and ||) *)

Definition call_ok (r : call_row) : bool :=
  if kind_self 8 (cr_kind r) then true else
  if kind_fresh 8 (cr_kind r) then true else negb (mutating 8 (cr_method r)).

(* the obligation: this list is empty *)
Definition foreign_builder_calls : list call_row := filter (fun r => negb (call_ok r)) calls.
(* for the evidence: the calls accepted because the receiver was created during the call *)
Definition fresh_builder_calls : list call_row :=
  filter (fun r => negb (kind_self 8 (cr_kind r)) && kind_fresh 8 (cr_kind r)) calls.

(* ---- the same, declaratively ---- *)
Inductive DenotesSelf : ptr_kind -> Prop :=
| DS_self : DenotesSelf PkSelf
| DS_chain : forall m k ks, DenotesSelf k -> lookup_result rs m = Some ks ->
    (forall k', In k' ks -> DenotesSelf k') -> DenotesSelf (PkChain m k)
| DS_local : forall fn v k, lookup_local lo fn v = Some k -> DenotesSelf k -> DenotesSelf (PkLocal fn v).

Inductive Fresh : ptr_kind -> Prop :=
| FR_new : Fresh PkNew
| FR_call : forall f ks, lookup_result rs f = Some ks -> (forall k, In k ks -> Fresh k) -> Fresh (PkCall f)
| FR_chain : forall m k ks, Fresh k -> lookup_result rs m = Some ks ->
    (forall k', In k' ks -> DenotesSelf k') -> Fresh (PkChain m k)
| FR_local : forall fn v k, lookup_local lo fn v = Some k -> Fresh k -> Fresh (PkLocal fn v).

(* method m never changes the cell it is called on: it does not contain the append, and every
   method it calls on its own cell is quiet too *)
Inductive Quiet : str -> Prop :=
| Q_intro : forall m, ~ In m self_app ->
    (forall r, In r calls -> cr_fn r = m -> kind_self 8 (cr_kind r) = true -> Quiet (cr_method r)) ->
    Quiet m.

Definition calls_sound : Prop :=
  forall r, In r calls -> DenotesSelf (cr_kind r) \/ Fresh (cr_kind r) \/ Quiet (cr_method r).
End Calls.
