(* Copies of a Statement's slice header (C20, code-shape obligation).

   tools/cmd/clone2coq finds every place in package jen where the slice header of a
   Statement (`*s`, type []Code) is COPIED - into a local variable (`items := *s`), into the
   parameter of a function of package jen (`allNull(f, *s)`), from such a copy into the next
   (`rest := items`, `helper(items)`) - and prints, for every copy, the category of every
   mention of it (Gen/Clone.v, [copies_readonly], regenerated from /repo on every run).  The
   categories and the syntactic positions they stand for are listed in the translator's
   header; this file says WHICH categories are harmless and checks that the table is closed:
   every variable or parameter a copy is handed on to has a row of its own, so its mentions
   were classified as well (transitively; a cycle of helpers is fine when every mention in
   the cycle is read-only).

   Why: the theorems of Props/C20.v speak about histories of newStatement,
   `*s = append( *s, ..)` and Clone over statement cells.  A second header over a
   statement's array breaks them only if something is appended to it or written through it
   (that is the refuted mutant [clone_header] of Model/Heap.v followed by OAppend), or if it
   survives the call (stored, returned, captured, address taken) where this analysis cannot
   follow it.  A copy that is only read dies with the call and changes no array.
   The lemmas are in Proofs/CloneShapeProofs.v; nothing here mentions Model/. *)
From Jen Require Export Base.Bytes.
Open Scope bool_scope.

Inductive copy_use :=
(* read-only *)
| UseRange                       (* for .. := range x *)
| UseIndexRead                   (* x[i] read *)
| UseLen                         (* len(x) *)
| UseCap                         (* cap(x) *)
| UseNilCmp                      (* x == nil, x != nil *)
| UseAppendSrc                   (* append(y, x...): the elements of x are read *)
| UseCopySrc                     (* copy(y, x) *)
| UseSelfAssign                  (* x = x[i:j]: the copy variable is replaced by a reslice of itself *)
| UseReslice (u : copy_use)      (* x[i:j], which is then used as u *)
| UseConvert (u : copy_use)      (* []Code(x) / Statement(x), which is then used as u *)
(* handed on: harmless iff the receiving variable is in the table *)
| UseCopyTo (var : str)          (* y := x / var y = x, y a new local variable of the same function *)
| UsePass (callee param : str)   (* f(.., x, ..): f declared in package jen, called directly *)
(* everything else *)
| UseAppendDst                   (* append(x, ..) *)
| UseElemWrite                   (* x[i] = .., x[i]++, x[i] as a range variable *)
| UseCopyDst                     (* copy(x, ..) *)
| UseAddr                        (* &x *)
| UseElemAddr                    (* &x[i] *)
| UseReturned                    (* return x *)
| UseClosure                     (* mentioned in a function literal that does not declare it *)
| UseStored (what : str)         (* assigned to an existing variable, field, element, global; composite
                                    literal; channel; go/defer; a function that is not a directly
                                    called function of package jen; a non-slice parameter *)
| UseOther (what : str).         (* any other position *)

(* function, "file:line name", the category of every mention *)
Definition copy_row : Type := str * str * list copy_use.
Definition row_fn (r : copy_row) : str := fst (fst r).
Definition row_var (r : copy_row) : str := snd (fst r).
Definition row_uses (r : copy_row) : list copy_use := snd r.

Definition has_row (t : list copy_row) (fn var : str) : bool :=
  existsb (fun r => str_eqb (row_fn r) fn && str_eqb (row_var r) var) t.

(* is this mention harmless, for a copy that lives in function [fn]? *)
Fixpoint use_ok (t : list copy_row) (fn : str) (u : copy_use) : bool :=
  match u with
  | UseRange | UseIndexRead | UseLen | UseCap | UseNilCmp | UseAppendSrc | UseCopySrc
  | UseSelfAssign => true
  | UseReslice u' | UseConvert u' => use_ok t fn u'
  | UseCopyTo v => has_row t fn v
  | UsePass f p => has_row t f p
  | UseAppendDst | UseElemWrite | UseCopyDst | UseAddr | UseElemAddr | UseReturned | UseClosure
  | UseStored _ | UseOther _ => false
  end.

(* the obligation: every mention of every copy is harmless *)
Definition copies_closed_readonly (t : list copy_row) : bool :=
  forallb (fun r => forallb (use_ok t (row_fn r)) (row_uses r)) t.

(* ---- the same, declaratively ---- *)
(* the mention reads only ... *)
Inductive reads_only : copy_use -> Prop :=
| RO_range : reads_only UseRange
| RO_index : reads_only UseIndexRead
| RO_len : reads_only UseLen
| RO_cap : reads_only UseCap
| RO_nil : reads_only UseNilCmp
| RO_appsrc : reads_only UseAppendSrc
| RO_copysrc : reads_only UseCopySrc
| RO_self : reads_only UseSelfAssign.

(* ... or hands the header on (possibly resliced / converted) to a variable [fn', v] *)
Inductive hands_on (fn : str) : copy_use -> str -> str -> Prop :=
| HO_copy : forall v, hands_on fn (UseCopyTo v) fn v
| HO_pass : forall f p, hands_on fn (UsePass f p) f p
| HO_reslice : forall u f v, hands_on fn u f v -> hands_on fn (UseReslice u) f v
| HO_convert : forall u f v, hands_on fn u f v -> hands_on fn (UseConvert u) f v.

(* the final position of a mention, under reslices and conversions *)
Fixpoint final_use (u : copy_use) : copy_use :=
  match u with
  | UseReslice u' | UseConvert u' => final_use u'
  | _ => u
  end.

(* a table is sound when every mention of every copy finally reads only, or hands the header
   on to a variable that has a row in the table *)
Definition table_sound (t : list copy_row) : Prop :=
  forall r u, In r t -> In u (row_uses r) ->
    reads_only (final_use u) \/
    exists f v, hands_on (row_fn r) u f v /\
                exists r', In r' t /\ row_fn r' = f /\ row_var r' = v.
