(* UTF-8 as Go's unicode/utf8 implements it (DecodeRune / EncodeRune / ValidRune),
   written arithmetically over N so that the round trips are discharged by lia. *)
From Jen Require Import Base.Bytes.
From Coq Require Import ZifyN ZifyNat ZifyBool.
Ltac Zify.zify_post_hook ::= Z.div_mod_to_equations.
Local Open Scope N_scope.

Definition rune_error : N := 0xFFFD.
Definition max_rune : N := 0x10FFFF.

Definition valid_rune (r : N) : bool :=
  (r <? 0xD800) || ((0xDFFF <? r) && (r <=? max_rune)).

(* numbers-level codec; every list element is a byte value (< 256) *)
Definition encodeN (r : N) : list N :=
  if r <? 0x80 then [r]
  else if r <? 0x800 then [0xC0 + r / 64; 0x80 + r mod 64]
  else if negb (valid_rune r) then [0xEF; 0xBF; 0xBD]
  else if r <? 0x10000 then [0xE0 + r / 4096; 0x80 + (r / 64) mod 64; 0x80 + r mod 64]
  else [0xF0 + r / 262144; 0x80 + (r / 4096) mod 64; 0x80 + (r / 64) mod 64; 0x80 + r mod 64].

Definition is_cont (b : N) : bool := (0x80 <=? b) && (b <=? 0xBF).

(* returns (rune, width); (rune_error, 1) for every invalid or short sequence,
   (rune_error, 0) for the empty input: exactly utf8.DecodeRune *)
Definition decodeN (s : list N) : N * nat :=
  match s with
  | [] => (rune_error, 0%nat)
  | p0 :: t =>
    if p0 <? 0x80 then (p0, 1%nat)
    else if p0 <? 0xC2 then (rune_error, 1%nat)
    else if p0 <? 0xE0 then
      match t with
      | b1 :: _ => if is_cont b1 then ((p0 - 0xC0) * 64 + (b1 - 0x80), 2%nat) else (rune_error, 1%nat)
      | _ => (rune_error, 1%nat)
      end
    else if p0 <? 0xF0 then
      match t with
      | b1 :: b2 :: _ =>
        let lo := if p0 =? 0xE0 then 0xA0 else 0x80 in
        let hi := if p0 =? 0xED then 0x9F else 0xBF in
        if (lo <=? b1) && (b1 <=? hi) && is_cont b2
        then ((p0 - 0xE0) * 4096 + (b1 - 0x80) * 64 + (b2 - 0x80), 3%nat)
        else (rune_error, 1%nat)
      | _ => (rune_error, 1%nat)
      end
    else if p0 <? 0xF5 then
      match t with
      | b1 :: b2 :: b3 :: _ =>
        let lo := if p0 =? 0xF0 then 0x90 else 0x80 in
        let hi := if p0 =? 0xF4 then 0x8F else 0xBF in
        if (lo <=? b1) && (b1 <=? hi) && is_cont b2 && is_cont b3
        then ((p0 - 0xF0) * 262144 + (b1 - 0x80) * 4096 + (b2 - 0x80) * 64 + (b3 - 0x80), 4%nat)
        else (rune_error, 1%nat)
      | _ => (rune_error, 1%nat)
      end
    else (rune_error, 1%nat)
  end.

(* a decode result is an error iff the width is <= 1 and the rune is rune_error
   (a genuine U+FFFD has width 3) *)
Definition decode_ok (rw : N * nat) : bool :=
  negb ((fst rw =? rune_error) && (Nat.leb (snd rw) 1)).

Lemma encodeN_bytes r : Forall (fun b => b < 256) (encodeN r).
Proof.
  unfold encodeN, valid_rune, max_rune.
  destruct (r <? 0x80) eqn:E1; [repeat constructor; lia|].
  destruct (r <? 0x800) eqn:E2; [repeat constructor; lia|].
  destruct (negb _) eqn:E3; [repeat constructor; lia|].
  destruct (r <? 0x10000) eqn:E4; repeat constructor; lia.
Qed.

Lemma encodeN_length r : (1 <= length (encodeN r) <= 4)%nat.
Proof.
  unfold encodeN.
  destruct (r <? 0x80); [simpl; lia|].
  destruct (r <? 0x800); [simpl; lia|].
  destruct (negb _); [simpl; lia|].
  destruct (r <? 0x10000); simpl; lia.
Qed.

Lemma decode_encodeN r rest :
  valid_rune r = true -> decodeN (encodeN r ++ rest) = (r, length (encodeN r)).
Proof.
  unfold valid_rune, max_rune, encodeN, valid_rune, max_rune. intros Hv.
  destruct (r <? 0x80) eqn:E1.
  { simpl. rewrite E1. reflexivity. }
  destruct (r <? 0x800) eqn:E2.
  { cbn [app decodeN length].
    assert (H1 : (0xC0 + r / 64 <? 0x80) = false) by lia.
    assert (H2 : (0xC0 + r / 64 <? 0xC2) = false) by lia.
    assert (H3 : (0xC0 + r / 64 <? 0xE0) = true) by lia.
    rewrite H1, H2, H3. unfold is_cont.
    assert (H4 : ((0x80 <=? 0x80 + r mod 64) && (0x80 + r mod 64 <=? 0xBF)) = true) by lia.
    rewrite H4. f_equal. lia. }
  rewrite Hv. cbn [negb].
  destruct (r <? 0x10000) eqn:E4.
  { cbn [app decodeN length].
    assert (H1 : (0xE0 + r / 4096 <? 0x80) = false) by lia.
    assert (H2 : (0xE0 + r / 4096 <? 0xC2) = false) by lia.
    assert (H3 : (0xE0 + r / 4096 <? 0xE0) = false) by lia.
    assert (H4 : (0xE0 + r / 4096 <? 0xF0) = true) by lia.
    rewrite H1, H2, H3, H4. unfold is_cont.
    match goal with |- (if ?c then _ else _) = _ => assert (Hc : c = true) end.
    { destruct (0xE0 + r / 4096 =? 0xE0) eqn:Ea; destruct (0xE0 + r / 4096 =? 0xED) eqn:Eb; lia. }
    rewrite Hc. f_equal. lia. }
  { cbn [app decodeN length].
    assert (H1 : (0xF0 + r / 262144 <? 0x80) = false) by lia.
    assert (H2 : (0xF0 + r / 262144 <? 0xC2) = false) by lia.
    assert (H3 : (0xF0 + r / 262144 <? 0xE0) = false) by lia.
    assert (H4 : (0xF0 + r / 262144 <? 0xF0) = false) by lia.
    assert (H5 : (0xF0 + r / 262144 <? 0xF5) = true) by lia.
    rewrite H1, H2, H3, H4, H5. unfold is_cont.
    match goal with |- (if ?c then _ else _) = _ => assert (Hc : c = true) end.
    { destruct (0xF0 + r / 262144 =? 0xF0) eqn:Ea; destruct (0xF0 + r / 262144 =? 0xF4) eqn:Eb; lia. }
    rewrite Hc. f_equal. lia. }
Qed.

(* the converse: a successful decode consumed exactly the canonical encoding of its rune *)
Lemma encode_decodeN s r w :
  Forall (fun b => b < 256) s ->
  decodeN s = (r, w) -> decode_ok (r, w) = true ->
  valid_rune r = true /\ encodeN r = firstn w s /\ (1 <= w <= length s)%nat.
Proof.
  unfold decode_ok, rune_error; cbn [fst snd].
  intros Hb Hd Hok.
  destruct s as [|p0 t]; cbn [decodeN] in Hd.
  { injection Hd as <- <-. unfold rune_error in Hok. simpl in Hok. discriminate. }
  inversion Hb as [|? ? Hp0 Ht]; subst.
  destruct (p0 <? 0x80) eqn:E1.
  { injection Hd as <- <-. unfold valid_rune, encodeN. rewrite E1.
    split; [lia | split; [reflexivity | simpl; lia]]. }
  destruct (p0 <? 0xC2) eqn:E2.
  { injection Hd as <- <-. unfold rune_error in Hok. simpl in Hok. discriminate. }
  destruct (p0 <? 0xE0) eqn:E3.
  { destruct t as [|b1 t]; [injection Hd as <- <-; simpl in Hok; discriminate|].
    inversion Ht as [|? ? Hb1 Ht']; subst.
    unfold is_cont in Hd.
    destruct ((0x80 <=? b1) && (b1 <=? 0xBF)) eqn:Ec;
      [|injection Hd as <- <-; simpl in Hok; discriminate].
    injection Hd as <- <-.
    unfold valid_rune, encodeN, max_rune.
    assert (H1 : ((p0 - 0xC0) * 64 + (b1 - 0x80) <? 0x80) = false) by lia.
    assert (H2 : ((p0 - 0xC0) * 64 + (b1 - 0x80) <? 0x800) = true) by lia.
    rewrite H1, H2.
    split; [lia|]. split; [|simpl; lia].
    cbn [firstn]. f_equal; [lia|]. f_equal. lia. }
  destruct (p0 <? 0xF0) eqn:E4.
  { destruct t as [|b1 [|b2 t]]; try (injection Hd as <- <-; simpl in Hok; discriminate).
    inversion Ht as [|? ? Hb1 Ht']; subst. inversion Ht' as [|? ? Hb2 Ht'']; subst.
    cbv zeta in Hd. unfold is_cont in Hd.
    match type of Hd with (if ?c then _ else _) = _ => destruct c eqn:Ec end;
      [|injection Hd as <- <-; simpl in Hok; discriminate].
    injection Hd as <- <-.
    assert (Hrange : 0x800 <= (p0 - 0xE0) * 4096 + (b1 - 0x80) * 64 + (b2 - 0x80) < 0x10000 /\
                     valid_rune ((p0 - 0xE0) * 4096 + (b1 - 0x80) * 64 + (b2 - 0x80)) = true).
    { unfold valid_rune, max_rune.
      destruct (p0 =? 0xE0) eqn:Ea; destruct (p0 =? 0xED) eqn:Eb; lia. }
    destruct Hrange as [Hr Hv].
    unfold encodeN. rewrite Hv. cbn [negb].
    assert (H1 : ((p0 - 0xE0) * 4096 + (b1 - 0x80) * 64 + (b2 - 0x80) <? 0x80) = false) by lia.
    assert (H2 : ((p0 - 0xE0) * 4096 + (b1 - 0x80) * 64 + (b2 - 0x80) <? 0x800) = false) by lia.
    assert (H3 : ((p0 - 0xE0) * 4096 + (b1 - 0x80) * 64 + (b2 - 0x80) <? 0x10000) = true) by lia.
    rewrite H1, H2, H3.
    split; [reflexivity|]. split; [|simpl; lia].
    assert (Hc1 : 0x80 <= b1 <= 0xBF) by (destruct (p0 =? 0xE0); destruct (p0 =? 0xED); lia).
    assert (Hc2 : 0x80 <= b2 <= 0xBF) by lia.
    cbn [firstn]. f_equal; [lia|]. f_equal; [lia|]. f_equal. lia. }
  destruct (p0 <? 0xF5) eqn:E5.
  { destruct t as [|b1 [|b2 [|b3 t]]]; try (injection Hd as <- <-; simpl in Hok; discriminate).
    inversion Ht as [|? ? Hb1 Ht']; subst. inversion Ht' as [|? ? Hb2 Ht'']; subst.
    inversion Ht'' as [|? ? Hb3 Ht''']; subst.
    cbv zeta in Hd. unfold is_cont in Hd.
    match type of Hd with (if ?c then _ else _) = _ => destruct c eqn:Ec end;
      [|injection Hd as <- <-; simpl in Hok; discriminate].
    injection Hd as <- <-.
    assert (Hc1 : 0x80 <= b1 <= 0xBF) by (destruct (p0 =? 0xF0); destruct (p0 =? 0xF4); lia).
    assert (Hc2 : 0x80 <= b2 <= 0xBF) by lia.
    assert (Hc3 : 0x80 <= b3 <= 0xBF) by lia.
    set (r := (p0 - 0xF0) * 262144 + (b1 - 0x80) * 4096 + (b2 - 0x80) * 64 + (b3 - 0x80)).
    assert (Hrange : 0x10000 <= r <= 0x10FFFF).
    { subst r. destruct (p0 =? 0xF0) eqn:Ea; destruct (p0 =? 0xF4) eqn:Eb; lia. }
    assert (Hv : valid_rune r = true) by (unfold valid_rune, max_rune; lia).
    unfold encodeN. rewrite Hv. cbn [negb].
    assert (H1 : (r <? 0x80) = false) by lia.
    assert (H2 : (r <? 0x800) = false) by lia.
    assert (H3 : (r <? 0x10000) = false) by lia.
    rewrite H1, H2, H3.
    split; [reflexivity|]. split; [|simpl; lia].
    cbn [firstn]. subst r. f_equal; [lia|]. f_equal; [lia|]. f_equal; [lia|]. f_equal. lia. }
  injection Hd as <- <-. simpl in Hok. discriminate.
Qed.

Lemma decodeN_width_pos p0 t : (1 <= snd (decodeN (p0 :: t)) <= 4)%nat.
Proof.
  cbn [decodeN].
  destruct (p0 <? 0x80); [simpl; lia|].
  destruct (p0 <? 0xC2); [simpl; lia|].
  destruct (p0 <? 0xE0).
  { destruct t as [|b1 t]; [simpl; lia|]. destruct (is_cont b1); simpl; lia. }
  destruct (p0 <? 0xF0).
  { destruct t as [|b1 [|b2 t]]; try (simpl; lia). cbv zeta.
    match goal with |- context [if ?c then (_, 3%nat) else _] => destruct c end; simpl; lia. }
  destruct (p0 <? 0xF5).
  { destruct t as [|b1 [|b2 [|b3 t]]]; try (simpl; lia). cbv zeta.
    match goal with |- context [if ?c then (_, 4%nat) else _] => destruct c end; simpl; lia. }
  simpl; lia.
Qed.

(* byte-level wrappers *)
Definition decode_rune (s : str) : N * nat := decodeN (map b2n (firstn 4 s)).
Definition encode_rune (r : N) : str := map n2b (encodeN r).

Lemma map_b2n_bytes s : Forall (fun b => b < 256) (map b2n s).
Proof. induction s; simpl; constructor; [apply b2n_lt | assumption]. Qed.

Lemma map_b2n_n2b l : Forall (fun b => b < 256) l -> map b2n (map n2b l) = l.
Proof.
  induction l as [|x l IH]; intros H; simpl; [reflexivity|].
  inversion H; subst. rewrite b2n_n2b by assumption. f_equal. apply IH. assumption.
Qed.

Lemma map_n2b_b2n s : map n2b (map b2n s) = s.
Proof. induction s as [|x s IH]; simpl; [reflexivity|]. rewrite n2b_b2n, IH. reflexivity. Qed.

Lemma encode_rune_length r : length (encode_rune r) = length (encodeN r).
Proof. unfold encode_rune. apply map_length. Qed.

Lemma firstn_app_le {A} n (a b : list A) : (length a <= n)%nat -> firstn n (a ++ b) = a ++ firstn (n - length a) b.
Proof. intros H. rewrite firstn_app. rewrite firstn_all2 by exact H. reflexivity. Qed.

Lemma decode_encode_rune r rest :
  valid_rune r = true -> decode_rune (encode_rune r ++ rest) = (r, length (encode_rune r)).
Proof.
  intros Hv. unfold decode_rune.
  pose proof (encodeN_length r) as Hl.
  rewrite firstn_app_le by (rewrite encode_rune_length; lia).
  rewrite map_app. unfold encode_rune at 1. rewrite map_b2n_n2b by apply encodeN_bytes.
  rewrite decode_encodeN by exact Hv. rewrite encode_rune_length. reflexivity.
Qed.

Lemma encode_decode_rune s r w :
  decode_rune s = (r, w) -> decode_ok (r, w) = true ->
  valid_rune r = true /\ encode_rune r = firstn w s /\ (1 <= w <= length s)%nat /\ (w <= 4)%nat.
Proof.
  unfold decode_rune. intros Hd Hok.
  destruct (encode_decodeN _ _ _ (map_b2n_bytes _) Hd Hok) as (Hv & He & Hw).
  split; [exact Hv|].
  rewrite map_length, firstn_length in Hw.
  assert (Hw4 : (w <= 4)%nat) by lia.
  split; [|lia].
  unfold encode_rune. rewrite He. rewrite <- firstn_map, map_n2b_b2n.
  rewrite firstn_firstn. f_equal. lia.
Qed.

Lemma decode_rune_width_pos b0 t : (1 <= snd (decode_rune (b0 :: t)) <= 4)%nat.
Proof.
  unfold decode_rune. change (firstn 4 (b0 :: t)) with (b0 :: firstn 3 t).
  rewrite map_cons. apply decodeN_width_pos.
Qed.
