(* Decimal and hexadecimal text of numbers, as fmt prints them (%d, %#v on integers). *)
From Jen Require Import Base.Bytes.
From Coq Require Import Decimal Hexadecimal.
Local Open Scope N_scope.

Fixpoint uint_to_str (u : Decimal.uint) : str :=
  match u with
  | Decimal.Nil => []
  | Decimal.D0 u => x30 :: uint_to_str u
  | Decimal.D1 u => x31 :: uint_to_str u
  | Decimal.D2 u => x32 :: uint_to_str u
  | Decimal.D3 u => x33 :: uint_to_str u
  | Decimal.D4 u => x34 :: uint_to_str u
  | Decimal.D5 u => x35 :: uint_to_str u
  | Decimal.D6 u => x36 :: uint_to_str u
  | Decimal.D7 u => x37 :: uint_to_str u
  | Decimal.D8 u => x38 :: uint_to_str u
  | Decimal.D9 u => x39 :: uint_to_str u
  end.

Fixpoint hexuint_to_str (u : Hexadecimal.uint) : str :=
  match u with
  | Hexadecimal.Nil => []
  | Hexadecimal.D0 u => x30 :: hexuint_to_str u
  | Hexadecimal.D1 u => x31 :: hexuint_to_str u
  | Hexadecimal.D2 u => x32 :: hexuint_to_str u
  | Hexadecimal.D3 u => x33 :: hexuint_to_str u
  | Hexadecimal.D4 u => x34 :: hexuint_to_str u
  | Hexadecimal.D5 u => x35 :: hexuint_to_str u
  | Hexadecimal.D6 u => x36 :: hexuint_to_str u
  | Hexadecimal.D7 u => x37 :: hexuint_to_str u
  | Hexadecimal.D8 u => x38 :: hexuint_to_str u
  | Hexadecimal.D9 u => x39 :: hexuint_to_str u
  | Hexadecimal.Da u => x61 :: hexuint_to_str u
  | Hexadecimal.Db u => x62 :: hexuint_to_str u
  | Hexadecimal.Dc u => x63 :: hexuint_to_str u
  | Hexadecimal.Dd u => x64 :: hexuint_to_str u
  | Hexadecimal.De u => x65 :: hexuint_to_str u
  | Hexadecimal.Df u => x66 :: hexuint_to_str u
  end.

Definition N_to_dec (n : N) : str := uint_to_str (N.to_uint n).
Definition Z_to_dec (z : Z) : str :=
  match z with
  | Zneg p => x2d :: N_to_dec (Npos p)
  | _ => N_to_dec (Z.to_N z)
  end.
Definition N_to_hex (n : N) : str := hexuint_to_str (N.to_hex_uint n).

(* parsing (used by the case reader and by the literal evaluator) *)
Definition dec_digit (b : byte) : option N :=
  let c := b2n b in if (48 <=? c) && (c <=? 57) then Some (c - 48) else None.

Fixpoint dec_to_N_acc (acc : N) (s : str) : option N :=
  match s with
  | [] => Some acc
  | b :: s' => match dec_digit b with Some d => dec_to_N_acc (acc * 10 + d) s' | None => None end
  end.
Definition dec_to_N (s : str) : option N :=
  match s with [] => None | _ => dec_to_N_acc 0 s end.
Definition dec_to_Z (s : str) : option Z :=
  match s with
  | x2d :: s' => option_map (fun n => Z.opp (Z.of_N n)) (dec_to_N s')
  | _ => option_map Z.of_N (dec_to_N s)
  end.
