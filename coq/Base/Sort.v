(* sort.Strings / sort by a string key: insertion sort, and the facts the theorems use:
   the result is a sorted permutation, and a sorted permutation with pairwise distinct keys
   is unique - so the result does not depend on the order of the input (Go map iteration). *)
From Jen Require Import Base.Bytes.
From Coq Require Import Permutation Sorted.

Section KeySort.
  Context {A : Type} (key : A -> str).

  Fixpoint insert_by (x : A) (l : list A) : list A :=
    match l with
    | [] => [x]
    | y :: l' => if str_leb (key x) (key y) then x :: l else y :: insert_by x l'
    end.

  Fixpoint isort_by (l : list A) : list A :=
    match l with
    | [] => []
    | x :: l' => insert_by x (isort_by l')
    end.

  Definition key_le (a b : A) : Prop := str_leb (key a) (key b) = true.

  Lemma insert_by_perm x l : Permutation (insert_by x l) (x :: l).
  Proof.
    induction l as [|y l IH]; simpl; [apply Permutation_refl|].
    destruct (str_leb (key x) (key y)); [apply Permutation_refl|].
    eapply perm_trans; [apply perm_skip; exact IH | apply perm_swap].
  Qed.

  Lemma isort_by_perm l : Permutation (isort_by l) l.
  Proof.
    induction l as [|x l IH]; simpl; [constructor|].
    eapply perm_trans; [apply insert_by_perm | apply perm_skip; exact IH].
  Qed.

  Lemma insert_by_sorted x l : StronglySorted key_le l -> StronglySorted key_le (insert_by x l).
  Proof.
    induction l as [|y l IH]; simpl; intros Hs.
    - constructor; constructor.
    - destruct (str_leb (key x) (key y)) eqn:E.
      + constructor; [exact Hs|]. constructor; [exact E|].
        inversion Hs as [|? ? Hs' Hall]; subst.
        eapply Forall_impl; [|exact Hall]. intros a Ha. unfold key_le in *.
        eapply str_leb_trans; eassumption.
      + inversion Hs as [|? ? Hs' Hall]; subst. constructor; [apply IH; exact Hs'|].
        assert (Hyx : key_le y x).
        { unfold key_le. destruct (str_leb_total (key x) (key y)) as [H|H]; [congruence | exact H]. }
        eapply Permutation_Forall; [apply Permutation_sym, insert_by_perm|].
        constructor; assumption.
  Qed.

  Lemma isort_by_sorted l : StronglySorted key_le (isort_by l).
  Proof. induction l as [|x l IH]; simpl; [constructor | apply insert_by_sorted; exact IH]. Qed.

  (* uniqueness of the sorted arrangement when keys are pairwise distinct *)
  Lemma sorted_perm_unique l1 l2 :
    NoDup (map key l1) ->
    StronglySorted key_le l1 -> StronglySorted key_le l2 -> Permutation l1 l2 -> l1 = l2.
  Proof.
    revert l2. induction l1 as [|x l1 IH]; intros l2 Hnd Hs1 Hs2 Hp.
    - apply Permutation_nil in Hp. subst. reflexivity.
    - destruct l2 as [|y l2]; [apply Permutation_sym, Permutation_nil in Hp; discriminate|].
      inversion Hs1 as [|? ? Hs1' Hall1]; subst.
      inversion Hs2 as [|? ? Hs2' Hall2]; subst.
      inversion Hnd as [|? ? Hni Hnd']; subst.
      assert (Hxy : x = y).
      { assert (Hin1 : In x (y :: l2)) by (eapply Permutation_in; [exact Hp | left; reflexivity]).
        assert (Hin2 : In y (x :: l1)) by (eapply Permutation_in; [apply Permutation_sym; exact Hp | left; reflexivity]).
        destruct Hin1 as [E|Hin1]; [congruence|].
        destruct Hin2 as [E|Hin2]; [congruence|].
        rewrite Forall_forall in Hall1, Hall2.
        pose proof (Hall1 _ Hin2) as H1. pose proof (Hall2 _ Hin1) as H2.
        unfold key_le in *. pose proof (str_leb_antisym _ _ H1 H2) as Hk.
        exfalso. apply Hni. rewrite Hk. apply in_map. exact Hin2. }
      subst y. f_equal. apply IH; try assumption.
      eapply Permutation_cons_inv. exact Hp.
  Qed.

  Theorem isort_by_perm_invariant l1 l2 :
    NoDup (map key l1) -> Permutation l1 l2 -> isort_by l1 = isort_by l2.
  Proof.
    intros Hnd Hp. apply sorted_perm_unique.
    - eapply Permutation_NoDup; [|exact Hnd]. apply Permutation_map, Permutation_sym, isort_by_perm.
    - apply isort_by_sorted.
    - apply isort_by_sorted.
    - eapply perm_trans; [apply isort_by_perm|].
      eapply perm_trans; [exact Hp | apply Permutation_sym, isort_by_perm].
  Qed.

  Lemma isort_by_In x l : In x (isort_by l) <-> In x l.
  Proof.
    split; intros H; eapply Permutation_in; try exact H;
      [apply isort_by_perm | apply Permutation_sym, isort_by_perm].
  Qed.

  Lemma isort_by_length l : length (isort_by l) = length l.
  Proof. apply Permutation_length, isort_by_perm. Qed.
End KeySort.

Definition sort_strs (l : list str) : list str := isort_by (fun x => x) l.

Lemma sort_strs_perm l : Permutation (sort_strs l) l.
Proof. apply isort_by_perm. Qed.

Lemma sort_strs_perm_invariant l1 l2 :
  Permutation l1 l2 -> sort_strs l1 = sort_strs l2.
Proof.
  (* for plain strings equal keys are equal elements, so NoDup is not needed *)
  intros Hp. unfold sort_strs.
  assert (Hgen : forall a b : list str,
             StronglySorted (key_le (fun x => x)) a -> StronglySorted (key_le (fun x => x)) b ->
             Permutation a b -> a = b).
  { induction a as [|x a IH]; intros b Hs1 Hs2 Hpp.
    - apply Permutation_nil in Hpp. subst. reflexivity.
    - destruct b as [|y b]; [apply Permutation_sym, Permutation_nil in Hpp; discriminate|].
      inversion Hs1 as [|? ? Hs1' Hall1]; subst.
      inversion Hs2 as [|? ? Hs2' Hall2]; subst.
      assert (Hxy : x = y).
      { assert (Hin1 : In x (y :: b)) by (eapply Permutation_in; [exact Hpp | left; reflexivity]).
        assert (Hin2 : In y (x :: a)) by (eapply Permutation_in; [apply Permutation_sym; exact Hpp | left; reflexivity]).
        destruct Hin1 as [E|Hin1]; [congruence|].
        destruct Hin2 as [E|Hin2]; [congruence|].
        rewrite Forall_forall in Hall1, Hall2.
        pose proof (Hall1 _ Hin2) as H1. pose proof (Hall2 _ Hin1) as H2.
        unfold key_le in *. apply str_leb_antisym; assumption. }
      subst y. f_equal. apply IH; try assumption.
      eapply Permutation_cons_inv. exact Hpp. }
  apply Hgen; try apply isort_by_sorted.
  eapply perm_trans; [apply isort_by_perm|].
  eapply perm_trans; [exact Hp | apply Permutation_sym, isort_by_perm].
Qed.
