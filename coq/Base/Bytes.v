(* Byte strings: Go strings are modelled as [list byte]; comparison is Go's bytewise [<]. *)
From Coq Require Export List Bool Arith NArith ZArith Lia.
From Coq.Strings Require Export Byte.
From Coq Require String Ascii.
Export Coq.Strings.String.StringSyntax.
Export ListNotations.
Open Scope bool_scope.
Open Scope list_scope.

Definition str := list byte.

(* literal helper: [S "abc"] is the byte string of an ASCII literal *)
Definition S (x : String.string) : str := String.list_byte_of_string x.
Arguments S x%string_scope.

Definition b2n (b : byte) : N := Byte.to_N b.
Definition n2b (n : N) : byte :=
  match Byte.of_N n with Some b => b | None => x00 end.

Lemma n2b_b2n b : n2b (b2n b) = b.
Proof. unfold n2b, b2n. rewrite Byte.of_to_N. reflexivity. Qed.

Lemma b2n_lt b : (b2n b < 256)%N.
Proof. unfold b2n. pose proof (Byte.to_N_bounded b). lia. Qed.

Lemma b2n_n2b n : (n < 256)%N -> b2n (n2b n) = n.
Proof.
  intros H. unfold n2b, b2n.
  destruct (Byte.of_N n) as [b|] eqn:E.
  - apply Byte.to_of_N in E. exact E.
  - apply Byte.of_N_None_iff in E. lia.
Qed.

Lemma b2n_inj a b : b2n a = b2n b -> a = b.
Proof. intros H. rewrite <- (n2b_b2n a), <- (n2b_b2n b), H. reflexivity. Qed.

Definition beq (a b : byte) : bool := Byte.eqb a b.

Lemma beq_eq a b : beq a b = true <-> a = b.
Proof. unfold beq. split; [apply Byte.byte_dec_bl | apply Byte.byte_dec_lb]. Qed.

Lemma beq_refl a : beq a a = true.
Proof. apply beq_eq. reflexivity. Qed.

Lemma beq_neq a b : beq a b = false <-> a <> b.
Proof.
  split.
  - intros H E. apply beq_eq in E. congruence.
  - intros H. destruct (beq a b) eqn:E; [apply beq_eq in E; contradiction | reflexivity].
Qed.

Lemma beq_spec a b : reflect (a = b) (beq a b).
Proof. destruct (beq a b) eqn:E; constructor; [apply beq_eq | apply beq_neq]; exact E. Qed.

Fixpoint str_eqb (a b : str) : bool :=
  match a, b with
  | [], [] => true
  | x :: a', y :: b' => beq x y && str_eqb a' b'
  | _, _ => false
  end.

Lemma str_eqb_eq a b : str_eqb a b = true <-> a = b.
Proof.
  revert b. induction a as [|x a IH]; intros [|y b]; simpl; split; intros H;
    try reflexivity; try discriminate.
  - apply andb_true_iff in H. destruct H as [H1 H2].
    apply beq_eq in H1. apply IH in H2. congruence.
  - injection H as -> ->. rewrite beq_refl. simpl. apply IH. reflexivity.
Qed.

Lemma str_eqb_refl a : str_eqb a a = true.
Proof. apply str_eqb_eq. reflexivity. Qed.

Lemma str_eqb_neq a b : str_eqb a b = false <-> a <> b.
Proof.
  split.
  - intros H E. apply str_eqb_eq in E. congruence.
  - intros H. destruct (str_eqb a b) eqn:E; [apply str_eqb_eq in E; contradiction | reflexivity].
Qed.

Lemma str_eqb_spec a b : reflect (a = b) (str_eqb a b).
Proof. destruct (str_eqb a b) eqn:E; constructor; [apply str_eqb_eq | apply str_eqb_neq]; exact E. Qed.

Lemma str_eqb_sym a b : str_eqb a b = str_eqb b a.
Proof.
  destruct (str_eqb_spec a b) as [->|H].
  - symmetry. apply str_eqb_refl.
  - symmetry. apply str_eqb_neq. congruence.
Qed.

Definition str_eq_dec (a b : str) : {a = b} + {a <> b}.
Proof. destruct (str_eqb_spec a b); [left | right]; assumption. Defined.

(* Go's string comparison: bytewise lexicographic *)
Fixpoint str_ltb (a b : str) : bool :=
  match a, b with
  | _, [] => false
  | [], _ :: _ => true
  | x :: a', y :: b' =>
      if N.ltb (b2n x) (b2n y) then true
      else if N.ltb (b2n y) (b2n x) then false
      else str_ltb a' b'
  end.

Definition str_leb (a b : str) : bool := negb (str_ltb b a).

Lemma str_ltb_irrefl a : str_ltb a a = false.
Proof. induction a as [|x a IH]; simpl; [reflexivity|]. rewrite N.ltb_irrefl. exact IH. Qed.

Lemma str_ltb_trans a b c : str_ltb a b = true -> str_ltb b c = true -> str_ltb a c = true.
Proof.
  revert b c. induction a as [|x a IH]; intros [|y b] [|z c]; simpl; try discriminate; try reflexivity.
  destruct (N.ltb_spec (b2n x) (b2n y)), (N.ltb_spec (b2n y) (b2n x)),
           (N.ltb_spec (b2n y) (b2n z)), (N.ltb_spec (b2n z) (b2n y)),
           (N.ltb_spec (b2n x) (b2n z)), (N.ltb_spec (b2n z) (b2n x));
    try discriminate; try reflexivity; try lia.
  apply IH.
Qed.

Lemma str_ltb_total a b : str_ltb a b = false -> str_ltb b a = false -> a = b.
Proof.
  revert b. induction a as [|x a IH]; intros [|y b]; simpl; try discriminate; try reflexivity.
  destruct (N.ltb_spec (b2n x) (b2n y)), (N.ltb_spec (b2n y) (b2n x));
    try discriminate; try lia.
  intros H1 H2. assert (x = y) by (apply b2n_inj; lia). subst. f_equal. apply IH; assumption.
Qed.

Lemma str_ltb_asym a b : str_ltb a b = true -> str_ltb b a = false.
Proof.
  intros H. destruct (str_ltb b a) eqn:E; [|reflexivity].
  pose proof (str_ltb_trans _ _ _ H E) as H1. rewrite str_ltb_irrefl in H1. discriminate.
Qed.

Lemma str_leb_refl a : str_leb a a = true.
Proof. unfold str_leb. rewrite str_ltb_irrefl. reflexivity. Qed.

Lemma str_leb_total a b : str_leb a b = true \/ str_leb b a = true.
Proof.
  unfold str_leb. destruct (str_ltb b a) eqn:E; [right | left; reflexivity].
  rewrite (str_ltb_asym _ _ E). reflexivity.
Qed.

Lemma str_leb_antisym a b : str_leb a b = true -> str_leb b a = true -> a = b.
Proof.
  unfold str_leb. intros H1 H2. apply negb_true_iff in H1, H2. apply str_ltb_total; assumption.
Qed.

Lemma str_leb_trans a b c : str_leb a b = true -> str_leb b c = true -> str_leb a c = true.
Proof.
  unfold str_leb. intros H1 H2. apply negb_true_iff in H1, H2. apply negb_true_iff.
  destruct (str_ltb c a) eqn:E; [|reflexivity].
  destruct (str_ltb b c) eqn:E2.
  - pose proof (str_ltb_trans _ _ _ E2 E). congruence.
  - pose proof (str_ltb_total _ _ E2 H2). subst. congruence.
Qed.

(* prefix / suffix / search *)
Fixpoint has_prefix (p s : str) : bool :=
  match p, s with
  | [], _ => true
  | x :: p', y :: s' => beq x y && has_prefix p' s'
  | _ :: _, [] => false
  end.

Lemma has_prefix_app p s : has_prefix p s = true <-> exists r, s = p ++ r.
Proof.
  revert s. induction p as [|x p IH]; intros s; simpl.
  - split; [intros _; exists s; reflexivity | reflexivity].
  - destruct s as [|y s].
    + split; [discriminate | intros [r H]; discriminate].
    + split.
      * intros H. apply andb_true_iff in H. destruct H as [H1 H2].
        apply beq_eq in H1. apply IH in H2. destruct H2 as [r ->]. exists r. subst. reflexivity.
      * intros [r H]. injection H as -> ->. rewrite beq_refl. simpl. apply IH. exists r. reflexivity.
Qed.

Definition has_suffix (p s : str) : bool := has_prefix (rev p) (rev s).

Fixpoint contains_byte (c : byte) (s : str) : bool :=
  match s with
  | [] => false
  | x :: s' => beq c x || contains_byte c s'
  end.

Lemma contains_byte_In c s : contains_byte c s = true <-> In c s.
Proof.
  induction s as [|x s IH]; simpl; [split; [discriminate | tauto]|].
  rewrite orb_true_iff, IH, beq_eq. split; intros [H|H]; auto.
Qed.

Lemma contains_byte_false c s : contains_byte c s = false <-> ~ In c s.
Proof.
  rewrite <- contains_byte_In. destruct (contains_byte c s); split; congruence.
Qed.

Fixpoint contains (sub s : str) : bool :=
  has_prefix sub s ||
  match s with
  | [] => false
  | _ :: s' => contains sub s'
  end.

(* text after the last occurrence of [c] (whole string if none) *)
Fixpoint after_last (c : byte) (s : str) : str :=
  match s with
  | [] => []
  | x :: s' => if contains_byte c s' then after_last c s'
               else if beq x c then s' else x :: s'
  end.

Fixpoint concat_str (l : list str) : str :=
  match l with
  | [] => []
  | x :: l' => x ++ concat_str l'
  end.

Fixpoint join (sep : str) (l : list str) : str :=
  match l with
  | [] => []
  | [x] => x
  | x :: l' => x ++ sep ++ join sep l'
  end.

(* association lists keyed by strings: the model of Go maps *)
Section Assoc.
  Context {V : Type}.
  Fixpoint alookup (k : str) (m : list (str * V)) : option V :=
    match m with
    | [] => None
    | (k', v) :: m' => if str_eqb k k' then Some v else alookup k m'
    end.
  (* update in place if present, else append: the iteration order is not meaningful *)
  Fixpoint aset (k : str) (v : V) (m : list (str * V)) : list (str * V) :=
    match m with
    | [] => [(k, v)]
    | (k', v') :: m' => if str_eqb k k' then (k, v) :: m' else (k', v') :: aset k v m'
    end.
  Definition akeys (m : list (str * V)) : list str := map fst m.

  Lemma alookup_aset_same k v m : alookup k (aset k v m) = Some v.
  Proof.
    induction m as [|[k' v'] m IH]; simpl.
    - rewrite str_eqb_refl. reflexivity.
    - destruct (str_eqb k k') eqn:E; simpl; [rewrite str_eqb_refl; reflexivity|].
      rewrite E. exact IH.
  Qed.

  Lemma alookup_aset_other k k' v m : k <> k' -> alookup k' (aset k v m) = alookup k' m.
  Proof.
    intros Hn. induction m as [|[k2 v2] m IH]; simpl.
    - destruct (str_eqb_spec k' k); [congruence | reflexivity].
    - destruct (str_eqb_spec k k2) as [->|Hk]; simpl.
      + destruct (str_eqb_spec k' k2); [congruence | reflexivity].
      + destruct (str_eqb k' k2); [reflexivity | exact IH].
  Qed.

  Lemma alookup_In k v m : alookup k m = Some v -> In (k, v) m.
  Proof.
    induction m as [|[k' v'] m IH]; simpl; [discriminate|].
    destruct (str_eqb_spec k k') as [->|Hk].
    - intros H. injection H as ->. left. reflexivity.
    - intros H. right. apply IH. exact H.
  Qed.

  Lemma alookup_None k m : alookup k m = None <-> ~ In k (akeys m).
  Proof.
    induction m as [|[k' v'] m IH]; simpl; [tauto|].
    destruct (str_eqb_spec k k') as [->|Hk].
    - split; [discriminate | intros H; exfalso; apply H; left; reflexivity].
    - rewrite IH. split; intros H; [intros [E|E]; [congruence | contradiction] | tauto].
  Qed.

  Lemma In_alookup_NoDup k v m : NoDup (akeys m) -> In (k, v) m -> alookup k m = Some v.
  Proof.
    induction m as [|[k' v'] m IH]; simpl; [tauto|].
    intros Hnd [H|H].
    - injection H as -> ->. rewrite str_eqb_refl. reflexivity.
    - inversion Hnd as [|? ? Hni Hnd']; subst.
      destruct (str_eqb_spec k k') as [->|Hk].
      + exfalso. apply Hni. change (In (fst (k', v)) (map fst m)). apply in_map. exact H.
      + apply IH; assumption.
  Qed.

  Lemma akeys_aset_NoDup k v m : NoDup (akeys m) -> NoDup (akeys (aset k v m)).
  Proof.
    induction m as [|[k' v'] m IH]; simpl; intros Hnd.
    - constructor; [simpl; tauto | constructor].
    - inversion Hnd as [|? ? Hni Hnd']; subst.
      destruct (str_eqb_spec k k') as [->|Hk]; simpl.
      + constructor; assumption.
      + constructor; [|apply IH; exact Hnd'].
        intros Hin. apply Hni. clear - Hin Hk.
        induction m as [|[k2 v2] m IH]; simpl in *.
        * destruct Hin as [E|[]]. congruence.
        * destruct (str_eqb_spec k k2) as [->|Hk2]; simpl in *.
          -- destruct Hin as [E|Hin]; [congruence | right; exact Hin].
          -- destruct Hin as [E|Hin]; [left; exact E | right; apply IH; exact Hin].
  Qed.
End Assoc.
