(* Review item C11: LitFunc behaves as Lit on the value its function returns - the C14 theorem
   about the ...Func variants of token constructs (Props/C14.v, C14_lit_func_variant)
   instantiated on the API table generated from the current source and restated as ONE
   equation between a LitFunc call and a Lit call. *)
From Jen Require Import Base.Bytes Model.FileRender.
From Jen Require Import Spec.ApiSem Gen.Api Proofs.ApiProofs Props.C14.

(* LitFunc(f) on statement sp in store h: run f once (cb id [] h = (h', v)), then do exactly
   what Lit(v) does on sp in h' - same token type, content v, same resulting store, same
   returned statement - the only difference being the callback log [f]. *)
Lemma litfunc_is_lit (cb : N -> list value -> store -> store * value) fuel id sp h :
  call cb (Datatypes.S fuel) api_table s_Statement (S "LitFunc") (Some (VStmt sp)) [VCb id] h =
  match call cb (Datatypes.S fuel) api_table s_Statement (S "Lit") (Some (VStmt sp)) [snd (cb id [] h)] (fst (cb id [] h)) with
  | Some (r, h3, _) => Some (r, h3, [id])
  | None => None
  end.
Proof.
  destruct C14_example_constructs as (_ & _ & _ & (r & yr & Hr & Hc & Hcb & Hs & Hy & Hg & Ht)).
  destruct (C14_lit_func_variant cb api_table api_structs func_fields go_stmts C14_forms_wellformed
              (S "LitFunc") (S "Lit") r yr Hr Hc Hcb Hs Hy Hg Ht) as (c & H).
  destruct (H fuel) as [HF HL]. rewrite HF, HL.
  destruct (append_stmt (fst (cb id [] h)) sp [VTok (VConst c) (snd (cb id [] h))]); reflexivity.
Qed.

(* ... and the callback runs exactly once, before the token is appended *)
Lemma litfunc_log (cb : N -> list value -> store -> store * value) fuel id sp h v h' lg :
  call cb (Datatypes.S fuel) api_table s_Statement (S "LitFunc") (Some (VStmt sp)) [VCb id] h = Some (v, h', lg) ->
  lg = [id].
Proof.
  rewrite litfunc_is_lit.
  destruct (call cb (Datatypes.S fuel) api_table s_Statement (S "Lit") (Some (VStmt sp)) [snd (cb id [] h)] (fst (cb id [] h)))
    as [[[r h3] l]|]; [|discriminate].
  intros E. injection E as _ _ <-. reflexivity.
Qed.
