(* C09: operations on one File neither read nor write another File's state.
   Lemmas about the case interpreter of Model/Exec.v ([step] over [world]). *)
From Jen Require Import Base.Bytes Base.Num Model.Code Model.Naming Model.Render Model.FileRender Model.Exec.
From Coq Require Import NArith List Bool.
Import ListNotations.
Local Open Scope N_scope.

(* ---- the world as a finite map ---- *)
Lemma wget_wset_same w i f : wget (wset w i f) i = Some f.
Proof.
  induction w as [|[j g] w IH]; cbn [wset wget].
  - rewrite N.eqb_refl. reflexivity.
  - destruct (i =? j) eqn:E; cbn [wget].
    + rewrite N.eqb_refl. reflexivity.
    + rewrite E. exact IH.
Qed.

Lemma wget_wset_other w i j f : j <> i -> wget (wset w i f) j = wget w j.
Proof.
  intros Hne. induction w as [|[k g] w IH]; cbn [wset wget].
  - destruct (j =? i) eqn:E; [apply N.eqb_eq in E; contradiction | reflexivity].
  - destruct (i =? k) eqn:E; cbn [wget].
    + apply N.eqb_eq in E. subst k.
      destruct (j =? i) eqn:E2; [apply N.eqb_eq in E2; contradiction | reflexivity].
    + destruct (j =? k); [reflexivity | exact IH].
Qed.

(* ---- which File an operation works on ---- *)
(* Every operation of the history language except rplain (Render / GoString of a bare
   statement: a fresh NewFile("") inside the call) carries the index of ONE File as its
   first argument. *)
Definition op_file (op : sexp) : option N :=
  match op with
  | SList (Atom h :: fe :: _) => if str_eqb h (S "rplain") then None else atom_N fe
  | _ => None
  end.

Definition on_file (i : N) (op : sexp) : bool :=
  match op_file op with Some j => j =? i | None => false end.

Definition no_file (op : sexp) : bool :=
  match op_file op with Some _ => false | None => true end.

(* two results of [step] agree as far as File i can tell *)
Definition same_at (i : N) (r1 r2 : option (world * list str)) : Prop :=
  match r1, r2 with
  | Some (w1, o1), Some (w2, o2) => o1 = o2 /\ wget w1 i = wget w2 i
  | None, None => True
  | _, _ => False
  end.

(* the result of [step] leaves every File other than i as it was *)
Definition frame_at (i : N) (w : world) (r : option (world * list str)) : Prop :=
  match r with
  | Some (w', _) => forall j, j <> i -> wget w' j = wget w j
  | None => True
  end.

Lemma same_at_upd i w1 w2 f : same_at i (upd w1 i f) (upd w2 i f).
Proof. cbn. split; [reflexivity | rewrite !wget_wset_same; reflexivity]. Qed.

Lemma frame_at_upd i w f : frame_at i w (upd w i f).
Proof. cbn. intros j Hj. apply wget_wset_other. exact Hj. Qed.

(* ---- case analysis over the operation kinds of [step] ---- *)
(* one [if str_eqb h "..."] at a time *)
Ltac next_kind :=
  match goal with
  | |- context [if str_eqb ?h ?s then _ else _] => destruct (str_eqb h s) eqn:?
  end.

(* destruct the argument list as far as the current branch looks at it *)
Ltac open_args :=
  repeat match goal with
  | |- context [match ?l with [] => _ | _ :: _ => _ end] => is_var l; destruct l
  end.

(* destruct the decoded arguments (atom_str a, dcode c, ...) one at a time *)
Ltac open_opts :=
  repeat match goal with
  | |- context [match ?x with Some _ => _ | None => _ end] => destruct x eqn:?
  end.

Section StepLocal.
  Variable i : N.
  Variables w1 w2 : world.
  Hypothesis Hw : wget w1 i = wget w2 i.

  Ltac leaf Hf Hw :=
    open_args; cbv beta iota;
    try exact I;
    unfold with_file, obind; rewrite ?Hf; cbv beta iota;
    try rewrite <- Hw;
    open_opts; cbv beta iota zeta;
    first [ exact I
          | apply same_at_upd
          | cbn [same_at fst snd]; split; [reflexivity | first [rewrite !wget_wset_same; reflexivity | congruence]] ].

  Lemma step_local op : op_file op = Some i -> same_at i (step w1 op) (step w2 op).
  Proof.
    intros Hf. destruct op as [a|[|[h|l] args]]; try discriminate Hf.
    destruct args as [|fe rest]; [discriminate Hf|].
    cbn [op_file] in Hf. destruct (str_eqb h (S "rplain")) eqn:Erp; [discriminate Hf|].
    unfold step.
    next_kind; [leaf Hf Hw|].
    next_kind; [leaf Hf Hw|].
    next_kind; [leaf Hf Hw|].
    next_kind; [leaf Hf Hw|].
    next_kind; [leaf Hf Hw|].
    next_kind; [leaf Hf Hw|].
    next_kind; [leaf Hf Hw|].
    next_kind; [leaf Hf Hw|].
    next_kind; [leaf Hf Hw|].
    next_kind; [leaf Hf Hw|].
    next_kind; [leaf Hf Hw|].
    next_kind; [leaf Hf Hw|].
    next_kind; [leaf Hf Hw|].
    next_kind; [leaf Hf Hw|].
    next_kind; [leaf Hf Hw|].
    next_kind; [leaf Hf Hw|].
    rewrite Erp.
    next_kind; [leaf Hf Hw|].
    next_kind; [leaf Hf Hw|].
    exact I.
  Qed.
End StepLocal.
