(* C09: operations on one File neither read nor write another File's state.
   Lemmas about the case interpreter of Model/Exec.v ([step] over [world]). *)
From Jen Require Import Base.Bytes Base.Num Model.Code Model.Naming Model.Render Model.FileRender Model.Exec.
From Coq Require Import NArith List Bool.
Import ListNotations.
Local Open Scope N_scope.

(* ---- the world as a finite map ---- *)
Lemma wget_wset_same w i f : wget (wset w i f) i = Some f.
Proof.
  induction w as [|[j g] w IH]; cbn [wset wget].
  - rewrite N.eqb_refl. reflexivity.
  - destruct (i =? j) eqn:E; cbn [wget].
    + rewrite N.eqb_refl. reflexivity.
    + rewrite E. exact IH.
Qed.

Lemma wget_wset_other w i j f : j <> i -> wget (wset w i f) j = wget w j.
Proof.
  intros Hne. induction w as [|[k g] w IH]; cbn [wset wget].
  - destruct (j =? i) eqn:E; [apply N.eqb_eq in E; contradiction | reflexivity].
  - destruct (i =? k) eqn:E; cbn [wget].
    + apply N.eqb_eq in E. subst k.
      destruct (j =? i) eqn:E2; [apply N.eqb_eq in E2; contradiction | reflexivity].
    + destruct (j =? k); [reflexivity | exact IH].
Qed.

(* ---- which File an operation works on ---- *)
(* Every operation of the history language except rplain (Render / GoString of a bare
   statement: a fresh NewFile("") inside the call) carries the index of ONE File as its
   first argument. *)
Definition op_file (op : sexp) : option N :=
  match op with
  | SList (Atom h :: fe :: _) => if str_eqb h (S "rplain") then None else atom_N fe
  | _ => None
  end.

Definition on_file (i : N) (op : sexp) : bool :=
  match op_file op with Some j => j =? i | None => false end.

Definition no_file (op : sexp) : bool :=
  match op_file op with Some _ => false | None => true end.

(* two results of [step] agree as far as File i can tell *)
Definition same_at (i : N) (r1 r2 : option (world * list str)) : Prop :=
  match r1, r2 with
  | Some (w1, o1), Some (w2, o2) => o1 = o2 /\ wget w1 i = wget w2 i
  | None, None => True
  | _, _ => False
  end.

(* the result of [step] leaves every File other than i as it was *)
Definition frame_at (i : N) (w : world) (r : option (world * list str)) : Prop :=
  match r with
  | Some (w', _) => forall j, j <> i -> wget w' j = wget w j
  | None => True
  end.

Lemma same_at_upd i w1 w2 f : same_at i (upd w1 i f) (upd w2 i f).
Proof. cbn. split; [reflexivity | rewrite !wget_wset_same; reflexivity]. Qed.

Lemma frame_at_upd i w f : frame_at i w (upd w i f).
Proof. cbn. intros j Hj. apply wget_wset_other. exact Hj. Qed.

(* ---- case analysis over the operation kinds of [step] ---- *)
(* one [if str_eqb h "..."] at a time *)
Ltac next_kind :=
  match goal with
  | |- context [if str_eqb ?h ?s then _ else _] => destruct (str_eqb h s) eqn:?
  end.

(* destruct the argument list as far as the current branch looks at it *)
Ltac open_args :=
  repeat match goal with
  | |- context [match ?l with [] => _ | _ :: _ => _ end] => is_var l; destruct l
  end.

(* destruct the decoded arguments (atom_str a, dcode c, ...) one at a time *)
Ltac open_opts :=
  repeat match goal with
  | |- context [match ?x with Some _ => _ | None => _ end] => destruct x eqn:?
  end.

Section StepLocal.
  Variable i : N.
  Variables w1 w2 : world.
  Hypothesis Hw : wget w1 i = wget w2 i.

  Ltac leaf Hf Hw :=
    open_args; cbv beta iota;
    try exact I;
    unfold with_file, obind; rewrite ?Hf; cbv beta iota;
    try rewrite <- Hw;
    open_opts; cbv beta iota zeta;
    first [ exact I
          | apply same_at_upd
          | cbn [same_at fst snd]; split; [reflexivity | first [rewrite !wget_wset_same; reflexivity | congruence]] ].

  Lemma step_local op : op_file op = Some i -> same_at i (step w1 op) (step w2 op).
  Proof.
    intros Hf. destruct op as [a|[|[h|l] args]]; try discriminate Hf.
    destruct args as [|fe rest]; [discriminate Hf|].
    cbn [op_file] in Hf. destruct (str_eqb h (S "rplain")) eqn:Erp; [discriminate Hf|].
    unfold step.
    next_kind; [leaf Hf Hw|].
    next_kind; [leaf Hf Hw|].
    next_kind; [leaf Hf Hw|].
    next_kind; [leaf Hf Hw|].
    next_kind; [leaf Hf Hw|].
    next_kind; [leaf Hf Hw|].
    next_kind; [leaf Hf Hw|].
    next_kind; [leaf Hf Hw|].
    next_kind; [leaf Hf Hw|].
    next_kind; [leaf Hf Hw|].
    next_kind; [leaf Hf Hw|].
    next_kind; [leaf Hf Hw|].
    next_kind; [leaf Hf Hw|].
    next_kind; [leaf Hf Hw|].
    next_kind; [leaf Hf Hw|].
    next_kind; [leaf Hf Hw|].
    rewrite Erp.
    next_kind; [leaf Hf Hw|].
    next_kind; [leaf Hf Hw|].
    exact I.
  Qed.
End StepLocal.

Section StepFrame.
  Variable i : N.
  Variable w : world.

  Ltac leaf Hf :=
    open_args; cbv beta iota;
    try exact I;
    unfold with_file, obind; rewrite ?Hf; cbv beta iota;
    open_opts; cbv beta iota zeta;
    first [ exact I
          | apply frame_at_upd
          | cbn [frame_at]; intros j Hj; first [apply wget_wset_other; exact Hj | reflexivity] ].

  Lemma step_frame op : op_file op = Some i -> frame_at i w (step w op).
  Proof.
    intros Hf. destruct op as [a|[|[h|l] args]]; try discriminate Hf.
    destruct args as [|fe rest]; [discriminate Hf|].
    cbn [op_file] in Hf. destruct (str_eqb h (S "rplain")) eqn:Erp; [discriminate Hf|].
    unfold step.
    do 16 (next_kind; [leaf Hf|]).
    rewrite Erp.
    next_kind; [leaf Hf|].
    next_kind; [leaf Hf|].
    exact I.
  Qed.
End StepFrame.

(* An operation without a File (rplain, or a line the interpreter rejects) neither reads nor
   writes the world. *)
Definition pure_step (w1 w2 : world) (r1 r2 : option (world * list str)) : Prop :=
  match r1, r2 with
  | Some (w1', o1), Some (w2', o2) => w1' = w1 /\ w2' = w2 /\ o1 = o2
  | None, None => True
  | _, _ => False
  end.

Ltac two_kinds :=
  match goal with
  | E1 : str_eqb ?h ?a = true, E2 : str_eqb ?h ?b = true |- _ =>
    apply str_eqb_eq in E1; apply str_eqb_eq in E2; rewrite E1 in E2; vm_compute in E2; discriminate E2
  end.

Section StepNoFile.
  Variables w1 w2 : world.

  Ltac leaf Hf :=
    open_args; cbv beta iota;
    try exact I;
    unfold with_file, obind; rewrite ?Hf; cbv beta iota;
    open_opts; cbv beta iota zeta;
    first [ exact I | cbn [pure_step]; repeat split; reflexivity ].

  Lemma step_nofile op : op_file op = None -> pure_step w1 w2 (step w1 op) (step w2 op).
  Proof.
    intros Hf. destruct op as [a|[|[h|l] args]]; try exact I.
    unfold step.
    destruct args as [|fe rest].
    - do 19 (next_kind; [exact I|]). exact I.
    - cbn [op_file] in Hf. destruct (str_eqb h (S "rplain")) eqn:Erp.
      + do 16 (next_kind; [two_kinds|]).
        cbv beta iota. leaf Hf.
      + do 16 (next_kind; [leaf Hf|]).
        next_kind; [leaf Hf|].
        next_kind; [leaf Hf|].
        exact I.
  Qed.
End StepNoFile.

(* ---- histories ---- *)
(* [run_ops] of Model/Exec.v with every observation labelled by the File of its operation,
   and the final world. *)
Fixpoint run_tagged (w : world) (ops : list sexp) : option (world * list (option N * list str)) :=
  match ops with
  | [] => Some (w, [])
  | op :: ops' =>
    match step w op with
    | Some (w', obs) => omap (fun r => (fst r, (op_file op, obs) :: snd r)) (run_tagged w' ops')
    | None => None
    end
  end.

Definition tag_is (i : N) (e : option N * list str) : bool :=
  match fst e with Some j => j =? i | None => false end.

Definition all_obs (l : list (option N * list str)) : list str := flat_map snd l.
(* the observations of the operations on File i *)
Definition obs_of (i : N) (l : list (option N * list str)) : list str := flat_map snd (filter (tag_is i) l).

Lemma run_ops_tagged ops : forall w, run_ops w ops = omap (fun r => all_obs (snd r)) (run_tagged w ops).
Proof.
  induction ops as [|op ops IH]; intros w; cbn [run_ops run_tagged]; [reflexivity|].
  destruct (step w op) as [[w' obs]|]; [|reflexivity].
  rewrite IH. destruct (run_tagged w' ops) as [[wf l]|]; reflexivity.
Qed.

Lemma on_file_true i op : on_file i op = true <-> op_file op = Some i.
Proof.
  unfold on_file. destruct (op_file op) as [j|]; [|split; discriminate].
  rewrite N.eqb_eq. split; [intros ->; reflexivity | intros [= ->]; reflexivity].
Qed.

(* The sub-history of the operations on File i, run from any world that agrees on File i:
   same observations, same final state of File i. *)
Lemma run_frame i : forall ops w wi r,
  wget w i = wget wi i -> run_tagged w ops = Some r ->
  exists ri, run_tagged wi (filter (on_file i) ops) = Some ri /\
             all_obs (snd ri) = obs_of i (snd r) /\ wget (fst ri) i = wget (fst r) i.
Proof.
  induction ops as [|op ops IH]; intros w wi r Hw Hr.
  - injection Hr as <-. exists (wi, []). repeat split. symmetry. exact Hw.
  - cbn [run_tagged] in Hr. destruct (step w op) as [[w' obs]|] eqn:Es; [|discriminate Hr].
    destruct (run_tagged w' ops) as [r'|] eqn:Er; [|discriminate Hr].
    injection Hr as <-. cbn [filter fst snd].
    destruct (on_file i op) eqn:Eo.
    + apply on_file_true in Eo.
      pose proof (step_local i w wi Hw op Eo) as Hl. rewrite Es in Hl.
      destruct (step wi op) as [[wi' obs']|] eqn:Esi; [|contradiction Hl].
      destruct Hl as [<- Hw'].
      destruct (IH w' wi' r' Hw' Er) as [ri' [Hri [Ho Hf]]].
      exists (fst ri', (op_file op, obs) :: snd ri'). cbn [run_tagged]. rewrite Esi, Hri.
      repeat split; cbn [fst snd omap option_map]; [|exact Hf].
      unfold obs_of, all_obs in *. cbn [filter flat_map]. unfold tag_is at 1. cbn [fst]. rewrite Eo, N.eqb_refl.
      cbn [flat_map snd]. rewrite Ho. reflexivity.
    + assert (Hw' : wget w' i = wget wi i).
      { rewrite <- Hw. destruct (op_file op) as [j|] eqn:Ef.
        - pose proof (step_frame j w op Ef) as Hfr. rewrite Es in Hfr. apply Hfr.
          intros ->. apply on_file_true in Ef. congruence.
        - pose proof (step_nofile w w op Ef) as Hp. rewrite Es in Hp. destruct Hp as [-> _]. reflexivity. }
      destruct (IH w' wi r' Hw' Er) as [ri' [Hri [Ho Hf]]].
      exists ri'. repeat split; [exact Hri| |exact Hf].
      rewrite Ho. unfold obs_of. cbn [filter]. unfold tag_is at 2. cbn [fst].
      unfold on_file in Eo. destruct (op_file op); [rewrite Eo|]; reflexivity.
Qed.

Lemma filter_idem {A} (p : A -> bool) l : filter p (filter p l) = filter p l.
Proof.
  induction l as [|x l IH]; [reflexivity|]. cbn [filter]. destruct (p x) eqn:E; [|exact IH].
  cbn [filter]. rewrite E, IH. reflexivity.
Qed.

(* a history that only touches File j runs equally well from any world that agrees on j *)
Lemma run_local_ok j ops w w2 :
  wget w j = wget w2 j -> run_tagged w (filter (on_file j) ops) <> None ->
  run_tagged w2 (filter (on_file j) ops) <> None.
Proof.
  intros Hw Hr. destruct (run_tagged w (filter (on_file j) ops)) as [r|] eqn:E; [|contradiction].
  destruct (run_frame j _ w w2 r Hw E) as [ri [Hri _]]. rewrite filter_idem in Hri. rewrite Hri. discriminate.
Qed.

(* If every per-File sub-history runs and every File-less operation is accepted, the whole
   history runs. *)
Lemma run_compose : forall ops w,
  (forall op, In op ops -> op_file op = None -> step [] op <> None) ->
  (forall j, run_tagged w (filter (on_file j) ops) <> None) ->
  run_tagged w ops <> None.
Proof.
  induction ops as [|op ops IH]; intros w Hn Hj; [discriminate|].
  cbn [run_tagged].
  assert (Hn' : forall op', In op' ops -> op_file op' = None -> step [] op' <> None).
  { intros op' Hin. apply Hn. right. exact Hin. }
  destruct (op_file op) as [i|] eqn:Ef.
  - pose proof (Hj i) as Hi. cbn [filter] in Hi.
    assert (Eo : on_file i op = true) by (apply on_file_true; exact Ef).
    rewrite Eo in Hi. cbn [run_tagged] in Hi.
    destruct (step w op) as [[w' obs]|] eqn:Es; [|contradiction].
    assert (Hok : run_tagged w' ops <> None).
    { apply IH; [exact Hn'|]. intros j. destruct (N.eq_dec j i) as [->|Hne].
      - destruct (run_tagged w' (filter (on_file i) ops)); [discriminate | contradiction].
      - apply (run_local_ok j ops w w').
        + pose proof (step_frame i w op Ef) as Hfr. rewrite Es in Hfr. symmetry. apply Hfr. exact Hne.
        + specialize (Hj j). cbn [filter] in Hj.
          replace (on_file j op) with false in Hj; [exact Hj|].
          unfold on_file. rewrite Ef. symmetry. apply N.eqb_neq. intros ->. contradiction. }
    destruct (run_tagged w' ops); [discriminate | contradiction].
  - pose proof (step_nofile w [] op Ef) as Hp.
    specialize (Hn op (or_introl eq_refl) Ef).
    destruct (step [] op) as [[w0 o0]|]; [|contradiction].
    destruct (step w op) as [[w' obs]|]; [|contradiction].
    destruct Hp as [-> _].
    assert (Hok : run_tagged w ops <> None).
    { apply IH; [exact Hn'|]. intros j. specialize (Hj j). cbn [filter] in Hj.
      unfold on_file in Hj at 1. rewrite Ef in Hj. exact Hj. }
    destruct (run_tagged w ops); [discriminate | contradiction].
Qed.

Lemma run_nofile_ok : forall ops w r, run_tagged w ops = Some r ->
  forall op, In op ops -> op_file op = None -> step [] op <> None.
Proof.
  induction ops as [|op ops IH]; intros w r Hr op' Hin Ef; [contradiction|].
  cbn [run_tagged] in Hr. destruct (step w op) as [[w' obs]|] eqn:Es; [|discriminate Hr].
  destruct (run_tagged w' ops) as [r'|] eqn:Er; [|discriminate Hr].
  destruct Hin as [->|Hin].
  - pose proof (step_nofile w [] op' Ef) as Hp. rewrite Es in Hp.
    destruct (step [] op'); [discriminate | contradiction].
  - exact (IH w' r' Er op' Hin Ef).
Qed.

(* Two histories with the same per-File sub-histories (and the same File-less operations)
   give every File the same observations and the same final state. *)
Lemma run_same_projections ops1 ops2 w r1 :
  (forall i, filter (on_file i) ops1 = filter (on_file i) ops2) ->
  (forall op, In op ops2 -> op_file op = None -> In op ops1) ->
  run_tagged w ops1 = Some r1 ->
  exists r2, run_tagged w ops2 = Some r2 /\
             forall i, obs_of i (snd r1) = obs_of i (snd r2) /\ wget (fst r1) i = wget (fst r2) i.
Proof.
  intros Hp Hn Hr.
  assert (Hok : run_tagged w ops2 <> None).
  { apply run_compose.
    - intros op Hin Ef. exact (run_nofile_ok ops1 w r1 Hr op (Hn op Hin Ef) Ef).
    - intros j. rewrite <- Hp. destruct (run_frame j ops1 w w r1 eq_refl Hr) as [ri [Hri _]].
      rewrite Hri. discriminate. }
  destruct (run_tagged w ops2) as [r2|] eqn:Er2; [|contradiction].
  exists r2. split; [reflexivity|]. intros i.
  destruct (run_frame i ops1 w w r1 eq_refl Hr) as [ri1 [Hri1 [Ho1 Hf1]]].
  destruct (run_frame i ops2 w w r2 eq_refl Er2) as [ri2 [Hri2 [Ho2 Hf2]]].
  rewrite Hp in Hri1. rewrite Hri1 in Hri2. injection Hri2 as <-.
  split; congruence.
Qed.

(* ---- interleavings ---- *)
Inductive merge {A} : list A -> list A -> list A -> Prop :=
| merge_nil : merge [] [] []
| merge_l x a b l : merge a b l -> merge (x :: a) b (x :: l)
| merge_r x a b l : merge a b l -> merge a (x :: b) (x :: l).

Lemma merge_filter_l {A} (p : A -> bool) a b l :
  merge a b l -> (forall y, In y b -> p y = false) -> filter p l = filter p a.
Proof.
  induction 1 as [|x a b l Hm IH|x a b l Hm IH]; intros Hb; [reflexivity| |].
  - cbn [filter]. rewrite (IH Hb). reflexivity.
  - cbn [filter]. rewrite (Hb x (or_introl eq_refl)). apply IH. intros y Hy. apply Hb. right. exact Hy.
Qed.

Lemma merge_sym {A} (a b l : list A) : merge a b l -> merge b a l.
Proof. induction 1; constructor; assumption. Qed.

Lemma merge_In {A} (a b l : list A) x : merge a b l -> (In x l <-> In x a \/ In x b).
Proof.
  induction 1 as [|y a b l Hm IH|y a b l Hm IH]; cbn [In]; [tauto| |]; rewrite IH; tauto.
Qed.

Lemma merge_app {A} (a b : list A) : merge a b (a ++ b).
Proof.
  induction a as [|x a IH]; cbn [app].
  - induction b as [|y b IHb]; constructor; exact IHb.
  - constructor. exact IH.
Qed.

Definition files_disjoint (a b : list sexp) : Prop :=
  forall x y i, In x a -> In y b -> op_file x = Some i -> op_file y = Some i -> False.

Lemma merge_same_projection a b l1 l2 i :
  files_disjoint a b -> merge a b l1 -> merge a b l2 ->
  filter (on_file i) l1 = filter (on_file i) l2.
Proof.
  intros Hd H1 H2.
  destruct (existsb (on_file i) b) eqn:Eb.
  - apply existsb_exists in Eb. destruct Eb as [y [Hy Ey]]. apply on_file_true in Ey.
    assert (Ha : forall x, In x a -> on_file i x = false).
    { intros x Hx. destruct (on_file i x) eqn:Ex; [|reflexivity].
      apply on_file_true in Ex. exfalso. exact (Hd x y i Hx Hy Ex Ey). }
    rewrite (merge_filter_l _ _ _ _ (merge_sym _ _ _ H1) Ha).
    rewrite (merge_filter_l _ _ _ _ (merge_sym _ _ _ H2) Ha). reflexivity.
  - assert (Hb : forall y, In y b -> on_file i y = false).
    { intros y Hy. destruct (on_file i y) eqn:Ey; [|reflexivity].
      assert (existsb (on_file i) b = true) by (apply existsb_exists; exists y; split; assumption).
      congruence. }
    rewrite (merge_filter_l _ _ _ _ H1 Hb), (merge_filter_l _ _ _ _ H2 Hb). reflexivity.
Qed.

Lemma run_interleave a b l1 l2 w r1 :
  files_disjoint a b -> merge a b l1 -> merge a b l2 ->
  run_tagged w l1 = Some r1 ->
  exists r2, run_tagged w l2 = Some r2 /\
             forall i, obs_of i (snd r1) = obs_of i (snd r2) /\ wget (fst r1) i = wget (fst r2) i.
Proof.
  intros Hd H1 H2 Hr. apply (run_same_projections l1 l2 w r1); [| |exact Hr].
  - intros i. exact (merge_same_projection a b l1 l2 i Hd H1 H2).
  - intros op Hin _. apply (merge_In _ _ _ op H1). apply (merge_In _ _ _ op H2). exact Hin.
Qed.

(* the frame property from the empty world, in terms of the model's own [run_ops] *)
Lemma frame_run_ops ops w r i :
  run_tagged w ops = Some r ->
  run_ops w (filter (on_file i) ops) = Some (obs_of i (snd r)).
Proof.
  intros Hr. destruct (run_frame i ops w w r eq_refl Hr) as [ri [Hri [Ho _]]].
  rewrite run_ops_tagged, Hri. cbn [omap option_map]. rewrite Ho. reflexivity.
Qed.

Lemma run_tagged_total ops w : run_ops w ops <> None <-> run_tagged w ops <> None.
Proof. rewrite run_ops_tagged. destruct (run_tagged w ops); cbn; split; intros H; first [exact H | discriminate | contradiction]. Qed.

(* a checkable form of files_disjoint *)
Definition files_disjointb (a b : list sexp) : bool :=
  forallb (fun x => forallb (fun y =>
    match op_file x, op_file y with Some i, Some j => negb (i =? j) | _, _ => true end) b) a.

Lemma files_disjointb_ok a b : files_disjointb a b = true -> files_disjoint a b.
Proof.
  intros H x y i Hx Hy Ex Ey. unfold files_disjointb in H.
  rewrite forallb_forall in H. specialize (H x Hx). rewrite forallb_forall in H. specialize (H y Hy).
  rewrite Ex, Ey, N.eqb_refl in H. discriminate H.
Qed.

(* ---- a tree shared by two Files ---- *)
Definition op_rcode (fe sc swf : sexp) : sexp := SList [Atom (S "rcode"); fe; sc; swf].

Lemma step_rcode w i f fe sc swf c wf :
  atom_N fe = Some i -> wget w i = Some f -> dcode sc = Some c -> atom_bool swf = Some wf ->
  step w (op_rcode fe sc swf) =
  Some (wset w i (fst (code_render_with_file id_fmt (fun _ => wf) c f)),
        [print_outcome false (snd (code_render_with_file id_fmt (fun _ => wf) c f))]).
Proof.
  intros Hi Hf Hc Hwf. unfold op_rcode, step.
  repeat match goal with
  | |- context [str_eqb (S ?a) (S ?b)] =>
    let v := eval vm_compute in (str_eqb (S a) (S b)) in change (str_eqb (S a) (S b)) with v; cbv iota
  end.
  unfold with_file, obind. rewrite Hi, Hf, Hc, Hwf. reflexivity.
Qed.

Lemma op_file_rcode fe sc swf : op_file (op_rcode fe sc swf) = atom_N fe.
Proof. reflexivity. Qed.

(* The same tree rendered with File A and then with File B (A <> B): each render is the
   function [code_render_with_file] of the tree and of THAT File's state before the history;
   nothing of A's render reaches B's. *)
Lemma shared_code_two_files w A B fA fB feA feB sc c swA swB wfA wfB :
  A <> B -> atom_N feA = Some A -> atom_N feB = Some B ->
  wget w A = Some fA -> wget w B = Some fB ->
  dcode sc = Some c -> atom_bool swA = Some wfA -> atom_bool swB = Some wfB ->
  exists r, run_tagged w [op_rcode feA sc swA; op_rcode feB sc swB] = Some r /\
    obs_of A (snd r) = [print_outcome false (snd (code_render_with_file id_fmt (fun _ => wfA) c fA))] /\
    obs_of B (snd r) = [print_outcome false (snd (code_render_with_file id_fmt (fun _ => wfB) c fB))] /\
    wget (fst r) A = Some (fst (code_render_with_file id_fmt (fun _ => wfA) c fA)) /\
    wget (fst r) B = Some (fst (code_render_with_file id_fmt (fun _ => wfB) c fB)).
Proof.
  intros Hne HA HB HfA HfB Hc HwA HwB.
  cbn [run_tagged]. rewrite (step_rcode w A fA feA sc swA c wfA HA HfA Hc HwA).
  set (rA := code_render_with_file id_fmt (fun _ => wfA) c fA).
  assert (HfB' : wget (wset w A (fst rA)) B = Some fB).
  { rewrite wget_wset_other; [exact HfB | intros ->; apply Hne; reflexivity]. }
  rewrite (step_rcode _ B fB feB sc swB c wfB HB HfB' Hc HwB).
  set (rB := code_render_with_file id_fmt (fun _ => wfB) c fB).
  eexists. split; [reflexivity|]. cbn [omap option_map fst snd].
  rewrite !op_file_rcode, HA, HB.
  unfold obs_of. cbn [filter tag_is fst snd]. rewrite !N.eqb_refl.
  assert (EAB : (A =? B) = false) by (apply N.eqb_neq; exact Hne).
  assert (EBA : (B =? A) = false) by (apply N.eqb_neq; intros ->; apply Hne; reflexivity).
  rewrite EAB, EBA. cbn [flat_map snd app].
  repeat split.
  - rewrite wget_wset_other; [apply wget_wset_same | exact Hne].
  - apply wget_wset_same.
Qed.

(* The text a tree renders to with a File depends on that File's path, prefix, hints and
   import table only. *)
Lemma render_with_file_own_settings fmt wf c f1 f2 :
  file_cfg f1 = file_cfg f2 -> f_imports f1 = f_imports f2 ->
  snd (code_render_with_file fmt wf c f1) = snd (code_render_with_file fmt wf c f2) /\
  f_imports (fst (code_render_with_file fmt wf c f1)) = f_imports (fst (code_render_with_file fmt wf c f2)).
Proof.
  intros Hc Hi. unfold code_render_with_file. rewrite Hc, Hi.
  destruct (render (file_cfg f2) false (f_imports f2) c) as [[t raw]|m]; cbn [fst snd]; split; try reflexivity.
  exact Hi.
Qed.
