(* Lexer-level adjacency statements over the skeleton lexer of GoStd/Skeleton.v:
   - the cgo preamble block: the comment regions, single newlines between them, and exactly
     one newline before `import "C"` (C19);
   - a quoted string / rune literal is ONE region in any code context (C12). *)
From Coq Require Import List Bool Lia.
From Jen Require Import Base.Bytes Base.Utf8 GoStd.Quote GoStd.IsPrint GoStd.Skeleton.
From Jen Require Import Model.Code Model.Naming Model.Render Model.FileRender.
From Jen Require Import Proofs.QuoteProofs Proofs.LitProofs Proofs.CommentProofs Proofs.ImportsProofs.
Import ListNotations.
Open Scope bool_scope.

(* ================================================================== C19 *)

(* raw forms (jennifer writes them verbatim): a `//` comment without a newline in it, a
   `/* .. */` comment whose only terminator is its last two bytes *)
Definition raw_line (t : str) : Prop :=
  exists r, t = [x2f; x2f] ++ r /\ contains_byte x0a r = false.
Definition raw_block (t : str) : Prop :=
  exists b, t = [x2f; x2a] ++ b ++ [x2a; x2f] /\ contains s_close b = false.
Definition preamble_domain (t : str) : Prop := in_domain t \/ raw_line t \/ raw_block t.

(* the kind of comment a text is rendered as *)
Definition preamble_kind (t : str) : kind :=
  if has_prefix (S "//") t then KLine
  else if has_prefix (S "/*") t then KBlock
  else comment_kind t.

Lemma block_scan0 b : contains s_close b = false ->
  forall m acc, block_ok m b ->
    lex_run m acc (b ++ [x2a; x2f]) = ([(KBlock, rev acc ++ b ++ [x2a; x2f])], MCode, []).
Proof.
  induction b as [|c b IH]; intros H m acc Hok.
  - destruct Hok as [-> | [-> _]]; cbn; rewrite <- !app_assoc; reflexivity.
  - rewrite contains_cons in H. apply orb_false_iff in H. destruct H as [Hp Hc].
    unfold s_close in Hp. cbn [has_prefix] in Hp.
    cbn [app lex_run].
    destruct (beq_spec c x2a) as [-> | Hs].
    + rewrite beq_refl in Hp. cbn [andb] in Hp.
      assert (Hnext : has_prefix [x2f] b = false).
      { destruct b as [|d b']; [reflexivity|]. cbn [has_prefix] in Hp |- *. exact Hp. }
      assert (Hstep : lex_step m acc x2a = ([], MBlockStar, x2a :: acc)).
      { destruct Hok as [-> | [-> _]]; reflexivity. }
      rewrite Hstep. rewrite IH; [|exact Hc | right; split; [reflexivity | exact Hnext]].
      cbn [app]. rewrite rev_cons_app, <- app_assoc. reflexivity.
    + assert (Hstep : lex_step m acc c = ([], MBlock, c :: acc)).
      { apply beq_neq in Hs. destruct Hok as [-> | [-> Hn]]; cbn [lex_step]; unfold c_star, c_slash.
        - rewrite Hs. reflexivity.
        - cbn [has_prefix] in Hn. rewrite andb_true_r in Hn. rewrite (beq_sym c x2f), Hn, Hs. reflexivity. }
      rewrite Hstep. rewrite IH; [|exact Hc | left; reflexivity].
      cbn [app]. rewrite rev_cons_app, <- app_assoc. reflexivity.
Qed.

Lemma run_open_line2 acc : lex_run MCode acc [x2f; x2f] = (flush KCode acc, MLine, [x2f; x2f]).
Proof. destruct acc; reflexivity. Qed.

Lemma raw_line_text t : raw_line t -> comment_text t = t /\ preamble_kind t = KLine.
Proof.
  intros (r & -> & _). unfold comment_text, preamble_kind.
  change (has_prefix (S "//") ([x2f; x2f] ++ r)) with true. split; reflexivity.
Qed.
Lemma raw_block_text t : raw_block t -> comment_text t = t /\ preamble_kind t = KBlock.
Proof.
  intros (b & -> & _). unfold comment_text, preamble_kind.
  change (has_prefix (S "/*") ([x2f; x2a] ++ b ++ [x2a; x2f])) with true.
  change (has_prefix (S "//") ([x2f; x2a] ++ b ++ [x2a; x2f])) with false.
  split; reflexivity.
Qed.
Lemma in_domain_kind t : in_domain t -> preamble_kind t = comment_kind t.
Proof. intros [[H1 H2] _]. unfold preamble_kind. rewrite H1, H2. reflexivity. Qed.

(* one preamble comment followed by its newline, from code: one comment region; the newline is
   the code that follows *)
Lemma run_preamble_comment t acc : preamble_domain t ->
  lex_run MCode acc (comment_text t ++ [x0a])
  = (flush KCode acc ++ [(preamble_kind t, comment_text t)], MCode, [x0a]).
Proof.
  intros [Hd | [Hl | Hb]].
  - rewrite in_domain_kind by exact Hd. apply run_comment_then_newline. exact Hd.
  - destruct (raw_line_text t Hl) as [-> ->]. destruct Hl as (r & -> & Hr).
    rewrite <- app_assoc. rewrite lex_run_app, run_open_line2.
    rewrite lex_run_app, run_line by exact Hr. rewrite run_nl_line.
    rewrite rev_app_distr, rev_involutive. cbn [app rev]. reflexivity.
  - destruct (raw_block_text t Hb) as [-> ->]. destruct Hb as (b & -> & Hc).
    rewrite <- app_assoc. rewrite lex_run_app, run_open_block.
    rewrite lex_run_app, block_scan0; [|exact Hc | left; reflexivity].
    rewrite run_nl_code. cbn [rev app]. reflexivity.
Qed.

(* the regions of the comments after the first: a newline (code) and the comment *)
Definition following_regions (cs : list str) : list region :=
  flat_map (fun c => [(KCode, [x0a]); (preamble_kind c, comment_text c)]) cs.

Lemma run_preamble_lines cs : Forall preamble_domain cs -> forall c0 acc, preamble_domain c0 ->
  lex_run MCode acc (comment_lines (c0 :: cs))
  = (flush KCode acc ++ (preamble_kind c0, comment_text c0) :: following_regions cs, MCode, [x0a]).
Proof.
  induction cs as [|c cs IH]; intros Hd c0 acc H0.
  - unfold comment_lines. cbn [map concat_str]. rewrite app_nil_r.
    rewrite run_preamble_comment by exact H0. reflexivity.
  - inversion Hd as [|? ? Hc Hcs]; subst.
    change (comment_lines (c0 :: c :: cs)) with ((comment_text c0 ++ [x0a]) ++ comment_lines (c :: cs)).
    rewrite lex_run_app, run_preamble_comment by exact H0.
    rewrite (IH Hcs c [x0a] Hc). cbn [flush rev app following_regions flat_map].
    rewrite <- app_assoc. reflexivity.
Qed.

Definition import_C : str := S "import " ++ [c_dq] ++ S "C" ++ [c_dq].

Lemma preamble_block_layout cgo : preamble_block cgo = comment_lines cgo ++ import_C ++ [x0a; x0a].
Proof. unfold preamble_block, comment_lines, import_C. rewrite <- !app_assoc. reflexivity. Qed.

Lemma run_import_C : lex_run MCode [x0a] (import_C ++ [x0a; x0a])
  = ([(KCode, x0a :: S "import "); (KStr, [c_dq] ++ S "C" ++ [c_dq])], MCode, [x0a; x0a]).
Proof. vm_compute. reflexivity. Qed.

(* C19_preamble_is_doc *)
Theorem preamble_is_doc c0 cs acc :
  Forall preamble_domain (c0 :: cs) ->
  lex_run MCode acc (preamble_block (c0 :: cs))
  = (flush KCode acc ++ (preamble_kind c0, comment_text c0) :: following_regions cs ++
     [(KCode, x0a :: S "import "); (KStr, [c_dq] ++ S "C" ++ [c_dq])],
     MCode, [x0a; x0a]).
Proof.
  intros Hd. inversion Hd as [|? ? H0 Hcs]; subst.
  rewrite preamble_block_layout, lex_run_app, run_preamble_lines by assumption.
  rewrite run_import_C. rewrite <- app_assoc. reflexivity.
Qed.

(* what is excluded, and why: a raw `//` form that ends in a newline leaves an EMPTY line
   between the comment and the import - the comment is no longer the import's doc comment
   (cgo ignores it) ... *)
Lemma raw_trailing_newline_detached :
  let t := S "//#include <a.h>" ++ [x0a] in
  ~ preamble_domain t /\
  lex_run MCode [] (preamble_block [t])
  = ([(KLine, S "//#include <a.h>"); (KCode, [x0a; x0a] ++ S "import "); (KStr, [c_dq] ++ S "C" ++ [c_dq])],
     MCode, [x0a; x0a]).
Proof.
  cbv zeta. split; [|vm_compute; reflexivity].
  intros [[[H _] _] | [(r & E & Hr) | (b & E & _)]].
  - vm_compute in H. discriminate.
  - cbn in E. injection E as <-. vm_compute in Hr. discriminate.
  - cbn in E. discriminate.
Qed.

(* ... a raw `//` form with an inner newline puts its second line into CODE ... *)
Lemma raw_inner_newline_leaks :
  let t := S "//a" ++ [x0a] ++ S "b" in
  ~ preamble_domain t /\
  lex_run MCode [] (preamble_block [t])
  = ([(KLine, S "//a"); (KCode, [x0a] ++ S "b" ++ [x0a] ++ S "import "); (KStr, [c_dq] ++ S "C" ++ [c_dq])],
     MCode, [x0a; x0a]).
Proof.
  cbv zeta. split; [|vm_compute; reflexivity].
  intros [[[H _] _] | [(r & E & Hr) | (b & E & _)]].
  - vm_compute in H. discriminate.
  - cbn in E. injection E as <-. vm_compute in Hr. discriminate.
  - cbn in E. discriminate.
Qed.

(* ... and a text containing the block terminator ends its comment early. *)
Lemma inner_terminator_leaks :
  let t := S "a*/b" ++ [x0a] ++ S "c" in
  ~ preamble_domain t /\
  lex_run MCode [] (preamble_block [t])
  = ([(KBlock, S "/*" ++ [x0a] ++ S "a*/"); (KCode, S "b" ++ [x0a] ++ S "c" ++ [x0a] ++ S "*/" ++ [x0a] ++ S "import ");
      (KStr, [c_dq] ++ S "C" ++ [c_dq])], MCode, [x0a; x0a]).
Proof.
  cbv zeta. split; [|vm_compute; reflexivity].
  intros [[_ H] | [(r & E & Hr) | (b & E & _)]].
  - vm_compute in H. discriminate.
  - cbn in E. discriminate.
  - cbn in E. discriminate.
Qed.

(* a one-line text that ENDS in a newline is in the domain: it is rendered in block style
   and stays adjacent *)
Lemma one_line_trailing_newline_in_domain t :
  contains_byte x0a t = false -> has_prefix (S "//") t = false -> has_prefix (S "/*") t = false ->
  contains (S "*/") (t ++ [x0a]) = false ->
  in_domain (t ++ [x0a]) /\
  comment_text (t ++ [x0a]) = S "/*" ++ [x0a] ++ t ++ [x0a] ++ S "*/" /\
  preamble_kind (t ++ [x0a]) = KBlock.
Proof.
  intros Hn H1 H2 Hc.
  assert (Hp1 : has_prefix (S "//") (t ++ [x0a]) = false).
  { destruct t as [|a [|b t]]; cbn in H1 |- *; try reflexivity; try exact H1;
      try (destruct (beq x2f a); reflexivity). }
  assert (Hp2 : has_prefix (S "/*") (t ++ [x0a]) = false).
  { destruct t as [|a [|b t]]; cbn in H2 |- *; try reflexivity; try exact H2;
      try (destruct (beq x2f a); reflexivity). }
  assert (Hnl : contains_byte x0a (t ++ [x0a]) = true).
  { rewrite contains_byte_app. cbn. apply orb_true_r. }
  assert (Hs : has_suffix [x0a] (t ++ [x0a]) = true).
  { unfold has_suffix. rewrite rev_app_distr. reflexivity. }
  split; [split; [split|]; assumption|]. split.
  - unfold comment_text. rewrite Hp1, Hp2, Hnl, Hs. cbn [orb app]. rewrite <- !app_assoc. reflexivity.
  - unfold preamble_kind, comment_kind. rewrite Hp1, Hp2, Hnl. reflexivity.
Qed.

(* ================================================================== C12 *)

(* the skeleton lexer's reading of an interpreted literal delimited by q, as a function:
   (bytes before the closing quote, text after it) *)
Fixpoint skel_scan (q : byte) (esc : bool) (s : str) : option (str * str) :=
  match s with
  | [] => None
  | c :: t =>
    if esc then (if beq c c_nl then None else prepend [c] (skel_scan q false t))
    else if beq c q then Some ([], t)
    else if beq c c_nl then None
    else if beq c c_bs then prepend [c] (skel_scan q true t)
    else prepend [c] (skel_scan q false t)
  end.

Definition qmode (q : byte) (esc : bool) : mode :=
  if beq q c_dq then (if esc then MStrEsc else MStr) else (if esc then MRuneEsc else MRune).
Definition qkind (q : byte) : kind := if beq q c_dq then KStr else KRune.

Lemma qstep_plain q acc c : is_quote q -> beq c q = false -> beq c c_nl = false -> beq c c_bs = false ->
  lex_step (qmode q false) acc c = ([], qmode q false, c :: acc).
Proof.
  intros [-> | ->] H1 H2 H3; [change (qmode c_dq false) with MStr | change (qmode c_sq false) with MRune];
    cbn [lex_step]; unfold quoted_step; rewrite H1, H2, H3; reflexivity.
Qed.
Lemma qstep_bs q acc : is_quote q ->
  lex_step (qmode q false) acc c_bs = ([], qmode q true, c_bs :: acc).
Proof. intros [-> | ->]; reflexivity. Qed.
Lemma qstep_esc q acc c : is_quote q -> beq c c_nl = false ->
  lex_step (qmode q true) acc c = ([], qmode q false, c :: acc).
Proof.
  intros [-> | ->] H; [change (qmode c_dq true) with MStrEsc; change (qmode c_dq false) with MStr
                      | change (qmode c_sq true) with MRuneEsc; change (qmode c_sq false) with MRune];
    cbn [lex_step]; unfold esc_step; rewrite H; reflexivity.
Qed.
Lemma qstep_close q acc : is_quote q ->
  lex_step (qmode q false) acc q = ([(qkind q, rev (q :: acc))], MCode, []).
Proof. intros [-> | ->]; reflexivity. Qed.

Lemma skel_scan_lex q : is_quote q -> forall s esc b r,
  skel_scan q esc s = Some (b, r) ->
  s = b ++ q :: r /\
  forall acc, lex_run (qmode q esc) acc (b ++ [q]) = ([(qkind q, rev acc ++ b ++ [q])], MCode, []).
Proof.
  intros Hq. induction s as [|c t IH]; intros esc b r H; [discriminate|].
  cbn [skel_scan] in H. destruct esc.
  - destruct (beq c c_nl) eqn:En; [discriminate|].
    destruct (skel_scan q false t) as [[b' r']|] eqn:Et; [|discriminate].
    cbn [prepend] in H. injection H as <- <-. destruct (IH false b' r' Et) as [-> Hrun].
    split; [reflexivity|]. intros acc. cbn [app lex_run]. rewrite qstep_esc by assumption.
    rewrite Hrun. cbn [rev app]. rewrite <- app_assoc. reflexivity.
  - destruct (beq c q) eqn:Eq.
    { apply beq_eq in Eq. subst c. injection H as <- <-. split; [reflexivity|].
      intros acc. cbn [app lex_run]. rewrite qstep_close by exact Hq. cbn [rev app]. reflexivity. }
    destruct (beq c c_nl) eqn:En; [discriminate|].
    destruct (beq c c_bs) eqn:Eb.
    + apply beq_eq in Eb. subst c.
      destruct (skel_scan q true t) as [[b' r']|] eqn:Et; [|discriminate].
      cbn [prepend] in H. injection H as <- <-. destruct (IH true b' r' Et) as [-> Hrun].
      split; [reflexivity|]. intros acc. cbn [app lex_run]. rewrite qstep_bs by exact Hq.
      rewrite Hrun. cbn [rev app]. rewrite <- app_assoc. reflexivity.
    + destruct (skel_scan q false t) as [[b' r']|] eqn:Et; [|discriminate].
      cbn [prepend] in H. injection H as <- <-. destruct (IH false b' r' Et) as [-> Hrun].
      split; [reflexivity|]. intros acc. cbn [app lex_run]. rewrite qstep_plain by assumption.
      rewrite Hrun. cbn [rev app]. rewrite <- app_assoc. reflexivity.
Qed.

Lemma skel_scan_plain q p X : Forall (plain q) p ->
  skel_scan q false (p ++ X) = prepend p (skel_scan q false X).
Proof.
  induction 1 as [|c p (H1 & H2 & H3) Hp IH]; [symmetry; apply prepend_nil|].
  cbn [app skel_scan]. apply beq_neq in H1, H2, H3. rewrite H1, H3, H2. rewrite IH.
  apply (prepend_prepend [c] p).
Qed.

Lemma skel_scan_chunk q c X : is_quote q -> chunk_ok q c ->
  skel_scan q false (c ++ X) = prepend c (skel_scan q false X).
Proof.
  intros Hq [p Hp | e tail He Ht]; [apply skel_scan_plain; exact Hp|].
  cbn [app skel_scan].
  assert (Eq : beq c_bs q = false) by (destruct Hq as [-> | ->]; reflexivity).
  rewrite Eq. change (beq c_bs c_nl) with false. change (beq c_bs c_bs) with true. cbv iota.
  apply beq_neq in He. rewrite He. rewrite skel_scan_plain by exact Ht.
  rewrite !prepend_prepend. reflexivity.
Qed.

Lemma skel_scan_quote_body q fuel s rest : is_quote q ->
  skel_scan q false (quote_body go_is_print (b2n q) fuel s ++ q :: rest)
  = Some (quote_body go_is_print (b2n q) fuel s, rest).
Proof.
  intros Hq.
  rewrite (consumer_quote_body go_is_print go_is_print_10 q Hq (skel_scan q false)
             (fun c X Hc => skel_scan_chunk q c X Hq Hc)).
  cbn [skel_scan]. rewrite beq_refl. cbn [prepend]. rewrite app_nil_r. reflexivity.
Qed.

(* a quoted string from code: the pending code is flushed, the literal is one KStr region,
   and the lexer is back in code with nothing pending *)
Lemma run_GoQuote s acc :
  lex_run MCode acc (GoQuote s) = (flush KCode acc ++ [(KStr, GoQuote s)], MCode, []).
Proof.
  unfold GoQuote, Quote, quote_with. cbn [lex_run lex_step].
  change (code_step acc c_dq) with (flush KCode acc, MStr, [c_dq]).
  destruct (skel_scan_lex c_dq (or_introl eq_refl) _ false _ _
              (skel_scan_quote_body c_dq (length s) s [] (or_introl eq_refl))) as [_ Hrun].
  change (qmode c_dq false) with MStr in Hrun. rewrite (Hrun [c_dq]). reflexivity.
Qed.

Lemma run_GoQuoteRune r acc :
  lex_run MCode acc (GoQuoteRune r) = (flush KCode acc ++ [(KRune, GoQuoteRune r)], MCode, []).
Proof.
  unfold GoQuoteRune, QuoteRune. set (r' := if valid_rune r then r else rune_error).
  cbn [lex_run lex_step]. change (code_step acc c_sq) with (flush KCode acc, MRune, [c_sq]).
  assert (Hs : skel_scan c_sq false (escaped_rune go_is_print (b2n c_sq) r' ++ c_sq :: [])
               = Some (escaped_rune go_is_print (b2n c_sq) r', [])).
  { rewrite skel_scan_chunk; [|right; reflexivity|
      apply (escaped_rune_ok go_is_print go_is_print_10); right; reflexivity].
    cbn [skel_scan]. rewrite beq_refl. cbn [prepend]. rewrite app_nil_r. reflexivity. }
  destruct (skel_scan_lex c_sq (or_intror eq_refl) _ false _ _ Hs) as [_ Hrun].
  change (qmode c_sq false) with MRune in Hrun. rewrite (Hrun [c_sq]). reflexivity.
Qed.

(* C12_string_in_context: in ANY context that leaves the lexer in code, the literal is one
   region at that position and the lexer continues in code, with nothing pending, at rest *)
Theorem string_in_context pre s rest : ends_in_code pre ->
  exists o acc, lex_run MCode [] pre = (o, MCode, acc) /\
    skel (pre ++ GoQuote s ++ rest) = o ++ flush KCode acc ++ (KStr, GoQuote s) :: skel rest /\
    lex_run MCode [] (pre ++ GoQuote s) = (o ++ flush KCode acc ++ [(KStr, GoQuote s)], MCode, []).
Proof.
  intros (o & acc & Hr). exists o, acc. split; [exact Hr|]. unfold skel. split.
  - rewrite lex_app, Hr. rewrite (lex_of_run _ _ _ _ _ _ _ (run_GoQuote s acc)).
    rewrite <- app_assoc. reflexivity.
  - rewrite lex_run_app, Hr, run_GoQuote. rewrite app_assoc. reflexivity.
Qed.

Theorem rune_in_context pre r rest : ends_in_code pre ->
  exists o acc, lex_run MCode [] pre = (o, MCode, acc) /\
    skel (pre ++ GoQuoteRune r ++ rest) = o ++ flush KCode acc ++ (KRune, GoQuoteRune r) :: skel rest /\
    lex_run MCode [] (pre ++ GoQuoteRune r) = (o ++ flush KCode acc ++ [(KRune, GoQuoteRune r)], MCode, []).
Proof.
  intros (o & acc & Hr). exists o, acc. split; [exact Hr|]. unfold skel. split.
  - rewrite lex_app, Hr. rewrite (lex_of_run _ _ _ _ _ _ _ (run_GoQuoteRune r acc)).
    rewrite <- app_assoc. reflexivity.
  - rewrite lex_run_app, Hr, run_GoQuoteRune. rewrite app_assoc. reflexivity.
Qed.

(* the hypothesis can fail, and then the claim does: inside a comment or a raw string the
   same bytes are not a string token *)
Lemma string_not_in_code_context :
  ~ ends_in_code (S "// ") /\ ~ ends_in_code [c_bq] /\
  skel (S "// " ++ GoQuote (S "a") ++ [x0a]) = [(KLine, S "// " ++ GoQuote (S "a")); (KCode, [x0a])].
Proof.
  split; [|split]; [| |vm_compute; reflexivity];
    intros (o & acc & H); vm_compute in H; discriminate.
Qed.
