(* Lexer-level adjacency statements over the skeleton lexer of GoStd/Skeleton.v:
   - the cgo preamble block: the comment regions, single newlines between them, and exactly
     one newline before `import "C"` (C19);
   - a quoted string / rune literal is ONE region in any code context (C12). *)
From Coq Require Import List Bool Lia.
From Jen Require Import Base.Bytes Base.Utf8 GoStd.Quote GoStd.IsPrint GoStd.Skeleton.
From Jen Require Import Model.Code Model.Naming Model.Render Model.FileRender.
From Jen Require Import Proofs.QuoteProofs Proofs.LitProofs Proofs.CommentProofs Proofs.ImportsProofs.
Import ListNotations.
Open Scope bool_scope.

(* ================================================================== C19 *)

(* ---- trim_raw_preamble (Model/FileRender.v): strings.TrimRight(c, "\n") on raw blocks ---- *)

Lemma trim_right_nl_nls n : trim_right_nl (repeat x0a n) = [].
Proof. induction n as [|n IH]; [reflexivity|]. cbn [repeat trim_right_nl]. rewrite IH. reflexivity. Qed.

Lemma trim_right_nl_app_nls u n : trim_right_nl (u ++ repeat x0a n) = trim_right_nl u.
Proof.
  induction u as [|c u IH]; [apply trim_right_nl_nls|].
  cbn [app trim_right_nl]. rewrite IH. reflexivity.
Qed.

(* the result is a prefix; what is cut off is newlines only *)
Lemma trim_right_nl_split s : exists n, s = trim_right_nl s ++ repeat x0a n.
Proof.
  induction s as [|c r [n IH]]; [exists 0%nat; reflexivity|].
  cbn [trim_right_nl]. destruct (trim_right_nl r) as [|d r'] eqn:E.
  - destruct (beq_spec c x0a) as [-> | Hne].
    + exists (Datatypes.S n). cbn [app repeat]. f_equal. exact IH.
    + exists n. cbn [app]. f_equal. exact IH.
  - exists n. cbn [app]. f_equal. exact IH.
Qed.

(* the result does not end in a newline *)
Lemma trim_right_nl_not_nl s : forall u, trim_right_nl s <> u ++ [x0a].
Proof.
  induction s as [|c r IH]; intros u; [apply app_cons_not_nil|].
  cbn [trim_right_nl]. destruct (trim_right_nl r) as [|d r'] eqn:E.
  - destruct (beq_spec c x0a) as [-> | Hne]; [apply app_cons_not_nil|].
    destruct u as [|e u]; cbn [app]; intros H.
    + injection H as H. contradiction.
    + injection H as _ H. exact (app_cons_not_nil _ _ _ H).
  - destruct u as [|e u]; cbn [app]; intros H.
    + discriminate.
    + injection H as _ H. exact (IH u H).
Qed.

Lemma ends_nl_suffix u : has_suffix [x0a] (u ++ [x0a]) = true.
Proof. unfold has_suffix. rewrite rev_app_distr. reflexivity. Qed.

Lemma no_suffix_nl s : has_suffix [x0a] s = false <-> forall u, s <> u ++ [x0a].
Proof.
  split.
  - intros H u ->. rewrite ends_nl_suffix in H. discriminate.
  - intros H. destruct (has_suffix [x0a] s) eqn:E; [|reflexivity].
    destruct (has_suffix_nl s E) as [u ->]. exfalso. exact (H u eq_refl).
Qed.

(* identity on a text that does not end in a newline *)
Lemma trim_right_nl_id s : (forall u, s <> u ++ [x0a]) -> trim_right_nl s = s.
Proof.
  intros H. destruct (trim_right_nl_split s) as [[|n] E].
  - rewrite app_nil_r in E. symmetry. exact E.
  - exfalso. cbn [repeat] in E. rewrite repeat_cons, app_assoc in E. exact (H _ E).
Qed.

(* the whole specification: the unique decomposition into a text that does not end in a
   newline and a run of newlines *)
Lemma trim_right_nl_unique s u n :
  s = u ++ repeat x0a n -> (forall v, u <> v ++ [x0a]) -> trim_right_nl s = u.
Proof. intros -> H. rewrite trim_right_nl_app_nls. apply trim_right_nl_id. exact H. Qed.

Lemma is_raw_two a b r r' : is_raw_comment (a :: b :: r) = is_raw_comment (a :: b :: r').
Proof. reflexivity. Qed.

Lemma is_raw_one a : is_raw_comment [a] = false.
Proof.
  unfold is_raw_comment. change (S "//") with [x2f; x2f]. change (S "/*") with [x2f; x2a].
  cbn [has_prefix]. rewrite !andb_false_r. reflexivity.
Qed.
Lemma is_raw_second_nl a r : is_raw_comment (a :: x0a :: r) = false.
Proof.
  unfold is_raw_comment. change (S "//") with [x2f; x2f]. change (S "/*") with [x2f; x2a].
  cbn [has_prefix]. change (beq x2f x0a) with false. change (beq x2a x0a) with false.
  cbn [andb]. rewrite !andb_false_r. reflexivity.
Qed.

(* trimming does not change the form (raw or not) of the text *)
Lemma is_raw_trim_right_nl s : is_raw_comment (trim_right_nl s) = is_raw_comment s.
Proof.
  destruct s as [|a [|b r]]; [reflexivity| |].
  - cbn [trim_right_nl]. rewrite is_raw_one. destruct (beq a x0a); [reflexivity | apply is_raw_one].
  - cbn [trim_right_nl]. destruct (trim_right_nl r) as [|d r'].
    + destruct (beq_spec b x0a) as [-> | Hb]; [|apply is_raw_two].
      rewrite is_raw_second_nl. destruct (beq a x0a); [reflexivity | apply is_raw_one].
    + apply is_raw_two.
Qed.

Lemma is_raw_trim t : is_raw_comment (trim_raw_preamble t) = is_raw_comment t.
Proof.
  unfold trim_raw_preamble. destruct (is_raw_comment t) eqn:E; [|exact E].
  rewrite is_raw_trim_right_nl. exact E.
Qed.

(* C19_trim_idempotent *)
Theorem trim_raw_idempotent t : trim_raw_preamble (trim_raw_preamble t) = trim_raw_preamble t.
Proof.
  unfold trim_raw_preamble at 1. rewrite is_raw_trim.
  unfold trim_raw_preamble. destruct (is_raw_comment t); [|reflexivity].
  apply trim_right_nl_id, trim_right_nl_not_nl.
Qed.

(* C19_trim_raw_no_trailing_newline *)
Theorem trim_raw_no_trailing_newline t : is_raw_comment t = true ->
  has_suffix [x0a] (trim_raw_preamble t) = false /\ forall u, trim_raw_preamble t <> u ++ [x0a].
Proof.
  intros H. unfold trim_raw_preamble. rewrite H.
  split; [apply no_suffix_nl|]; apply trim_right_nl_not_nl.
Qed.

(* C19_trim_identity *)
Theorem trim_raw_identity t :
  is_raw_comment t = false \/ has_suffix [x0a] t = false -> trim_raw_preamble t = t.
Proof.
  intros [H | H]; unfold trim_raw_preamble.
  - rewrite H. reflexivity.
  - destruct (is_raw_comment t); [|reflexivity]. apply trim_right_nl_id, no_suffix_nl. exact H.
Qed.

(* C19_trim_removes_newlines_only *)
Theorem trim_raw_prefix t : exists n, t = trim_raw_preamble t ++ repeat x0a n.
Proof.
  unfold trim_raw_preamble. destruct (is_raw_comment t).
  - apply trim_right_nl_split.
  - exists 0%nat. rewrite app_nil_r. reflexivity.
Qed.

(* C19_trim_is_TrimRight *)
Theorem trim_raw_unique t u n : is_raw_comment t = true ->
  t = u ++ repeat x0a n -> has_suffix [x0a] u = false -> trim_raw_preamble t = u.
Proof.
  intros H E Hu. unfold trim_raw_preamble. rewrite H.
  apply (trim_right_nl_unique t u n E). apply no_suffix_nl. exact Hu.
Qed.

(* a raw text stays raw and is written as it is *)
Lemma comment_text_raw t : is_raw_comment t = true -> comment_text t = t.
Proof. unfold is_raw_comment, comment_text. intros ->. reflexivity. Qed.

(* C19_trimmed_raw_is_verbatim *)
Theorem trimmed_raw_verbatim t : is_raw_comment t = true ->
  comment_text (trim_raw_preamble t) = trim_raw_preamble t.
Proof. intros H. apply comment_text_raw. rewrite is_raw_trim. exact H. Qed.

(* ---- the domain ---- *)

(* the forms jennifer writes verbatim: a `//` comment without a newline in it, a `/* .. */`
   comment whose only terminator is its last two bytes *)
Definition line_form (u : str) : Prop :=
  exists r, u = [x2f; x2f] ++ r /\ contains_byte x0a r = false.
Definition block_form (u : str) : Prop :=
  exists b, u = [x2f; x2a] ++ b ++ [x2a; x2f] /\ contains s_close b = false.
(* raw texts of the domain: one of these forms followed by any number of newlines (they are
   removed before the text is written) *)
Definition raw_line (t : str) : Prop := exists u n, t = u ++ repeat x0a n /\ line_form u.
Definition raw_block (t : str) : Prop := exists u n, t = u ++ repeat x0a n /\ block_form u.
Definition preamble_domain (t : str) : Prop := in_domain t \/ raw_line t \/ raw_block t.

(* the kind of comment a text is rendered as *)
Definition preamble_kind (t : str) : kind :=
  if has_prefix (S "//") t then KLine
  else if has_prefix (S "/*") t then KBlock
  else comment_kind t.

Lemma block_scan0 b : contains s_close b = false ->
  forall m acc, block_ok m b ->
    lex_run m acc (b ++ [x2a; x2f]) = ([(KBlock, rev acc ++ b ++ [x2a; x2f])], MCode, []).
Proof.
  induction b as [|c b IH]; intros H m acc Hok.
  - destruct Hok as [-> | [-> _]]; cbn; rewrite <- !app_assoc; reflexivity.
  - rewrite contains_cons in H. apply orb_false_iff in H. destruct H as [Hp Hc].
    unfold s_close in Hp. cbn [has_prefix] in Hp.
    cbn [app lex_run].
    destruct (beq_spec c x2a) as [-> | Hs].
    + rewrite beq_refl in Hp. cbn [andb] in Hp.
      assert (Hnext : has_prefix [x2f] b = false).
      { destruct b as [|d b']; [reflexivity|]. cbn [has_prefix] in Hp |- *. exact Hp. }
      assert (Hstep : lex_step m acc x2a = ([], MBlockStar, x2a :: acc)).
      { destruct Hok as [-> | [-> _]]; reflexivity. }
      rewrite Hstep. rewrite IH; [|exact Hc | right; split; [reflexivity | exact Hnext]].
      cbn [app]. rewrite rev_cons_app, <- app_assoc. reflexivity.
    + assert (Hstep : lex_step m acc c = ([], MBlock, c :: acc)).
      { apply beq_neq in Hs. destruct Hok as [-> | [-> Hn]]; cbn [lex_step]; unfold c_star, c_slash.
        - rewrite Hs. reflexivity.
        - cbn [has_prefix] in Hn. rewrite andb_true_r in Hn. rewrite (beq_sym c x2f), Hn, Hs. reflexivity. }
      rewrite Hstep. rewrite IH; [|exact Hc | left; reflexivity].
      cbn [app]. rewrite rev_cons_app, <- app_assoc. reflexivity.
Qed.

Lemma run_open_line2 acc : lex_run MCode acc [x2f; x2f] = (flush KCode acc, MLine, [x2f; x2f]).
Proof. destruct acc; reflexivity. Qed.

Lemma line_form_not_nl u : line_form u -> forall v, u <> v ++ [x0a].
Proof.
  intros (r & -> & Hr) v E. apply contains_byte_false in Hr. apply Hr.
  assert (Hin : In x0a ([x2f; x2f] ++ r)) by (rewrite E; apply in_or_app; right; left; reflexivity).
  destruct Hin as [H | [H | H]]; [discriminate | discriminate | exact H].
Qed.
Lemma block_form_not_nl u : block_form u -> forall v, u <> v ++ [x0a].
Proof.
  intros (b & -> & _) v E.
  change ([x2f; x2a] ++ b ++ [x2a; x2f]) with ((x2f :: x2a :: b) ++ [x2a] ++ [x2f]) in E.
  rewrite app_assoc in E. apply app_inj_tail in E. destruct E as [_ E]. discriminate.
Qed.
Lemma line_form_raw u r : line_form u -> is_raw_comment (u ++ r) = true /\ preamble_kind (u ++ r) = KLine.
Proof. intros (x & -> & _). split; reflexivity. Qed.
Lemma block_form_raw u r : block_form u -> is_raw_comment (u ++ r) = true /\ preamble_kind (u ++ r) = KBlock.
Proof. intros (x & -> & _). split; reflexivity. Qed.

(* what is written for a raw text of the domain: its verbatim form, without the newlines *)
Lemma raw_line_text t : raw_line t ->
  exists u, line_form u /\ trim_raw_preamble t = u /\ comment_text u = u /\ preamble_kind t = KLine.
Proof.
  intros (u & n & -> & Hu). exists u. destruct (line_form_raw u (repeat x0a n) Hu) as [Hr Hk].
  split; [exact Hu|]. split; [|split; [|exact Hk]].
  - unfold trim_raw_preamble. rewrite Hr. apply (trim_right_nl_unique _ u n eq_refl), line_form_not_nl, Hu.
  - apply comment_text_raw. rewrite <- (app_nil_r u). apply (line_form_raw u [] Hu).
Qed.
Lemma raw_block_text t : raw_block t ->
  exists u, block_form u /\ trim_raw_preamble t = u /\ comment_text u = u /\ preamble_kind t = KBlock.
Proof.
  intros (u & n & -> & Hu). exists u. destruct (block_form_raw u (repeat x0a n) Hu) as [Hr Hk].
  split; [exact Hu|]. split; [|split; [|exact Hk]].
  - unfold trim_raw_preamble. rewrite Hr. apply (trim_right_nl_unique _ u n eq_refl), block_form_not_nl, Hu.
  - apply comment_text_raw. rewrite <- (app_nil_r u). apply (block_form_raw u [] Hu).
Qed.
Lemma in_domain_kind t : in_domain t -> preamble_kind t = comment_kind t.
Proof. intros [[H1 H2] _]. unfold preamble_kind. rewrite H1, H2. reflexivity. Qed.
Lemma in_domain_trim t : in_domain t -> trim_raw_preamble t = t.
Proof.
  intros [[H1 H2] _]. apply trim_raw_identity. left. unfold is_raw_comment. rewrite H1, H2. reflexivity.
Qed.
Lemma raw_is_raw t : raw_line t \/ raw_block t -> is_raw_comment t = true.
Proof.
  intros [(u & n & -> & Hu) | (u & n & -> & Hu)];
    [apply (line_form_raw u _ Hu) | apply (block_form_raw u _ Hu)].
Qed.

(* C19_raw_line_written, C19_raw_block_written: the raw members of the domain spelled out *)
Lemma raw_line_written r n : contains_byte x0a r = false ->
  let t := S "//" ++ r ++ repeat x0a n in
  preamble_domain t /\ comment_text (trim_raw_preamble t) = S "//" ++ r /\ preamble_kind t = KLine.
Proof.
  intros Hr t.
  assert (Hl : raw_line t).
  { exists (S "//" ++ r), n. split; [unfold t; rewrite <- app_assoc; reflexivity|]. exists r. split; [reflexivity | exact Hr]. }
  split; [right; left; exact Hl|].
  destruct (raw_line_text t Hl) as (u & _ & Eu & Ec & Ek). split; [|exact Ek].
  rewrite Eu, Ec. rewrite <- Eu. unfold t.
  apply trim_raw_unique with (n := n); [reflexivity | rewrite <- app_assoc; reflexivity|].
  apply no_suffix_nl, line_form_not_nl. exists r. split; [reflexivity | exact Hr].
Qed.
Lemma raw_block_written b n : contains (S "*/") b = false ->
  let t := S "/*" ++ b ++ S "*/" ++ repeat x0a n in
  preamble_domain t /\ comment_text (trim_raw_preamble t) = S "/*" ++ b ++ S "*/" /\ preamble_kind t = KBlock.
Proof.
  intros Hb t.
  assert (Hf : block_form (S "/*" ++ b ++ S "*/")) by (exists b; split; [reflexivity | exact Hb]).
  assert (Et : t = (S "/*" ++ b ++ S "*/") ++ repeat x0a n).
  { unfold t. rewrite <- !app_assoc. reflexivity. }
  assert (Hl : raw_block t) by (exists (S "/*" ++ b ++ S "*/"), n; split; [exact Et | exact Hf]).
  split; [right; right; exact Hl|].
  destruct (raw_block_text t Hl) as (u & _ & Eu & Ec & Ek). split; [|exact Ek].
  rewrite Eu, Ec. rewrite <- Eu.
  apply trim_raw_unique with (n := n); [rewrite Et; apply (block_form_raw _ _ Hf) | exact Et|].
  apply no_suffix_nl, block_form_not_nl, Hf.
Qed.

(* one preamble comment followed by its newline, from code: one comment region; the newline is
   the code that follows *)
Lemma run_preamble_comment t acc : preamble_domain t ->
  lex_run MCode acc (comment_text (trim_raw_preamble t) ++ [x0a])
  = (flush KCode acc ++ [(preamble_kind t, comment_text (trim_raw_preamble t))], MCode, [x0a]).
Proof.
  intros [Hd | [Hl | Hb]].
  - rewrite in_domain_trim, in_domain_kind by exact Hd. apply run_comment_then_newline. exact Hd.
  - destruct (raw_line_text t Hl) as (u & (r & -> & Hr) & -> & -> & ->).
    rewrite <- app_assoc. rewrite lex_run_app, run_open_line2.
    rewrite lex_run_app, run_line by exact Hr. rewrite run_nl_line.
    rewrite rev_app_distr, rev_involutive. cbn [app rev]. reflexivity.
  - destruct (raw_block_text t Hb) as (u & (b & -> & Hc) & -> & -> & ->).
    rewrite <- app_assoc. rewrite lex_run_app, run_open_block.
    rewrite lex_run_app, block_scan0; [|exact Hc | left; reflexivity].
    rewrite run_nl_code. cbn [rev app]. reflexivity.
Qed.

(* the regions of the comments after the first: a newline (code) and the comment *)
Definition following_regions (cs : list str) : list region :=
  flat_map (fun c => [(KCode, [x0a]); (preamble_kind c, comment_text (trim_raw_preamble c))]) cs.

Lemma run_preamble_lines cs : Forall preamble_domain cs -> forall c0 acc, preamble_domain c0 ->
  lex_run MCode acc (comment_lines (map trim_raw_preamble (c0 :: cs)))
  = (flush KCode acc ++ (preamble_kind c0, comment_text (trim_raw_preamble c0)) :: following_regions cs,
     MCode, [x0a]).
Proof.
  induction cs as [|c cs IH]; intros Hd c0 acc H0.
  - unfold comment_lines. cbn [map concat_str]. rewrite app_nil_r.
    rewrite run_preamble_comment by exact H0. reflexivity.
  - inversion Hd as [|? ? Hc Hcs]; subst.
    change (comment_lines (map trim_raw_preamble (c0 :: c :: cs)))
      with ((comment_text (trim_raw_preamble c0) ++ [x0a]) ++ comment_lines (map trim_raw_preamble (c :: cs))).
    rewrite lex_run_app, run_preamble_comment by exact H0.
    rewrite (IH Hcs c [x0a] Hc). cbn [flush rev app following_regions flat_map].
    rewrite <- app_assoc. reflexivity.
Qed.

Definition import_C : str := S "import " ++ [c_dq] ++ S "C" ++ [c_dq].

Lemma preamble_block_layout cgo :
  preamble_block cgo = comment_lines (map trim_raw_preamble cgo) ++ import_C ++ [x0a; x0a].
Proof. unfold preamble_block, comment_lines, import_C. rewrite map_map, <- !app_assoc. reflexivity. Qed.

Lemma run_import_C : lex_run MCode [x0a] (import_C ++ [x0a; x0a])
  = ([(KCode, x0a :: S "import "); (KStr, [c_dq] ++ S "C" ++ [c_dq])], MCode, [x0a; x0a]).
Proof. vm_compute. reflexivity. Qed.

(* C19_preamble_is_doc *)
Theorem preamble_is_doc c0 cs acc :
  Forall preamble_domain (c0 :: cs) ->
  lex_run MCode acc (preamble_block (c0 :: cs))
  = (flush KCode acc ++ (preamble_kind c0, comment_text (trim_raw_preamble c0)) :: following_regions cs ++
     [(KCode, x0a :: S "import "); (KStr, [c_dq] ++ S "C" ++ [c_dq])],
     MCode, [x0a; x0a]).
Proof.
  intros Hd. inversion Hd as [|? ? H0 Hcs]; subst.
  rewrite preamble_block_layout, lex_run_app, run_preamble_lines by assumption.
  rewrite run_import_C. rewrite <- app_assoc. reflexivity.
Qed.

(* a raw `//` form that ENDS in a newline is in the domain since the trailing newlines of a
   raw block are removed (jen.go, renderImports).  The code without that removal produced,
   for this text, the regions
     [(KLine, "//#include <a.h>"); (KCode, [x0a; x0a] ++ "import "); (KStr, "C")]:
   an EMPTY line between the comment and the import - the comment was no longer the import's
   doc comment and cgo ignored it. *)
Lemma raw_trailing_newline_fixed :
  let t := S "//#include <a.h>" ++ [x0a] in
  preamble_domain t /\
  trim_raw_preamble t = S "//#include <a.h>" /\
  lex_run MCode [] (preamble_block [t])
  = ([(KLine, S "//#include <a.h>"); (KCode, [x0a] ++ S "import "); (KStr, [c_dq] ++ S "C" ++ [c_dq])],
     MCode, [x0a; x0a]).
Proof.
  cbv zeta. split; [|split; vm_compute; reflexivity].
  right. left. exists (S "//#include <a.h>"), 1%nat. split; [reflexivity|].
  exists (S "#include <a.h>"). split; reflexivity.
Qed.

(* what stays excluded, and why: a raw `//` form with an inner newline puts its second line
   into CODE ... *)
Lemma raw_inner_newline_leaks :
  let t := S "//a" ++ [x0a] ++ S "b" in
  ~ preamble_domain t /\
  lex_run MCode [] (preamble_block [t])
  = ([(KLine, S "//a"); (KCode, [x0a] ++ S "b" ++ [x0a] ++ S "import "); (KStr, [c_dq] ++ S "C" ++ [c_dq])],
     MCode, [x0a; x0a]).
Proof.
  cbv zeta. split; [|vm_compute; reflexivity].
  intros [[[H _] _] | [Hl | Hb]].
  - vm_compute in H. discriminate.
  - destruct (raw_line_text _ Hl) as (u & (r & -> & Hr) & E & _).
    vm_compute in E. injection E as <-. vm_compute in Hr. discriminate.
  - destruct (raw_block_text _ Hb) as (u & (b & -> & _) & E & _).
    vm_compute in E. discriminate.
Qed.

(* ... and a text containing the block terminator ends its comment early. *)
Lemma inner_terminator_leaks :
  let t := S "a*/b" ++ [x0a] ++ S "c" in
  ~ preamble_domain t /\
  lex_run MCode [] (preamble_block [t])
  = ([(KBlock, S "/*" ++ [x0a] ++ S "a*/"); (KCode, S "b" ++ [x0a] ++ S "c" ++ [x0a] ++ S "*/" ++ [x0a] ++ S "import ");
      (KStr, [c_dq] ++ S "C" ++ [c_dq])], MCode, [x0a; x0a]).
Proof.
  cbv zeta. split; [|vm_compute; reflexivity].
  intros [[_ H] | Hr].
  - vm_compute in H. discriminate.
  - apply raw_is_raw in Hr. vm_compute in Hr. discriminate.
Qed.

(* the same inside a raw block form: `/* a */ b */` is not of the form, and its tail is code *)
Lemma raw_inner_terminator_leaks :
  let t := S "/* a */ b */" in
  ~ preamble_domain t /\
  lex_run MCode [] (preamble_block [t])
  = ([(KBlock, S "/* a */"); (KCode, S " b */" ++ [x0a] ++ S "import "); (KStr, [c_dq] ++ S "C" ++ [c_dq])],
     MCode, [x0a; x0a]).
Proof.
  cbv zeta. split; [|vm_compute; reflexivity].
  intros [[[_ H] _] | [Hl | Hb]].
  - vm_compute in H. discriminate.
  - destruct (raw_line_text _ Hl) as (u & (r & -> & Hr) & E & _).
    vm_compute in E. discriminate.
  - destruct (raw_block_text _ Hb) as (u & (b & -> & Hc) & E & _).
    assert (Et : trim_raw_preamble (S "/* a */ b */") = [x2f; x2a] ++ S " a */ b " ++ [x2a; x2f])
      by (vm_compute; reflexivity).
    rewrite Et in E. apply app_inv_head, app_inv_tail in E. subst b. vm_compute in Hc. discriminate.
Qed.

(* a one-line text that ENDS in a newline is in the domain: it is rendered in block style
   and stays adjacent *)
Lemma one_line_trailing_newline_in_domain t :
  contains_byte x0a t = false -> has_prefix (S "//") t = false -> has_prefix (S "/*") t = false ->
  contains (S "*/") (t ++ [x0a]) = false ->
  in_domain (t ++ [x0a]) /\
  trim_raw_preamble (t ++ [x0a]) = t ++ [x0a] /\
  comment_text (t ++ [x0a]) = S "/*" ++ [x0a] ++ t ++ [x0a] ++ S "*/" /\
  preamble_kind (t ++ [x0a]) = KBlock.
Proof.
  intros Hn H1 H2 Hc.
  assert (Hp1 : has_prefix (S "//") (t ++ [x0a]) = false).
  { destruct t as [|a [|b t]]; cbn in H1 |- *; try reflexivity; try exact H1;
      try (destruct (beq x2f a); reflexivity). }
  assert (Hp2 : has_prefix (S "/*") (t ++ [x0a]) = false).
  { destruct t as [|a [|b t]]; cbn in H2 |- *; try reflexivity; try exact H2;
      try (destruct (beq x2f a); reflexivity). }
  assert (Hnl : contains_byte x0a (t ++ [x0a]) = true).
  { rewrite contains_byte_app. cbn. apply orb_true_r. }
  assert (Hs : has_suffix [x0a] (t ++ [x0a]) = true).
  { unfold has_suffix. rewrite rev_app_distr. reflexivity. }
  assert (Hd : in_domain (t ++ [x0a])) by (split; [split|]; assumption).
  split; [exact Hd|]. split; [apply in_domain_trim; exact Hd|]. split.
  - unfold comment_text. rewrite Hp1, Hp2, Hnl, Hs. cbn [orb app]. rewrite <- !app_assoc. reflexivity.
  - unfold preamble_kind, comment_kind. rewrite Hp1, Hp2, Hnl. reflexivity.
Qed.

(* ================================================================== C12 *)

(* the skeleton lexer's reading of an interpreted literal delimited by q, as a function:
   (bytes before the closing quote, text after it) *)
Fixpoint skel_scan (q : byte) (esc : bool) (s : str) : option (str * str) :=
  match s with
  | [] => None
  | c :: t =>
    if esc then (if beq c c_nl then None else prepend [c] (skel_scan q false t))
    else if beq c q then Some ([], t)
    else if beq c c_nl then None
    else if beq c c_bs then prepend [c] (skel_scan q true t)
    else prepend [c] (skel_scan q false t)
  end.

Definition qmode (q : byte) (esc : bool) : mode :=
  if beq q c_dq then (if esc then MStrEsc else MStr) else (if esc then MRuneEsc else MRune).
Definition qkind (q : byte) : kind := if beq q c_dq then KStr else KRune.

Lemma qstep_plain q acc c : is_quote q -> beq c q = false -> beq c c_nl = false -> beq c c_bs = false ->
  lex_step (qmode q false) acc c = ([], qmode q false, c :: acc).
Proof.
  intros [-> | ->] H1 H2 H3; [change (qmode c_dq false) with MStr | change (qmode c_sq false) with MRune];
    cbn [lex_step]; unfold quoted_step; rewrite H1, H2, H3; reflexivity.
Qed.
Lemma qstep_bs q acc : is_quote q ->
  lex_step (qmode q false) acc c_bs = ([], qmode q true, c_bs :: acc).
Proof. intros [-> | ->]; reflexivity. Qed.
Lemma qstep_esc q acc c : is_quote q -> beq c c_nl = false ->
  lex_step (qmode q true) acc c = ([], qmode q false, c :: acc).
Proof.
  intros [-> | ->] H; [change (qmode c_dq true) with MStrEsc; change (qmode c_dq false) with MStr
                      | change (qmode c_sq true) with MRuneEsc; change (qmode c_sq false) with MRune];
    cbn [lex_step]; unfold esc_step; rewrite H; reflexivity.
Qed.
Lemma qstep_close q acc : is_quote q ->
  lex_step (qmode q false) acc q = ([(qkind q, rev (q :: acc))], MCode, []).
Proof. intros [-> | ->]; reflexivity. Qed.

Lemma skel_scan_lex q : is_quote q -> forall s esc b r,
  skel_scan q esc s = Some (b, r) ->
  s = b ++ q :: r /\
  forall acc, lex_run (qmode q esc) acc (b ++ [q]) = ([(qkind q, rev acc ++ b ++ [q])], MCode, []).
Proof.
  intros Hq. induction s as [|c t IH]; intros esc b r H; [discriminate|].
  cbn [skel_scan] in H. destruct esc.
  - destruct (beq c c_nl) eqn:En; [discriminate|].
    destruct (skel_scan q false t) as [[b' r']|] eqn:Et; [|discriminate].
    cbn [prepend] in H. injection H as <- <-. destruct (IH false b' r' Et) as [-> Hrun].
    split; [reflexivity|]. intros acc. cbn [app lex_run]. rewrite qstep_esc by assumption.
    rewrite Hrun. cbn [rev app]. rewrite <- app_assoc. reflexivity.
  - destruct (beq c q) eqn:Eq.
    { apply beq_eq in Eq. subst c. injection H as <- <-. split; [reflexivity|].
      intros acc. cbn [app lex_run]. rewrite qstep_close by exact Hq. cbn [rev app]. reflexivity. }
    destruct (beq c c_nl) eqn:En; [discriminate|].
    destruct (beq c c_bs) eqn:Eb.
    + apply beq_eq in Eb. subst c.
      destruct (skel_scan q true t) as [[b' r']|] eqn:Et; [|discriminate].
      cbn [prepend] in H. injection H as <- <-. destruct (IH true b' r' Et) as [-> Hrun].
      split; [reflexivity|]. intros acc. cbn [app lex_run]. rewrite qstep_bs by exact Hq.
      rewrite Hrun. cbn [rev app]. rewrite <- app_assoc. reflexivity.
    + destruct (skel_scan q false t) as [[b' r']|] eqn:Et; [|discriminate].
      cbn [prepend] in H. injection H as <- <-. destruct (IH false b' r' Et) as [-> Hrun].
      split; [reflexivity|]. intros acc. cbn [app lex_run]. rewrite qstep_plain by assumption.
      rewrite Hrun. cbn [rev app]. rewrite <- app_assoc. reflexivity.
Qed.

Lemma skel_scan_plain q p X : Forall (plain q) p ->
  skel_scan q false (p ++ X) = prepend p (skel_scan q false X).
Proof.
  induction 1 as [|c p (H1 & H2 & H3) Hp IH]; [symmetry; apply prepend_nil|].
  cbn [app skel_scan]. apply beq_neq in H1, H2, H3. rewrite H1, H3, H2. rewrite IH.
  apply (prepend_prepend [c] p).
Qed.

Lemma skel_scan_chunk q c X : is_quote q -> chunk_ok q c ->
  skel_scan q false (c ++ X) = prepend c (skel_scan q false X).
Proof.
  intros Hq [p Hp | e tail He Ht]; [apply skel_scan_plain; exact Hp|].
  cbn [app skel_scan].
  assert (Eq : beq c_bs q = false) by (destruct Hq as [-> | ->]; reflexivity).
  rewrite Eq. change (beq c_bs c_nl) with false. change (beq c_bs c_bs) with true. cbv iota.
  apply beq_neq in He. rewrite He. rewrite skel_scan_plain by exact Ht.
  rewrite !prepend_prepend. reflexivity.
Qed.

Lemma skel_scan_quote_body q fuel s rest : is_quote q ->
  skel_scan q false (quote_body go_is_print (b2n q) fuel s ++ q :: rest)
  = Some (quote_body go_is_print (b2n q) fuel s, rest).
Proof.
  intros Hq.
  rewrite (consumer_quote_body go_is_print go_is_print_10 q Hq (skel_scan q false)
             (fun c X Hc => skel_scan_chunk q c X Hq Hc)).
  cbn [skel_scan]. rewrite beq_refl. cbn [prepend]. rewrite app_nil_r. reflexivity.
Qed.

(* a quoted string from code: the pending code is flushed, the literal is one KStr region,
   and the lexer is back in code with nothing pending *)
Lemma run_GoQuote s acc :
  lex_run MCode acc (GoQuote s) = (flush KCode acc ++ [(KStr, GoQuote s)], MCode, []).
Proof.
  unfold GoQuote, Quote, quote_with. cbn [lex_run lex_step].
  change (code_step acc c_dq) with (flush KCode acc, MStr, [c_dq]).
  destruct (skel_scan_lex c_dq (or_introl eq_refl) _ false _ _
              (skel_scan_quote_body c_dq (length s) s [] (or_introl eq_refl))) as [_ Hrun].
  change (qmode c_dq false) with MStr in Hrun. rewrite (Hrun [c_dq]). reflexivity.
Qed.

Lemma run_GoQuoteRune r acc :
  lex_run MCode acc (GoQuoteRune r) = (flush KCode acc ++ [(KRune, GoQuoteRune r)], MCode, []).
Proof.
  unfold GoQuoteRune, QuoteRune. set (r' := if valid_rune r then r else rune_error).
  cbn [lex_run lex_step]. change (code_step acc c_sq) with (flush KCode acc, MRune, [c_sq]).
  assert (Hs : skel_scan c_sq false (escaped_rune go_is_print (b2n c_sq) r' ++ c_sq :: [])
               = Some (escaped_rune go_is_print (b2n c_sq) r', [])).
  { rewrite skel_scan_chunk; [|right; reflexivity|
      apply (escaped_rune_ok go_is_print go_is_print_10); right; reflexivity].
    cbn [skel_scan]. rewrite beq_refl. cbn [prepend]. rewrite app_nil_r. reflexivity. }
  destruct (skel_scan_lex c_sq (or_intror eq_refl) _ false _ _ Hs) as [_ Hrun].
  change (qmode c_sq false) with MRune in Hrun. rewrite (Hrun [c_sq]). reflexivity.
Qed.

(* C12_string_in_context: in ANY context that leaves the lexer in code, the literal is one
   region at that position and the lexer continues in code, with nothing pending, at rest *)
Theorem string_in_context pre s rest : ends_in_code pre ->
  exists o acc, lex_run MCode [] pre = (o, MCode, acc) /\
    skel (pre ++ GoQuote s ++ rest) = o ++ flush KCode acc ++ (KStr, GoQuote s) :: skel rest /\
    lex_run MCode [] (pre ++ GoQuote s) = (o ++ flush KCode acc ++ [(KStr, GoQuote s)], MCode, []).
Proof.
  intros (o & acc & Hr). exists o, acc. split; [exact Hr|]. unfold skel. split.
  - rewrite lex_app, Hr. rewrite (lex_of_run _ _ _ _ _ _ _ (run_GoQuote s acc)).
    rewrite <- app_assoc. reflexivity.
  - rewrite lex_run_app, Hr, run_GoQuote. rewrite app_assoc. reflexivity.
Qed.

Theorem rune_in_context pre r rest : ends_in_code pre ->
  exists o acc, lex_run MCode [] pre = (o, MCode, acc) /\
    skel (pre ++ GoQuoteRune r ++ rest) = o ++ flush KCode acc ++ (KRune, GoQuoteRune r) :: skel rest /\
    lex_run MCode [] (pre ++ GoQuoteRune r) = (o ++ flush KCode acc ++ [(KRune, GoQuoteRune r)], MCode, []).
Proof.
  intros (o & acc & Hr). exists o, acc. split; [exact Hr|]. unfold skel. split.
  - rewrite lex_app, Hr. rewrite (lex_of_run _ _ _ _ _ _ _ (run_GoQuoteRune r acc)).
    rewrite <- app_assoc. reflexivity.
  - rewrite lex_run_app, Hr, run_GoQuoteRune. rewrite app_assoc. reflexivity.
Qed.

(* the hypothesis can fail, and then the claim does: inside a comment or a raw string the
   same bytes are not a string token *)
Lemma string_not_in_code_context :
  ~ ends_in_code (S "// ") /\ ~ ends_in_code [c_bq] /\
  skel (S "// " ++ GoQuote (S "a") ++ [x0a]) = [(KLine, S "// " ++ GoQuote (S "a")); (KCode, [x0a])].
Proof.
  split; [|split]; [| |vm_compute; reflexivity];
    intros (o & acc & H); vm_compute in H; discriminate.
Qed.

(* ================================================================== C20 *)
From Jen Require Import Model.Heap Proofs.HeapProofs.

Definition is_block (c : code) : bool :=
  match c with CGroup _ name _ _ _ _ _ => str_eqb name s_block | _ => false end.
Definition gids (l : list code) : list N :=
  flat_map (fun c => match c with CGroup g _ _ _ _ _ _ => [g] | _ => [] end) l.
Definition block_gids (l : list code) : list N :=
  flat_map (fun c => match c with
                     | CGroup g name _ _ _ _ _ => if str_eqb name s_block then [g] else []
                     | _ => [] end) l.
(* the RAW last item (Statement.previous looks at index - 1, null or not) *)
Fixpoint lastp (p : option code) (l : list code) : option code :=
  match l with [] => p | x :: r => lastp (Some x) r end.
Definition last_is_case (vs : list code) : bool :=
  match lastp None vs with Some x => is_case_or_default x | None => false end.
(* the RAW first item of app is (the same group as) a block group of app *)
Definition head_is_block (app : list code) : bool :=
  match app with
  | CGroup g _ _ _ _ _ _ :: _ => existsb (N.eqb g) (block_gids app)
  | _ => false
  end.

Lemma prev_of_app_in g : forall l1 l2 p, In g (gids l1) ->
  prev_of g p (l1 ++ l2) = prev_of g p l1.
Proof.
  induction l1 as [|x l1 IH]; intros l2 p Hin; [destruct Hin|].
  cbn [app prev_of]. destruct x as [| | |tk|g' nm o c sp mu its|its|ps|kvs|s];
    try (apply IH; exact Hin).
  destruct (N.eqb_spec g' g) as [->|Hne]; [reflexivity|].
  apply IH. cbn [gids flat_map app] in Hin. destruct Hin as [E|Hin]; [congruence | exact Hin].
Qed.

Lemma prev_of_app_notin g : forall l1 l2 p, ~ In g (gids l1) ->
  prev_of g p (l1 ++ l2) = prev_of g (lastp p l1) l2.
Proof.
  induction l1 as [|x l1 IH]; intros l2 p Hni; [reflexivity|].
  cbn [app prev_of lastp].
  assert (Hni' : ~ In g (gids l1)).
  { intros H. apply Hni. unfold gids. cbn [flat_map]. apply in_or_app. right. exact H. }
  destruct x as [| | |tk|g' nm o c sp mu its|its|ps|kvs|s]; try (apply IH; exact Hni').
  destruct (N.eqb_spec g' g) as [->|Hne].
  - exfalso. apply Hni. cbn. left. reflexivity.
  - apply IH. exact Hni'.
Qed.

Lemma in_block_gids g nm o c sp mu its l :
  In (CGroup g nm o c sp mu its) l -> str_eqb nm s_block = true -> In g (block_gids l).
Proof.
  intros Hin Hb. unfold block_gids. apply in_flat_map. eexists. split; [exact Hin|].
  cbv beta iota. rewrite Hb. left. reflexivity.
Qed.

Lemma in_gids g nm o c sp mu its l : In (CGroup g nm o c sp mu its) l -> In g (gids l).
Proof. intros Hin. unfold gids. apply in_flat_map. eexists. split; [exact Hin|]. left. reflexivity. Qed.

(* the syntactic condition gives the same case context to every block group of app *)
Lemma case_ctx_concat vs app :
  (forall g, In g (block_gids app) -> ~ In g (gids vs)) ->
  head_is_block app = false \/ last_is_case vs = false ->
  forall c, In c app -> is_block c = true -> case_ctx (CStmt vs :: app) c = case_ctx (vs ++ app) c.
Proof.
  intros Hfresh Hcond c Hin Hb.
  destruct c as [| | |tk|g nm o cl sp mu its|its|ps|kvs|s]; try discriminate. cbn [is_block] in Hb.
  pose proof (in_block_gids _ _ _ _ _ _ _ _ Hin Hb) as Hg.
  unfold case_ctx. cbn [prev_of]. rewrite (prev_of_app_notin g vs app None (Hfresh g Hg)).
  destruct app as [|x r]; [reflexivity|]. cbn [prev_of].
  destruct x as [| | |tk|g' nm' o' c' sp' mu' its'|its'|ps'|kvs'|s']; try reflexivity.
  destruct (N.eqb_spec g' g) as [->|Hne]; [|reflexivity].
  cbn [is_case_or_default]. destruct Hcond as [Hh|Hl].
  - exfalso. unfold head_is_block in Hh.
    assert (Hex : existsb (N.eqb g) (block_gids (CGroup g nm' o' c' sp' mu' its' :: r)) = true).
    { apply existsb_exists. exists g. split; [exact Hg | apply N.eqb_refl]. }
    congruence.
  - unfold last_is_case in Hl. destruct (lastp None vs); [symmetry; exact Hl | reflexivity].
Qed.

Section Concat.
  Variable cfg : config.

  Lemma render_ctx_irrelevant b1 b2 t c : is_block c = false -> render cfg b1 t c = render cfg b2 t c.
  Proof.
    destruct c as [| | |tk|g nm o cl sp mu its|its|ps|kvs|s]; try reflexivity.
    cbn [is_block]. intros Hb. cbn [render]. rewrite Hb. reflexivity.
  Qed.

  (* Statement.render's loop, also returning the `first` flag it ends with *)
  Definition loopf (all : list code) :=
    fix loop (t : table) (first : bool) (l : list code) : result (table * bool * str) :=
      match l with
      | [] => Ok (t, first, [])
      | c :: l' =>
        if is_null cfg t c then loop t first l'
        else bind (render cfg (case_ctx all c) t c) (fun r1 =>
             bind (loop (fst r1) false l') (fun r2 =>
             Ok (fst (fst r2), snd (fst r2), (if first then [] else S " ") ++ snd r1 ++ snd r2)))
      end.

  Lemma stmt_loop_loopf all l : forall t first,
    stmt_loop cfg (render cfg) all t first l = bind (loopf all t first l) (fun r => Ok (fst (fst r), snd r)).
  Proof.
    induction l as [|c l IH]; intros t first; [reflexivity|].
    rewrite stmt_loop_cons. cbn [loopf]. fold (loopf all).
    destruct (is_null cfg t c); [apply IH|].
    destruct (render cfg (case_ctx all c) t c) as [r1|m]; [|reflexivity]. cbn [bind].
    rewrite IH. destruct (loopf all (fst r1) false l) as [r2|m]; reflexivity.
  Qed.

  Lemma loopf_app all l1 l2 : forall t first,
    loopf all t first (l1 ++ l2) =
    bind (loopf all t first l1) (fun r1 =>
    bind (loopf all (fst (fst r1)) (snd (fst r1)) l2) (fun r2 =>
    Ok (fst (fst r2), snd (fst r2), snd r1 ++ snd r2))).
  Proof.
    induction l1 as [|c l1 IH]; intros t first.
    - cbn [app loopf bind fst snd]. fold (loopf all). destruct (loopf all t first l2) as [[[t2 f2] x2]|m]; reflexivity.
    - cbn [app loopf]. fold (loopf all). destruct (is_null cfg t c); [apply IH|].
      destruct (render cfg (case_ctx all c) t c) as [r1|m]; [|reflexivity]. cbn [bind].
      rewrite IH. destruct (loopf all (fst r1) false l1) as [[[t1 f1] x1]|m]; [|reflexivity]. cbn [bind fst snd].
      destruct (loopf all t1 f1 l2) as [[[t2 f2] x2]|m]; [|reflexivity]. cbn [bind fst snd].
      rewrite <- !app_assoc. reflexivity.
  Qed.

  Lemma loopf_ctx_ext all all' l :
    (forall c, In c l -> is_block c = true -> case_ctx all c = case_ctx all' c) ->
    forall t first, loopf all t first l = loopf all' t first l.
  Proof.
    induction l as [|c l IH]; intros H t first; [reflexivity|].
    cbn [loopf]. fold (loopf all). fold (loopf all').
    assert (IH' : forall t first, loopf all t first l = loopf all' t first l).
    { apply IH. intros c' Hin. apply H. right. exact Hin. }
    rewrite IH'. destruct (is_null cfg t c); [reflexivity|].
    assert (Hr : render cfg (case_ctx all c) t c = render cfg (case_ctx all' c) t c).
    { destruct (is_block c) eqn:Eb.
      - rewrite (H c (or_introl eq_refl) Eb). reflexivity.
      - apply render_ctx_irrelevant. exact Eb. }
    rewrite Hr. destruct (render cfg (case_ctx all' c) t c) as [r1|m]; [|reflexivity]. cbn [bind].
    rewrite IH'. reflexivity.
  Qed.

  Lemma loopf_flag all l : forall t first t' f' x,
    loopf all t first l = Ok (t', f', x) -> f' = first && forallb (is_null cfg t) l.
  Proof.
    induction l as [|c l IH]; intros t first t' f' x H.
    - cbn in H. injection H as <- <- <-. symmetry. apply andb_true_r.
    - cbn [loopf] in H. fold (loopf all) in H. cbn [forallb]. destruct (is_null cfg t c).
      + cbn [andb]. eapply IH. exact H.
      + cbn [andb]. rewrite andb_false_r.
        destruct (render cfg (case_ctx all c) t c) as [r1|m]; [|discriminate]. cbn [bind] in H.
        destruct (loopf all (fst r1) false l) as [[[t2 f2] x2]|m] eqn:E2; [|discriminate].
        cbn [bind fst snd] in H. injection H as <- <- <-. apply (IH _ _ _ _ _ E2).
  Qed.

  Lemma loopf_all_null all l t first :
    forallb (is_null cfg t) l = true -> loopf all t first l = Ok (t, first, []).
  Proof.
    induction l as [|c l IH]; intros H; [reflexivity|].
    cbn [forallb] in H. apply andb_true_iff in H as [H1 H2]. cbn [loopf]. fold (loopf all).
    rewrite H1. apply IH. exact H2.
  Qed.

  Lemma case_ctx_inside vs app c : In c vs -> case_ctx (vs ++ app) c = case_ctx vs c.
  Proof.
    intros Hin. destruct c as [| | |tk|g nm o cl sp mu its|its|ps|kvs|s]; try reflexivity.
    unfold case_ctx. rewrite (prev_of_app_in g vs app None (in_gids _ _ _ _ _ _ _ _ Hin)). reflexivity.
  Qed.

  (* a statement whose first item is a statement renders as the concatenation, provided the
     block groups of the tail see the same case context *)
  Theorem wrapped_head_is_concat ctx t vs app :
    (forall c, In c app -> is_block c = true -> case_ctx (CStmt vs :: app) c = case_ctx (vs ++ app) c) ->
    render cfg ctx t (CStmt (CStmt vs :: app)) = render cfg ctx t (CStmt (vs ++ app)).
  Proof.
    intros H. rewrite !render_stmt_eq.
    rewrite (stmt_loop_loopf (vs ++ app)), loopf_app.
    rewrite (loopf_ctx_ext (vs ++ app) vs vs (fun c Hin _ => case_ctx_inside vs app c Hin)).
    rewrite stmt_loop_cons, is_null_stmt_eq.
    destruct (forallb (is_null cfg t) vs) eqn:En.
    - rewrite (loopf_all_null vs vs t true En). cbn [bind fst snd].
      rewrite stmt_loop_loopf, (loopf_ctx_ext _ _ app H).
      destruct (loopf (vs ++ app) t true app) as [[[t2 f2] x2]|m]; reflexivity.
    - change (case_ctx (CStmt vs :: app) (CStmt vs)) with false.
      rewrite (render_stmt_eq cfg false t vs), (stmt_loop_loopf vs vs).
      destruct (loopf vs t true vs) as [[[t1 f1] x1]|m] eqn:E1; [|reflexivity].
      pose proof (loopf_flag _ _ _ _ _ _ _ E1) as Hf. rewrite En in Hf. cbn in Hf. subst f1.
      cbn [bind fst snd]. rewrite stmt_loop_loopf, (loopf_ctx_ext _ _ app H).
      destruct (loopf (vs ++ app) t1 false app) as [[[t2 f2] x2]|m]; reflexivity.
  Qed.

  Theorem wrapped_head_is_concat_syntactic ctx t vs app :
    (forall g, In g (block_gids app) -> ~ In g (gids vs)) ->
    head_is_block app = false \/ last_is_case vs = false ->
    render cfg ctx t (CStmt (CStmt vs :: app)) = render cfg ctx t (CStmt (vs ++ app)).
  Proof. intros H1 H2. apply wrapped_head_is_concat. apply case_ctx_concat; assumption. Qed.
End Concat.

(* C20_modified_clone_is_concat at the level of histories *)
Theorem modified_clone_is_concat grow : grow_ok grow -> forall ops1 ops2 v,
  bound (run grow clone_wrap ops1) v = true ->
  let c := hp_nvars (run grow clone_wrap ops1) in
  let h := run grow clone_wrap (ops1 ++ OClone v :: ops2) in
  let app := appended_to c ops2 in
  exists vs, snapshot h v = CStmt vs /\ snapshot h c = CStmt (CStmt vs :: app) /\
    ((forall g, In g (block_gids app) -> ~ In g (gids vs)) ->
     head_is_block app = false \/ last_is_case vs = false ->
     forall cfg ctx t, render cfg ctx t (snapshot h c) = render cfg ctx t (CStmt (vs ++ app))).
Proof.
  intros Hg ops1 ops2 v Hb c h app.
  pose proof (clone_items_kept grow Hg ops1 ops2 v Hb) as H. cbv zeta in H. fold c in H. fold h in H. fold app in H.
  assert (Hbv : bound h v = true).
  { apply (bound_run grow Hg). apply (bound_run grow Hg) in Hb.
    destruct (view (run grow clone_wrap ops1) v) as [l|] eqn:Ev.
    - pose proof (items_kept grow Hg ops1 (OClone v :: ops2) v l Ev) as Hk. fold h in Hk.
      destruct (good_run grow (ops1 ++ OClone v :: ops2) Hg) as (Hwf & _ & _ & _).
      apply (bound_lt _ _ Hwf). apply (bound_view _ _ Hwf). fold h. congruence.
    - exfalso. destruct (good_run grow ops1 Hg) as (Hwf & _ & _ & _).
      apply (bound_run grow Hg) in Hb. apply (bound_view _ _ Hwf) in Hb. congruence. }
  destruct (snapshot_bound_stmt grow Hg _ v Hbv) as (l & _ & Hs). fold h in Hs.
  eexists. split; [exact Hs|]. split; [rewrite H, Hs; reflexivity|].
  intros H1 H2 cfg ctx t. rewrite H, Hs. apply wrapped_head_is_concat_syntactic; assumption.
Qed.

(* the exceptions, as witnesses *)
Definition cc_tk (b : byte) : code := CTok (TkId [b]).
Definition cc_case : code := CGroup 1 (S "case") (S "case ") (S ":") (S ",") false [cc_tk x61].
Definition cc_block : code := CGroup 2 (S "block") (S "{") (S "}") [] true [cc_tk x62].
Definition cc_cfg : config := mkcfg [] [] [].

(* Case(a).Clone().Block(b): the block's previous item is the whole original statement, not
   its Case group, so the clone keeps the braces the concatenation loses *)
Lemma clone_case_block_keeps_braces :
  head_is_block [cc_block] = true /\ last_is_case [cc_case] = true /\
  render cc_cfg false [] (CStmt (CStmt [cc_case] :: [cc_block]))
    = Ok ([], S "case a: {" ++ [x0a] ++ S "b" ++ [x0a] ++ S "}") /\
  render cc_cfg false [] (CStmt ([cc_case] ++ [cc_block]))
    = Ok ([], S "case a: " ++ [x0a] ++ S "b").
Proof. vm_compute. repeat split; reflexivity. Qed.

(* the SAME *Group in the original and appended to the clone (possible through Add of a
   group captured in a BlockFunc callback): Statement.previous finds its first occurrence *)
Lemma clone_shared_block_differs :
  (exists g, In g (block_gids [cc_block]) /\ In g (gids [cc_case; cc_block])) /\
  head_is_block [cc_block] = true /\ last_is_case [cc_case; cc_block] = false /\
  render cc_cfg false [] (CStmt (CStmt [cc_case; cc_block] :: [cc_block]))
    = Ok ([], S "case a: " ++ [x0a] ++ S "b {" ++ [x0a] ++ S "b" ++ [x0a] ++ S "}") /\
  render cc_cfg false [] (CStmt ([cc_case; cc_block] ++ [cc_block]))
    = Ok ([], S "case a: " ++ [x0a] ++ S "b " ++ [x0a] ++ S "b").
Proof.
  split; [exists 2%N; split; [left; reflexivity | right; left; reflexivity]|].
  vm_compute. repeat split; reflexivity.
Qed.

(* RAW neighbours, not live ones, decide: a Null() between the case and the block makes the
   clone a plain concatenation although the last LIVE item of the original is a case *)
Lemma clone_null_between :
  last_is_case [cc_case; CTok TkNull] = false /\
  render cc_cfg false [] (CStmt (CStmt [cc_case; CTok TkNull] :: [cc_block]))
  = render cc_cfg false [] (CStmt ([cc_case; CTok TkNull] ++ [cc_block])).
Proof. vm_compute. split; reflexivity. Qed.
