(* Literals (C11, C12): the rune-literal round trip of strconv.QuoteRune; decimal and
   hexadecimal texts read back by the literal evaluator of GoStd/LitEval.v; the evaluator on
   every text of fmt's float / complex grammar, including jennifer's `.0` decision. *)
From Jen Require Import Base.Bytes Base.Num Base.Utf8 GoStd.Quote GoStd.IsPrint GoStd.LitEval Model.Render.
From Jen Require Import Proofs.QuoteProofs.
From Coq Require Import ZifyN ZifyNat ZifyBool.
From Coq Require Decimal Hexadecimal DecimalFacts DecimalN HexadecimalFacts HexadecimalN DecimalPos HexadecimalPos.
Local Open Scope N_scope.

Lemma go_is_print_10 : go_is_print 10 = false.
Proof. vm_compute. reflexivity. Qed.

Lemma GoQuote_scan s rest : scan_string_lit (GoQuote s ++ rest) = Some (s, rest).
Proof. exact (scan_Quote go_is_print go_is_print_10 s rest). Qed.

Lemma GoQuote_value s : go_string_value (GoQuote s) = Some s.
Proof. exact (Quote_roundtrip go_is_print go_is_print_10 s). Qed.

Lemma GoQuote_no_nl s : ~ In c_nl (GoQuote s).
Proof.
  unfold GoQuote, Quote, quote_with. intros [E | Hin]; [discriminate|].
  apply in_app_or in Hin. destruct Hin as [Hin | [E | []]]; [|discriminate].
  exact (quote_body_no_nl go_is_print go_is_print_10 c_dq _ _ (or_introl eq_refl) Hin).
Qed.

Lemma rune_of_body_encode r : valid_rune r = true -> rune_of_body (encode_rune r) = Some r.
Proof.
  intros Hv. unfold rune_of_body.
  pose proof (decode_encode_rune r [] Hv) as Hd. rewrite app_nil_r in Hd.
  pose proof (encodeN_length r) as Hl. rewrite <- encode_rune_length in Hl.
  destruct (encode_rune r) as [|b0 t] eqn:Ee; [simpl in Hl; lia|].
  rewrite Hd. rewrite Nat.eqb_refl.
  assert (Hok : decode_ok (r, length (b0 :: t)) = true).
  { unfold decode_ok. cbn [fst snd].
    destruct (r =? rune_error) eqn:Er; [|reflexivity].
    apply N.eqb_eq in Er. subst r. rewrite <- Ee. vm_compute. reflexivity. }
  rewrite Hok. reflexivity.
Qed.

Lemma GoQuoteRune_valid r : valid_rune r = true ->
  GoQuoteRune r = c_sq :: escaped_rune go_is_print (b2n c_sq) r ++ [c_sq].
Proof. intros Hv. unfold GoQuoteRune, QuoteRune. rewrite Hv. reflexivity. Qed.

Lemma GoQuoteRune_scan r rest : valid_rune r = true ->
  scan_rune_lit (GoQuoteRune r ++ rest) = Some (r, rest).
Proof.
  intros Hv. rewrite GoQuoteRune_valid by exact Hv.
  unfold scan_rune_lit. cbn [app]. change (beq c_sq c_sq) with true. cbv iota.
  rewrite <- app_assoc. cbn [app].
  rewrite (unq_escaped_rune go_is_print go_is_print_10 c_sq r (c_sq :: rest) (or_intror eq_refl) Hv).
  rewrite unq_close. cbn [prepend]. rewrite app_nil_r.
  rewrite rune_of_body_encode by exact Hv. reflexivity.
Qed.

Lemma GoQuoteRune_value r : valid_rune r = true -> go_rune_value (GoQuoteRune r) = Some r.
Proof.
  intros Hv. rewrite GoQuoteRune_valid by exact Hv.
  unfold go_rune_value. change (beq c_sq c_sq) with true. cbv iota.
  rewrite (unq_escaped_rune go_is_print go_is_print_10 c_sq r [c_sq] (or_intror eq_refl) Hv).
  rewrite unq_close. cbn [prepend]. rewrite app_nil_r.
  pose proof (rune_of_body_encode r Hv) as Hb. unfold rune_of_body in Hb.
  destruct (encode_rune r) as [|b0 t]; [discriminate|]. exact Hb.
Qed.

Lemma GoQuoteRune_no_nl r : ~ In c_nl (GoQuoteRune r).
Proof.
  unfold GoQuoteRune, QuoteRune. intros [E | Hin]; [discriminate|].
  apply in_app_or in Hin. destruct Hin as [Hin | [E | []]]; [|discriminate].
  exact (chunk_ok_no_nl c_sq _ (escaped_rune_ok go_is_print go_is_print_10 c_sq _ (or_intror eq_refl)) Hin).
Qed.

Lemma GoQuoteRune_invalid r : valid_rune r = false -> GoQuoteRune r = GoQuoteRune rune_error.
Proof. intros Hv. unfold GoQuoteRune, QuoteRune. rewrite Hv. reflexivity. Qed.

Lemma rune_text_neg r : (r < 0)%Z -> rune_text r = GoQuoteRune rune_error.
Proof. intros H. unfold rune_text. assert (E : (r <? 0)%Z = true) by lia. rewrite E. reflexivity. Qed.

Lemma rune_text_nonneg r : (0 <= r)%Z -> rune_text r = GoQuoteRune (Z.to_N r).
Proof. intros H. unfold rune_text. assert (E : (r <? 0)%Z = false) by lia. rewrite E. reflexivity. Qed.

(* ================= digits ================= *)
Lemma is_digit_uint u : all_digits (uint_to_str u) = true.
Proof. induction u; cbn [uint_to_str all_digits forallb]; try exact IHu; reflexivity. Qed.

Lemma digits_acc_pos u : forall acc,
  digits_acc (Npos acc) (uint_to_str u) = Npos (Pos.of_uint_acc u acc).
Proof.
  induction u; intros acc; cbn [uint_to_str digits_acc Pos.of_uint_acc]; try reflexivity;
    match goal with |- digits_acc ?a _ = _ =>
      match goal with IH : forall acc, _ |- _ => rewrite <- IH end end;
    f_equal; unfold digit_val; cbn [b2n Byte.to_N]; lia.
Qed.

Lemma digits_val_uint u : digits_val (uint_to_str u) = N.of_uint u.
Proof.
  unfold digits_val, N.of_uint.
  induction u; cbn [uint_to_str digits_acc Pos.of_uint]; try reflexivity;
    try (rewrite <- digits_acc_pos; f_equal).
  exact IHu.
Qed.

Lemma digits_val_N_to_dec n : digits_val (N_to_dec n) = n.
Proof. unfold N_to_dec. rewrite digits_val_uint. apply DecimalN.Unsigned.of_to. Qed.

Lemma is_hex_hexuint u : forallb is_hex (hexuint_to_str u) = true.
Proof. induction u; cbn [hexuint_to_str forallb]; try exact IHu; reflexivity. Qed.

Lemma hex_acc_pos u : forall acc,
  hex_acc (Npos acc) (hexuint_to_str u) = Npos (Pos.of_hex_uint_acc u acc).
Proof.
  induction u; intros acc; cbn [hexuint_to_str hex_acc Pos.of_hex_uint_acc]; try reflexivity;
    match goal with |- hex_acc ?a _ = _ =>
      match goal with IH : forall acc, _ |- _ => rewrite <- IH end end;
    f_equal; vm_compute hex_val; lia.
Qed.

Lemma hex_acc_hexuint u : hex_acc 0 (hexuint_to_str u) = N.of_hex_uint u.
Proof.
  unfold N.of_hex_uint.
  induction u; cbn [hexuint_to_str hex_acc Pos.of_hex_uint]; try reflexivity;
    try (rewrite <- hex_acc_pos; f_equal).
  exact IHu.
Qed.

Lemma hex_acc_N_to_hex n : hex_acc 0 (N_to_hex n) = n.
Proof. unfold N_to_hex. rewrite hex_acc_hexuint. apply HexadecimalN.Unsigned.of_to. Qed.

Lemma N_to_hex_nonnil n : N_to_hex n <> [].
Proof.
  unfold N_to_hex. destruct n as [|p]; [discriminate|].
  cbn [N.to_hex_uint]. pose proof (HexadecimalPos.Unsigned.to_uint_nonnil p) as H.
  destruct (Pos.to_hex_uint p); try discriminate. congruence.
Qed.

(* the decimal text of a number has no superfluous leading zero *)
Lemma uint_to_str_length u : length (uint_to_str u) = Decimal.nb_digits u.
Proof. induction u; cbn [uint_to_str length Decimal.nb_digits]; congruence. Qed.

Lemma canon_unorm u : Decimal.unorm u = u -> canon_int (uint_to_str u) = true.
Proof.
  intros H. destruct u; try reflexivity.
  - vm_compute in H. discriminate.
  - rewrite DecimalFacts.unorm_D0 in H.
    destruct u; try reflexivity;
      match type of H with Decimal.unorm ?v = _ =>
        assert (Hn : v <> Decimal.Nil) by discriminate;
        pose proof (DecimalFacts.nb_digits_unorm v Hn) as Hl; rewrite H in Hl;
        cbn [Decimal.nb_digits] in Hl; lia
      end.
  - destruct u; reflexivity.
  - destruct u; reflexivity.
  - destruct u; reflexivity.
  - destruct u; reflexivity.
  - destruct u; reflexivity.
  - destruct u; reflexivity.
  - destruct u; reflexivity.
  - destruct u; reflexivity.
  - destruct u; reflexivity.
Qed.

Lemma N_to_dec_canon n : canon_int (N_to_dec n) = true.
Proof.
  unfold N_to_dec. apply canon_unorm.
  rewrite <- (DecimalN.Unsigned.of_to n) at 2. symmetry. apply DecimalN.Unsigned.to_of.
Qed.

Lemma N_to_dec_digits n : all_digits (N_to_dec n) = true.
Proof. apply is_digit_uint. Qed.

Lemma canon_nonnil s : canon_int s = true -> nonnil s = true.
Proof. destruct s; [discriminate | reflexivity]. Qed.

(* ================= span ================= *)
Definition hd_not (p : byte -> bool) (s : str) : bool :=
  match s with [] => true | c :: _ => negb (p c) end.

Lemma span_app p a b : forallb p a = true -> hd_not p b = true -> span p (a ++ b) = (a, b).
Proof.
  intros Ha Hb. induction a as [|x a IH]; cbn [app span].
  - destruct b as [|c b]; [reflexivity|]. cbn [hd_not] in Hb. cbn [span].
    apply negb_true_iff in Hb. rewrite Hb. reflexivity.
  - cbn [forallb] in Ha. apply andb_true_iff in Ha. destruct Ha as [Hx Ha].
    rewrite Hx, (IH Ha). reflexivity.
Qed.

Lemma span_eq p s a r : span p s = (a, r) -> s = a ++ r /\ forallb p a = true.
Proof.
  revert a r. induction s as [|x s IH]; intros a r H; cbn [span] in H.
  - injection H as <- <-. split; reflexivity.
  - destruct (p x) eqn:Ep.
    + destruct (span p s) as [a' r'] eqn:Es. injection H as <- <-.
      destruct (IH _ _ eq_refl) as [-> Hf]. split; [reflexivity|].
      cbn [forallb]. rewrite Ep, Hf. reflexivity.
    + injection H as <- <-. split; reflexivity.
Qed.

Lemma digits_acc_app acc a b : digits_acc acc (a ++ b) = digits_acc (digits_acc acc a) b.
Proof. revert acc. induction a as [|x a IH]; intros acc; cbn [app digits_acc]; [reflexivity | apply IH]. Qed.

(* what may follow a number literal in the texts considered here *)
Definition stop_ok (rest : str) : bool :=
  match rest with
  | [] => true
  | c :: _ => negb (is_digit c) && negb (beq c x2e) && negb (beq c x65) && negb (beq c x45)
              && negb (beq c x78) && negb (beq c x58)
  end.

Lemma stop_ok_hd rest : stop_ok rest = true -> hd_not is_digit rest = true.
Proof. destruct rest as [|c r]; [reflexivity|]. cbn [stop_ok hd_not]. intros H. repeat (apply andb_true_iff in H; destruct H as [H ?]). exact H. Qed.

Lemma digit_neq c d : is_digit c = true -> is_digit d = false -> beq c d = false.
Proof. intros Hc Hd. apply beq_neq. intros ->. congruence. Qed.

(* ---- pieces of the decimal scanner ---- *)
Lemma scan_frac_some fp X : all_digits fp = true -> hd_not is_digit X = true ->
  scan_frac (x2e :: fp ++ X) = (Some fp, X).
Proof. intros Hf HX. cbn [scan_frac]. change (beq x2e x2e) with true. cbv iota. rewrite span_app by assumption. reflexivity. Qed.

Lemma scan_frac_none X : stop_ok X = true -> scan_frac X = (None, X).
Proof.
  destruct X as [|c X]; [reflexivity|]. cbn [stop_ok scan_frac]. intros H.
  repeat (apply andb_true_iff in H; destruct H as [H ?]).
  match goal with H1 : negb (beq c x2e) = true |- _ => apply negb_true_iff in H1; rewrite H1 end.
  reflexivity.
Qed.

Lemma scan_exp_some (neg : bool) ed X : all_digits ed = true -> nonnil ed = true -> hd_not is_digit X = true ->
  scan_exp (x65 :: (if neg then x2d else x2b) :: ed ++ X) = Some (Some (exp_value (Some (neg, ed))), X).
Proof.
  intros Hd Hn HX. cbn [scan_exp]. change (beq x65 x65 || beq x65 x45) with true. cbv iota.
  destruct neg.
  - change (beq x2d x2b) with false. change (beq x2d x2d) with true. cbv iota.
    rewrite span_app by assumption. destruct ed; [discriminate|]. reflexivity.
  - change (beq x2b x2b) with true. cbv iota.
    rewrite span_app by assumption. destruct ed; [discriminate|]. reflexivity.
Qed.

Lemma scan_exp_none X : stop_ok X = true -> scan_exp X = Some (None, X).
Proof.
  destruct X as [|c X]; [reflexivity|]. cbn [stop_ok scan_exp]. intros H.
  repeat (apply andb_true_iff in H; destruct H as [H ?]).
  repeat match goal with H1 : negb _ = true |- _ => apply negb_true_iff in H1 end.
  match goal with H1 : beq c x65 = false, H2 : beq c x45 = false |- _ => rewrite H1, H2 end.
  reflexivity.
Qed.

Definition ff_uconst (f : ffloat) : option uconst :=
  match ff_frac f, ff_exp f with
  | None, None => option_map UInt (int_of_digits (ff_int f))
  | _, _ => Some (UFloat (ff_uvalue f))
  end.
Definition ff_const (f : ffloat) : option uconst :=
  option_map (fun c => if ff_neg f then uneg c else c) (ff_uconst f).

Lemma ff_wf_parts f : ff_wf f = true ->
  nonnil (ff_int f) = true /\ all_digits (ff_int f) = true /\
  (forall fp, ff_frac f = Some fp -> nonnil fp = true /\ all_digits fp = true) /\
  (forall ng ed, ff_exp f = Some (ng, ed) -> nonnil ed = true /\ all_digits ed = true /\ (2 <= length ed)%nat).
Proof.
  unfold ff_wf. intros H.
  apply andb_true_iff in H. destruct H as [H H4].
  apply andb_true_iff in H. destruct H as [H H3].
  apply andb_true_iff in H. destruct H as [H1 H2].
  split; [exact H1|]. split; [exact H2|]. split.
  - intros fp E. rewrite E in H3. apply andb_true_iff in H3. exact H3.
  - intros ng ed E. rewrite E in H4. apply andb_true_iff in H4. destruct H4 as [Ha Hb].
    apply Nat.leb_le in Ha. split; [destruct ed; [simpl in Ha; lia | reflexivity]|]. split; assumption.
Qed.

Lemma option_map_pair {A B} (o : option A) (X : B) (g : A -> A) :
  option_map (fun z => (g z, X)) o = option_map (fun c => (c, X)) (option_map g o).
Proof. destruct o; reflexivity. Qed.

Lemma scan_dec_uff f X : ff_wf f = true -> stop_ok X = true ->
  scan_dec (ff_utext f ++ X) = option_map (fun c => (c, X)) (ff_uconst f).
Proof.
  intros Hwf HX. destruct (ff_wf_parts f Hwf) as (Hn & Hd & Hfr & Hex).
  pose proof (stop_ok_hd X HX) as HXd.
  unfold ff_utext, ff_uconst, ff_uvalue, scan_dec. rewrite <- !app_assoc.
  set (ip := ff_int f) in *.
  destruct (ff_frac f) as [fp|] eqn:Efr; destruct (ff_exp f) as [[ng ed]|] eqn:Eex;
    cbn [frac_text exp_text frac_digits].
  - destruct (Hfr fp eq_refl) as [Hfn Hfd]. destruct (Hex ng ed eq_refl) as (Hen & Hed & _).
    rewrite span_app; [|exact Hd|reflexivity].
    destruct ip as [|i0 ip']; [discriminate|].
    cbn [app]. rewrite scan_frac_some; [|exact Hfd|reflexivity].
    rewrite scan_exp_some by assumption. reflexivity.
  - destruct (Hfr fp eq_refl) as [Hfn Hfd].
    rewrite span_app; [|exact Hd|reflexivity].
    destruct ip as [|i0 ip']; [discriminate|].
    cbn [app]. rewrite scan_frac_some by assumption.
    rewrite scan_exp_none by exact HX. reflexivity.
  - destruct (Hex ng ed eq_refl) as (Hen & Hed & _).
    rewrite span_app; [|exact Hd|reflexivity].
    destruct ip as [|i0 ip']; [discriminate|].
    cbn [app].
    change (scan_frac (x65 :: (if ng then x2d else x2b) :: ed ++ X)) with (@None str, x65 :: (if ng then x2d else x2b) :: ed ++ X).
    cbv iota. rewrite scan_exp_some by assumption. rewrite app_nil_r. reflexivity.
  - cbn [app]. rewrite span_app; [|exact Hd|exact HXd].
    destruct ip as [|i0 ip']; [discriminate|].
    rewrite scan_frac_none by exact HX. rewrite scan_exp_none by exact HX.
    destruct (int_of_digits (i0 :: ip')); reflexivity.
Qed.

Lemma is_hex_prefix_uff f X : ff_wf f = true -> stop_ok X = true ->
  is_hex_prefix (ff_utext f ++ X) = false.
Proof.
  intros Hwf HX. destruct (ff_wf_parts f Hwf) as (Hn & Hd & Hfr & Hex).
  unfold ff_utext. rewrite <- !app_assoc.
  destruct (ff_int f) as [|i0 ip]; [discriminate|].
  cbn [all_digits forallb] in Hd. apply andb_true_iff in Hd. destruct Hd as [Hi0 Hd].
  destruct ip as [|i1 ip].
  - cbn [app].
    destruct (ff_frac f) as [fp|]; [cbn [frac_text app is_hex_prefix]; apply andb_false_r|].
    destruct (ff_exp f) as [[ng ed]|]; [cbn [frac_text exp_text app is_hex_prefix]; apply andb_false_r|].
    cbn [frac_text exp_text app]. destruct X as [|c X]; [reflexivity|].
    cbn [is_hex_prefix]. cbn [stop_ok] in HX.
    repeat (apply andb_true_iff in HX; destruct HX as [HX ?]).
    repeat match goal with H1 : negb _ = true |- _ => apply negb_true_iff in H1 end.
    match goal with H1 : beq c x78 = false, H2 : beq c x58 = false |- _ => rewrite H1, H2 end.
    apply andb_false_r.
  - cbn [app is_hex_prefix]. cbn [forallb] in Hd. apply andb_true_iff in Hd. destruct Hd as [Hi1 _].
    rewrite (digit_neq i1 x78 Hi1 eq_refl), (digit_neq i1 x58 Hi1 eq_refl). apply andb_false_r.
Qed.

Lemma scan_num_uff f X : ff_wf f = true -> stop_ok X = true ->
  scan_num (ff_utext f ++ X) = option_map (fun c => (c, X)) (ff_uconst f).
Proof.
  intros Hwf HX. unfold scan_num. rewrite is_hex_prefix_uff by assumption.
  apply scan_dec_uff; assumption.
Qed.

Lemma ff_utext_hd f : ff_wf f = true -> exists d t, ff_utext f = d :: t /\ is_digit d = true.
Proof.
  intros Hwf. destruct (ff_wf_parts f Hwf) as (Hn & Hd & _).
  unfold ff_utext. destruct (ff_int f) as [|d t]; [discriminate|].
  cbn [all_digits forallb] in Hd. apply andb_true_iff in Hd. destruct Hd as [Hd _].
  eexists _, _. split; [reflexivity | exact Hd].
Qed.

Lemma scan_const_ff f X : ff_wf f = true -> stop_ok X = true ->
  scan_const (ff_text f ++ X) = option_map (fun c => (c, X)) (ff_const f).
Proof.
  intros Hwf HX. unfold ff_text, ff_const. destruct (ff_neg f).
  - cbn [app scan_const]. change (beq x2d x2d) with true. cbv iota.
    rewrite scan_num_uff by assumption. destruct (ff_uconst f); reflexivity.
  - cbn [app]. pose proof (scan_num_uff f X Hwf HX) as Hs.
    destruct (ff_utext_hd f Hwf) as (d & t & Et & Hd). rewrite Et in *.
    cbn [app scan_const] in *. rewrite (digit_neq d x2d Hd eq_refl).
    rewrite Hs. destruct (ff_uconst f); reflexivity.
Qed.

Lemma int_of_digits_canon ip : canon_int ip = true -> int_of_digits ip = Some (Z.of_N (digits_val ip)).
Proof.
  destruct ip as [|a [|b t]]; [discriminate | reflexivity |].
  cbn [canon_int int_of_digits]. intros H. apply negb_true_iff in H. rewrite H. reflexivity.
Qed.

(* with a canonical integer part the text denotes its decimal value, as an integer
   constant when it has neither fraction nor exponent, as a float constant otherwise *)
Lemma ff_uconst_canon f : ff_canon f = true ->
  exists c, ff_uconst f = Some c /\ to_dec c = Some (ff_uvalue f).
Proof.
  unfold ff_canon, ff_uconst, ff_uvalue. intros Hc.
  destruct (ff_frac f); [eexists; split; reflexivity|].
  destruct (ff_exp f); [eexists; split; reflexivity|].
  rewrite (int_of_digits_canon _ Hc). eexists. split; [reflexivity|].
  cbn [option_map to_dec frac_digits exp_value length]. rewrite app_nil_r. reflexivity.
Qed.

Lemma to_dec_uneg c q : to_dec c = Some q -> to_dec (uneg c) = Some (dneg q).
Proof. destruct c; cbn [to_dec uneg]; intros H; try discriminate; injection H as <-; reflexivity. Qed.

Lemma ff_const_canon f : ff_canon f = true ->
  exists c, ff_const f = Some c /\ to_dec c = Some (ff_value f).
Proof.
  intros Hc. destruct (ff_uconst_canon f Hc) as (c & E & Hd).
  unfold ff_const, ff_value. rewrite E. cbn [option_map]. destruct (ff_neg f).
  - eexists. split; [reflexivity | apply to_dec_uneg; exact Hd].
  - eexists. split; [reflexivity | exact Hd].
Qed.

Definition ff_is_float (f : ffloat) : bool :=
  match ff_frac f, ff_exp f with None, None => false | _, _ => true end.

Lemma ff_const_float f : ff_is_float f = true -> ff_const f = Some (UFloat (ff_value f)).
Proof.
  unfold ff_is_float, ff_const, ff_uconst, ff_value. intros H.
  destruct (ff_frac f); destruct (ff_exp f); try discriminate; cbn [option_map]; destruct (ff_neg f); reflexivity.
Qed.

(* ================= expressions ================= *)
Definition not_sign (r : str) : bool :=
  match r with [] => true | c :: _ => negb (beq c x2b || beq c x2d) end.

Lemma scan_expr_real s c r : scan_const s = Some (c, r) -> not_sign r = true ->
  scan_expr s = Some (c, r).
Proof.
  intros Hs Hr. unfold scan_expr. rewrite Hs. destruct r as [|sg r2]; [reflexivity|].
  cbn [not_sign] in Hr. apply negb_true_iff in Hr. rewrite Hr. reflexivity.
Qed.

Lemma eval_lit_bare c t u : is_digit c || beq c x2d = true -> scan_expr (c :: t) = Some (u, []) ->
  eval_lit (c :: t) = Some (default_value u).
Proof. intros Hc Hs. unfold eval_lit. rewrite Hc, Hs. reflexivity. Qed.

Lemma eval_lit_paren t u : scan_expr t = Some (u, [x29]) -> eval_lit (x28 :: t) = Some (default_value u).
Proof. intros Hs. unfold eval_lit. change (is_digit x28 || beq x28 x2d) with false. change (beq x28 x28) with true. cbv iota. rewrite Hs. reflexivity. Qed.

Lemma eval_lit_conv_gen ty t u : scan_expr t = Some (u, [x29]) ->
  eval_lit (type_name ty ++ x28 :: t) = option_map (fun v => (ty, v)) (convert ty u).
Proof. intros Hs. destruct ty; simpl; rewrite Hs; reflexivity. Qed.

Lemma eval_lit_conv ty t u v : scan_expr t = Some (u, [x29]) -> convert ty u = Some v ->
  eval_lit (type_name ty ++ x28 :: t) = Some (ty, v).
Proof. intros Hs Hc. rewrite (eval_lit_conv_gen ty t u Hs), Hc. reflexivity. Qed.

(* ================= integers ================= *)
Definition int_ff (n : N) : ffloat :=
  {| ff_neg := false; ff_int := N_to_dec n; ff_frac := None; ff_exp := None |}.

Lemma int_ff_wf n : ff_wf (int_ff n) = true.
Proof.
  unfold ff_wf, int_ff. cbn [ff_int ff_frac ff_exp].
  rewrite (canon_nonnil _ (N_to_dec_canon n)), N_to_dec_digits. reflexivity.
Qed.

Lemma scan_num_dec n X : stop_ok X = true ->
  scan_num (N_to_dec n ++ X) = Some (UInt (Z.of_N n), X).
Proof.
  intros HX. pose proof (scan_num_uff (int_ff n) X (int_ff_wf n) HX) as H.
  unfold ff_utext, ff_uconst in H. cbn [int_ff ff_int ff_frac ff_exp frac_text exp_text] in H.
  rewrite !app_nil_r in H. rewrite H.
  rewrite (int_of_digits_canon _ (N_to_dec_canon n)), digits_val_N_to_dec. reflexivity.
Qed.

Lemma N_to_dec_hd n : exists d t, N_to_dec n = d :: t /\ is_digit d = true.
Proof.
  pose proof (N_to_dec_digits n) as Hd. pose proof (canon_nonnil _ (N_to_dec_canon n)) as Hn.
  destruct (N_to_dec n) as [|d t]; [discriminate|].
  cbn [all_digits forallb] in Hd. apply andb_true_iff in Hd. destruct Hd as [Hd _].
  eexists _, _. split; [reflexivity | exact Hd].
Qed.

Lemma scan_const_N n X : stop_ok X = true ->
  scan_const (N_to_dec n ++ X) = Some (UInt (Z.of_N n), X).
Proof.
  intros HX. pose proof (scan_num_dec n X HX) as H.
  destruct (N_to_dec_hd n) as (d & t & E & Hd). rewrite E in *.
  cbn [app scan_const] in *. rewrite (digit_neq d x2d Hd eq_refl). exact H.
Qed.

Lemma scan_const_Z z X : stop_ok X = true ->
  scan_const (Z_to_dec z ++ X) = Some (UInt z, X).
Proof.
  intros HX. destruct z as [|p|p]; cbn [Z_to_dec].
  - exact (scan_const_N 0 X HX).
  - exact (scan_const_N (Npos p) X HX).
  - cbn [app scan_const]. change (beq x2d x2d) with true. cbv iota.
    rewrite (scan_num_dec (Npos p) X HX). reflexivity.
Qed.

Lemma Z_to_dec_hd z : exists c t, Z_to_dec z = c :: t /\ is_digit c || beq c x2d = true.
Proof.
  destruct z as [|p|p]; cbn [Z_to_dec].
  - destruct (N_to_dec_hd 0) as (d & t & E & Hd). exists d, t. rewrite Hd. split; [exact E | reflexivity].
  - destruct (N_to_dec_hd (Npos p)) as (d & t & E & Hd). exists d, t. rewrite Hd. split; [exact E | reflexivity].
  - eexists _, _. split; reflexivity.
Qed.

Lemma eval_lit_int z : eval_lit (Z_to_dec z) = Some (TInt, VInt z).
Proof.
  destruct (Z_to_dec_hd z) as (c & t & E & Hc).
  pose proof (scan_const_Z z [] eq_refl) as Hs. rewrite app_nil_r in Hs.
  rewrite E in *. rewrite (eval_lit_bare c t (UInt z) Hc); [reflexivity|].
  apply scan_expr_real; [exact Hs | reflexivity].
Qed.

Definition in_range (ty : gotype) (z : Z) : Prop :=
  match int_range ty with Some (lo, hi) => (lo <= z <= hi)%Z | None => False end.

Lemma convert_int ty z : in_range ty z -> convert ty (UInt z) = Some (VInt z).
Proof.
  unfold in_range. destruct ty; cbn [int_range convert]; intros H; try contradiction;
    match goal with |- (if ?c then _ else _) = _ => assert (E : c = true) by lia; rewrite E; reflexivity end.
Qed.

Lemma convert_int_out ty z lo hi : int_range ty = Some (lo, hi) -> ~ (lo <= z <= hi)%Z ->
  convert ty (UInt z) = None.
Proof.
  destruct ty; cbn [int_range convert]; intros E H; try discriminate; injection E as <- <-;
    match goal with |- (if ?c then _ else _) = _ => assert (E : c = false) by lia; rewrite E; reflexivity end.
Qed.

Lemma eval_lit_conv_dec ty z :
  eval_lit (type_name ty ++ x28 :: Z_to_dec z ++ [x29]) = option_map (fun v => (ty, v)) (convert ty (UInt z)).
Proof.
  apply eval_lit_conv_gen. apply scan_expr_real; [|reflexivity]. apply scan_const_Z. reflexivity.
Qed.

Lemma scan_num_hex n X : hd_not is_hex X = true ->
  scan_num (x30 :: x78 :: N_to_hex n ++ X) = Some (UInt (Z.of_N n), X).
Proof.
  intros HX. unfold scan_num. cbn [is_hex_prefix]. change (beq x30 x30 && (beq x78 x78 || beq x78 x58)) with true.
  cbv iota. unfold scan_hex. cbn [skipn]. rewrite span_app; [|apply is_hex_hexuint | exact HX].
  pose proof (N_to_hex_nonnil n) as Hn. destruct (N_to_hex n) eqn:E; [congruence|].
  rewrite <- E, hex_acc_N_to_hex. reflexivity.
Qed.

Lemma eval_lit_conv_hex ty n :
  eval_lit (type_name ty ++ x28 :: x30 :: x78 :: N_to_hex n ++ [x29]) =
  option_map (fun v => (ty, v)) (convert ty (UInt (Z.of_N n))).
Proof.
  apply eval_lit_conv_gen. apply scan_expr_real; [|reflexivity].
  cbn [scan_const]. change (beq x30 x2d) with false. cbv iota. apply scan_num_hex. reflexivity.
Qed.

Definition intkind_type (k : intkind) : gotype :=
  match k with KInt8 => TInt8 | KInt16 => TInt16 | KInt32 => TInt32 | KInt64 => TInt64 end.
Definition uintkind_type (k : uintkind) : gotype :=
  match k with
  | KUint => TUint | KUint8 => TUint8 | KUint16 => TUint16
  | KUint32 => TUint32 | KUint64 => TUint64 | KUintptr => TUintptr
  end.

Lemma lit_text_IntT k z :
  lit_text (LIntT k z) = Ok (type_name (intkind_type k) ++ x28 :: Z_to_dec z ++ [x29]).
Proof. destruct k; reflexivity. Qed.
Lemma lit_text_UintT k n :
  lit_text (LUintT k n) = Ok (type_name (uintkind_type k) ++ x28 :: x30 :: x78 :: N_to_hex n ++ [x29]).
Proof. destruct k; reflexivity. Qed.

Definition eval_res (r : result str) : option (gotype * value) :=
  match r with Ok t => eval_lit t | _ => None end.

(* what the rendered text of a literal token evaluates to *)
Definition lit_value (l : lit) : option (gotype * value) := eval_res (lit_text l).

Lemma eval_LInt z : lit_value (LInt z) = Some (TInt, VInt z).
Proof. exact (eval_lit_int z). Qed.

Lemma eval_LBool b : lit_value (LBool b) = Some (TBool, VBool b).
Proof. destruct b; reflexivity. Qed.

Lemma eval_LIntT k z : in_range (intkind_type k) z ->
  lit_value (LIntT k z) = Some (intkind_type k, VInt z).
Proof.
  intros H. unfold lit_value. rewrite lit_text_IntT. cbn [eval_res]. rewrite eval_lit_conv_dec, (convert_int _ _ H). reflexivity.
Qed.

Lemma eval_LIntT_out k z : ~ in_range (intkind_type k) z -> lit_value (LIntT k z) = None.
Proof.
  intros H. unfold lit_value. rewrite lit_text_IntT. cbn [eval_res]. rewrite eval_lit_conv_dec.
  destruct k; cbn [intkind_type] in *; unfold in_range in H; cbn [int_range] in H;
    erewrite convert_int_out; try reflexivity; exact H.
Qed.

Lemma eval_LUintT k n : in_range (uintkind_type k) (Z.of_N n) ->
  lit_value (LUintT k n) = Some (uintkind_type k, VInt (Z.of_N n)).
Proof.
  intros H. unfold lit_value. rewrite lit_text_UintT. cbn [eval_res]. rewrite eval_lit_conv_hex, (convert_int _ _ H). reflexivity.
Qed.

Lemma eval_byte b : (b < 256)%N -> eval_lit (byte_text b) = Some (TByte, VInt (Z.of_N b)).
Proof.
  intros H. change (byte_text b) with (type_name TByte ++ x28 :: x30 :: x78 :: N_to_hex b ++ [x29]).
  rewrite eval_lit_conv_hex, convert_int; [reflexivity|]. unfold in_range. cbn [int_range]. lia.
Qed.

(* ================= the formatter grammar ================= *)
Lemma scan_frac_sound r1 o r2 : scan_frac r1 = (o, r2) -> r1 = frac_text o ++ r2.
Proof.
  destruct r1 as [|c t]; cbn [scan_frac].
  - intros H. injection H as <- <-. reflexivity.
  - destruct (beq c x2e) eqn:Ec.
    + apply beq_eq in Ec. subst c. destruct (span is_digit t) as [fp r] eqn:Es.
      apply span_eq in Es. destruct Es as [-> _]. intros H. injection H as <- <-. reflexivity.
    + intros H. injection H as <- <-. reflexivity.
Qed.

Lemma ff_scan_exp_sound r2 o r3 : ff_scan_exp r2 = (o, r3) -> r2 = exp_text o ++ r3.
Proof.
  destruct r2 as [|c [|sg t]]; cbn [ff_scan_exp]; try (intros H; injection H as <- <-; reflexivity).
  destruct (beq c x65 && (beq sg x2b || beq sg x2d)) eqn:Ec.
  - apply andb_true_iff in Ec. destruct Ec as [Ec Es]. apply beq_eq in Ec. subst c.
    destruct (span is_digit t) as [ed r] eqn:Esp. apply span_eq in Esp. destruct Esp as [-> _].
    intros H. injection H as <- <-. cbn [exp_text app].
    destruct (beq sg x2d) eqn:Em.
    + apply beq_eq in Em. subst sg. reflexivity.
    + rewrite orb_false_r in Es. apply beq_eq in Es. subst sg. reflexivity.
  - intros H. injection H as <- <-. reflexivity.
Qed.

Lemma scan_uff_sound neg u f r : scan_uff neg u = (f, r) -> u = ff_utext f ++ r /\ ff_neg f = neg.
Proof.
  unfold scan_uff. destruct (span is_digit u) as [ip r1] eqn:E1.
  apply span_eq in E1. destruct E1 as [-> _].
  destruct (scan_frac r1) as [fr r2] eqn:E2. apply scan_frac_sound in E2. subst r1.
  destruct (ff_scan_exp r2) as [ex r3] eqn:E3. apply ff_scan_exp_sound in E3. subst r2.
  intros H. injection H as <- <-. unfold ff_utext. cbn [ff_int ff_frac ff_exp ff_neg].
  rewrite <- !app_assoc. split; reflexivity.
Qed.

Lemma strip_minus_sound g neg u : strip_minus g = (neg, u) -> g = (if neg then [x2d] else []) ++ u.
Proof.
  destruct g as [|c t]; cbn [strip_minus].
  - intros H. injection H as <- <-. reflexivity.
  - destruct (beq c x2d) eqn:Ec; intros H; injection H as <- <-; [|reflexivity].
    apply beq_eq in Ec. subst c. reflexivity.
Qed.

Lemma parse_ff_sound g f : parse_ff g = Some f -> ff_wf f = true /\ g = ff_text f.
Proof.
  unfold parse_ff. destruct (strip_minus g) as [neg u] eqn:Es. apply strip_minus_sound in Es.
  destruct (scan_uff neg u) as [f' r] eqn:Eu. apply scan_uff_sound in Eu. destruct Eu as [-> Hn].
  destruct r; [|discriminate]. destruct (ff_wf f') eqn:Hw; [|discriminate].
  intros H. injection H as <-. split; [exact Hw|].
  unfold ff_text. rewrite Hn. rewrite app_nil_r in Es. exact Es.
Qed.

Lemma parse_cplx_sound g fr fi : parse_cplx g = Some (fr, fi) ->
  g = cplx_text fr fi /\ ff_wf fr = true /\ ff_wf fi = true /\ ff_canon fr = true /\ ff_canon fi = true.
Proof.
  unfold parse_cplx. destruct g as [|c t]; [discriminate|].
  destruct (beq c x28) eqn:Ec; [|discriminate]. apply beq_eq in Ec. subst c.
  destruct (strip_minus t) as [neg u] eqn:Es. apply strip_minus_sound in Es.
  destruct (scan_uff neg u) as [f1 r] eqn:E1. apply scan_uff_sound in E1. destruct E1 as [-> Hn1].
  destruct r as [|sg r']; [discriminate|].
  destruct (beq sg x2b || beq sg x2d) eqn:Esg; [|discriminate].
  destruct (scan_uff (beq sg x2d) r') as [f2 r''] eqn:E2. apply scan_uff_sound in E2. destruct E2 as [-> Hn2].
  match goal with |- (if ?c then _ else _) = _ -> _ => destruct c eqn:Eall end; [|discriminate].
  intros H. injection H as <- <-.
  repeat (apply andb_true_iff in Eall; destruct Eall as [Eall ?]).
  apply str_eqb_eq in Eall. subst r''.
  split; [|repeat split; assumption].
  unfold cplx_text, ff_text. rewrite Hn1, Hn2. subst t. f_equal. rewrite <- !app_assoc. f_equal. f_equal.
  cbn [app]. f_equal.
  destruct (beq sg x2d) eqn:Em.
  - apply beq_eq in Em. congruence.
  - rewrite orb_false_r in Esg. apply beq_eq in Esg. congruence.
Qed.

(* ================= floats ================= *)
Lemma contains_byte_app c a b : contains_byte c (a ++ b) = contains_byte c a || contains_byte c b.
Proof. induction a as [|x a IH]; cbn [app contains_byte]; [reflexivity|]. rewrite IH. apply orb_assoc. Qed.

Lemma contains_nondigit c s : is_digit c = false -> all_digits s = true -> contains_byte c s = false.
Proof.
  intros Hc. induction s as [|x s IH]; cbn [all_digits forallb contains_byte]; [reflexivity|].
  intros H. apply andb_true_iff in H. destruct H as [Hx Hs].
  rewrite (IH Hs). rewrite orb_false_r. apply beq_neq. intros ->. congruence.
Qed.

Lemma contains_sign c (b : bool) s : beq c x2d = false ->
  contains_byte c ((if b then [x2d] else []) ++ s) = contains_byte c s.
Proof. intros H. destruct b; [|reflexivity]. cbn [app contains_byte]. rewrite H. reflexivity. Qed.

Lemma ff_text_dot f : ff_wf f = true ->
  contains_byte x2e (ff_text f) = match ff_frac f with Some _ => true | None => false end.
Proof.
  intros Hwf. destruct (ff_wf_parts f Hwf) as (Hn & Hd & Hfr & Hex).
  unfold ff_text. rewrite contains_sign by reflexivity.
  unfold ff_utext. rewrite !contains_byte_app.
  rewrite (contains_nondigit x2e (ff_int f) eq_refl Hd). cbn [orb].
  destruct (ff_frac f) as [fp|]; [reflexivity|].
  destruct (ff_exp f) as [[ng ed]|]; [|reflexivity].
  destruct (Hex ng ed eq_refl) as (_ & Hed & _).
  cbn [frac_text exp_text contains_byte]. rewrite (contains_nondigit x2e ed eq_refl Hed).
  destruct ng; reflexivity.
Qed.

Lemma ff_text_e f : ff_wf f = true ->
  contains_byte x65 (ff_text f) = match ff_exp f with Some _ => true | None => false end.
Proof.
  intros Hwf. destruct (ff_wf_parts f Hwf) as (Hn & Hd & Hfr & Hex).
  unfold ff_text. rewrite contains_sign by reflexivity.
  unfold ff_utext. rewrite !contains_byte_app.
  rewrite (contains_nondigit x65 (ff_int f) eq_refl Hd). cbn [orb].
  assert (Hf : contains_byte x65 (frac_text (ff_frac f)) = false).
  { destruct (ff_frac f) as [fp|] eqn:E; [|reflexivity]. destruct (Hfr fp eq_refl) as [_ Hfd].
    cbn [frac_text contains_byte]. rewrite (contains_nondigit x65 fp eq_refl Hfd). reflexivity. }
  rewrite Hf. destruct (ff_exp f) as [[ng ed]|]; reflexivity.
Qed.

(* the structured form of float64_text's result *)
Definition ff_dot0 (f : ffloat) : ffloat :=
  if ff_is_float f then f
  else {| ff_neg := ff_neg f; ff_int := ff_int f; ff_frac := Some [x30]; ff_exp := None |}.

Lemma float64_text_ff f : ff_wf f = true -> float64_text (ff_text f) = ff_text (ff_dot0 f).
Proof.
  intros Hwf. unfold float64_text, ff_dot0, ff_is_float.
  rewrite (ff_text_dot f Hwf), (ff_text_e f Hwf).
  destruct (ff_frac f) as [fp|] eqn:Efr; [reflexivity|].
  destruct (ff_exp f) as [ex|] eqn:Eex; [reflexivity|].
  cbn [negb andb]. unfold ff_text, ff_utext. cbn [ff_neg ff_int ff_frac ff_exp].
  rewrite Efr, Eex. cbn [frac_text exp_text]. rewrite !app_nil_r, <- app_assoc. reflexivity.
Qed.

Lemma ff_dot0_wf f : ff_wf f = true -> ff_wf (ff_dot0 f) = true.
Proof.
  intros Hwf. unfold ff_dot0. destruct (ff_is_float f); [exact Hwf|].
  destruct (ff_wf_parts f Hwf) as (Hn & Hd & _).
  unfold ff_wf. cbn [ff_int ff_frac ff_exp]. rewrite Hn, Hd. reflexivity.
Qed.

Lemma ff_dot0_float f : ff_is_float (ff_dot0 f) = true.
Proof. unfold ff_dot0. destruct (ff_is_float f) eqn:E; [exact E | reflexivity]. Qed.

Lemma rat_eq_shift m : rat_eq ((m * 10)%Z, (0 - 1)%Z) (m, (0 - 0)%Z).
Proof. unfold rat_eq. cbn [fst snd]. change (Z.min (0 - 1) (0 - 0)) with (-1)%Z. change (10 ^ (0 - 1 - -1))%Z with 1%Z. change (10 ^ (0 - 0 - -1))%Z with 10%Z. lia. Qed.

Lemma rat_eq_refl q : rat_eq q q.
Proof. reflexivity. Qed.

Lemma rat_eq_dneg a b : rat_eq a b -> rat_eq (dneg a) (dneg b).
Proof. unfold rat_eq, dneg. cbn [fst snd]. intros H. rewrite !Z.mul_opp_l, H. reflexivity. Qed.

Lemma ff_dot0_value f : rat_eq (ff_value (ff_dot0 f)) (ff_value f).
Proof.
  unfold ff_dot0. destruct (ff_is_float f) eqn:E; [apply rat_eq_refl|].
  unfold ff_is_float in E. destruct (ff_frac f) eqn:Efr; [discriminate|]. destruct (ff_exp f) eqn:Eex; [discriminate|].
  assert (Hu : rat_eq (ff_uvalue {| ff_neg := ff_neg f; ff_int := ff_int f; ff_frac := Some [x30]; ff_exp := None |})
                      (ff_uvalue f)).
  { unfold ff_uvalue. cbn [ff_int ff_frac ff_exp]. rewrite Efr, Eex.
    cbn [frac_digits exp_value length]. rewrite app_nil_r.
    unfold digits_val. rewrite digits_acc_app. cbn [digits_acc].
    change (digit_val x30) with 0%N. rewrite N.add_0_r, N2Z.inj_mul.
    apply rat_eq_shift. }
  unfold ff_value. cbn [ff_neg]. destruct (ff_neg f); [apply rat_eq_dneg|]; exact Hu.
Qed.

Lemma ff_text_hd f : ff_wf f = true -> exists c t, ff_text f = c :: t /\ is_digit c || beq c x2d = true.
Proof.
  intros Hwf. unfold ff_text. destruct (ff_neg f).
  - eexists _, _. split; reflexivity.
  - destruct (ff_utext_hd f Hwf) as (d & t & E & Hd). exists d, t. rewrite Hd. split; [exact E | reflexivity].
Qed.

Lemma eval_lit_ff_float f : ff_wf f = true -> ff_is_float f = true ->
  eval_lit (ff_text f) = Some (TFloat64, VFloat (ff_value f)).
Proof.
  intros Hwf Hfl. destruct (ff_text_hd f Hwf) as (c & t & E & Hc).
  pose proof (scan_const_ff f [] Hwf eq_refl) as Hs.
  rewrite app_nil_r, (ff_const_float f Hfl) in Hs. cbn [option_map] in Hs.
  rewrite E in *. rewrite (eval_lit_bare c t (UFloat (ff_value f)) Hc); [reflexivity|].
  apply scan_expr_real; [exact Hs | reflexivity].
Qed.

Theorem float64_decision g : fmt_float_grammar g = true ->
  exists q v, lit_value (LF64 g) = Some (TFloat64, VFloat q) /\
              decimal_value g = Some v /\ rat_eq q v.
Proof.
  unfold fmt_float_grammar, decimal_value. destruct (parse_ff g) as [f|] eqn:Ep; [|discriminate].
  intros _. destruct (parse_ff_sound g f Ep) as [Hwf ->].
  exists (ff_value (ff_dot0 f)), (ff_value f).
  unfold lit_value. cbn [lit_text eval_res]. rewrite (float64_text_ff f Hwf).
  rewrite (eval_lit_ff_float _ (ff_dot0_wf f Hwf) (ff_dot0_float f)).
  split; [reflexivity|]. split; [reflexivity|]. apply ff_dot0_value.
Qed.

(* conversions: the inner text keeps its value; needs the canonical integer part because
   inside T(...) a text without `.`/exponent is an INTEGER literal (010 is octal) *)
Lemma scan_expr_ff_close f : ff_wf f = true -> ff_canon f = true ->
  exists c, scan_expr (ff_text f ++ [x29]) = Some (c, [x29]) /\ to_dec c = Some (ff_value f).
Proof.
  intros Hwf Hc. destruct (ff_const_canon f Hc) as (c & E & Hd).
  exists c. split; [|exact Hd]. apply scan_expr_real; [|reflexivity].
  rewrite (scan_const_ff f [x29] Hwf eq_refl), E. reflexivity.
Qed.

Lemma eval_lit_float_conv ty f : (ty = TFloat32 \/ ty = TFloat64) -> ff_wf f = true -> ff_canon f = true ->
  eval_lit (type_name ty ++ x28 :: ff_text f ++ [x29]) = Some (ty, VFloat (ff_value f)).
Proof.
  intros Hty Hwf Hc. destruct (scan_expr_ff_close f Hwf Hc) as (c & Hs & Hd).
  apply (eval_lit_conv ty _ c); [exact Hs|].
  destruct Hty as [-> | ->]; cbn [convert]; rewrite Hd; reflexivity.
Qed.

Theorem float32_wrapper g : fmt_float_canon g = true ->
  exists v, decimal_value g = Some v /\
            lit_value (LF32 g) = Some (TFloat32, VFloat v).
Proof.
  unfold fmt_float_canon, decimal_value. destruct (parse_ff g) as [f|] eqn:Ep; [|discriminate].
  intros Hc. destruct (parse_ff_sound g f Ep) as [Hwf ->].
  exists (ff_value f). split; [reflexivity|].
  exact (eval_lit_float_conv TFloat32 f (or_introl eq_refl) Hwf Hc).
Qed.

(* ================= complex ================= *)
Lemma stop_ok_sign (b : bool) R : stop_ok ((if b then x2d else x2b) :: R) = true.
Proof. destruct b; reflexivity. Qed.

Lemma scan_expr_cplx fr fi R : ff_wf fr = true -> ff_wf fi = true -> ff_canon fr = true -> ff_canon fi = true ->
  scan_expr (ff_text fr ++ (if ff_neg fi then x2d else x2b) :: ff_utext fi ++ x69 :: R) =
  Some (UComplex (ff_value fr) (ff_value fi), R).
Proof.
  intros Hw1 Hw2 Hc1 Hc2.
  destruct (ff_const_canon fr Hc1) as (c1 & E1 & Hd1).
  destruct (ff_uconst_canon fi Hc2) as (c2 & E2 & Hd2).
  unfold scan_expr.
  rewrite (scan_const_ff fr _ Hw1 (stop_ok_sign (ff_neg fi) _)), E1. cbn [option_map].
  rewrite (scan_num_uff fi (x69 :: R) Hw2 eq_refl), E2. cbn [option_map].
  rewrite Hd1, Hd2. change (beq x69 x69) with true. cbv iota.
  assert (Hv : ff_value fi = if ff_neg fi then dneg (ff_uvalue fi) else ff_uvalue fi) by reflexivity.
  rewrite Hv. destruct (ff_neg fi); reflexivity.
Qed.

Lemma eval_lit_cplx fr fi : ff_wf fr = true -> ff_wf fi = true -> ff_canon fr = true -> ff_canon fi = true ->
  eval_lit (cplx_text fr fi) = Some (TComplex128, VComplex (ff_value fr) (ff_value fi)).
Proof.
  intros Hw1 Hw2 Hc1 Hc2. unfold cplx_text.
  rewrite (eval_lit_paren _ (UComplex (ff_value fr) (ff_value fi))); [reflexivity|].
  exact (scan_expr_cplx fr fi [x29] Hw1 Hw2 Hc1 Hc2).
Qed.

Lemma eval_lit_cplx64 fr fi : ff_wf fr = true -> ff_wf fi = true -> ff_canon fr = true -> ff_canon fi = true ->
  eval_lit (type_name TComplex64 ++ cplx_text fr fi) = Some (TComplex64, VComplex (ff_value fr) (ff_value fi)).
Proof.
  intros Hw1 Hw2 Hc1 Hc2. unfold cplx_text.
  apply (eval_lit_conv TComplex64 _ (UComplex (ff_value fr) (ff_value fi))); [|reflexivity].
  exact (scan_expr_cplx fr fi [x29] Hw1 Hw2 Hc1 Hc2).
Qed.

Theorem complex128_text g : fmt_complex_grammar g = true ->
  exists re im, complex_value g = Some (re, im) /\
                lit_value (LC128 g) = Some (TComplex128, VComplex re im).
Proof.
  unfold fmt_complex_grammar, complex_value. destruct (parse_cplx g) as [[fr fi]|] eqn:Ep; [|discriminate].
  intros _. destruct (parse_cplx_sound g fr fi Ep) as (-> & Hw1 & Hw2 & Hc1 & Hc2).
  exists (ff_value fr), (ff_value fi). split; [reflexivity|].
  exact (eval_lit_cplx fr fi Hw1 Hw2 Hc1 Hc2).
Qed.

Theorem complex64_wrapper g : fmt_complex_grammar g = true ->
  exists re im, complex_value g = Some (re, im) /\
                lit_value (LC64 g) = Some (TComplex64, VComplex re im).
Proof.
  unfold fmt_complex_grammar, complex_value. destruct (parse_cplx g) as [[fr fi]|] eqn:Ep; [|discriminate].
  intros _. destruct (parse_cplx_sound g fr fi Ep) as (-> & Hw1 & Hw2 & Hc1 & Hc2).
  exists (ff_value fr), (ff_value fi). split; [reflexivity|].
  exact (eval_lit_cplx64 fr fi Hw1 Hw2 Hc1 Hc2).
Qed.

(* every well-formed structured text is accepted by the grammar's reader, and read back
   as itself: the grammar is exactly { ff_text f | ff_wf f } *)
Lemma ff_scan_exp_text o : (forall ng ed, o = Some (ng, ed) -> all_digits ed = true) ->
  ff_scan_exp (exp_text o) = (o, []).
Proof.
  destruct o as [[ng ed]|]; [|reflexivity]. intros H. specialize (H ng ed eq_refl).
  pose proof (span_app is_digit ed [] H eq_refl) as Hs. rewrite app_nil_r in Hs.
  destruct ng; cbn [exp_text ff_scan_exp];
    [change (beq x65 x65 && (beq x2d x2b || beq x2d x2d)) with true
    |change (beq x65 x65 && (beq x2b x2b || beq x2b x2d)) with true]; cbv iota; rewrite Hs; reflexivity.
Qed.

Lemma scan_uff_text neg f : ff_wf f = true ->
  scan_uff neg (ff_utext f) =
  ({| ff_neg := neg; ff_int := ff_int f; ff_frac := ff_frac f; ff_exp := ff_exp f |}, []).
Proof.
  intros Hwf. destruct (ff_wf_parts f Hwf) as (Hn & Hd & Hfr & Hex).
  assert (Hexp : ff_scan_exp (exp_text (ff_exp f)) = (ff_exp f, [])).
  { apply ff_scan_exp_text. intros ng ed E. destruct (Hex ng ed E) as (_ & H & _). exact H. }
  assert (Hhd : hd_not is_digit (exp_text (ff_exp f)) = true) by (destruct (ff_exp f) as [[ng ed]|]; reflexivity).
  unfold scan_uff, ff_utext.
  destruct (ff_frac f) as [fp|] eqn:Efr.
  - destruct (Hfr fp eq_refl) as [_ Hfd].
    rewrite span_app; [|exact Hd|reflexivity].
    cbn [frac_text app]. rewrite scan_frac_some by assumption. rewrite Hexp. reflexivity.
  - cbn [frac_text app]. rewrite span_app; [|exact Hd|exact Hhd].
    assert (Hf : scan_frac (exp_text (ff_exp f)) = (None, exp_text (ff_exp f))) by (destruct (ff_exp f) as [[ng ed]|]; reflexivity).
    rewrite Hf, Hexp. reflexivity.
Qed.

Lemma parse_ff_complete f : ff_wf f = true -> parse_ff (ff_text f) = Some f.
Proof.
  intros Hwf. unfold parse_ff.
  assert (Hs : strip_minus (ff_text f) = (ff_neg f, ff_utext f)).
  { unfold ff_text. destruct (ff_neg f); [reflexivity|]. cbn [app].
    destruct (ff_utext_hd f Hwf) as (d & t & E & Hd). rewrite E. cbn [strip_minus].
    rewrite (digit_neq d x2d Hd eq_refl). reflexivity. }
  rewrite Hs, (scan_uff_text (ff_neg f) f Hwf).
  destruct f as [ng ip fr ex]. cbn [ff_neg ff_int ff_frac ff_exp]. rewrite Hwf. reflexivity.
Qed.

Lemma rat_eqb_eq a b : rat_eqb a b = true <-> rat_eq a b.
Proof. unfold rat_eqb, rat_eq. cbv zeta. apply Z.eqb_eq. Qed.

Lemma rat_eq_sym a b : rat_eq a b -> rat_eq b a.
Proof. unfold rat_eq. cbv zeta. rewrite (Z.min_comm (snd b)). intros H. symmetry. exact H. Qed.

(* ================= statements as used by Props/C11.v, Props/C12.v ================= *)
Lemma Quote_roundtrip_any (is_print : N -> bool) : is_print 10 = false ->
  forall s, go_string_value (Quote is_print s) = Some s.
Proof. intros H s. exact (Quote_roundtrip is_print H s). Qed.

Lemma GoQuote_one_token s rest :
  scan_string_lit (GoQuote s ++ rest) = Some (s, rest) /\ ~ In c_nl (GoQuote s).
Proof. split; [apply GoQuote_scan | apply GoQuote_no_nl]. Qed.

Lemma GoQuoteRune_spec r : valid_rune r = true ->
  go_rune_value (GoQuoteRune r) = Some r /\
  (forall rest, scan_rune_lit (GoQuoteRune r ++ rest) = Some (r, rest)) /\
  ~ In c_nl (GoQuoteRune r).
Proof.
  intros Hv. split; [apply GoQuoteRune_value; exact Hv|].
  split; [intros rest; apply GoQuoteRune_scan; exact Hv | apply GoQuoteRune_no_nl].
Qed.

Lemma rune_text_valid r : (0 <= r)%Z -> valid_rune (Z.to_N r) = true ->
  go_rune_value (rune_text r) = Some (Z.to_N r) /\
  (forall rest, scan_rune_lit (rune_text r ++ rest) = Some (Z.to_N r, rest)).
Proof.
  intros H0 Hv. rewrite (rune_text_nonneg r H0).
  split; [apply GoQuoteRune_value; exact Hv | intros rest; apply GoQuoteRune_scan; exact Hv].
Qed.

Lemma rune_error_valid : valid_rune rune_error = true.
Proof. reflexivity. Qed.

Lemma rune_text_invalid r : ((r < 0)%Z \/ valid_rune (Z.to_N r) = false) ->
  rune_text r = GoQuoteRune rune_error /\ go_rune_value (rune_text r) = Some rune_error.
Proof.
  intros H.
  assert (E : rune_text r = GoQuoteRune rune_error).
  { destruct (Z.ltb_spec r 0) as [Hn | Hp]; [apply rune_text_neg; exact Hn|].
    destruct H as [H | H]; [lia|]. rewrite (rune_text_nonneg r Hp). apply GoQuoteRune_invalid. exact H. }
  split; [exact E|]. rewrite E. apply GoQuoteRune_value. reflexivity.
Qed.

Lemma byte_text_spec b : (b < 256)%N ->
  byte_text b = S "byte(0x" ++ N_to_hex b ++ S ")" /\
  eval_lit (byte_text b) = Some (TByte, VInt (Z.of_N b)).
Proof. intros H. split; [reflexivity | apply eval_byte; exact H]. Qed.

Lemma byte_text_out b : (256 <= b)%N -> eval_lit (byte_text b) = None.
Proof.
  intros H. change (byte_text b) with (type_name TByte ++ x28 :: x30 :: x78 :: N_to_hex b ++ [x29]).
  rewrite eval_lit_conv_hex. erewrite convert_int_out; [reflexivity | reflexivity | lia].
Qed.

Lemma parse_ff_exact g f : parse_ff g = Some f <-> (ff_wf f = true /\ g = ff_text f).
Proof.
  split; [apply parse_ff_sound|]. intros [Hwf ->]. apply parse_ff_complete. exact Hwf.
Qed.

Lemma float64_literal_kept g f : parse_ff g = Some f ->
  float64_text g = if ff_is_float f then g else g ++ S ".0".
Proof.
  intros Hp. destruct (parse_ff_sound g f Hp) as [Hwf ->].
  unfold float64_text. rewrite (ff_text_dot f Hwf), (ff_text_e f Hwf). unfold ff_is_float.
  destruct (ff_frac f); [reflexivity|]. destruct (ff_exp f); reflexivity.
Qed.
