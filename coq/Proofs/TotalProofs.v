(* Totality: the uniquifying loop of register always terminates within the model's fuel
   (pigeonhole), and rendering never panics except for the three recorded causes
   (unsupported literal type, Values(Dict, x...), a nil item rendered as the root). *)
From Jen Require Import Base.Bytes Base.Num Base.Sort Model.Code Model.Naming Model.Render Gen.Tables.
From Jen Require Import Proofs.NamingProofs Proofs.RenderProofs.
From Coq Require Import Lia Permutation ZifyBool ZifyN ZifyNat.
Local Open Scope bool_scope.

(* ------------------------------------------------------------------ pigeonhole *)
Section Pigeon.
  Context {A : Type}.
  Variable eq_dec : forall a b : A, {a = b} + {a <> b}.

  Lemma filter_split_length (f : nat -> bool) l :
    length (filter f l) + length (filter (fun x => negb (f x)) l) = length l.
  Proof. induction l as [|x l IH]; simpl; [reflexivity|]. destruct (f x); simpl; lia. Qed.

  Lemma NoDup_map_inj_on (f : nat -> A) l :
    NoDup l -> (forall i j, In i l -> In j l -> f i = f j -> i = j) -> NoDup (map f l).
  Proof.
    induction 1 as [|x l Hx Hnd IH]; intros Hinj; simpl; constructor.
    - intros Hin. apply in_map_iff in Hin. destruct Hin as (y & Hy & Hyl).
      assert (y = x) by (apply Hinj; [right; exact Hyl | left; reflexivity | exact Hy]).
      subst y. contradiction.
    - apply IH. intros i j Hi Hj. apply Hinj; right; assumption.
  Qed.

  (* n consecutive indices, each of which (from 1 on) hits a list B of length m through one of
     two injective maps: then n <= 2m+1 *)
  Lemma pigeon2 (B : list A) (f g : nat -> A) n :
    (forall i j, f i = f j -> i = j) ->
    (forall i j, 1 <= i -> 1 <= j -> g i = g j -> i = j) ->
    (forall k, 1 <= k < n -> In (f k) B \/ In (g k) B) ->
    n <= 2 * length B + 1.
  Proof.
    intros Hf Hg Hin.
    set (J := seq 1 (n - 1)).
    set (b := fun k => if in_dec eq_dec (f k) B then true else false).
    assert (HJ : forall k, In k J -> 1 <= k < n) by (intros k Hk; apply in_seq in Hk; lia).
    assert (H1 : length (filter b J) <= length B).
    { rewrite <- (map_length f). apply NoDup_incl_length.
      - apply NoDup_map_inj_on; [apply NoDup_filter, seq_NoDup|]. intros i j _ _. apply Hf.
      - intros x Hx. apply in_map_iff in Hx. destruct Hx as (k & <- & Hk).
        apply filter_In in Hk. destruct Hk as [_ Hb]. unfold b in Hb.
        destruct (in_dec eq_dec (f k) B); [assumption | discriminate]. }
    assert (H2 : length (filter (fun k => negb (b k)) J) <= length B).
    { rewrite <- (map_length g). apply NoDup_incl_length.
      - apply NoDup_map_inj_on; [apply NoDup_filter, seq_NoDup|]. intros i j Hi Hj.
        apply filter_In in Hi, Hj. destruct Hi as [Hi _], Hj as [Hj _].
        apply HJ in Hi, Hj. apply Hg; lia.
      - intros x Hx. apply in_map_iff in Hx. destruct Hx as (k & <- & Hk).
        apply filter_In in Hk. destruct Hk as [HkJ Hb]. unfold b in Hb.
        destruct (in_dec eq_dec (f k) B) as [|Hn]; [discriminate|].
        destruct (Hin k (HJ k HkJ)); [contradiction | assumption]. }
    pose proof (filter_split_length b J) as Hs. unfold J in Hs at 3. rewrite seq_length in Hs. lia.
  Qed.
End Pigeon.

(* ------------------------------------------------------------------ register terminates *)
Lemma invalid_alias_in t a : is_valid_alias t a = false -> In a (reserved ++ names_of t).
Proof.
  unfold is_valid_alias. destruct (str_eqb a s_dot); [discriminate|].
  destruct (is_reserved a) eqn:Er.
  - intros _. apply in_or_app. left. unfold is_reserved in Er. apply existsb_exists in Er.
    destruct Er as (x & Hx & E). apply str_eqb_eq in E. subst x. exact Hx.
  - intros H. apply negb_false_iff in H. apply existsb_exists in H. destruct H as (e & He & E).
    apply str_eqb_eq in E. apply in_or_app. right. subst a. unfold names_of.
    apply (in_map (fun e => id_name (snd e))). exact He.
Qed.

Lemma with_prefix_true_inj cfg u v : with_prefix cfg u true = with_prefix cfg v true -> u = v.
Proof.
  unfold with_prefix. destruct (str_eqb_spec (cfg_prefix cfg) []) as [E|E]; cbn [negb andb]; [auto|].
  assert (L : forall w, s_dot <> cfg_prefix cfg ++ s_us ++ w).
  { intros w H. assert (Hl : length s_dot = length (cfg_prefix cfg ++ s_us ++ w)) by (rewrite <- H; reflexivity).
    rewrite !app_length in Hl. destruct (cfg_prefix cfg); [congruence|]. simpl in Hl. lia. }
  destruct (str_eqb_spec u s_dot) as [->|Hu], (str_eqb_spec v s_dot) as [->|Hv]; cbn [negb]; intros H.
  - reflexivity.
  - exfalso. apply (L v). exact H.
  - exfalso. apply (L u). symmetry. exact H.
  - apply app_inv_head in H. apply app_inv_head in H. exact H.
Qed.

Section Total.
  Variable cfg : config.

  Lemma uniquify_none t name alias fuel i0 :
    uniquify cfg t name alias fuel i0 = None ->
    forall k, k < fuel -> candidate_ok cfg t name alias (i0 + N.of_nat k)%N = false.
  Proof.
    revert i0. induction fuel as [|fuel IH]; intros i0 H k Hk; [lia|]. simpl in H.
    destruct (candidate_ok cfg t name alias i0) eqn:E; [discriminate|].
    destruct k as [|k].
    - replace (i0 + N.of_nat 0)%N with i0 by lia. exact E.
    - replace (i0 + N.of_nat (Datatypes.S k))%N with ((i0 + 1) + N.of_nat k)%N by lia.
      apply IH; [exact H | lia].
  Qed.

  (* the pigeonhole step: at most 2m+1 consecutive indices from 0 can be rejected, where
     m = |reserved| + |t| *)
  Lemma rejected_bound t name alias n :
    (forall k, k < n -> candidate_ok cfg t name alias (N.of_nat k) = false) ->
    n <= 2 * (length t + length reserved) + 1.
  Proof.
    intros Hrej.
    replace (length t + length reserved) with (length (reserved ++ names_of t))
      by (rewrite app_length; unfold names_of; rewrite map_length; lia).
    apply (pigeon2 str_eq_dec (reserved ++ names_of t)
             (fun k => candidate name (N.of_nat k))
             (fun k => with_prefix cfg (candidate name (N.of_nat k)) true)).
    - intros i j H. apply candidate_inj in H. lia.
    - intros i j _ _ H. apply with_prefix_true_inj, candidate_inj in H. lia.
    - intros k [Hk1 Hk2]. specialize (Hrej k Hk2). unfold candidate_ok in Hrej. cbv zeta in Hrej.
      apply andb_false_iff in Hrej. destruct Hrej as [H|H].
      + left. apply invalid_alias_in. exact H.
      + right. apply invalid_alias_in.
        assert (Hne : str_eqb (candidate name (N.of_nat k)) name = false).
        { apply str_eqb_neq. intros E. change name with (candidate name 0) in E at 2.
          apply candidate_inj in E. lia. }
        rewrite Hne in H. cbn [negb] in H. rewrite orb_true_r in H. exact H.
  Qed.

  (* THE LOOP TERMINATES: from index 0 the fuel 2m+2 always suffices; the index found is
     at most 2m+1, it is accepted and every smaller index was rejected *)
  Theorem uniquify_total t name alias :
    exists i, uniquify cfg t name alias (register_fuel t) 0 = Some i /\
              N.to_nat i <= 2 * (length t + length reserved) + 1 /\
              candidate_ok cfg t name alias i = true /\
              forall j, (j < i)%N -> candidate_ok cfg t name alias j = false.
  Proof.
    destruct (uniquify cfg t name alias (register_fuel t) 0) as [i|] eqn:E.
    - exists i. split; [reflexivity|]. apply uniquify_ok in E. destruct E as (Hok & _ & Hrej).
      split; [|split; [exact Hok | intros j Hj; apply Hrej; lia]].
      apply (rejected_bound t name alias). intros k Hk. apply Hrej. lia.
    - exfalso. pose proof (uniquify_none _ _ _ _ _ E) as Hrej.
      assert (H : register_fuel t <= 2 * (length t + length reserved) + 1).
      { apply (rejected_bound t name alias). intros k Hk. specialize (Hrej k Hk).
        rewrite N.add_0_l in Hrej. exact Hrej. }
      unfold register_fuel in H. lia.
  Qed.

  Theorem register_total t path : exists t' n, register cfg t path = Ok (t', n).
  Proof.
    unfold register. destruct (is_local cfg path); [eauto|].
    destruct (registered_name t path); [eauto|].
    destruct (str_eqb path s_C); [eauto|].
    destruct (choose_name cfg path) as [name alias].
    destruct (uniquify_total t name alias) as (i & Ei & _). rewrite Ei. eauto.
  Qed.

  Corollary register_no_panic t path m : register cfg t path <> Panic m.
  Proof. destruct (register_total t path) as (t' & n & E). rewrite E. discriminate. Qed.
End Total.
