(* Totality: the uniquifying loop of register always terminates within the model's fuel
   (pigeonhole), and rendering never panics except for the three recorded causes
   (unsupported literal type, Values(Dict, x...), a nil item rendered as the root). *)
From Jen Require Import Base.Bytes Base.Num Base.Sort Model.Code Model.Naming Model.Render Model.FileRender Gen.Tables.
From Jen Require Import Proofs.NamingProofs Proofs.RenderProofs.
From Coq Require Import Lia Permutation ZifyBool ZifyN ZifyNat.
Local Open Scope bool_scope.

(* ------------------------------------------------------------------ pigeonhole *)
Section Pigeon.
  Context {A : Type}.
  Variable eq_dec : forall a b : A, {a = b} + {a <> b}.

  Lemma filter_split_length (f : nat -> bool) l :
    length (filter f l) + length (filter (fun x => negb (f x)) l) = length l.
  Proof. induction l as [|x l IH]; simpl; [reflexivity|]. destruct (f x); simpl; lia. Qed.

  Lemma NoDup_map_inj_on (f : nat -> A) l :
    NoDup l -> (forall i j, In i l -> In j l -> f i = f j -> i = j) -> NoDup (map f l).
  Proof.
    induction 1 as [|x l Hx Hnd IH]; intros Hinj; simpl; constructor.
    - intros Hin. apply in_map_iff in Hin. destruct Hin as (y & Hy & Hyl).
      assert (y = x) by (apply Hinj; [right; exact Hyl | left; reflexivity | exact Hy]).
      subst y. contradiction.
    - apply IH. intros i j Hi Hj. apply Hinj; right; assumption.
  Qed.

  (* n consecutive indices, each of which (from 1 on) hits a list B of length m through one of
     two injective maps: then n <= 2m+1 *)
  Lemma pigeon2 (B : list A) (f g : nat -> A) n :
    (forall i j, f i = f j -> i = j) ->
    (forall i j, 1 <= i -> 1 <= j -> g i = g j -> i = j) ->
    (forall k, 1 <= k < n -> In (f k) B \/ In (g k) B) ->
    n <= 2 * length B + 1.
  Proof.
    intros Hf Hg Hin.
    set (J := seq 1 (n - 1)).
    set (b := fun k => if in_dec eq_dec (f k) B then true else false).
    assert (HJ : forall k, In k J -> 1 <= k < n) by (intros k Hk; apply in_seq in Hk; lia).
    assert (H1 : length (filter b J) <= length B).
    { rewrite <- (map_length f). apply NoDup_incl_length.
      - apply NoDup_map_inj_on; [apply NoDup_filter, seq_NoDup|]. intros i j _ _. apply Hf.
      - intros x Hx. apply in_map_iff in Hx. destruct Hx as (k & <- & Hk).
        apply filter_In in Hk. destruct Hk as [_ Hb]. unfold b in Hb.
        destruct (in_dec eq_dec (f k) B); [assumption | discriminate]. }
    assert (H2 : length (filter (fun k => negb (b k)) J) <= length B).
    { rewrite <- (map_length g). apply NoDup_incl_length.
      - apply NoDup_map_inj_on; [apply NoDup_filter, seq_NoDup|]. intros i j Hi Hj.
        apply filter_In in Hi, Hj. destruct Hi as [Hi _], Hj as [Hj _].
        apply HJ in Hi, Hj. apply Hg; lia.
      - intros x Hx. apply in_map_iff in Hx. destruct Hx as (k & <- & Hk).
        apply filter_In in Hk. destruct Hk as [HkJ Hb]. unfold b in Hb.
        destruct (in_dec eq_dec (f k) B) as [|Hn]; [discriminate|].
        destruct (Hin k (HJ k HkJ)); [contradiction | assumption]. }
    pose proof (filter_split_length b J) as Hs. unfold J in Hs at 3. rewrite seq_length in Hs. lia.
  Qed.
End Pigeon.

(* ------------------------------------------------------------------ register terminates *)
Lemma invalid_alias_in t a : is_valid_alias t a = false -> In a (reserved ++ names_of t).
Proof.
  unfold is_valid_alias. destruct (str_eqb a s_dot); [discriminate|].
  destruct (is_reserved a) eqn:Er.
  - intros _. apply in_or_app. left. unfold is_reserved in Er. apply existsb_exists in Er.
    destruct Er as (x & Hx & E). apply str_eqb_eq in E. subst x. exact Hx.
  - intros H. apply negb_false_iff in H. apply existsb_exists in H. destruct H as (e & He & E).
    apply str_eqb_eq in E. apply in_or_app. right. subst a. unfold names_of.
    apply (in_map (fun e => id_name (snd e))). exact He.
Qed.

Lemma with_prefix_true_inj cfg u v : with_prefix cfg u true = with_prefix cfg v true -> u = v.
Proof.
  unfold with_prefix. destruct (str_eqb_spec (cfg_prefix cfg) []) as [E|E]; cbn [negb andb]; [auto|].
  assert (L : forall w, s_dot <> cfg_prefix cfg ++ s_us ++ w).
  { intros w H. assert (Hl : length s_dot = length (cfg_prefix cfg ++ s_us ++ w)) by (rewrite <- H; reflexivity).
    rewrite !app_length in Hl. destruct (cfg_prefix cfg); [congruence|]. simpl in Hl. lia. }
  destruct (str_eqb_spec u s_dot) as [->|Hu], (str_eqb_spec v s_dot) as [->|Hv]; cbn [negb]; intros H.
  - reflexivity.
  - exfalso. apply (L v). exact H.
  - exfalso. apply (L u). symmetry. exact H.
  - apply app_inv_head in H. apply app_inv_head in H. exact H.
Qed.

Section Total.
  Variable cfg : config.

  Lemma uniquify_none t name alias fuel i0 :
    uniquify cfg t name alias fuel i0 = None ->
    forall k, k < fuel -> candidate_ok cfg t name alias (i0 + N.of_nat k)%N = false.
  Proof.
    revert i0. induction fuel as [|fuel IH]; intros i0 H k Hk; [lia|]. simpl in H.
    destruct (candidate_ok cfg t name alias i0) eqn:E; [discriminate|].
    destruct k as [|k].
    - replace (i0 + N.of_nat 0)%N with i0 by lia. exact E.
    - replace (i0 + N.of_nat (Datatypes.S k))%N with ((i0 + 1) + N.of_nat k)%N by lia.
      apply IH; [exact H | lia].
  Qed.

  (* the pigeonhole step: at most 2m+1 consecutive indices from 0 can be rejected, where
     m = |reserved| + |t| *)
  Lemma rejected_bound t name alias n :
    (forall k, k < n -> candidate_ok cfg t name alias (N.of_nat k) = false) ->
    n <= 2 * (length t + length reserved) + 1.
  Proof.
    intros Hrej.
    replace (length t + length reserved) with (length (reserved ++ names_of t))
      by (rewrite app_length; unfold names_of; rewrite map_length; lia).
    apply (pigeon2 str_eq_dec (reserved ++ names_of t)
             (fun k => candidate name (N.of_nat k))
             (fun k => with_prefix cfg (candidate name (N.of_nat k)) true)).
    - intros i j H. apply candidate_inj in H. lia.
    - intros i j _ _ H. apply with_prefix_true_inj, candidate_inj in H. lia.
    - intros k [Hk1 Hk2]. specialize (Hrej k Hk2). unfold candidate_ok in Hrej. cbv zeta in Hrej.
      apply andb_false_iff in Hrej. destruct Hrej as [H|H].
      + left. apply invalid_alias_in. exact H.
      + right. apply invalid_alias_in.
        assert (Hne : str_eqb (candidate name (N.of_nat k)) name = false).
        { apply str_eqb_neq. intros E. change name with (candidate name 0) in E at 2.
          apply candidate_inj in E. lia. }
        rewrite Hne in H. cbn [negb] in H. rewrite orb_true_r in H. exact H.
  Qed.

  (* THE LOOP TERMINATES: from index 0 the fuel 2m+2 always suffices; the index found is
     at most 2m+1, it is accepted and every smaller index was rejected *)
  Theorem uniquify_total t name alias :
    exists i, uniquify cfg t name alias (register_fuel t) 0 = Some i /\
              N.to_nat i <= 2 * (length t + length reserved) + 1 /\
              candidate_ok cfg t name alias i = true /\
              forall j, (j < i)%N -> candidate_ok cfg t name alias j = false.
  Proof.
    destruct (uniquify cfg t name alias (register_fuel t) 0) as [i|] eqn:E.
    - exists i. split; [reflexivity|]. apply uniquify_ok in E. destruct E as (Hok & _ & Hrej).
      split; [|split; [exact Hok | intros j Hj; apply Hrej; lia]].
      apply (rejected_bound t name alias). intros k Hk. apply Hrej. lia.
    - exfalso. pose proof (uniquify_none _ _ _ _ _ E) as Hrej.
      assert (H : register_fuel t <= 2 * (length t + length reserved) + 1).
      { apply (rejected_bound t name alias). intros k Hk. specialize (Hrej k Hk).
        rewrite N.add_0_l in Hrej. exact Hrej. }
      unfold register_fuel in H. lia.
  Qed.

  Theorem register_total t path : exists t' n, register cfg t path = Ok (t', n).
  Proof.
    unfold register. destruct (is_local cfg path); [eauto|].
    destruct (registered_name t path); [eauto|].
    destruct (str_eqb path s_C); [eauto|].
    destruct (choose_name cfg path) as [name alias].
    destruct (uniquify_total t name alias) as (i & Ei & _). rewrite Ei. eauto.
  Qed.

  Corollary register_no_panic t path m : register cfg t path <> Panic m.
  Proof. destruct (register_total t path) as (t' & n & E). rewrite E. discriminate. Qed.
End Total.

(* ------------------------------------------------------------------ no other panic *)
Definition is_panic {A} (r : result A) : bool := match r with Panic _ => true | Ok _ => false end.

Definition is_nil (c : code) : bool :=
  match c with CNil | CNilStmt | CNilGroup => true | _ => false end.

(* [anywhere P c]: some node of the tree c (c itself included) satisfies P *)
Fixpoint anywhere (P : code -> bool) (c : code) {struct c} : bool :=
  P c ||
  match c with
  | CGroup _ _ _ _ _ _ items => existsb (anywhere P) items
  | CStmt items => existsb (anywhere P) items
  | CDict pairs => existsb (fun kv => anywhere P (fst kv) || anywhere P (snd kv)) pairs
  | _ => false
  end.

(* a literal of unsupported dynamic type *)
Definition bad_lit (c : code) : bool :=
  match c with CTok (TkLit (LBad _)) => true | _ => false end.
Definition bad_lit_named (ty : str) (c : code) : bool :=
  match c with CTok (TkLit (LBad ty')) => str_eqb ty ty' | _ => false end.
(* a "values" group holding a Dict among two or more items *)
Definition vdc (name : str) (n : nat) (l : list code) : bool :=
  str_eqb name s_values && existsb is_dict l && Nat.ltb 1 n.
Definition values_dict (c : code) : bool :=
  match c with
  | CGroup _ name _ _ _ _ items => vdc name (length items) items
  | _ => false
  end.

(* the SYNTACTIC sufficient condition: the root is not a nil value, no unsupported literal
   and no Values(Dict, x, ...) anywhere in the tree.  Nothing else is asked: nil items
   below the root, any nesting, arity, tokens, size. *)
Definition safe_in (c : code) : bool :=
  negb (anywhere bad_lit c) && negb (anywhere values_dict c).
Definition safe (c : code) : bool := negb (is_nil c) && safe_in c.

(* which panic, and where it comes from *)
Definition cause (m : str) (c : code) : Prop :=
  (m = s_values_panic /\ anywhere values_dict c = true) \/
  (exists ty, m = s_unsupported ++ ty /\ anywhere (bad_lit_named ty) c = true).

Lemma anywhere_impl (P Q : code -> bool) :
  (forall c, P c = true -> Q c = true) -> forall c, anywhere P c = true -> anywhere Q c = true.
Proof.
  intros HPQ.
  induction c as [| | |tk|gid name o cl sep multi items IH|items IH|pairs IH|kvs|s] using code_ind';
    cbn [anywhere]; intros H; apply orb_true_iff in H; apply orb_true_iff;
    (destruct H as [H|H]; [left; apply HPQ; exact H|]); try discriminate; right.
  - apply existsb_exists in H. destruct H as (x & Hx & H). apply existsb_exists. exists x.
    split; [exact Hx|]. rewrite Forall_forall in IH. apply IH; assumption.
  - apply existsb_exists in H. destruct H as (x & Hx & H). apply existsb_exists. exists x.
    split; [exact Hx|]. rewrite Forall_forall in IH. apply IH; assumption.
  - apply existsb_exists in H. destruct H as (kv & Hx & H). apply existsb_exists. exists kv.
    split; [exact Hx|]. rewrite Forall_forall in IH. destruct (IH kv Hx) as [Hk Hv].
    apply orb_true_iff in H. apply orb_true_iff. destruct H; [left; apply Hk | right; apply Hv]; assumption.
Qed.

Lemma bad_lit_named_bad ty c : anywhere (bad_lit_named ty) c = true -> anywhere bad_lit c = true.
Proof.
  apply anywhere_impl. intros [| | |[| | |[]| | |]| | | | |]; cbn; try discriminate. reflexivity.
Qed.

Lemma anywhere_group P gid name o cl sep multi items x :
  In x items -> anywhere P x = true -> anywhere P (CGroup gid name o cl sep multi items) = true.
Proof.
  intros Hx H. cbn [anywhere]. apply orb_true_iff. right. apply existsb_exists. eauto.
Qed.
Lemma anywhere_stmt P items x : In x items -> anywhere P x = true -> anywhere P (CStmt items) = true.
Proof.
  intros Hx H. cbn [anywhere]. apply orb_true_iff. right. apply existsb_exists. eauto.
Qed.
Lemma anywhere_dict P pairs kv :
  In kv pairs -> anywhere P (fst kv) = true \/ anywhere P (snd kv) = true -> anywhere P (CDict pairs) = true.
Proof.
  intros Hx H. cbn [anywhere]. apply orb_true_iff. right. apply existsb_exists. exists kv.
  split; [exact Hx|]. apply orb_true_iff. exact H.
Qed.

Lemma cause_group m gid name o cl sep multi items x :
  In x items -> cause m x -> cause m (CGroup gid name o cl sep multi items).
Proof.
  intros Hx [[-> H]|(ty & -> & H)]; [left | right; exists ty]; (split; [reflexivity|]);
    eapply anywhere_group; eassumption.
Qed.
Lemma cause_stmt m items x : In x items -> cause m x -> cause m (CStmt items).
Proof.
  intros Hx [[-> H]|(ty & -> & H)]; [left | right; exists ty]; (split; [reflexivity|]);
    eapply anywhere_stmt; eassumption.
Qed.
Lemma cause_dict m pairs kv :
  In kv pairs -> cause m (fst kv) \/ cause m (snd kv) -> cause m (CDict pairs).
Proof.
  intros Hx [[[-> H]|(ty & -> & H)]|[[-> H]|(ty & -> & H)]];
    [left | right; exists ty | left | right; exists ty]; (split; [reflexivity|]);
    eapply anywhere_dict; eauto.
Qed.

Lemma vdc_cons name n c l : vdc name n l = true -> vdc name n (c :: l) = true.
Proof.
  unfold vdc. cbn [existsb]. intros H. apply andb_true_iff in H. destruct H as [H H3].
  apply andb_true_iff in H. destruct H as [H1 H2]. rewrite H1, H2, H3, orb_true_r. reflexivity.
Qed.
Lemma vdc_head name n c l :
  str_eqb name s_values && is_dict c && Nat.ltb 1 n = true -> vdc name n (c :: l) = true.
Proof.
  unfold vdc. cbn [existsb]. intros H. apply andb_true_iff in H. destruct H as [H H3].
  apply andb_true_iff in H. destruct H as [H1 H2]. rewrite H1, H2, H3. reflexivity.
Qed.

Section NoPanic.
  Variable cfg : config.

  Lemma is_nil_null c t : is_nil c = true -> is_null cfg t c = true.
  Proof. destruct c; try discriminate; reflexivity. Qed.

  Lemma prereg_total t c : exists t0, prereg cfg t c = Ok t0.
  Proof.
    unfold prereg. destruct c as [| | |tk| | | | |]; eauto. destruct tk; eauto.
    destruct (register_total cfg t path) as (t' & n & E). rewrite E. cbn [bind fst]. eauto.
  Qed.

  (* if rendering c panics, either c is itself a nil value or the tree holds the cause *)
  Definition pc (c : code) : Prop :=
    forall ctx t m, render cfg ctx t c = Panic m -> (is_nil c = true /\ m = s_nilptr) \/ cause m c.

  Lemma pc_live c ctx t0 t m :
    pc c -> is_null cfg t0 c = false -> render cfg ctx t c = Panic m -> cause m c.
  Proof.
    intros Hc Hn Hr. destruct (Hc _ _ _ Hr) as [[Hnil _]|H]; [|exact H].
    rewrite (is_nil_null c t0 Hnil) in Hn. discriminate.
  Qed.

  Lemma group_loop_cause name sep multi nitems items :
    Forall pc items ->
    forall t first m, group_loop cfg (render cfg) name sep multi nitems t first items = Panic m ->
      (m = s_values_panic /\ vdc name nitems items = true) \/ exists x, In x items /\ cause m x.
  Proof.
    intros Hst. induction Hst as [|c l Hc _ IH]; intros t first m; cbn [group_loop]; [discriminate|].
    fold (prereg cfg t c). destruct (prereg_total t c) as [t0 E0]. rewrite E0. cbn [bind].
    assert (Hrest : forall t' f', group_loop cfg (render cfg) name sep multi nitems t' f' l = Panic m ->
              (m = s_values_panic /\ vdc name nitems (c :: l) = true) \/ exists x, In x (c :: l) /\ cause m x).
    { intros t' f' H. destruct (IH _ _ _ H) as [[-> Hv]|(x & Hx & Hcx)].
      - left. split; [reflexivity | apply vdc_cons; exact Hv].
      - right. exists x. split; [right; exact Hx | exact Hcx]. }
    destruct (is_null cfg t0 c) eqn:En; [apply Hrest|].
    destruct (str_eqb name s_values && is_dict c && Nat.ltb 1 nitems) eqn:Ev.
    - intros H. injection H as <-. left. split; [reflexivity | apply vdc_head; exact Ev].
    - destruct (render cfg false t0 c) as [[ta sa]|m'] eqn:Er; cbn [bind fst snd].
      + destruct (group_loop cfg (render cfg) name sep multi nitems ta false l) as [[[tb isb] sb]|m'] eqn:El;
          cbn [bind fst snd]; [discriminate|].
        intros H. injection H as <-. eapply Hrest. exact El.
      + intros H. injection H as <-. right. exists c. split; [left; reflexivity|].
        eapply pc_live; eassumption.
  Qed.

  Lemma stmt_loop_cause all items :
    Forall pc items ->
    forall t first m, stmt_loop cfg (render cfg) all t first items = Panic m ->
      exists x, In x items /\ cause m x.
  Proof.
    intros Hst. induction Hst as [|c l Hc _ IH]; intros t first m; cbn [stmt_loop]; [discriminate|].
    assert (Hrest : forall t' f', stmt_loop cfg (render cfg) all t' f' l = Panic m ->
              exists x, In x (c :: l) /\ cause m x).
    { intros t' f' H. destruct (IH _ _ _ H) as (x & Hx & Hcx). exists x. split; [right; exact Hx | exact Hcx]. }
    destruct (is_null cfg t c) eqn:En; [apply Hrest|].
    destruct (render cfg (case_ctx all c) t c) as [[ta sa]|m'] eqn:Er; cbn [bind fst snd].
    - destruct (stmt_loop cfg (render cfg) all ta false l) as [[tb sb]|m'] eqn:El; cbn [bind fst snd]; [discriminate|].
      intros H. injection H as <-. eapply Hrest. exact El.
    - intros H. injection H as <-. exists c. split; [left; reflexivity|]. eapply pc_live; eassumption.
  Qed.

  Definition entry_ok (Q : str -> Prop) (e : dict_entry) : Prop :=
    forall t m, (snd (fst e) t = Panic m -> Q m) /\ (snd e t = Panic m -> Q m).

  Definition Qd (pairs : list (code * code)) (m : str) : Prop :=
    exists kv, In kv pairs /\ (cause m (fst kv) \/ cause m (snd kv)).

  Lemma Qd_cons kv l m : Qd l m -> Qd (kv :: l) m.
  Proof. intros (x & Hx & H). exists x. split; [right; exact Hx | exact H]. Qed.

  Lemma dict_pass1_cause pairs :
    Forall (fun kv => pc (fst kv) /\ pc (snd kv)) pairs ->
    forall t, match dict_pass1 cfg (render cfg) t pairs with
              | Panic m => Qd pairs m
              | Ok (_, es) => Forall (entry_ok (Qd pairs)) es
              end.
  Proof.
    intros Hst. induction Hst as [|[k v] l [Hk Hv] _ IH]; intros t; cbn [dict_pass1 fst snd]; [constructor|].
    cbn [fst snd] in Hk, Hv.
    assert (Hrest : forall t', match dict_pass1 cfg (render cfg) t' l with
                               | Panic m => Qd ((k, v) :: l) m
                               | Ok (_, es) => Forall (entry_ok (Qd ((k, v) :: l))) es
                               end).
    { intros t'. specialize (IH t'). destruct (dict_pass1 cfg (render cfg) t' l) as [[t1 es]|m].
      - eapply Forall_impl; [|exact IH]. intros e He t2 m. destruct (He t2 m) as [H1 H2].
        split; intros H; apply Qd_cons; auto.
      - apply Qd_cons. exact IH. }
    destruct (is_null cfg t k || is_null cfg t v) eqn:En; [apply Hrest|].
    apply orb_false_iff in En. destruct En as [Enk Env].
    destruct (render cfg false t k) as [[ta sa]|m'] eqn:Er; cbn [bind fst snd].
    - specialize (Hrest ta). destruct (dict_pass1 cfg (render cfg) ta l) as [[tb esb]|m'] eqn:El; cbn [bind fst snd]; [|exact Hrest].
      constructor; [|exact Hrest]. intros t2 m. cbn [fst snd]. split; intros H.
      + exists (k, v). split; [left; reflexivity|]. left. eapply pc_live; eassumption.
      + exists (k, v). split; [left; reflexivity|]. right. eapply pc_live; eassumption.
    - exists (k, v). split; [left; reflexivity|]. left. eapply pc_live; eassumption.
  Qed.

  Lemma dict_pass2_cause Q l :
    Forall (entry_ok Q) l ->
    forall several t first m, dict_pass2 several t first l = Panic m -> Q m.
  Proof.
    intros Hst. induction Hst as [|e l He _ IH]; intros several t first m; cbn [dict_pass2]; [discriminate|].
    destruct (snd (fst e) t) as [[ta sa]|m'] eqn:Ek; cbn [bind fst snd].
    - destruct (snd e ta) as [[tb sb]|m''] eqn:Ev; cbn [bind fst snd].
      + destruct (dict_pass2 several tb false l) as [[tc sc]|m3] eqn:El; cbn [bind fst snd]; [discriminate|].
        intros H. injection H as <-. eapply IH. exact El.
      + intros H. injection H as <-. destruct (He ta m'') as [_ H2]. apply H2. exact Ev.
    - intros H. injection H as <-. destruct (He t m') as [H1 _]. apply H1. exact Ek.
  Qed.

  Lemma Forall_perm' {A} (P : A -> Prop) l l' : Permutation l l' -> Forall P l -> Forall P l'.
  Proof.
    intros Hp H. rewrite Forall_forall in *. intros x Hx. apply H.
    eapply Permutation_in; [apply Permutation_sym|]; eassumption.
  Qed.

  (* THE PANIC CLASSIFICATION, for every tree, configuration, context and table (no
     hypothesis): a panic is the nil dereference of a nil ROOT, or the Values/Dict panic of
     a values group that is in the tree, or the unsupported-literal panic of a literal that
     is in the tree.  In particular the model's fuel panic never occurs. *)
  Theorem render_panic_cause : forall c, pc c.
  Proof.
    induction c as [| | |tk|gid name o cl sep multi items IH|items IH|pairs IH|kvs|s] using code_ind';
      intros ctx t m; cbn [render].
    - intros H. injection H as <-. left. split; reflexivity.
    - intros H. injection H as <-. left. split; reflexivity.
    - intros H. injection H as <-. left. split; reflexivity.
    - destruct tk; cbn [render_token]; try discriminate.
      + intros H. exfalso. eapply register_no_panic. exact H.
      + destruct l; cbn [lit_text bind]; try discriminate; [destruct b; discriminate|].
        intros H. injection H as <-. right. right. exists tyname. split; [reflexivity|].
        cbn. rewrite str_eqb_refl. reflexivity.
    - destruct (str_eqb name s_types && forallb (is_null cfg t) items); [discriminate|].
      destruct (group_loop cfg (render cfg) name sep multi (length items) t true items) as [[[ta isa] sa]|m'] eqn:El;
        cbn [bind fst snd]; [discriminate|].
      intros H. injection H as <-. right.
      destruct (group_loop_cause _ _ _ _ _ IH _ _ _ El) as [[-> Hv]|(x & Hx & Hcx)].
      + left. split; [reflexivity|]. cbn [anywhere values_dict]. rewrite Hv. reflexivity.
      + eapply cause_group; eassumption.
    - intros H. right. destruct (stmt_loop_cause _ _ IH _ _ _ H) as (x & Hx & Hcx).
      eapply cause_stmt; eassumption.
    - pose proof (dict_pass1_cause pairs IH t) as H1.
      destruct (dict_pass1 cfg (render cfg) t pairs) as [[ta es]|m'] eqn:E1; cbn [bind fst snd].
      + intros H2. right.
        assert (Hs : Forall (entry_ok (Qd pairs)) (isort_by dict_key es)).
        { eapply Forall_perm'; [apply Permutation_sym, isort_by_perm | exact H1]. }
        destruct (dict_pass2_cause _ _ Hs _ _ _ _ H2) as (kv & Hkv & Hc).
        eapply cause_dict; eassumption.
      + intros H. injection H as <-. right. destruct H1 as (kv & Hkv & Hc).
        eapply cause_dict; eassumption.
    - discriminate.
    - discriminate.
  Qed.

  (* TOTALITY on safe trees *)
  Theorem safe_total c : safe c = true -> forall ctx t, exists t1 s, render cfg ctx t c = Ok (t1, s).
  Proof.
    intros Hs ctx t. unfold safe, safe_in in Hs. apply andb_true_iff in Hs. destruct Hs as [H1 Hs].
    apply andb_true_iff in Hs. destruct Hs as [H2 H3].
    apply negb_true_iff in H1, H2, H3.
    destruct (render cfg ctx t c) as [[t1 s]|m] eqn:E; [eauto|]. exfalso.
    destruct (render_panic_cause c _ _ _ E) as [[Hn _]|[[_ Hv]|(ty & _ & Hb)]].
    - congruence.
    - congruence.
    - apply bad_lit_named_bad in Hb. congruence.
  Qed.
End NoPanic.

Lemma existsb_false_forallb {A} (f : A -> bool) l :
  forallb (fun x => negb (f x)) l = true -> existsb f l = false.
Proof.
  induction l as [|x l IH]; cbn [forallb existsb]; [reflexivity|]. intros H.
  apply andb_true_iff in H. destruct H as [Hx Hl]. apply negb_true_iff in Hx. rewrite Hx, (IH Hl). reflexivity.
Qed.

(* a group of safe items is safe unless it is itself a Values(Dict, x, ...) *)
Lemma safe_group gid name o cl sep multi items :
  forallb safe_in items = true -> vdc name (length items) items = false ->
  safe (CGroup gid name o cl sep multi items) = true.
Proof.
  intros Hi Hv. unfold safe, safe_in. cbn [is_nil negb andb anywhere bad_lit values_dict orb].
  rewrite Hv. cbn [orb].
  rewrite forallb_forall in Hi.
  rewrite !existsb_false_forallb; [reflexivity | |]; apply forallb_forall; intros x Hx;
    specialize (Hi x Hx); unfold safe_in in Hi; apply andb_true_iff in Hi; tauto.
Qed.

(* ------------------------------------------------------------------ dot-ness is invariant *)
(* No registration ever turns a path into, or out of, a dot import - for EVERY
   configuration (RenderProofs.register_ext shows more, under cfg_ok). *)
Lemma dec_not_dot name i : (i <> 0)%N -> candidate name i <> s_dot.
Proof.
  intros Hi E. unfold candidate in E. apply N.eqb_neq in Hi. rewrite Hi in E.
  destruct name as [|b name'].
  - cbn [app] in E. pose proof (N_to_dec_digits i) as Hd. rewrite E in Hd. vm_compute in Hd. discriminate.
  - injection E as _ E. apply app_eq_nil in E. destruct E as [_ E]. exact (N_to_dec_nonnil i E).
Qed.

Section DotInv.
  Variable cfg : config.

  Definition dext (t t' : table) : Prop := forall q, is_dot cfg t' q = is_dot cfg t q.

  Lemma dext_refl t : dext t t.
  Proof. intros q. reflexivity. Qed.
  Lemma dext_trans t t' t'' : dext t t' -> dext t' t'' -> dext t t''.
  Proof. intros H1 H2 q. rewrite H2. apply H1. Qed.

  Lemma is_null_dext t t' c : dext t t' -> is_null cfg t' c = is_null cfg t c.
  Proof.
    intros D. induction c as [| | |tk|gid name o cl sep multi items IH|items IH|pairs IH|kvs|s] using code_ind';
      try reflexivity.
    - destruct tk; try reflexivity. cbn [is_null]. rewrite D. reflexivity.
    - cbn [is_null]. destruct (nonempty o || nonempty cl); [reflexivity|].
      induction IH as [|x l Hx _ IHl]; [reflexivity|]. cbn [forallb]. rewrite Hx, IHl. reflexivity.
    - cbn [is_null]. induction IH as [|x l Hx _ IHl]; [reflexivity|]. cbn [forallb]. rewrite Hx, IHl. reflexivity.
    - cbn [is_null]. induction IH as [|[k v] l [Hk Hv] _ IHl]; [reflexivity|]. cbn [forallb fst snd] in *.
      rewrite Hk, Hv, IHl. reflexivity.
  Qed.

  Lemma register_dext t path t' n : register cfg t path = Ok (t', n) -> dext t t'.
  Proof.
    intros Hr. apply register_cases in Hr.
    destruct Hr as [Hl | n Hl Hk | Hl Hk HC | name alias i Hl Hk HC Hc Hok Hmin]; try apply dext_refl.
    - subst path. intros p. unfold is_dot.
      destruct (str_eqb_spec p s_C) as [->|Hp]; [reflexivity|].
      rewrite alookup_aset_other by congruence. reflexivity.
    - intros p. unfold is_dot.
      destruct (str_eqb_spec p s_C) as [->|Hp]; [reflexivity|].
      destruct (str_eq_dec p path) as [->|Hne]; [|rewrite alookup_aset_other by congruence; reflexivity].
      rewrite alookup_aset_same. cbn [id_name id_alias].
      assert (Hold : match alookup path t with
                     | Some d => if str_eqb (id_name d) [] || str_eqb (id_name d) s_us
                                 then hint_is_dot cfg path else str_eqb (id_name d) s_dot && id_alias d
                     | None => hint_is_dot cfg path
                     end = hint_is_dot cfg path).
      { unfold registered_name in Hk. destruct (alookup path t) as [d|]; [|reflexivity].
        destruct (str_eqb (id_name d) [] || str_eqb (id_name d) s_us); [reflexivity | discriminate]. }
      rewrite Hold. clear Hold.
      set (u := candidate name i). set (a' := alias || negb (str_eqb u name)).
      destruct (str_eqb (with_prefix cfg u a') [] || str_eqb (with_prefix cfg u a') s_us); [reflexivity|].
      rewrite (choose_name_dot cfg _ _ _ Hc).
      destruct (str_eqb_spec name s_dot) as [->|Hnd].
      + (* the name is ".": the first candidate is accepted at once *)
        assert (i = 0%N) as Hi.
        { destruct (N.eq_dec i 0) as [E|E]; [exact E|]. exfalso.
          assert (H0 : candidate_ok cfg t s_dot alias 0 = false) by (apply Hmin; lia).
          unfold candidate_ok in H0. change (candidate s_dot 0) with s_dot in H0.
          rewrite with_prefix_dot in H0. unfold is_valid_alias in H0. rewrite str_eqb_refl in H0. discriminate. }
        subst a' u. rewrite Hi. change (candidate s_dot 0) with s_dot.
        rewrite str_eqb_refl, with_prefix_dot, str_eqb_refl. cbn [negb andb]. rewrite orb_false_r. reflexivity.
      + cbn [andb].
        destruct (str_eqb_spec (with_prefix cfg u a') s_dot) as [Ef|Ef]; cbn [andb]; [|reflexivity].
        exfalso.
        assert (Hu : u = s_dot).
        { destruct (with_prefix_cases cfg u a') as [E|(Hpf & _ & E)]; [congruence|].
          rewrite E in Ef. assert (L : length (cfg_prefix cfg ++ s_us ++ u) = 1) by (rewrite Ef; reflexivity).
          rewrite !app_length in L. destruct (cfg_prefix cfg); [congruence|]. simpl in L. lia. }
        destruct (N.eq_dec i 0) as [E|E].
        * subst u. rewrite E in Hu. change (candidate name 0) with name in Hu. contradiction.
        * exact (dec_not_dot name i E Hu).
  Qed.

  Lemma prereg_dext t c t0 : prereg cfg t c = Ok t0 -> dext t t0.
  Proof.
    unfold prereg. destruct c as [| | |tk| | | | |]; try (intros H; injection H as <-; apply dext_refl).
    destruct tk; try (intros H; injection H as <-; apply dext_refl).
    destruct (register cfg t path) as [[t' n]|m] eqn:E; cbn [bind fst]; [|discriminate].
    intros H. injection H as <-. eapply register_dext. exact E.
  Qed.

  Definition dx (c : code) : Prop := forall ctx t t1 s, render cfg ctx t c = Ok (t1, s) -> dext t t1.

  Lemma group_loop_dext name sep multi nitems items :
    Forall dx items ->
    forall t first r, group_loop cfg (render cfg) name sep multi nitems t first items = Ok r -> dext t (fst (fst r)).
  Proof.
    intros Hst. induction Hst as [|c l Hc _ IH]; intros t first r; cbn [group_loop].
    - intros H. injection H as <-. apply dext_refl.
    - fold (prereg cfg t c). destruct (prereg cfg t c) as [t0|m] eqn:Ep; cbn [bind]; [|discriminate].
      pose proof (prereg_dext _ _ _ Ep) as H0.
      destruct (is_null cfg t0 c).
      + intros H. eapply dext_trans; [exact H0 | eapply IH; exact H].
      + destruct (str_eqb name s_values && is_dict c && Nat.ltb 1 nitems); [discriminate|].
        destruct (render cfg false t0 c) as [[ta sa]|m] eqn:Er; cbn [bind fst snd]; [|discriminate].
        destruct (group_loop cfg (render cfg) name sep multi nitems ta false l) as [rb|m] eqn:El;
          cbn [bind fst snd]; [|discriminate].
        intros H. injection H as <-. cbn [fst snd].
        eapply dext_trans; [exact H0|]. eapply dext_trans; [eapply Hc; exact Er | eapply IH; exact El].
  Qed.

  Lemma stmt_loop_dext all items :
    Forall dx items ->
    forall t first t1 s, stmt_loop cfg (render cfg) all t first items = Ok (t1, s) -> dext t t1.
  Proof.
    intros Hst. induction Hst as [|c l Hc _ IH]; intros t first t1 s; cbn [stmt_loop].
    - intros H. injection H as <- <-. apply dext_refl.
    - destruct (is_null cfg t c); [apply IH|].
      destruct (render cfg (case_ctx all c) t c) as [[ta sa]|m] eqn:Er; cbn [bind fst snd]; [|discriminate].
      destruct (stmt_loop cfg (render cfg) all ta false l) as [[tb sb]|m] eqn:El; cbn [bind fst snd]; [|discriminate].
      intros H. injection H as <- <-. eapply dext_trans; [eapply Hc; exact Er | eapply IH; exact El].
  Qed.

  Definition entry_dx (e : dict_entry) : Prop :=
    forall t t' s, (snd (fst e) t = Ok (t', s) -> dext t t') /\ (snd e t = Ok (t', s) -> dext t t').

  Lemma dict_pass1_dext pairs :
    Forall (fun kv => dx (fst kv) /\ dx (snd kv)) pairs ->
    forall t t1 es, dict_pass1 cfg (render cfg) t pairs = Ok (t1, es) -> dext t t1 /\ Forall entry_dx es.
  Proof.
    intros Hst. induction Hst as [|[k v] l [Hk Hv] _ IH]; intros t t1 es; cbn [dict_pass1 fst snd].
    - intros H. injection H as <- <-. split; [apply dext_refl | constructor].
    - cbn [fst snd] in Hk, Hv. destruct (is_null cfg t k || is_null cfg t v); [apply IH|].
      destruct (render cfg false t k) as [[ta sa]|m] eqn:Er; cbn [bind fst snd]; [|discriminate].
      destruct (dict_pass1 cfg (render cfg) ta l) as [[tb esb]|m] eqn:El; cbn [bind fst snd]; [|discriminate].
      intros H. injection H as <- <-. destruct (IH _ _ _ El) as [Hb Hes].
      split; [eapply dext_trans; [eapply Hk; exact Er | exact Hb]|].
      constructor; [|exact Hes]. intros t2 t3 s3. cbn [fst snd]. split; [apply Hk | apply Hv].
  Qed.

  Lemma dict_pass2_dext several l :
    Forall entry_dx l ->
    forall t first t1 s, dict_pass2 several t first l = Ok (t1, s) -> dext t t1.
  Proof.
    intros Hst. induction Hst as [|e l He _ IH]; intros t first t1 s; cbn [dict_pass2].
    - intros H. injection H as <- <-. apply dext_refl.
    - destruct (snd (fst e) t) as [[ta sa]|m] eqn:Ek; cbn [bind fst snd]; [|discriminate].
      destruct (snd e ta) as [[tb sb]|m] eqn:Ev; cbn [bind fst snd]; [|discriminate].
      destruct (dict_pass2 several tb false l) as [[tc sc]|m] eqn:El; cbn [bind fst snd]; [|discriminate].
      intros H. injection H as <- <-.
      destruct (He t ta sa) as [H1 _]. destruct (He ta tb sb) as [_ H2].
      eapply dext_trans; [apply H1; exact Ek|]. eapply dext_trans; [apply H2; exact Ev | eapply IH; exact El].
  Qed.

  Theorem render_dext : forall c, dx c.
  Proof.
    induction c as [| | |tk|gid name o cl sep multi items IH|items IH|pairs IH|kvs|s] using code_ind';
      intros ctx t t1 s0; cbn [render]; try discriminate.
    - destruct tk; cbn [render_token]; try (intros H; injection H as <- <-; apply dext_refl).
      + apply register_dext.
      + destruct (lit_text l); cbn [bind]; [|discriminate]. intros H; injection H as <- <-; apply dext_refl.
    - destruct (str_eqb name s_types && forallb (is_null cfg t) items).
      + intros H. injection H as <- <-. apply dext_refl.
      + destruct (group_loop cfg (render cfg) name sep multi (length items) t true items) as [r|m] eqn:El;
          cbn [bind fst snd]; [|discriminate].
        intros H. injection H as <- <-. eapply group_loop_dext; [exact IH | exact El].
    - apply stmt_loop_dext. exact IH.
    - destruct (dict_pass1 cfg (render cfg) t pairs) as [[ta es]|m] eqn:E1; cbn [bind fst snd]; [|discriminate].
      destruct (dict_pass1_dext pairs IH _ _ _ E1) as [Ha Hes]. intros H2.
      eapply dext_trans; [exact Ha|]. eapply dict_pass2_dext; [|exact H2].
      eapply Forall_perm'; [apply Permutation_sym, isort_by_perm | exact Hes].
    - intros H. injection H as <- <-. apply dext_refl.
    - intros H. injection H as <- <-. apply dext_refl.
  Qed.
End DotInv.

(* ------------------------------------------------------------------ the exact criterion *)
(* Null-ness does not change during a render (registrations never turn a path into or out
   of a dot import), so whether a panic is REACHED can be read off the tree at the initial
   table: a node is visited iff its ancestors are live (non-null) there. *)
Lemma existsb_eq_in {A} (f g : A -> bool) l : (forall x, In x l -> f x = g x) -> existsb f l = existsb g l.
Proof.
  induction l as [|x l IH]; intros H; [reflexivity|]. cbn [existsb].
  rewrite (H x (or_introl eq_refl)), IH; [reflexivity|]. intros y Hy. apply H. right. exact Hy.
Qed.
Lemma forallb_eq_in {A} (f g : A -> bool) l : (forall x, In x l -> f x = g x) -> forallb f l = forallb g l.
Proof.
  induction l as [|x l IH]; intros H; [reflexivity|]. cbn [forallb].
  rewrite (H x (or_introl eq_refl)), IH; [reflexivity|]. intros y Hy. apply H. right. exact Hy.
Qed.
Lemma existsb_orb {A} (f g : A -> bool) l : existsb (fun x => f x || g x) l = existsb f l || existsb g l.
Proof.
  induction l as [|x l IH]; [reflexivity|]. cbn [existsb]. rewrite IH.
  destruct (f x), (g x), (existsb f l), (existsb g l); reflexivity.
Qed.
Lemma existsb_perm {A} (f : A -> bool) l l' : Permutation l l' -> existsb f l = existsb f l'.
Proof.
  induction 1 as [|x l l' _ IH|x y l|l l' l'' _ IH1 _ IH2]; cbn [existsb].
  - reflexivity.
  - rewrite IH. reflexivity.
  - destruct (f x), (f y); reflexivity.
  - rewrite IH1. exact IH2.
Qed.

Lemma is_panic_bind_ok {A B} (r : result A) (f : A -> B) : is_panic (bind r (fun a => Ok (f a))) = is_panic r.
Proof. destruct r; reflexivity. Qed.

Section Exact.
  Variable cfg : config.

  Fixpoint reach (t : table) (c : code) {struct c} : bool :=
    match c with
    | CNil | CNilStmt | CNilGroup => true
    | CTok (TkLit (LBad _)) => true
    | CTok _ => false
    | CGroup _ name _ _ _ _ items =>
      if str_eqb name s_types && forallb (is_null cfg t) items then false
      else existsb (fun x => negb (is_null cfg t x) &&
                             ((str_eqb name s_values && is_dict x && Nat.ltb 1 (length items)) || reach t x)) items
    | CStmt items => existsb (fun x => negb (is_null cfg t x) && reach t x) items
    | CDict pairs =>
      existsb (fun kv => negb (is_null cfg t (fst kv) || is_null cfg t (snd kv)) &&
                         (reach t (fst kv) || reach t (snd kv))) pairs
    | CTag _ | CComment _ => false
    end.

  Definition g_item (t : table) (name : str) (n : nat) (x : code) : bool :=
    negb (is_null cfg t x) && ((str_eqb name s_values && is_dict x && Nat.ltb 1 n) || reach t x).
  Definition s_item (t : table) (x : code) : bool := negb (is_null cfg t x) && reach t x.
  Definition live (t : table) (kv : code * code) : bool :=
    negb (is_null cfg t (fst kv) || is_null cfg t (snd kv)).
  Definition d_item (t : table) (kv : code * code) : bool :=
    live t kv && (reach t (fst kv) || reach t (snd kv)).

  Lemma reach_group t gid name o cl sep multi items :
    reach t (CGroup gid name o cl sep multi items) =
    if str_eqb name s_types && forallb (is_null cfg t) items then false
    else existsb (g_item t name (length items)) items.
  Proof. reflexivity. Qed.
  Lemma reach_stmt t items : reach t (CStmt items) = existsb (s_item t) items.
  Proof. reflexivity. Qed.
  Lemma reach_dict t pairs : reach t (CDict pairs) = existsb (d_item t) pairs.
  Proof. reflexivity. Qed.

  Lemma forallb_null_ext t t' l : dext cfg t t' -> forallb (is_null cfg t') l = forallb (is_null cfg t) l.
  Proof. intros H. apply forallb_eq_in. intros x _. apply is_null_dext. exact H. Qed.

  Lemma reach_ext t t' c : dext cfg t t' -> reach t' c = reach t c.
  Proof.
    intros He.
    induction c as [| | |tk|gid name o cl sep multi items IH|items IH|pairs IH|kvs|s] using code_ind';
      try reflexivity.
    - rewrite !reach_group, (forallb_null_ext _ _ _ He).
      destruct (str_eqb name s_types && forallb (is_null cfg t) items); [reflexivity|].
      apply existsb_eq_in. intros x Hx. rewrite Forall_forall in IH. unfold g_item.
      rewrite (is_null_dext cfg _ _ x He), (IH x Hx). reflexivity.
    - rewrite !reach_stmt. apply existsb_eq_in. intros x Hx. rewrite Forall_forall in IH. unfold s_item.
      rewrite (is_null_dext cfg _ _ x He), (IH x Hx). reflexivity.
    - rewrite !reach_dict. apply existsb_eq_in. intros kv Hx. rewrite Forall_forall in IH.
      destruct (IH kv Hx) as [Hk Hv]. unfold d_item, live.
      rewrite !(is_null_dext cfg _ _ _ He), Hk, Hv. reflexivity.
  Qed.

  Definition ex (c : code) : Prop := forall ctx t, is_panic (render cfg ctx t c) = reach t c.

  Lemma render_ok_ext c ctx t t1 s : render cfg ctx t c = Ok (t1, s) -> dext cfg t t1.
  Proof. apply render_dext. Qed.

  Lemma prereg_ext t c t0 : prereg cfg t c = Ok t0 -> dext cfg t t0.
  Proof. apply prereg_dext. Qed.

  Lemma group_loop_exact name sep multi nitems items :
    Forall ex items ->
    forall t first, is_panic (group_loop cfg (render cfg) name sep multi nitems t first items)
                    = existsb (g_item t name nitems) items.
  Proof.
    intros Hst. induction Hst as [|c l Hc _ IH]; intros t first; cbn [group_loop existsb]; [reflexivity|].
    fold (prereg cfg t c). destruct (prereg_total cfg t c) as [t0 E0]. rewrite E0. cbn [bind].
    pose proof (prereg_ext _ _ _ E0) as He0.
    assert (Hrest : forall t' f', dext cfg t t' ->
              is_panic (group_loop cfg (render cfg) name sep multi nitems t' f' l) = existsb (g_item t name nitems) l).
    { intros t' f' He. rewrite IH. apply existsb_eq_in. intros x _. unfold g_item.
      rewrite (is_null_dext cfg _ _ x He), (reach_ext _ _ x He). reflexivity. }
    unfold g_item at 1. rewrite (is_null_dext cfg _ _ c He0).
    destruct (is_null cfg t c) eqn:En; cbn [negb andb orb]; [apply Hrest; exact He0|].
    destruct (str_eqb name s_values && is_dict c && Nat.ltb 1 nitems) eqn:Ev; cbn [orb]; [reflexivity|].
    rewrite <- (reach_ext _ _ c He0), <- (Hc false t0).
    destruct (render cfg false t0 c) as [[ta sa]|m'] eqn:Er; cbn [bind fst snd is_panic orb]; [|reflexivity].
    rewrite is_panic_bind_ok. apply Hrest.
    eapply dext_trans; [exact He0 | eapply render_ok_ext; exact Er].
  Qed.

  Lemma stmt_loop_exact all items :
    Forall ex items ->
    forall t first, is_panic (stmt_loop cfg (render cfg) all t first items) = existsb (s_item t) items.
  Proof.
    intros Hst. induction Hst as [|c l Hc _ IH]; intros t first; cbn [stmt_loop existsb]; [reflexivity|].
    assert (Hrest : forall t' f', dext cfg t t' ->
              is_panic (stmt_loop cfg (render cfg) all t' f' l) = existsb (s_item t) l).
    { intros t' f' He. rewrite IH. apply existsb_eq_in. intros x _. unfold s_item.
      rewrite (is_null_dext cfg _ _ x He), (reach_ext _ _ x He). reflexivity. }
    unfold s_item at 1.
    destruct (is_null cfg t c) eqn:En; cbn [negb andb orb]; [apply Hrest; apply dext_refl|].
    rewrite <- (Hc (case_ctx all c) t).
    destruct (render cfg (case_ctx all c) t c) as [[ta sa]|m'] eqn:Er; cbn [bind fst snd is_panic orb]; [|reflexivity].
    rewrite is_panic_bind_ok. apply Hrest. eapply render_ok_ext; exact Er.
  Qed.

  (* what the second pass needs to know about an entry, relative to the table t0 at which
     the Dict started: the key renders (it did in the first pass) and the value's fate is
     the same at every later table *)
  Definition entry_inv (t0 : table) (e : dict_entry) : Prop :=
    (forall t', dext cfg t0 t' -> exists t'' s, snd (fst e) t' = Ok (t'', s) /\ dext cfg t' t'') /\
    (forall t', dext cfg t0 t' -> is_panic (snd e t') = is_panic (snd e t0)) /\
    (forall t' t'' s, snd e t' = Ok (t'', s) -> dext cfg t' t'').

  Definition vpanic (t0 : table) (e : dict_entry) : bool := is_panic (snd e t0).

  Lemma dict_pass2_exact t0 several l :
    Forall (entry_inv t0) l ->
    forall t first, dext cfg t0 t -> is_panic (dict_pass2 several t first l) = existsb (vpanic t0) l.
  Proof.
    intros Hst. induction Hst as [|e l (Hk & Hv & Hve) _ IH]; intros t first He; cbn [dict_pass2 existsb]; [reflexivity|].
    destruct (Hk t He) as (ta & sa & Ek & Hea). rewrite Ek. cbn [bind fst snd].
    pose proof (dext_trans cfg _ _ _ He Hea) as H0a.
    unfold vpanic at 1. rewrite <- (Hv ta H0a).
    destruct (snd e ta) as [[tb sb]|m'] eqn:Ev; cbn [bind fst snd is_panic orb]; [|reflexivity].
    rewrite is_panic_bind_ok. apply IH. eapply dext_trans; [exact H0a | eapply Hve; exact Ev].
  Qed.

  Lemma dict_pass1_exact pairs :
    Forall (fun kv => ex (fst kv) /\ ex (snd kv)) pairs ->
    forall t0 t, dext cfg t0 t ->
      match dict_pass1 cfg (render cfg) t pairs with
      | Panic _ => existsb (fun kv => live t0 kv && reach t0 (fst kv)) pairs = true
      | Ok (t1, es) =>
        dext cfg t t1 /\
        existsb (fun kv => live t0 kv && reach t0 (fst kv)) pairs = false /\
        Forall (entry_inv t0) es /\
        existsb (vpanic t0) es = existsb (fun kv => live t0 kv && reach t0 (snd kv)) pairs
      end.
  Proof.
    intros Hst. induction Hst as [|[k v] l [Hk Hv] _ IH]; intros t0 t He; cbn [dict_pass1 fst snd existsb].
    - split; [apply dext_refl|]. split; [reflexivity|]. split; [constructor | reflexivity].
    - cbn [fst snd] in Hk, Hv.
      assert (Hl : live t0 (k, v) = negb (is_null cfg t k || is_null cfg t v)).
      { unfold live. cbn [fst snd]. rewrite !(is_null_dext cfg _ _ _ He). reflexivity. }
      rewrite !Hl. clear Hl.
      destruct (is_null cfg t k || is_null cfg t v) eqn:En; cbn [negb andb orb]; [apply IH; exact He|].
      pose proof (Hk false t) as Hkt. rewrite (reach_ext _ _ k He) in Hkt.
      destruct (render cfg false t k) as [[ta sa]|m'] eqn:Er; cbn [bind fst snd is_panic] in *.
      + rewrite <- Hkt. cbn [orb].
        pose proof (render_ok_ext _ _ _ _ _ Er) as Hea.
        pose proof (dext_trans cfg _ _ _ He Hea) as H0a.
        specialize (IH t0 ta H0a).
        destruct (dict_pass1 cfg (render cfg) ta l) as [[tb esb]|m'] eqn:El; cbn [bind fst snd]; [|exact IH].
        destruct IH as (Heb & Hkf & Hes & Hvs).
        split; [eapply dext_trans; eassumption|]. split; [exact Hkf|]. split.
        * constructor; [|exact Hes]. split; [|split]; cbn [fst snd].
          -- intros t' He'. pose proof (Hk false t') as Hp. rewrite (reach_ext _ _ k He'), <- Hkt in Hp.
             destruct (render cfg false t' k) as [[t'' s'']|m''] eqn:Er'; [|discriminate].
             exists t'', s''. split; [reflexivity | eapply render_ok_ext; exact Er'].
          -- intros t' He'. rewrite (Hv false t'), (Hv false t0). apply reach_ext. exact He'.
          -- intros t' t'' s''. apply render_ok_ext.
        * cbn [existsb]. unfold vpanic at 1. cbn [snd]. rewrite (Hv false t0), Hvs. reflexivity.
      + rewrite <- Hkt. reflexivity.
  Qed.

  (* THE EXACT CRITERION: rendering panics iff a panic is reached *)
  Theorem render_panics_iff_reach : forall c, ex c.
  Proof.
    induction c as [| | |tk|gid name o cl sep multi items IH|items IH|pairs IH|kvs|s] using code_ind';
      intros ctx t; try reflexivity.
    - cbn [render]. destruct tk; try reflexivity.
      + cbn [render_token reach]. destruct (register_total cfg t path) as (t' & n & E). rewrite E. reflexivity.
      + destruct l; try reflexivity. destruct b; reflexivity.
    - rewrite reach_group. cbn [render].
      destruct (str_eqb name s_types && forallb (is_null cfg t) items); [reflexivity|].
      rewrite is_panic_bind_ok. apply group_loop_exact. exact IH.
    - rewrite reach_stmt. cbn [render]. apply stmt_loop_exact. exact IH.
    - rewrite reach_dict. cbn [render].
      pose proof (dict_pass1_exact pairs IH t t (dext_refl cfg t)) as H1.
      assert (Hsplit : existsb (d_item t) pairs =
                       existsb (fun kv => live t kv && reach t (fst kv)) pairs ||
                       existsb (fun kv => live t kv && reach t (snd kv)) pairs).
      { rewrite <- existsb_orb. apply existsb_eq_in. intros kv _. unfold d_item.
        destruct (live t kv); reflexivity. }
      rewrite Hsplit.
      destruct (dict_pass1 cfg (render cfg) t pairs) as [[ta es]|m'] eqn:E1; cbn [bind fst snd is_panic].
      + destruct H1 as (Hea & Hkf & Hes & Hvs). rewrite Hkf, <- Hvs. cbn [orb].
        rewrite (dict_pass2_exact t _ (isort_by dict_key es)).
        * apply existsb_perm, isort_by_perm.
        * eapply Forall_perm'; [apply Permutation_sym, isort_by_perm | exact Hes].
        * exact Hea.
      + rewrite H1. reflexivity.
  Qed.

  Corollary render_panics_iff c ctx t : (exists m, render cfg ctx t c = Panic m) <-> reach t c = true.
  Proof.
    rewrite <- (render_panics_iff_reach c ctx t). destruct (render cfg ctx t c) as [r|m]; cbn [is_panic].
    - split; [intros [m H]; discriminate | discriminate].
    - split; [reflexivity | intros _; exists m; reflexivity].
  Qed.
End Exact.

(* ------------------------------------------------------------------ File.Render and the formatter *)
(* The NoFormat bypass is the only difference between the two modes, safe bodies never
   panic, successful output is the formatter's output (lemmas behind Props/C02.v). *)
Lemma formatted_is_fmt_of_raw : forall fmt wf f,
  let f1 := set_noformat f true in
  let f0 := set_noformat f false in
  file_raw f1 = file_raw f /\ file_raw f0 = file_raw f /\
  f_imports (fst (file_render fmt wf f1)) = f_imports (fst (file_render fmt wf f0)) /\
  match file_raw f with
  | Panic m => snd (file_render fmt wf f1) = OPanic m /\ snd (file_render fmt wf f0) = OPanic m
  | Ok (t, raw) =>
    f_imports (fst (file_render fmt wf f0)) = t /\
    snd (file_render fmt wf f1) = OWrite raw (wf 1%nat) /\
    (forall o b, snd (file_render fmt wf f0) = OWrite o b <-> fmt raw = Some o /\ b = wf 1%nat) /\
    (forall r, snd (file_render fmt wf f0) = OFormatErr r <-> fmt raw = None /\ r = raw)
  end.
Proof.
  intros fmt wf f f1 f0.
  assert (H1 : file_raw f1 = file_raw f) by reflexivity.
  assert (H0 : file_raw f0 = file_raw f) by reflexivity.
  split; [exact H1|]. split; [exact H0|].
  unfold file_render. rewrite H1, H0.
  destruct (file_raw f) as [[t raw]|m]; cbn [fst snd f_imports set_imports]; [|auto].
  split; [reflexivity|]. split; [reflexivity|]. split; [reflexivity|].
  unfold emit. cbn [f_noformat f0 set_noformat].
  destruct (fmt raw) as [o'|]; split; intros; split; intros H;
    try discriminate; try (destruct H; discriminate).
  - injection H as <- <-. split; reflexivity.
  - destruct H as [H ->]. injection H as <-. reflexivity.
  - injection H as <-. split; reflexivity.
  - destruct H as [_ ->]. reflexivity.
Qed.

Lemma fragment_is_fmt_of_raw : forall fmt wf c f b,
  code_render_with_file fmt wf c (set_noformat f b) =
    (set_noformat (fst (code_render_with_file fmt wf c f)) b, snd (code_render_with_file fmt wf c f)) /\
  match render (file_cfg f) false (f_imports f) c with
  | Panic m => snd (code_render_with_file fmt wf c f) = OPanic m
  | Ok (t, raw) =>
    f_imports (fst (code_render_with_file fmt wf c f)) = t /\
    (forall o b, snd (code_render_with_file fmt wf c f) = OWrite o b <-> fmt raw = Some o /\ b = wf 1%nat) /\
    (forall r, snd (code_render_with_file fmt wf c f) = OFormatErr r <-> fmt raw = None /\ r = raw)
  end.
Proof.
  intros fmt wf c f b. unfold code_render_with_file.
  change (file_cfg (set_noformat f b)) with (file_cfg f).
  change (f_imports (set_noformat f b)) with (f_imports f).
  destruct (render (file_cfg f) false (f_imports f) c) as [[t raw]|m]; cbn [fst snd]; [|split; reflexivity].
  split; [reflexivity|]. split; [reflexivity|].
  unfold emit. destruct (fmt raw) as [o'|]; split; intros; split; intros H;
    try discriminate; try (destruct H; discriminate).
  - injection H as <- <-. split; reflexivity.
  - destruct H as [H ->]. injection H as <-. reflexivity.
  - injection H as <-. split; reflexivity.
  - destruct H as [_ ->]. reflexivity.
Qed.

Lemma invalid_is_error_not_panic : forall fmt wf f,
  forallb safe_in (f_items f) = true ->
  exists t raw, file_raw f = Ok (t, raw) /\
    f_imports (fst (file_render fmt wf f)) = t /\
    (forall m, snd (file_render fmt wf f) <> OPanic m) /\
    ((f_noformat f = true /\ snd (file_render fmt wf f) = OWrite raw (wf 1%nat)) \/
     (f_noformat f = false /\ exists o, fmt raw = Some o /\ snd (file_render fmt wf f) = OWrite o (wf 1%nat)) \/
     (f_noformat f = false /\ fmt raw = None /\ snd (file_render fmt wf f) = OFormatErr raw)).
Proof.
  intros fmt wf f Hs.
  assert (Hg : safe (file_group f) = true) by (apply safe_group; [exact Hs | reflexivity]).
  destruct (safe_total (file_cfg f) _ Hg false (f_imports f)) as (t1 & s & E).
  exists t1, (file_head f ++ render_imports t1 (f_cgo f) ++ s).
  assert (Hr : file_raw f = Ok (t1, file_head f ++ render_imports t1 (f_cgo f) ++ s))
    by (unfold file_raw; rewrite E; reflexivity).
  split; [exact Hr|]. unfold file_render. rewrite Hr. cbn [fst snd f_imports set_imports].
  split; [reflexivity|]. unfold emit.
  destruct (f_noformat f); [split; [discriminate | left; split; reflexivity]|].
  destruct (fmt (file_head f ++ render_imports t1 (f_cgo f) ++ s)) as [o|] eqn:Ef.
  - split; [discriminate|]. right. left. split; [reflexivity|]. exists o. split; reflexivity.
  - split; [discriminate|]. right. right. split; [reflexivity|]. split; reflexivity.
Qed.

Lemma invalid_fragment_is_error_not_panic : forall fmt wf c f,
  safe c = true ->
  exists t raw, render (file_cfg f) false (f_imports f) c = Ok (t, raw) /\
    (forall m, snd (code_render_with_file fmt wf c f) <> OPanic m) /\
    ((exists o, fmt raw = Some o /\ snd (code_render_with_file fmt wf c f) = OWrite o (wf 1%nat)) \/
     (fmt raw = None /\ snd (code_render_with_file fmt wf c f) = OFormatErr raw)).
Proof.
  intros fmt wf c f Hs.
  destruct (safe_total (file_cfg f) _ Hs false (f_imports f)) as (t1 & s & E).
  exists t1, s. split; [exact E|]. unfold code_render_with_file. rewrite E. cbn [snd]. unfold emit.
  destruct (fmt s) as [o|] eqn:Ef.
  - split; [discriminate|]. left. exists o. split; reflexivity.
  - split; [discriminate|]. right. split; reflexivity.
Qed.

Section Parses.
  Variable fmt : str -> option str.
  Variable wf : nat -> bool.
  Variable parses : str -> Prop.
  Hypothesis fmt_sound : forall s o, fmt s = Some o -> parses o.

  Lemma success_parses : forall f o b,
    f_noformat f = false -> snd (file_render fmt wf f) = OWrite o b -> parses o.
  Proof.
    intros f o b Hn. unfold file_render. destruct (file_raw f) as [[t raw]|m]; cbn [snd]; [|discriminate].
    unfold emit. rewrite Hn. destruct (fmt raw) as [o'|] eqn:Ef; [|discriminate].
    intros H. injection H as <- _. eapply fmt_sound. exact Ef.
  Qed.

  Lemma fragment_success_parses : forall c f o b,
    snd (code_render_with_file fmt wf c f) = OWrite o b -> parses o.
  Proof.
    intros c f o b. unfold code_render_with_file.
    destruct (render (file_cfg f) false (f_imports f) c) as [[t raw]|m]; cbn [snd]; [|discriminate].
    unfold emit. destruct (fmt raw) as [o'|] eqn:Ef; [|discriminate].
    intros H. injection H as <- _. eapply fmt_sound. exact Ef.
  Qed.
End Parses.
