(* The checker of Spec/CloneShape.v decides the declarative reading. *)
From Jen Require Import Base.Bytes Spec.CloneShape.

Lemma has_row_iff t fn v :
  has_row t fn v = true <-> exists r, In r t /\ row_fn r = fn /\ row_var r = v.
Proof.
  unfold has_row. rewrite existsb_exists. split.
  - intros [r [Hin H]]. apply andb_true_iff in H. destruct H as [H1 H2].
    apply str_eqb_eq in H1. apply str_eqb_eq in H2. exists r. auto.
  - intros [r [Hin [H1 H2]]]. exists r. split; [exact Hin|].
    subst. rewrite !str_eqb_refl. reflexivity.
Qed.

Lemma use_ok_iff t fn u :
  use_ok t fn u = true <->
  reads_only (final_use u) \/
  exists f v, hands_on fn u f v /\ exists r', In r' t /\ row_fn r' = f /\ row_var r' = v.
Proof.
  induction u as [ | | | | | | | | u IH | u IH | v | f p | | | | | | | | w | w ]; cbn [use_ok final_use].
  1-8: split; [intros _; left; constructor | reflexivity].
  - (* reslice *)
    rewrite IH. split.
    + intros [H | [f [v [H1 H2]]]]; [left; exact H | right; exists f, v; split; [constructor; exact H1 | exact H2]].
    + intros [H | [f [v [H1 H2]]]]; [left; exact H | right; exists f, v; split; [inversion H1; subst; assumption | exact H2]].
  - (* convert *)
    rewrite IH. split.
    + intros [H | [f [v [H1 H2]]]]; [left; exact H | right; exists f, v; split; [constructor; exact H1 | exact H2]].
    + intros [H | [f [v [H1 H2]]]]; [left; exact H | right; exists f, v; split; [inversion H1; subst; assumption | exact H2]].
  - (* copy to *)
    rewrite has_row_iff. split.
    + intros H. right. exists fn, v. split; [constructor | exact H].
    + intros [H | [f [v' [H1 H2]]]]; [inversion H | inversion H1; subst; exact H2].
  - (* pass *)
    rewrite has_row_iff. split.
    + intros H. right. exists f, p. split; [constructor | exact H].
    + intros [H | [f' [v' [H1 H2]]]]; [inversion H | inversion H1; subst; exact H2].
  - split; [discriminate | intros [H | [f [v [H1 _]]]]; [inversion H | inversion H1]].
  - split; [discriminate | intros [H | [f [v [H1 _]]]]; [inversion H | inversion H1]].
  - split; [discriminate | intros [H | [f [v [H1 _]]]]; [inversion H | inversion H1]].
  - split; [discriminate | intros [H | [f [v [H1 _]]]]; [inversion H | inversion H1]].
  - split; [discriminate | intros [H | [f [v [H1 _]]]]; [inversion H | inversion H1]].
  - split; [discriminate | intros [H | [f [v [H1 _]]]]; [inversion H | inversion H1]].
  - split; [discriminate | intros [H | [f [v [H1 _]]]]; [inversion H | inversion H1]].
  - split; [discriminate | intros [H | [f [v [H1 _]]]]; [inversion H | inversion H1]].
  - split; [discriminate | intros [H | [f [v [H1 _]]]]; [inversion H | inversion H1]].
Qed.

(* the obligation decides soundness of the table *)
Theorem copies_closed_readonly_iff t :
  copies_closed_readonly t = true <-> table_sound t.
Proof.
  unfold copies_closed_readonly, table_sound. rewrite forallb_forall. split.
  - intros H r u Hr Hu. specialize (H r Hr). rewrite forallb_forall in H.
    apply use_ok_iff. exact (H u Hu).
  - intros H r Hr. rewrite forallb_forall. intros u Hu. apply use_ok_iff. exact (H r u Hr Hu).
Qed.

(* in a sound table no mention of any copy is, at its final position, one of the writing or
   escaping categories *)
Definition writes_or_escapes (u : copy_use) : Prop :=
  match u with
  | UseAppendDst | UseElemWrite | UseCopyDst | UseAddr | UseElemAddr | UseReturned | UseClosure
  | UseStored _ | UseOther _ => True
  | _ => False
  end.

Lemma hands_on_final fn u f v : hands_on fn u f v -> ~ writes_or_escapes (final_use u).
Proof. induction 1; cbn; auto. Qed.

Theorem sound_table_never_writes t :
  copies_closed_readonly t = true ->
  forall r u, In r t -> In u (row_uses r) -> ~ writes_or_escapes (final_use u).
Proof.
  intros H r u Hr Hu. apply copies_closed_readonly_iff in H.
  destruct (H r u Hr Hu) as [R | [f [v [Ho _]]]].
  - intro W. destruct (final_use u); try (inversion R; fail); exact W.
  - eapply hands_on_final; exact Ho.
Qed.

(* the empty table (the pinned tree: no copies at all) is sound; a table with a copy that is
   appended to, or handed to a helper that has no row, is not *)
Example empty_table_ok : copies_closed_readonly [] = true.
Proof. reflexivity. Qed.

Example appended_copy_rejected :
  copies_closed_readonly
    [(S "Statement.render", S "statement.go:42 items", [UseLen; UseIndexRead; UseAppendDst])] = false.
Proof. vm_compute. reflexivity. Qed.

Example unanalysed_helper_rejected :
  copies_closed_readonly
    [(S "Statement.isNull", S "statement.go:37 *s (expression)", [UsePass (S "allNull") (S "group.go:36 items")])] = false.
Proof. vm_compute. reflexivity. Qed.

Example helper_chain_ok :
  copies_closed_readonly
    [(S "allNull", S "group.go:36 items", [UseLen; UseIndexRead; UseReslice (UsePass (S "allNull") (S "group.go:36 items"))]);
     (S "Statement.isNull", S "statement.go:37 *s (expression)", [UsePass (S "allNull") (S "group.go:36 items")]);
     (S "Statement.render", S "statement.go:42 items", [UseLen; UseIndexRead; UseReslice UseSelfAssign; UseSelfAssign]);
     (S "Statement.render", S "statement.go:42 *s (expression)", [UseCopyTo (S "statement.go:42 items")])] = true.
Proof. vm_compute. reflexivity. Qed.
