(* The checker of Spec/CloneShape.v decides the declarative reading. *)
From Jen Require Import Base.Bytes Spec.CloneShape.

Lemma has_row_iff t fn v :
  has_row t fn v = true <-> exists r, In r t /\ row_fn r = fn /\ row_var r = v.
Proof.
  unfold has_row. rewrite existsb_exists. split.
  - intros [r [Hin H]]. apply andb_true_iff in H. destruct H as [H1 H2].
    apply str_eqb_eq in H1. apply str_eqb_eq in H2. exists r. auto.
  - intros [r [Hin [H1 H2]]]. exists r. split; [exact Hin|].
    subst. rewrite !str_eqb_refl. reflexivity.
Qed.

Lemma use_ok_iff t fn u :
  use_ok t fn u = true <->
  reads_only (final_use u) \/
  exists f v, hands_on fn u f v /\ exists r', In r' t /\ row_fn r' = f /\ row_var r' = v.
Proof.
  induction u as [ | | | | | | | | u IH | u IH | v | f p | | | | | | | | w | w ]; cbn [use_ok final_use].
  1-8: split; [intros _; left; constructor | reflexivity].
  - (* reslice *)
    rewrite IH. split.
    + intros [H | [f [v [H1 H2]]]]; [left; exact H | right; exists f, v; split; [constructor; exact H1 | exact H2]].
    + intros [H | [f [v [H1 H2]]]]; [left; exact H | right; exists f, v; split; [inversion H1; subst; assumption | exact H2]].
  - (* convert *)
    rewrite IH. split.
    + intros [H | [f [v [H1 H2]]]]; [left; exact H | right; exists f, v; split; [constructor; exact H1 | exact H2]].
    + intros [H | [f [v [H1 H2]]]]; [left; exact H | right; exists f, v; split; [inversion H1; subst; assumption | exact H2]].
  - (* copy to *)
    rewrite has_row_iff. split.
    + intros H. right. exists fn, v. split; [constructor | exact H].
    + intros [H | [f [v' [H1 H2]]]]; [inversion H | inversion H1; subst; exact H2].
  - (* pass *)
    rewrite has_row_iff. split.
    + intros H. right. exists f, p. split; [constructor | exact H].
    + intros [H | [f' [v' [H1 H2]]]]; [inversion H | inversion H1; subst; exact H2].
  - split; [discriminate | intros [H | [f [v [H1 _]]]]; [inversion H | inversion H1]].
  - split; [discriminate | intros [H | [f [v [H1 _]]]]; [inversion H | inversion H1]].
  - split; [discriminate | intros [H | [f [v [H1 _]]]]; [inversion H | inversion H1]].
  - split; [discriminate | intros [H | [f [v [H1 _]]]]; [inversion H | inversion H1]].
  - split; [discriminate | intros [H | [f [v [H1 _]]]]; [inversion H | inversion H1]].
  - split; [discriminate | intros [H | [f [v [H1 _]]]]; [inversion H | inversion H1]].
  - split; [discriminate | intros [H | [f [v [H1 _]]]]; [inversion H | inversion H1]].
  - split; [discriminate | intros [H | [f [v [H1 _]]]]; [inversion H | inversion H1]].
  - split; [discriminate | intros [H | [f [v [H1 _]]]]; [inversion H | inversion H1]].
Qed.

(* the obligation decides soundness of the table *)
Theorem copies_closed_readonly_iff t :
  copies_closed_readonly t = true <-> table_sound t.
Proof.
  unfold copies_closed_readonly, table_sound. rewrite forallb_forall. split.
  - intros H r u Hr Hu. specialize (H r Hr). rewrite forallb_forall in H.
    apply use_ok_iff. exact (H u Hu).
  - intros H r Hr. rewrite forallb_forall. intros u Hu. apply use_ok_iff. exact (H r u Hr Hu).
Qed.

(* in a sound table no mention of any copy is, at its final position, one of the writing or
   escaping categories *)
Definition writes_or_escapes (u : copy_use) : Prop :=
  match u with
  | UseAppendDst | UseElemWrite | UseCopyDst | UseAddr | UseElemAddr | UseReturned | UseClosure
  | UseStored _ | UseOther _ => True
  | _ => False
  end.

Lemma hands_on_final fn u f v : hands_on fn u f v -> ~ writes_or_escapes (final_use u).
Proof. induction 1; cbn; auto. Qed.

Theorem sound_table_never_writes t :
  copies_closed_readonly t = true ->
  forall r u, In r t -> In u (row_uses r) -> ~ writes_or_escapes (final_use u).
Proof.
  intros H r u Hr Hu. apply copies_closed_readonly_iff in H.
  destruct (H r u Hr Hu) as [R | [f [v [Ho _]]]].
  - intro W. destruct (final_use u); try (inversion R; fail); exact W.
  - eapply hands_on_final; exact Ho.
Qed.

(* the empty table (the pinned tree: no copies at all) is sound; a table with a copy that is
   appended to, or handed to a helper that has no row, is not *)
Example empty_table_ok : copies_closed_readonly [] = true.
Proof. reflexivity. Qed.

Example appended_copy_rejected :
  copies_closed_readonly
    [(S "Statement.render", S "statement.go:42 items", [UseLen; UseIndexRead; UseAppendDst])] = false.
Proof. vm_compute. reflexivity. Qed.

Example unanalysed_helper_rejected :
  copies_closed_readonly
    [(S "Statement.isNull", S "statement.go:37 *s (expression)", [UsePass (S "allNull") (S "group.go:36 items")])] = false.
Proof. vm_compute. reflexivity. Qed.

Example helper_chain_ok :
  copies_closed_readonly
    [(S "allNull", S "group.go:36 items", [UseLen; UseIndexRead; UseReslice (UsePass (S "allNull") (S "group.go:36 items"))]);
     (S "Statement.isNull", S "statement.go:37 *s (expression)", [UsePass (S "allNull") (S "group.go:36 items")]);
     (S "Statement.render", S "statement.go:42 items", [UseLen; UseIndexRead; UseReslice UseSelfAssign; UseSelfAssign]);
     (S "Statement.render", S "statement.go:42 *s (expression)", [UseCopyTo (S "statement.go:42 items")])] = true.
Proof. vm_compute. reflexivity. Qed.

(* ======== builder calls ======== *)
Section CallsProofs.
Variable rs : list result_row.
Variable lo : list local_row.
Variable self_app : list str.
Variable calls : list call_row.

Lemma kind_self_sound n : forall k, kind_self rs lo n k = true -> DenotesSelf rs lo k.
Proof.
  induction n as [|n IH]; intros k H; [discriminate|].
  destruct k as [ | | f | m k | fn v | w]; cbn [kind_self] in H; try discriminate.
  - constructor.
  - apply andb_true_iff in H. destruct H as [H1 H2].
    destruct (lookup_result rs m) as [ks|] eqn:E; [|discriminate].
    rewrite forallb_forall in H2.
    eapply DS_chain; [apply IH; exact H1 | exact E | intros k' Hk; apply IH; apply H2; exact Hk].
  - destruct (lookup_local lo fn v) as [k'|] eqn:E; [|discriminate].
    eapply DS_local; [exact E | apply IH; exact H].
Qed.

Lemma kind_fresh_sound n : forall k, kind_fresh rs lo n k = true -> Fresh rs lo k.
Proof.
  induction n as [|n IH]; intros k H; [discriminate|].
  destruct k as [ | | f | m k | fn v | w]; cbn [kind_fresh] in H; try discriminate.
  - constructor.
  - destruct (lookup_result rs f) as [ks|] eqn:E; [|discriminate].
    rewrite forallb_forall in H.
    eapply FR_call; [exact E | intros k Hk; apply IH; apply H; exact Hk].
  - apply andb_true_iff in H. destruct H as [H1 H2].
    destruct (lookup_result rs m) as [ks|] eqn:E; [|discriminate].
    rewrite forallb_forall in H2.
    eapply FR_chain; [apply IH; exact H1 | exact E | intros k' Hk; eapply kind_self_sound; apply H2; exact Hk].
  - destruct (lookup_local lo fn v) as [k'|] eqn:E; [|discriminate].
    eapply FR_local; [exact E | apply IH; exact H].
Qed.

(* neither reading ever holds of an expression the translator could not identify, and a fresh
   cell is never the receiver *)
Lemma other_never_self w : ~ DenotesSelf rs lo (PkOther w).
Proof. intro H; inversion H. Qed.
Lemma other_never_fresh w : ~ Fresh rs lo (PkOther w).
Proof. intro H; inversion H. Qed.
Lemma self_never_fresh : ~ Fresh rs lo PkSelf.
Proof. intro H; inversion H. Qed.
Lemma call_never_self f : ~ DenotesSelf rs lo (PkCall f).
Proof. intro H; inversion H. Qed.
Lemma new_never_self : ~ DenotesSelf rs lo PkNew.
Proof. intro H; inversion H. Qed.

Lemma mutating_sound n : forall m, mutating rs lo self_app calls n m = false -> Quiet rs lo self_app calls m.
Proof.
  induction n as [|n IH]; intros m H; [discriminate|].
  cbn [mutating] in H.
  destruct (existsb (str_eqb m) self_app) eqn:H1; [discriminate|].
  constructor.
  - intro Hin. assert (existsb (str_eqb m) self_app = true) as E.
    { apply existsb_exists. exists m. split; [exact Hin | apply str_eqb_refl]. }
    congruence.
  - intros r Hr Hfn Hself. apply IH.
    destruct (mutating rs lo self_app calls n (cr_method r)) eqn:E; [|reflexivity].
    match type of H with existsb ?f calls = false => assert (existsb f calls = true) as X end.
    { apply existsb_exists. exists r. split; [exact Hr|].
      rewrite Hfn, str_eqb_refl, Hself. exact E. }
    congruence.
Qed.

(* the obligation implies the declarative reading of the table *)
Theorem foreign_builder_calls_nil_sound :
  foreign_builder_calls rs lo self_app calls = [] -> calls_sound rs lo self_app calls.
Proof.
  unfold foreign_builder_calls, calls_sound. intros H r Hr.
  destruct (call_ok rs lo self_app calls r) eqn:E.
  - unfold call_ok in E.
    destruct (kind_self rs lo 8 (cr_kind r)) eqn:E1.
    { left. eapply kind_self_sound; exact E1. }
    destruct (kind_fresh rs lo 8 (cr_kind r)) eqn:E2.
    { right; left. eapply kind_fresh_sound; exact E2. }
    right; right. apply negb_true_iff in E. eapply mutating_sound; exact E.
  - exfalso. assert (In r (filter (fun r => negb (call_ok rs lo self_app calls r)) calls)) as X.
    { apply filter_In. split; [exact Hr | rewrite E; reflexivity]. }
    rewrite H in X. exact X.
Qed.
End CallsProofs.

(* the pinned tree's shapes: `newStatement().Op(op)` in a package function is a call on a fresh
   cell; `p.Add(t)` on the result of a type assertion is foreign; a reader may be called on any
   statement *)
Example calls_examples :
  let rs := [(S "newStatement", [PkNew]); (S "Statement.Op", [PkSelf]); (S "Op", [PkChain (S "Statement.Op") (PkCall (S "newStatement"))]);
             (S "Statement.lit", [PkSelf]); (S "Statement.Lit", [PkChain (S "Statement.lit") PkSelf])] in
  let lo := [(S "Group.Op", S "tokens.go:160 s", PkCall (S "Op"))] in
  let sa := [S "Statement.Op"; S "Statement.Add"; S "Statement.lit"] in
  let calls := [(S "Op", S "tokens.go:154 newStatement().Op", S "Statement.Op", PkCall (S "newStatement"));
                (S "Group.Op", S "tokens.go:162 s.Op", S "Statement.Op", PkLocal (S "Group.Op") (S "tokens.go:160 s"));
                (S "Statement.Lit", S "lit.go:23 s.lit", S "Statement.lit", PkSelf);
                (S "Group.X", S "x.go:1 Lit(1).Lit(2).Op", S "Statement.Op", PkChain (S "Statement.Lit") (PkCall (S "Op")));
                (S "Statement.Op", S "tokens.go:171 p.Add", S "Statement.Add", PkOther (S "p"));
                (S "Statement.Op", S "tokens.go:172 p.Lit", S "Statement.Lit", PkOther (S "p"));
                (S "Statement.Op", S "tokens.go:173 pending = s.Add", S "Statement.Add", PkOther (S "method value"));
                (S "Group.render", S "group.go:49 s.previous", S "Statement.previous", PkOther (S "s"))] in
  map cr_where (foreign_builder_calls rs lo sa calls) =
    [S "tokens.go:171 p.Add"; S "tokens.go:172 p.Lit"; S "tokens.go:173 pending = s.Add"] /\
  map cr_where (fresh_builder_calls rs lo calls) =
    [S "tokens.go:154 newStatement().Op"; S "tokens.go:162 s.Op"; S "x.go:1 Lit(1).Lit(2).Op"].
Proof. vm_compute. split; reflexivity. Qed.
